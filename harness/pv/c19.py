"""C19 — TMCMC tempering progresses to the posterior; its MH kernel respects the target.

proof  : Pun.Props.C19 (bisection, weights, evidence, MH kernel, stage loop) + Pun.Props.C19Gen
         (constants 2.0 / 0.95 / 50 / 1e-8 regenerated from tmcmc.py)
tie    : compute_beta_update_evidence vs Tmcmc.computeBeta — the model asks for ESS(beta) at every
         exponent it tries, the harness answers with the same three numpy lines, so the model
         re-derives every branch decision and the final beta; weights/evidence vs Tmcmc.weights;
         MCMC_MH vs Tmcmc.mhRun with the numpy.random stream reproduced and every prior /
         likelihood evaluation recorded through the (input) prior and likelihood objects;
         every stage of TMCMC.run() (in-process pool) vs Tmcmc.stage.
oracle : direct checks of every returned tuple / trace (see `oracle_*`), independent of the model.
"""
from __future__ import annotations
import math, itertools, os, tempfile, json
from fractions import Fraction as F
import numpy as np
from . import core
from .core import q, ql, unq, unql, close, err_kind
from .translator import tmcmc as tr

TOL = 1e-8
TOLX = 1e-8 * (1 + 1e-6)


def _T():
    from pyuncertainnumber.calibration import tmcmc
    return tmcmc


# =====================================================================================
# in-process pool (harness-side substitute for multiprocessing.Pool, not a repo hook)
class InProcPool:
    observer = None

    def __init__(self, *a, **k):
        pass

    def starmap(self, func, iterables):
        obs = InProcPool.observer
        if obs is None:
            return list(itertools.starmap(func, iterables))
        return [obs(func, args) for args in iterables]

    def map(self, func, it):
        return [func(x) for x in it]

    def close(self):
        pass

    def join(self):
        pass

    def terminate(self):
        pass

    def __enter__(self):
        return self

    def __exit__(self, *a):
        return False


def patch_pool():
    import multiprocessing, multiprocessing.pool
    if getattr(multiprocessing, "_verif_pool", False):
        return
    multiprocessing._verif_real_Pool = multiprocessing.Pool
    multiprocessing.Pool = InProcPool
    multiprocessing._verif_pool = True


def fp_mode(mode):
    """floating-point error handling / warnings in force while the code under test runs; everything is
    restored on exit (also when the call raises)"""
    import contextlib, warnings
    st = contextlib.ExitStack()
    if mode == "errstate":
        st.enter_context(np.errstate(all="raise"))
    elif mode == "warnerr":
        st.enter_context(np.errstate(all="warn"))
        st.enter_context(warnings.catch_warnings())
        warnings.simplefilter("error")
    else:
        st.enter_context(np.errstate(all="ignore"))
    return st


MODES = ("errstate", "warnerr")


# =====================================================================================
# part A : the bisection
def ess_at(ll, old, b):
    """ESS(beta) with the same three numpy lines as the implementation; None = NaN"""
    inc = b - old
    with np.errstate(all="ignore"):
        Wm = np.exp(inc * (ll - ll.max()))
        Wm_n = Wm / sum(Wm)
        v = 1 / np.sum(Wm_n ** 2)
    if math.isnan(v):
        return None
    return int(v)


def ess_real(ll, old, b):
    """real-valued ESS (before int) with the same numpy lines; NaN possible"""
    inc = b - old
    with np.errstate(all="ignore"):
        Wm = np.exp(inc * (ll - ll.max()))
        Wm_n = Wm / sum(Wm)
        return float(1 / np.sum(Wm_n ** 2))


def ess_of_inc(ll, inc):
    with np.errstate(all="ignore"):
        Wm = np.exp(inc * (ll - ll.max()))
        Wm_n = Wm / sum(Wm)
        v = 1 / np.sum(Wm_n ** 2)
    return None if math.isnan(v) else int(v)


class RecArr(np.ndarray):
    """ndarray input that records the scalars it is multiplied with (the increments `inc_beta` the
    bisection tries); values and results are those of a plain ndarray"""
    log = []

    def __array_ufunc__(self, ufunc, method, *inputs, **kw):
        if ufunc is np.multiply and method == "__call__" and len(inputs) == 2:
            for a in inputs:
                if isinstance(a, (float, int, np.floating, np.integer)) or (isinstance(a, np.ndarray) and a.shape == () and not isinstance(a, RecArr)):
                    RecArr.log.append(float(a))
        args = [a.view(np.ndarray) if isinstance(a, RecArr) else a for a in inputs]
        if "out" in kw:
            kw["out"] = tuple(o.view(np.ndarray) if isinstance(o, RecArr) else o for o in kw["out"])
        out = getattr(ufunc, method)(*args, **kw)
        if isinstance(out, np.ndarray) and out.shape != ():
            return out.view(RecArr)
        return out


def wm_at(ll, old, b):
    inc = b - old
    with np.errstate(all="ignore"):
        return np.exp(inc * (ll - ll.max()))


def gen_ll(rng, n):
    kind = rng.choice(["normal", "normal", "ties", "ninf-few", "ninf-many", "flat", "dominant", "twolevel", "heavy"])
    scale = 10 ** rng.uniform(-3, 4)
    shift = rng.choice([0.0, 0.0, -1e3, 1e5, -1e8]) * rng.random()
    if kind == "normal":
        v = [rng.gauss(0, 1) * scale + shift for _ in range(n)]
    elif kind == "ties":
        lv = [rng.gauss(0, 1) * scale + shift for _ in range(rng.choice([2, 3, 5, 10]))]
        v = [rng.choice(lv) for _ in range(n)]
    elif kind == "ninf-few":
        v = [rng.gauss(0, 1) * scale + shift for _ in range(n)]
        for i in rng.sample(range(n), rng.randint(1, max(1, n // 25))):
            v[i] = -math.inf
    elif kind == "ninf-many":
        v = [rng.gauss(0, 1) * scale + shift for _ in range(n)]
        for i in rng.sample(range(n), rng.randint(n // 18, n - 1)):
            v[i] = -math.inf
    elif kind == "flat":
        c = rng.gauss(0, 1) * scale + shift
        v = [c] * n
    elif kind == "dominant":
        v = [rng.gauss(0, 1) * scale * 0.01 + shift for _ in range(n)]
        v[rng.randrange(n)] += abs(scale) * rng.choice([5, 50, 1e4])
    elif kind == "twolevel":
        k = rng.randint(1, n - 1)
        a, b = shift, shift - abs(rng.gauss(0, 1) * scale)
        v = [a] * k + [b] * (n - k)
        rng.shuffle(v)
    else:
        v = [-(abs(rng.gauss(0, 1)) ** 3) * scale + shift for _ in range(n)]
    return kind, v


def gen_bisect_cases(ctx):
    rng = ctx.rng
    cases = []
    n_cases = ctx.scale(300, 12000)
    for k in range(n_cases):
        n = rng.choice([51, 52, 60, 64, 100, 100, 128, 200, rng.randint(51, 400)])
        kind, v = gen_ll(rng, n)
        r = rng.random()
        if r < 0.45:
            old, stream = 0.0, "bisect-exact"
        elif r < 0.6:
            old, stream = rng.choice([0.25, 0.5, 0.125, 0.75, 0.0078125]), "bisect-exact"
        elif r < 0.9:
            old, stream = rng.random(), "bisect-general"
        else:
            old, stream = 1 - 10 ** rng.uniform(-12, -2), "bisect-general"
        r = rng.random()
        if r < 0.35:
            prev = n
        elif r < 0.6:
            prev = rng.randint(1, n)
        elif r < 0.7:
            prev = rng.choice([20, 40, 60, 80, 100, 120, 200])     # 0.95*prev is an integer: the `ESS == rN` break
        elif r < 0.8:
            prev = rng.randint(1, 53)                               # the floor 50 is active
        elif r < 0.9:
            prev = rng.uniform(1, n)
        else:
            prev = rng.randint(n, 2 * n)                            # target above N: unreachable
        lev = rng.choice([0.0, 0.0, rng.gauss(0, 10), -1e6 * rng.random()])
        cases.append({"stream": stream, "kind": kind, "old": old, "ll": v, "prev": prev, "lev": lev})
    # integer-dtype log-likelihood vectors (ties by construction)
    for _ in range(ctx.scale(12, 300)):
        n = rng.choice([51, 60, 100, 160])
        sc = rng.choice([1, 3, 20, 1000])
        v = [float(-rng.randint(0, 12) * sc) for _ in range(n)]
        cases.append({"stream": "bisect-exact", "kind": "int-dtype", "dtype": "int", "old": rng.choice([0.0, 0.25, 0.5]), "ll": v,
                      "prev": rng.choice([n, rng.randint(40, n)]), "lev": 0.0})
    # fixed witnesses / corner cases always present
    cases.append({"stream": "bisect-exact", "kind": "flat", "old": 0.0, "ll": [0.0] * 60, "prev": 60, "lev": 0.0})
    cases.append({"stream": "bisect-exact", "kind": "ninf-many", "old": 0.0,
                  "ll": [float(-i) for i in range(90)] + [-math.inf] * 10, "prev": 100, "lev": 0.0})
    cases.append({"stream": "bisect-malformed", "kind": "all-ninf", "old": 0.0, "ll": [-math.inf] * 60, "prev": 60, "lev": 0.0})
    cases.append({"stream": "bisect-malformed", "kind": "old-ge-2", "old": 2.0, "ll": [float(-i) for i in range(60)], "prev": 60, "lev": 0.0})
    for _ in range(ctx.scale(4, 40)):
        n = rng.randint(51, 120)
        cases.append({"stream": "bisect-malformed", "kind": "all-ninf", "old": rng.choice([0.0, 0.5]), "ll": [-math.inf] * n, "prev": n, "lev": 0.0})
    return cases


def run_bisect_plain(c, mode=None):
    """the call on a plain ndarray (int64 when the case says so) under a floating-point mode; also reports whether
    the input was modified or is shared with the returned weights"""
    T = _T()
    ll = np.array(c["ll"], dtype=np.int64 if c.get("dtype") == "int" else float)
    keep = ll.copy()
    err0 = np.geterr()
    try:
        with fp_mode(mode):
            b, lev, W, e = T.compute_beta_update_evidence(c["old"], ll, c["lev"], c["prev"])
        res = ("ok", float(b), float(lev), np.array(W, dtype=float), e)
        clean = np.array_equal(ll, keep) and not (isinstance(W, np.ndarray) and np.shares_memory(W, ll)) and np.geterr() == err0
    except BaseException as ex:  # noqa
        res = ("err", err_kind(ex), type(ex).__name__)
        clean = np.array_equal(ll, keep) and np.geterr() == err0
    return res, clean


def same_bisect(a, b):
    if a[0] != b[0]:
        return False
    if a[0] == "err":
        return a[1] == b[1]
    return a[1] == b[1] and (a[2] == b[2] or (math.isnan(a[2]) and math.isnan(b[2]))) and np.array_equal(a[3], b[3], equal_nan=True) and a[4] == b[4]


def run_bisect_impl(c):
    T = _T()
    ll = np.array(c["ll"], dtype=np.int64 if c.get("dtype") == "int" else float).view(RecArr)
    RecArr.log = []
    try:
        with np.errstate(all="ignore"):
            b, lev, W, e = T.compute_beta_update_evidence(c["old"], ll, c["lev"], c["prev"])
        res = ("ok", float(b), float(lev), np.array(W, dtype=float).view(np.ndarray), e)
    except BaseException as ex:  # noqa
        res = ("err", err_kind(ex))
    c["_incs"] = list(RecArr.log)
    return res


def model_bisect(cases, want_tabs=False):
    """interactive protocol in rounds: the model replies `need b`, the harness answers ESS(b)"""
    tabs = [([], []) for _ in cases]
    res = [None] * len(cases)
    pend = list(range(len(cases)))
    lls = {}
    for rnd in range(200):
        if not pend:
            break
        reqs = []
        for i in pend:
            c = cases[i]
            reqs.append(f"bisect {q(c['old'])} {q(c['prev'])} [{','.join(tabs[i][0])}] [{','.join(tabs[i][1])}]")
        reps = core.model_batch("C19", reqs)
        nxt = []
        for i, rep in zip(pend, reps):
            t = rep.split()
            if t[0] == "need":
                if i not in lls:
                    lls[i] = np.array(cases[i]["ll"], dtype=float)
                bq = F(t[1])
                incs = cases[i].get("_incs")
                k = len(tabs[i][0])
                if incs is None:
                    e = ess_at(lls[i], cases[i]["old"], float(bq))
                elif k < len(incs) and abs((float(bq) - cases[i]["old"]) - incs[k]) <= 3e-14:
                    e = ess_of_inc(lls[i], incs[k])      # the implementation's own k-th evaluation
                else:
                    res[i] = (["bad", f"query {k} at {float(bq)!r} is not the implementation's evaluation {k}"], k)
                    lls.pop(i, None)
                    continue
                tabs[i][0].append(t[1])
                tabs[i][1].append("nan" if e is None else str(e))
                nxt.append(i)
            else:
                res[i] = (t, len(tabs[i][0]))
                lls.pop(i, None)
        pend = nxt
    for i in pend:
        res[i] = (["bad", "no-termination"], len(tabs[i][0]))
    if want_tabs:
        return res, tabs
    return res


def floats_close(a, b, rel=1e-11, ab=1e-300):
    if math.isnan(a) or math.isnan(b) or math.isinf(a) or math.isinf(b):
        return False
    return abs(a - b) <= rel * max(abs(a), abs(b)) + ab


def tie_bisect(ctx, c, impl, mres, wrep):
    """returns None if agreeing else a short reason"""
    t, nq = mres
    if impl[0] == "err":
        if t[0] == "err" and t[1] == impl[1]:
            return None
        return f"impl raises {impl[1]}, model {' '.join(t)[:60]}"
    if t[0] != "ok":
        return f"impl returns, model {' '.join(t)[:60]}"
    _, b, lev, W, e = impl
    mb, me, mclamp = F(t[1]), F(t[2]), t[3] == "1"
    exact = c["stream"] == "bisect-exact"
    if exact:
        if F(b) != mb:
            return f"beta impl {b!r} model {float(mb)!r}"
    elif not close(b, mb, 64):
        return f"beta impl {b!r} model {float(mb)!r}"
    if F(int(e)) != me:
        return f"ESS impl {e} model {me}"
    if mclamp != (b == 1):
        return "clamp flag"
    if "_incs" in c and len(c["_incs"]) != nq + (1 if mclamp else 0):
        return f"implementation evaluated {len(c['_incs'])} increments, model {nq} (+1 if clamped)"
    # weights / evidence through the model's normalisation of the supplied exp values
    wt = wrep.split()
    if wt[0] != "ok":
        return "weights op: " + wrep[:60]
    mw = unql(wt[1])
    if len(mw) != len(W):
        return "weights length"
    n = len(W)
    for a, m in zip(W, mw):
        if not close(float(a), m, n + 4):
            return f"weight impl {a!r} model {float(m)!r}"
    exp_lev = c["lev"] + float(np.log(float(F(wt[2]))))
    if not floats_close(lev, exp_lev, 1e-11, 1e-11):
        return f"evidence impl {lev!r} model {exp_lev!r}"
    return None


def oracle_bisect(ctx, c, impl):
    """the property itself on the returned tuple; returns list of (feature-dict, text)"""
    out = []
    ll = np.array(c["ll"], dtype=float)
    old, prev = c["old"], c["prev"]
    has_finite = bool(np.isfinite(ll).any())
    base = {"call": "compute_beta_update_evidence", "kind": c["kind"]}
    if impl[0] == "err":
        if has_finite and old < 1:
            out.append((dict(base, symptom="raises:" + impl[1]), f"raises {impl[1]} on a log-likelihood vector with finite entries"))
        return out
    _, b, lev, W, e = impl
    if not has_finite:
        out.append((dict(base, symptom="returns-on-all-ninf"), "all log-likelihoods are -inf (no weights exist) but a tuple was returned"))
        return out
    rN = max(0.95 * prev, 50)
    n = len(ll)
    # strict progress, at most 1
    if not (old < b <= 1):
        out.append((dict(base, symptom="beta-range"), f"new beta {b!r} is not in (old={old!r}, 1]"))
        return out
    # weights: probability vector proportional to likelihood^(increment)
    if W.shape != (n,) or not np.all(np.isfinite(W)) or np.any(W < 0):
        out.append((dict(base, symptom="weights-invalid"), "weights are not finite non-negative numbers of length N"))
        return out
    s = math.fsum(W.tolist())
    if abs(s - 1) > 1e-12 * n:
        out.append((dict(base, symptom="weights-sum"), f"weights sum to {s!r}"))
    inc = b - old
    im = int(np.argmax(ll))
    lmax = float(ll[im])
    wmax = float(W[im])
    for i in range(n):
        li = float(ll[i])
        if li == -math.inf:
            ok = W[i] == 0
        else:
            ex = math.exp(inc * (li - lmax)) * wmax
            ok = abs(float(W[i]) - ex) <= 1e-9 * wmax + 1e-300
        if not ok:
            out.append((dict(base, symptom="weights-not-proportional"),
                        f"weight {i} = {float(W[i])!r} is not proportional to likelihood^(increment {inc!r})"))
            break
    # evidence stays finite
    if not math.isfinite(lev):
        out.append((dict(base, symptom="evidence-not-finite"), f"log evidence {lev!r}"))
    # optimality of the increment (ESS is antitone in the increment)
    E = lambda x: ess_at(ll, old, x)
    V = lambda x: ess_real(ll, old, x)
    dl = 1e-9 * n                      # slack on the real-valued ESS next to the int() steps
    above = lambda x: V(x) >= math.floor(rN) + 1 - dl      # int(ESS(x)) >  rN up to rounding
    below = lambda x: V(x) < math.ceil(rN) + dl            # int(ESS(x)) <  rN up to rounding
    atleast = lambda x: V(x) >= math.ceil(rN) - dl         # int(ESS(x)) >= rN up to rounding
    if b < 1:
        if e != E(b):
            out.append((dict(base, symptom="ess-mismatch"), f"returned ESS {e} is not the ESS of the returned weights {E(b)}"))
        if e != rN:
            lo, hi = b - TOLX, b + TOLX
            if lo > old and not above(lo):
                out.append((dict(base, symptom="increment-too-large"),
                            f"ESS({lo!r})={E(lo)} is already below the target {rN!r}: beta {b!r} overshoots by more than the tolerance"))
            if hi < 2 and not below(hi):
                out.append((dict(base, symptom="increment-too-small"),
                            f"ESS({hi!r})={E(hi)} still meets the target {rN!r}: beta {b!r} is not the largest (within tolerance)"))
    else:
        lo = 1 - TOLX
        if lo > old and not atleast(lo):
            out.append((dict(base, symptom="clamp-unjustified"),
                        f"beta clamped to 1 but ESS({lo!r})={E(lo)} is below the target {rN!r}"))
        if e > math.floor(V(1.0) + dl):
            out.append((dict(base, symptom="ess-mismatch"), f"returned ESS {e} exceeds ESS at beta=1"))
    return out


def part_bisect(ctx):
    cases = gen_bisect_cases(ctx)
    impls = [run_bisect_impl(c) for c in cases]
    mres = model_bisect(cases)
    # weights op at the returned beta (exp values from the same numpy line)
    wreqs, widx = [], []
    for i, (c, im) in enumerate(zip(cases, impls)):
        if im[0] == "ok":
            ll = np.array(c["ll"], dtype=float)
            Wm = wm_at(ll, c["old"], im[1])
            if np.all(np.isfinite(Wm)):
                wreqs.append("weights " + ql(Wm.tolist()))
                widx.append(i)
    wreps = dict(zip(widx, core.model_batch("C19", wreqs)))
    for i, (c, im, mr) in enumerate(zip(cases, impls, mres)):
        key = ("b", c["old"], c["prev"], tuple(c["ll"][:8]), len(c["ll"]))
        nontriv = c["kind"] not in ("flat", "all-ninf", "old-ge-2")

        ctx.count(key, nontriv, c["stream"])
        ctx.bump("ll:" + c["kind"])
        if im[0] == "ok":
            ctx.bump("bisect:" + ("clamped" if im[1] == 1 else ("break" if im[4] == max(0.95 * c["prev"], 50) else "tolerance")))
        else:
            ctx.bump("bisect:raises-" + im[1])
        cj = {"part": "bisect", "old": c["old"], "prev": c["prev"], "lev": c["lev"], "kind": c["kind"],
              "ll": [repr(x) for x in c["ll"]], "dtype": c.get("dtype")}
        why = tie_bisect(ctx, c, im, mr, wreps.get(i, "missing")) if not (im[0] == "ok" and i not in wreps) else "non-finite exp values"
        if why is None:
            ctx.tie_ok()
        else:
            ctx.tie_bad(c["stream"], cj, _js_bis(im), {"model": " ".join(mr[0])[:200], "why": why})
        for feat, text in oracle_bisect(ctx, c, im):
            ctx.fail(feat, dict(cj, impl=_js_bis(im)), text)
        # plain-ndarray call: same result as through the recording array, input untouched and not shared with the weights;
        # under np.errstate(all='raise') / warnings-as-errors: the same result or an exception, never another value
        if i % 4 == 0 or c.get("dtype"):
            pl, clean = run_bisect_plain(c)
            ctx.count(("bisect-plain", i), True, "bisect-plain")
            if not same_bisect(im, pl):
                ctx.fail({"call": "compute_beta_update_evidence", "symptom": "not-reproducible", "kind": c["kind"]}, cj,
                         f"the same call on a plain ndarray gives {_js_bis(pl)} instead of {_js_bis(im)}")
            if not clean:
                ctx.fail({"call": "compute_beta_update_evidence", "symptom": "input-modified-or-shared", "kind": c["kind"]}, cj,
                         "the log-likelihood input was modified, or the returned weights share its memory")
            for mode in MODES:
                pm, cleanm = run_bisect_plain(c, mode)
                ctx.count(("bisect-mode", mode, i), True, "bisect-" + mode)
                if pm[0] == "err":
                    ctx.bump(f"bisect-{mode}:raises-" + pm[2])
                elif not same_bisect(im, pm):
                    ctx.fail({"call": "compute_beta_update_evidence", "symptom": "differs-under-" + mode, "kind": c["kind"]}, dict(cj, mode=mode),
                             f"under {mode} the same call silently returns {_js_bis(pm)} instead of {_js_bis(im)}")
                if not cleanm:
                    ctx.fail({"call": "compute_beta_update_evidence", "symptom": "input-modified-or-shared", "kind": c["kind"], "mode": mode},
                             dict(cj, mode=mode), "input modified / numpy error state not restored")
        if len(ctx.samples) < 2 and c["kind"] == "normal":
            ctx.sample({"part": "bisect", "N": len(c["ll"]), "old": c["old"], "prev": c["prev"],
                        "impl_beta": im[1] if im[0] == "ok" else im, "model": " ".join(mr[0])[:120], "oracle_queries": mr[1]})


def _js_bis(im):
    if im[0] == "err":
        return list(im)
    return {"beta": im[1], "log_evidence": im[2], "ESS": int(im[4]), "W_head": [float(x) for x in im[3][:4]]}


# =====================================================================================
# part B : MCMC_MH
FAMS = ["U", "N", "H", "T", "T1L", "T1U", "T0", "DU", "DG", "DB", "DL", "DE", "TT", "TT1", "SU", "SG", "SE"]


def gen_prior(rng, fam=None):
    fam = fam or rng.choice(FAMS)
    if fam == "TT":         # two-sided window far in either tail (5..12 sigma from mu)
        mu = rng.uniform(-3, 3); sig = 10 ** rng.uniform(-1, 1)
        k = rng.uniform(5, 12) * rng.choice([-1, 1]); dl = rng.uniform(0.1, 1.0)
        lo = mu + k * sig if k > 0 else mu + (k - dl) * sig
        return {"fam": "T", "mu": mu, "sig": sig, "low": lo, "up": lo + dl * sig, "tail": k}
    if fam == "TT1":        # one-sided truncation far in a tail
        mu = rng.uniform(-3, 3); sig = 10 ** rng.uniform(-1, 1); k = rng.uniform(5, 12)
        if rng.random() < 0.5:
            return {"fam": "T1L", "mu": mu, "sig": sig, "low": mu + k * sig, "tail": k}
        return {"fam": "T1U", "mu": mu, "sig": sig, "up": mu - k * sig, "tail": -k}
    if fam == "SU":         # library Distribution wrapped around a frozen scipy object (what the fit helpers return)
        return {"fam": "SU", "loc": rng.uniform(-5, 5), "scale": 10 ** rng.uniform(-1, 1)}
    if fam == "SG":
        return {"fam": "SG", "mu": rng.uniform(-3, 3), "sig": 10 ** rng.uniform(-1, 1)}
    if fam == "SE":
        return {"fam": "SE", "loc": rng.uniform(-3, 3), "scale": 10 ** rng.uniform(-1, 1)}
    if fam == "T1L":        # one-sided: only `low` given, `up` left at its default +inf
        mu = rng.uniform(-3, 3); sig = 10 ** rng.uniform(-1, 1)
        return {"fam": "T1L", "mu": mu, "sig": sig, "low": rng.choice([0.0, mu - sig * rng.uniform(-0.5, 2)])}
    if fam == "T1U":        # one-sided: only `up` given, `low` left at its default -inf
        mu = rng.uniform(-3, 3); sig = 10 ** rng.uniform(-1, 1)
        return {"fam": "T1U", "mu": mu, "sig": sig, "up": rng.choice([0.0, mu + sig * rng.uniform(-0.5, 2)])}
    if fam == "T0":         # no truncation at all
        return {"fam": "T0", "mu": rng.uniform(-3, 3), "sig": 10 ** rng.uniform(-1, 1)}
    if fam == "DL":
        return {"fam": "DL", "mu": rng.uniform(-1, 1), "sig": rng.uniform(0.2, 1.0), "aslist": rng.random() < 0.3}
    if fam == "DE":
        return {"fam": "DE", "loc": rng.uniform(-3, 3)}
    if fam == "U":
        a = rng.uniform(-5, 5); w = 10 ** rng.uniform(-1, 1)
        return {"fam": "U", "a": a, "b": a + w}
    if fam == "N":
        return {"fam": "N", "mu": rng.uniform(-3, 3), "sig": 10 ** rng.uniform(-1, 1)}
    if fam == "H":
        return {"fam": "H", "sig": 10 ** rng.uniform(-1, 1)}
    if fam == "T":
        mu = rng.uniform(-3, 3); sig = 10 ** rng.uniform(-1, 1)
        lo = mu - sig * rng.uniform(0.2, 2); up = mu + sig * rng.uniform(0.2, 2)
        return {"fam": "T", "mu": mu, "sig": sig, "low": lo, "up": up}
    if fam == "DU":
        a = rng.uniform(-5, 5); w = 10 ** rng.uniform(-1, 1)
        return {"fam": "DU", "a": a, "b": a + w, "aslist": rng.random() < 0.3}
    if fam == "DG":
        return {"fam": "DG", "mu": rng.uniform(-3, 3), "sig": 10 ** rng.uniform(-1, 1), "aslist": rng.random() < 0.3}
    return {"fam": "DB", "p": rng.uniform(1.2, 4), "q": rng.uniform(1.2, 4)}


def build_prior(d):
    from pyuncertainnumber.calibration import pdfs
    from pyuncertainnumber import pba
    f = d["fam"]
    if f == "U":
        return pdfs.Uniform(d["a"], d["b"])
    if f == "N":
        return pdfs.Normal(d["mu"], d["sig"])
    if f == "H":
        return pdfs.HalfNormal(d["sig"])
    if f == "T":
        return pdfs.TruncatedNormal(d["mu"], d["sig"], d["low"], d["up"])
    if f == "T1L":
        return pdfs.TruncatedNormal(d["mu"], d["sig"], low=d["low"])
    if f == "T1U":
        return pdfs.TruncatedNormal(d["mu"], d["sig"], up=d["up"])
    if f == "T0":
        return pdfs.TruncatedNormal(d["mu"], d["sig"])
    if f in ("SU", "SG", "SE"):
        import scipy.stats as sps
        from pyuncertainnumber.pba.distributions import Distribution
        if f == "SU":
            return Distribution.dist_from_sps(sps.uniform(loc=d["loc"], scale=d["scale"]), shape="uniform")
        if f == "SG":
            return Distribution.dist_from_sps(sps.norm(loc=d["mu"], scale=d["sig"]), shape="gaussian")
        return Distribution.dist_from_sps(sps.expon(loc=d["loc"], scale=d["scale"]), shape="expon")
    wrap = (lambda t: list(t)) if d.get("aslist") else (lambda t: t)
    if f == "DU":
        return pba.Distribution("uniform", wrap((d["a"], d["b"])))
    if f == "DG":
        return pba.Distribution("gaussian", wrap((d["mu"], d["sig"])))
    if f == "DL":
        return pba.Distribution("lognormal", wrap((d["mu"], d["sig"])))
    if f == "DE":
        return pba.Distribution("expon", (d["loc"],))
    return pba.Distribution("beta", (d["p"], d["q"]))


def support(d):
    f = d["fam"]
    if f in ("U", "DU"):
        return d["a"], d["b"]
    if f in ("N", "DG", "T0", "SG"):
        return -math.inf, math.inf
    if f == "SU":
        return d["loc"], d["loc"] + d["scale"]
    if f == "SE":
        return d["loc"], math.inf
    if f in ("H", "DL"):
        return 0.0, math.inf
    if f == "T":
        return d["low"], d["up"]
    if f == "T1L":
        return d["low"], math.inf
    if f == "T1U":
        return -math.inf, d["up"]
    if f == "DE":
        return d["loc"], math.inf
    return 0.0, 1.0


def width(d):
    lo, hi = support(d)
    if math.isfinite(lo) and math.isfinite(hi):
        return hi - lo
    if d["fam"] == "DL":
        return 2 * math.exp(d["mu"])
    if d.get("tail"):
        return d["sig"] * 2 / abs(d["tail"])         # scale of a normal tail beyond k sigma
    return d.get("sig", d.get("scale", 1.0)) * 2


def logprior_ref(d, x):
    """independent log-density (scipy.stats / closed form)"""
    import scipy.stats as st
    f = d["fam"]
    lo, hi = support(d)
    if not (lo <= x <= hi):
        return -math.inf
    if f in ("U", "DU"):
        return -math.log(d["b"] - d["a"])
    if f in ("N", "DG", "T0", "SG"):
        return float(st.norm.logpdf(x, d["mu"], d["sig"]))
    if f == "SU":
        return -math.log(d["scale"])
    if f == "SE":
        return float(st.expon.logpdf(x, loc=d["loc"], scale=d["scale"]))
    if f in ("T1L", "T1U"):
        return float(st.truncnorm.logpdf(x, (lo - d["mu"]) / d["sig"], (hi - d["mu"]) / d["sig"], loc=d["mu"], scale=d["sig"]))
    if f == "DL":
        return float(st.lognorm.logpdf(x, d["sig"], scale=math.exp(d["mu"])))
    if f == "DE":
        return float(st.expon.logpdf(x, loc=d["loc"]))
    if f == "H":
        return float(st.halfnorm.logpdf(x, scale=d["sig"]))
    if f == "T":
        return float(st.truncnorm.logpdf(x, (d["low"] - d["mu"]) / d["sig"], (d["up"] - d["mu"]) / d["sig"], loc=d["mu"], scale=d["sig"]))
    return float(st.beta.logpdf(x, d["p"], d["q"]))


def in_support(ds, x):
    return all(support(d)[0] <= float(xi) <= support(d)[1] for d, xi in zip(ds, x))


def sample_support(rng, d):
    lo, hi = support(d)
    if math.isfinite(lo) and math.isfinite(hi):
        return rng.uniform(lo, hi)
    if d["fam"] == "H":
        return abs(rng.gauss(0, d["sig"]))
    if d["fam"] == "DL":
        return math.exp(rng.gauss(d["mu"], d["sig"]))
    if d["fam"] == "DE":
        return d["loc"] + rng.expovariate(1.0)
    if d["fam"] == "SE":
        return d["loc"] + d["scale"] * rng.expovariate(1.0)
    for _ in range(200):
        x = rng.gauss(d["mu"], d["sig"])
        if lo <= x <= hi:
            return x
    return (lo if math.isfinite(lo) else hi) + (d["sig"] * 0.01 if math.isfinite(lo) else -d["sig"] * 0.01)


def make_ll(d):
    """log-likelihood callables (inputs of the code under test), deterministic"""
    c = np.array(d["c"], dtype=float); w = np.array(d["w"], dtype=float); s = d["s"]
    kind = d["kind"]
    def quad(pn, x):
        x = np.asarray(x, dtype=float)
        return float(-0.5 * s * np.sum(((x - c) / w) ** 2))
    if kind == "quad":
        return quad
    if kind == "hole":
        t = d["t"]
        def f(pn, x):
            if x[0] > t:
                return -math.inf
            return quad(pn, x)
        return f
    if kind == "flat":
        return lambda pn, x: 0.0
    raise ValueError(kind)


def gen_ll_desc(rng, pri, start=None):
    dim = len(pri)
    kind = rng.choice(["quad", "quad", "quad", "hole", "flat"])
    c = [sample_support(rng, p) for p in pri]
    w = [width(p) * 10 ** rng.uniform(-1.5, 0.3) for p in pri]
    d = {"kind": kind, "c": c, "w": w, "s": rng.choice([1.0, 1.0, 10.0, 1e3, 1e6])}
    if kind == "hole":
        d["t"] = sample_support(rng, pri[0])
    return d


class RecPrior:
    """recording proxy of a prior object (an *input* of the code under test)"""
    def __init__(self, inner, idx, log):
        self.inner, self.idx, self.log = inner, idx, log

    def log_pdf_eval(self, x):
        v = self.inner.log_pdf_eval(x)
        self.log.append(("P", self.idx, float(x), float(v)))
        return v

    def generate_rns(self, n):
        return self.inner.generate_rns(n)


def rec_ll(fn, log):
    def f(pn, s):
        v = fn(pn, s)
        log.append(("L", [float(t) for t in np.asarray(s, dtype=float)], float(v), pn))
        return v
    return f


def ev(x):
    x = float(x)
    return q(x) if math.isfinite(x) else "nf"


def parse_events(log, dim, nsteps):
    """[(x, prior_sum, lik or None)] per step; None if the recorded calls do not have the expected shape"""
    steps, i = [], 0
    for _ in range(nsteps):
        xs, lp = [], 0
        for k in range(dim):
            if i >= len(log) or log[i][0] != "P" or log[i][1] != k:
                return None
            xs.append(log[i][2]); lp = lp + log[i][3]; i += 1
        lik = None
        if i < len(log) and log[i][0] == "L":
            if log[i][1] != xs:
                return None
            lik = log[i][2]; i += 1
        steps.append((xs, float(lp), lik))
    if i != len(log):
        return None
    return steps


def move_wire(steps, lus):
    parts = [str(len(steps))]
    for xs, lp, lik in steps:
        parts += [ql(xs), ev(lp), ev(lik) if lik is not None else "nf"]
    parts.append(ql([float(v) for v in lus]))
    return " ".join(parts)


def reproduce_stream(state, dim, Em, nsteps):
    """the numpy.random values MCMC_MH draws after `state`: deltas, then up to nsteps uniforms"""
    keep = np.random.get_state()
    np.random.set_state(state)
    with np.errstate(all="ignore"):
        deltas = np.random.multivariate_normal(np.zeros(dim), Em, nsteps)
    after_mvn = np.random.get_state()
    us = [np.random.uniform() for _ in range(nsteps)]
    np.random.set_state(keep)
    return deltas, us, after_mvn


def state_after_uniforms(after_mvn, k):
    keep = np.random.get_state()
    np.random.set_state(after_mvn)
    for _ in range(k):
        np.random.uniform()
    st = np.random.get_state()
    np.random.set_state(keep)
    return st


def same_state(a, b):
    return a[0] == b[0] and np.array_equal(a[1], b[1]) and a[2:] == b[2:]


# (family, how the prior objects are copied before MCMC_MH sees them — what Pool.starmap does to its arguments)
WITNESS = [("T1L", None), ("T1U", None), ("H", None), ("DL", None), ("DE", None), ("T1L", None), ("T1U", None), ("T", None),
           ("SU", "pickle"), ("SU", "deepcopy"), ("SE", "pickle"), ("SG", "pickle"), ("DU", "pickle"), ("DL", "pickle"),
           ("TT", "pickle"), ("TT1", None), ("TT", None)]
NWIT = len(WITNESS)


def ship_prior(obj, how):
    import pickle, copy
    if how == "pickle":
        return pickle.loads(pickle.dumps(obj))
    if how == "deepcopy":
        return copy.deepcopy(obj)
    return obj


def gen_mh_cases(ctx):
    rng = ctx.rng
    cases = []
    for k in range(ctx.scale(200, 6000)):
        dim = rng.choice([1, 2, 2, 3])
        pri = [gen_prior(rng) for _ in range(dim)]
        lld = gen_ll_desc(rng, pri)
        ship = rng.choice([None, None, None, "pickle", "deepcopy"])
        if k < NWIT:        # witnesses always present: every one-sided family, proposals straddling the bound
            pri[0] = gen_prior(rng, WITNESS[k][0])
            ship = WITNESS[k][1]
            if k == 5:
                pri[0] = {"fam": "T1L", "mu": 0.3, "sig": 1.0, "low": 0.0}
            lld = gen_ll_desc(rng, pri)
        cur = [sample_support(rng, p) for p in pri]
        if k < NWIT or rng.random() < 0.3:      # start next to a finite bound so that proposals leave the support
            for i, p in enumerate(pri):
                lo, hi = support(p)
                if math.isfinite(lo) and (not math.isfinite(hi) or rng.random() < 0.5):
                    cur[i] = lo + 0.02 * width(p) * rng.random()
                elif math.isfinite(hi):
                    cur[i] = hi - 0.02 * width(p) * rng.random()
        A = [[rng.gauss(0, 1) for _ in range(dim)] for _ in range(dim)]
        sc = [width(p) * (rng.choice([0.02, 0.2, 0.2, 1.0, 4.0]) if k >= NWIT else 1.0) for p in pri]
        Em = (np.diag(sc) @ (np.array(A) @ np.array(A).T / dim + 0.05 * np.eye(dim)) @ np.diag(sc)).tolist()
        beta = rng.choice([1.0, 1.0, rng.random(), rng.random(), 10 ** rng.uniform(-8, -1), 0.0])
        cases.append({"pri": pri, "ll": lld, "cur": cur, "Em": Em, "beta": beta,
                      "n": rng.choice([0, 1, 2, 3, 5, 5, 8]) if k >= NWIT else 6, "ship": ship, "acc0": rng.choice([0, 0, 3, 17]),
                      "seed": rng.randrange(2 ** 31), "pn": rng.randrange(100),
                      "stale": rng.random() < 0.05 and k >= NWIT})
    # proposals that improve the tempered log-posterior by more than log(DBL_MAX) ~ 709.8 (ratio overflows)
    for k in range(ctx.scale(8, 80)):
        dim = rng.choice([1, 1, 2])
        pri = [gen_prior(rng, rng.choice(["U", "DU", "T", "SU"])) for _ in range(dim)]
        cen = [support(p)[0] + rng.uniform(0.4, 0.6) * width(p) for p in pri]
        lld = {"kind": "quad", "c": cen, "w": [width(p) * rng.choice([0.01, 0.003]) for p in pri], "s": 1.0}
        cur = [support(p)[0] + rng.uniform(0.0, 0.08) * width(p) for p in pri]
        sc = [width(p) * 0.3 for p in pri]
        cases.append({"pri": pri, "ll": lld, "cur": cur, "Em": np.diag([v * v for v in sc]).tolist(), "beta": rng.choice([1.0, 0.9, 1.0]),
                      "n": 6, "ship": None, "acc0": 0, "seed": rng.randrange(2 ** 31), "pn": rng.randrange(100), "stale": False,
                      "bigjump": True})
    return cases


def run_mh_case(c):
    """runs the real MCMC_MH; returns dict with everything observed"""
    T = _T()
    log = []
    originals = [build_prior(d) for d in c["pri"]]
    # the kernel gets the priors as a pool worker would: after a pickle / deepcopy boundary
    pars = [RecPrior(ship_prior(p, c.get("ship")), i, log) for i, p in enumerate(originals)]
    raw = make_ll(c["ll"])
    LL = rec_ll(raw, log)
    cur = np.array(c["cur"], dtype=float)
    lik0 = float(raw(c["pn"], cur))
    lp0 = 0
    for i, d in enumerate(c["pri"]):
        lp0 = lp0 + float(originals[i].log_pdf_eval(cur[i]))
    with np.errstate(all="ignore"):
        post0 = float(lp0 + lik0 * c["beta"])
    if c.get("stale"):
        post0 = post0 + 0.75          # an entry state violating the invariant (tie only)
    Em = np.array(c["Em"], dtype=float)
    np.random.seed(c["seed"])
    st0 = np.random.get_state()
    cur_in, Em_in = cur.copy(), Em.copy()
    err0 = np.geterr()
    try:
        with fp_mode(c.get("mode")):
            r = T.MCMC_MH(c["pn"], Em_in, c["n"], cur_in, lik0, post0, c["beta"], c["acc0"], pars, LL)
        res = ("ok", np.array(r[0], dtype=float), float(r[1]), float(r[2]), int(r[3]))
    except BaseException as ex:  # noqa
        res = ("err", err_kind(ex), type(ex).__name__)
    st1 = np.random.get_state()
    inputs_ok = np.array_equal(cur_in, cur) and np.array_equal(Em_in, Em) and np.geterr() == err0
    return {"inputs_ok": inputs_ok, "res": res, "log": log, "lik0": lik0, "post0": post0, "st0": st0, "st1": st1, "raw": raw, "Em": Em, "cur0": cur}


def mh_request(c, o, steps, lus):
    return (f"mh {q(c['beta'])} {ql(c['cur'])} {ev(o['lik0'])} {ev(o['post0'])} {c['acc0']} " + move_wire(steps, lus))


def ev_close(a, tok, depth=6):
    a = float(a)
    if tok == "nf":
        return not math.isfinite(a)
    return math.isfinite(a) and close(a, F(tok), depth)


def post_close(a, tok, scale):
    """tempered log-posteriors are sums with cancellation: the rounding error is relative to the
    operands (|prior| + |beta*lik|), not to the result"""
    a = float(a)
    if tok == "nf":
        return not math.isfinite(a)
    if not math.isfinite(a):
        return False
    sc = max(abs(a), scale if math.isfinite(scale) else 0.0, 1e-300)
    return abs(F(a) - F(tok)) <= 64 * F(core.ulp(sc))


def _mag(post, beta, lik):
    post, lik = float(post), float(lik)
    return (abs(post) if math.isfinite(post) else 0.0) + (abs(beta * lik) if math.isfinite(lik) else 0.0)


def tie_mh(c, o, steps, deltas, us, after_mvn, rep):
    res = o["res"]
    t = rep.split()
    if res[0] == "err":
        return None if (t[0] == "err") else f"impl raises {res[1]}, model {rep[:60]}"
    if t[0] != "ok":
        return f"impl returns, model {rep[:60]}"
    _, x, lik, post, acc = res
    mx = unql(t[1])
    if [F(float(v)) for v in x] != mx:
        return "final state differs"
    scale = max(_mag(o["post0"], c["beta"], o["lik0"]), _mag(post, c["beta"], lik))
    if not ev_close(lik, t[2], 1) or not post_close(post, t[3], scale):
        return f"lik/post impl {lik!r},{post!r} model {t[2]},{t[3]}"
    if acc != int(t[4]):
        return f"numAccepts impl {acc} model {t[4]}"
    used = c["n"] - int(t[5])
    if not same_state(o["st1"], state_after_uniforms(after_mvn, used)):
        return f"model consumed {used} uniforms, the implementation's generator state differs"
    codes = [int(z) for z in t[6].strip("[]").split(",")] if t[6] != "[]" else []
    curx = np.array(c["cur"], dtype=float)
    for j, (cd, (xs, lp, lk)) in enumerate(zip(codes, steps)):
        if (cd == 0) != (lk is None):
            return f"step {j}: model code {cd} but likelihood {'not ' if lk is None else ''}evaluated"
        if not np.array_equal(curx + deltas[j], np.array(xs)):
            return f"step {j}: recorded proposal is not (model's current state) + delta"
        if cd == 2:
            curx = np.array(xs)
    return None


def ref_mh(c, o, deltas, us):
    """independent reference: accept iff inside the support, finite, and u < min(1, ratio)"""
    pri, beta, raw = c["pri"], c["beta"], o["raw"]
    cur = o["cur0"].copy(); lik = o["lik0"]; post = o["post0"]; acc = c["acc0"]; k = 0
    for j in range(c["n"]):
        prop = cur + deltas[j]
        if in_support(pri, prop):
            lp = math.fsum(logprior_ref(d, float(xi)) for d, xi in zip(pri, prop))
            lk = float(raw(c["pn"], prop))
            with np.errstate(all="ignore"):
                pp = float(np.float64(lp) + np.float64(lk) * beta)
        else:
            lk, pp = -math.inf, -math.inf
        with np.errstate(all="ignore"):
            la = float(np.float64(pp) - np.float64(post))
        if math.isfinite(la):
            u = us[k]; k += 1
            ratio = 1.0 if la >= 0 else math.exp(la)
            if u < min(1.0, ratio):
                cur, lik, post, acc = prop, lk, pp, acc + 1
    return cur, lik, post, acc, k


def oracle_mh(c, o, deltas, us, after_mvn, where="MCMC_MH"):
    out = []
    res = o["res"]
    base = {"call": where, "ll": c["ll"]["kind"], "fams": "".join(sorted(set(d["fam"] for d in c["pri"]))), "ship": c.get("ship")}
    if res[0] == "err":
        out.append((dict(base, symptom="raises:" + res[1]), f"MCMC_MH raises {res[1]}"))
        return out
    _, x, lik, post, acc = res
    pri, beta = c["pri"], c["beta"]
    # 1. never leaves the support; the likelihood is never run outside it
    if not in_support(pri, x):
        out.append((dict(base, symptom="left-support"), f"returned state {x.tolist()} is outside the prior support"))
    for evn in o["log"]:
        if evn[0] == "L" and not in_support(pri, evn[1]):
            out.append((dict(base, symptom="likelihood-outside-support"), f"log-likelihood evaluated at {evn[1]} outside the prior support"))
            break
    # 2. stored log-likelihood / tempered log-posterior are those of the returned state
    lk = float(o["raw"](c["pn"], x))
    if not (lk == lik or (math.isnan(lk) and math.isnan(lik))):
        out.append((dict(base, symptom="stored-likelihood"), f"stored log-likelihood {lik!r} but the state has {lk!r}"))
    if in_support(pri, x) and math.isfinite(lk):
        lp = math.fsum(logprior_ref(d, float(xi)) for d, xi in zip(pri, x))
        want = lp + beta * lk
        if not floats_close(post, want, 1e-9, 1e-9 * (1 + abs(lp) + abs(beta * lk))):
            out.append((dict(base, symptom="stored-posterior"), f"stored tempered log-posterior {post!r}, the state has {want!r} at beta={beta!r}"))
    # 3. acceptance rule and bookkeeping against the independent reference
    rx, rl, rp, ra, rk = ref_mh(c, o, deltas, us)
    if not np.array_equal(rx, x) or ra != acc:
        out.append((dict(base, symptom="acceptance-rule"),
                    f"with the same proposals and uniforms the rule u < min(1, ratio) ends in {rx.tolist()} after {ra - c['acc0']} accepts; "
                    f"the implementation ends in {x.tolist()} after {acc - c['acc0']}"))
    elif not same_state(o["st1"], state_after_uniforms(after_mvn, rk)):
        out.append((dict(base, symptom="uniform-stream"), "number of uniforms drawn differs from the reference"))
    return out


def part_mh(ctx):
    cases = gen_mh_cases(ctx)
    obs, reqs, aux = [], [], []
    for c in cases:
        o = run_mh_case(c)
        dim = len(c["pri"])
        deltas, us, after_mvn = reproduce_stream(o["st0"], dim, o["Em"], c["n"])
        steps = parse_events(o["log"], dim, c["n"]) if o["res"][0] == "ok" else []
        with np.errstate(all="ignore"):
            lus = np.log(np.array(us, dtype=float)) if us else np.array([])
        obs.append(o); aux.append((steps, deltas, us, after_mvn))
        if steps is None:
            reqs.append("mh bad-record")
        else:
            reqs.append(mh_request(c, o, steps, lus))
    reps = core.model_batch("C19", reqs)
    for c, o, (steps, deltas, us, after_mvn), rep in zip(cases, obs, aux, reps):
        ctx.count(("mh", c["seed"], c["beta"], tuple(c["cur"])), c["n"] > 0, "mh")
        cj = {"part": "mh", **{k: c[k] for k in ("pri", "ll", "cur", "Em", "beta", "n", "acc0", "seed", "pn", "stale")}, "ship": c.get("ship")}
        if steps is None:
            why = "recorded prior/likelihood calls do not have the shape (dim prior calls, optional likelihood) per step"
        else:
            why = tie_mh(c, o, steps, deltas, us, after_mvn, rep)
            for xs, lp, lk in steps:
                ctx.bump("mh-step:" + ("outside-support" if lk is None else "evaluated"))
        if why is None:
            ctx.tie_ok()
        else:
            ctx.tie_bad("mh", cj, _js_mh(o["res"]), {"model": rep[:200], "why": why})
        if o["res"][0] == "ok":
            ctx.bump("mh-accepts", o["res"][4] - c["acc0"])
        for d in c["pri"]:
            ctx.bump("prior:" + d["fam"])
        if not c["stale"] and math.isfinite(o["post0"]):
            for feat, text in oracle_mh(c, o, deltas, us, after_mvn):
                ctx.fail(feat, dict(cj, impl=_js_mh(o["res"])), text)
        if o["res"][0] == "ok" and not o["inputs_ok"]:
            ctx.fail({"call": "MCMC_MH", "symptom": "inputs-modified"}, cj, "MCMC_MH modified its input state / covariance / numpy error state")
        # global state: the same call under np.errstate(all='raise') / warnings-as-errors gives the same result or raises
        if o["res"][0] == "ok" and not c["stale"] and math.isfinite(o["post0"]) and (c.get("bigjump") or c["seed"] % 3 == 0):
            for mode in MODES:
                c2 = dict(c, mode=mode)
                o2 = run_mh_case(c2)
                ctx.count(("mh-mode", mode, c["seed"]), c["n"] > 0, "mh-" + mode)
                if o2["res"][0] == "err":
                    ctx.bump(f"mh-{mode}:raises-" + o2["res"][2])
                    continue
                a, b = o["res"], o2["res"]
                same = np.array_equal(a[1], b[1]) and (a[2] == b[2] or (math.isnan(a[2]) and math.isnan(b[2]))) \
                    and (a[3] == b[3] or (math.isnan(a[3]) and math.isnan(b[3]))) and a[4] == b[4] and same_state(o["st1"], o2["st1"])
                if not same:
                    ctx.fail({"call": "MCMC_MH", "symptom": "differs-under-" + mode, "bigjump": bool(c.get("bigjump"))},
                             dict(cj, mode=mode, impl=_js_mh(a), impl_mode=_js_mh(b)),
                             f"under {'np.errstate(all=raise)' if mode == 'errstate' else 'warnings turned into errors'} the same call (same seed) "
                             f"silently returns {b[1].tolist()} after {b[4] - c['acc0']} accepts instead of {a[1].tolist()} after {a[4] - c['acc0']}: "
                             "a move is not accepted with probability min(1, ratio)")
                if not o2["inputs_ok"]:
                    ctx.fail({"call": "MCMC_MH", "symptom": "inputs-modified", "mode": mode}, dict(cj, mode=mode), "inputs or numpy error state changed")
                for feat, text in oracle_mh(c2, o2, deltas, us, after_mvn):
                    ctx.fail(dict(feat, mode=mode), dict(cj, mode=mode, impl=_js_mh(b)), f"[{mode}] " + text)
        if len(ctx.samples) < 4 and c["n"] >= 3 and o["res"][0] == "ok" and o["res"][4] > c["acc0"]:
            ctx.sample({"part": "mh", "priors": c["pri"], "beta": c["beta"], "n": c["n"], "impl": _js_mh(o["res"]), "model": rep[:160]})


def _js_mh(res):
    if res[0] == "err":
        return list(res)
    return {"x": res[1].tolist(), "lik": res[2], "post": res[3], "acc": res[4]}


# =====================================================================================
# part C : TMCMC.run() with the in-process pool
STAGE_CAP = 150


class StageLimit(Exception):
    pass


def gen_run_cases(ctx):
    rng = ctx.rng
    cases = []
    for k in range(ctx.scale(5, 14)):
        dim = rng.choice([1, 2, 2, 3])
        N = rng.choice([51, 60, 80, 100, 120, 160])
        steps = rng.choice([1, 2, 3])
        sharp = None
        if k == 0:          # N=60, informative likelihood: the 50 floor of the ESS target becomes active
            pri = [{"fam": "U", "a": 0.8, "b": 2.2}, {"fam": "DU", "a": 0.4, "b": 1.2}]
            N, steps, sharp = 60, 2, 0.05
        elif k == 1:
            pri = [gen_prior(rng) for _ in range(dim)]
            N = 60
        elif k == 2:
            pri = [gen_prior(rng)]          # single-parameter calibration (np.cov returns a 0-d array)
            N = 60
        elif k == 3:        # N=100 with one-sided priors
            pri = [gen_prior(rng, "T1L"), gen_prior(rng, rng.choice(["DL", "H", "T1U", "DE"]))]
            N, steps, sharp = 100, 3, 0.1
        elif k == 4:        # N=160, 5 parameters, sharp likelihood: many stages, 0.95*ESS_prev falls far below N/2
            pri = [gen_prior(rng, f) for f in ("U", "H", "N", "U", "N")]
            N, steps, sharp = 160, 2, 0.012
        else:
            pri = [gen_prior(rng) for _ in range(dim)]
        lld = gen_ll_desc(rng, pri)
        lld["s"] = rng.choice([1.0, 10.0, 100.0])
        lld["w"] = [width(p) * 10 ** rng.uniform(-1.2, -0.3) for p in pri]
        if sharp is not None:
            lld["kind"], lld["s"] = "quad", 1.0
            lld["w"] = [width(p) * sharp for p in pri]
        if k == 1:
            lld["kind"] = "hole"; lld["t"] = lld["c"][0] + 0.3 * lld["w"][0]
        cases.append({"pri": pri, "ll": lld, "N": N, "steps": steps, "seed": rng.randrange(2 ** 31)})
    return cases


def run_tmcmc_case(c):
    T = _T()
    patch_pool()
    T.console.quiet = True
    log = []
    pars = [RecPrior(build_prior(d), i, log) for i, d in enumerate(c["pri"])]
    raw = make_ll(c["ll"])
    LL = rec_ll(raw, log)
    calls = []

    def observer(func, args):
        if func is T.MCMC_MH:
            if len(calls) >= STAGE_CAP * c["N"]:
                raise StageLimit(f"exponent 1 not reached after {STAGE_CAP} stages")
            st0 = np.random.get_state()
            l0 = len(log)
            with fp_mode(c.get("mode")):
                r = func(*args)
            calls.append({"args": args, "ret": r, "st0": st0, "st1": np.random.get_state(), "log": log[l0:]})
            return r
        return func(*args)

    InProcPool.observer = observer
    fd, status = tempfile.mkstemp(prefix="verif_c19_", suffix=".txt")
    os.close(fd)
    np.random.seed(c["seed"])
    try:
        import io, contextlib
        with contextlib.redirect_stdout(io.StringIO()), fp_mode(c.get("mode")):
            t = T.TMCMC(N=c["N"], parameters=pars, names=[f"p{i}" for i in range(len(pars))], log_likelihood=LL,
                        mutation_steps=c["steps"], status_file_name=status)
            trace = t.run()
        res = ("ok", trace)
    except StageLimit as ex:
        res = ("err", "StageLimit", str(ex))
    except BaseException as ex:  # noqa
        res = ("err", err_kind(ex), repr(ex)[:200])
    finally:
        InProcPool.observer = None
        try:
            os.unlink(status)
        except OSError:
            pass
    return {"res": res, "log": log, "calls": calls, "raw": raw}


def oracle_run(c, o):
    out = []
    base = {"call": "TMCMC.run", "ll": c["ll"]["kind"], "dim": len(c["pri"])}
    if o["res"][0] == "err":
        out.append((dict(base, symptom="raises:" + o["res"][1]), f"TMCMC.run raises {o['res'][2]}"))
        return out
    trace = o["res"][1]
    pri, N, raw = c["pri"], c["N"], o["raw"]
    dim = len(pri)
    if len(trace) < 2:
        out.append((dict(base, symptom="trace-short"), "trace has fewer than two stages"))
        return out
    betas = [float(s.beta) for s in trace]
    prev = 0.0
    for k, s in enumerate(trace[:-1]):
        if not (prev < betas[k] <= 1):
            out.append((dict(base, symptom="beta-not-increasing"), f"stage {k}: exponent {betas[k]!r} after {prev!r}"))
        prev = betas[k]
    if betas[-2] != 1 or betas[-1] != 1:
        out.append((dict(base, symptom="last-beta"), f"last exponents {betas[-2:]!r} are not exactly 1"))
    # the recorded (beta, ESS) chain, stage by stage, against the documented target max(0.95*ESS_prev, 50)
    prev_ess, bprev = N, 0.0
    for k, s in enumerate(trace[:-1]):
        Lm = np.asarray(s.Lm, dtype=float)
        if Lm.shape != (N,) or s.ESS is None:
            break
        cc = {"old": bprev, "ll": Lm.tolist(), "prev": prev_ess, "kind": "run-stage", "lev": 0.0}
        im = ("ok", float(s.beta), 0.0, np.asarray(s.Wm_n, dtype=float), s.ESS)
        bad = oracle_bisect(None, cc, im)
        for feat, text in bad[:2]:
            out.append((dict(feat, call="TMCMC.run stage", N=N, dim=dim),
                        f"stage {k} (N={N}, previous ESS {prev_ess}, previous beta {bprev!r}): " + text))
        if bad:
            break
        prev_ess, bprev = s.ESS, float(s.beta)
    bprev = 0.0
    for k, s in enumerate(trace):
        last = k == len(trace) - 1
        Sm = np.asarray(s.Sm, dtype=float)
        if Sm.shape != (N, dim):
            out.append((dict(base, symptom="trace-shape"), f"stage {k} records an array of shape {Sm.shape}, expected {(N, dim)}"))
            continue
        bad = [i for i in range(N) if not in_support(pri, Sm[i])]
        if bad:
            out.append((dict(base, symptom="particle-outside-support"), f"stage {k}: particle {bad[0]} = {Sm[bad[0]].tolist()} outside the prior support"))
        Lm = np.asarray(s.Lm, dtype=float)
        if Lm.shape != (N,) or any(float(raw(i, Sm[i])) != float(Lm[i]) for i in range(N)):
            out.append((dict(base, symptom="trace-likelihood"), f"stage {k}: stored log-likelihoods are not those of the stored particles"))
        W = np.asarray(s.Wm_n, dtype=float)
        inc = (betas[k] - bprev) if not last else 0.0
        okW = W.shape == (N,) and np.all(np.isfinite(W)) and np.all(W >= 0) and abs(math.fsum(W.tolist()) - 1) <= 1e-12 * N
        if okW and Lm.shape == (N,):
            im = int(np.argmax(Lm))
            for i in range(N):
                exw = 0.0 if Lm[i] == -math.inf else math.exp(inc * (float(Lm[i]) - float(Lm[im]))) * float(W[im])
                if abs(float(W[i]) - exw) > 1e-9 * float(W[im]) + 1e-300:
                    okW = False
                    break
        if not okW:
            out.append((dict(base, symptom="trace-weights"), f"stage {k}: weights are not a probability vector proportional to likelihood^({inc!r})"))
        if not last:
            cap = np.asarray(s.Smcap, dtype=float)
            if cap.shape != (N, dim):
                out.append((dict(base, symptom="trace-shape"), f"stage {k}: resampled array has shape {cap.shape}"))
            else:
                rows = {tuple(Sm[i].tolist()) for i in range(N) if W[i] > 0}
                if any(tuple(r.tolist()) not in rows for r in cap):
                    out.append((dict(base, symptom="resample"), f"stage {k}: a resampled particle is not a positive-weight particle of the stage"))
        bprev = betas[k]
    # MCMC_MH calls made by the stage loop: entry invariant (re-tempering) and results carried over
    calls = o["calls"]
    if calls is None:            # run through a real process pool: the kernel calls are not observable
        return out
    nst = len(trace) - 1
    if len(calls) != nst * N:
        out.append((dict(base, symptom="mh-call-count"), f"{len(calls)} MCMC_MH calls for {nst} stages of {N} particles"))
        return out
    for k in range(nst):
        cap = np.asarray(trace[k].Smcap, dtype=float)
        nxt = np.asarray(trace[k + 1].Sm, dtype=float)
        nl = np.asarray(trace[k + 1].Lm, dtype=float)
        for j in range(N):
            cl = calls[k * N + j]
            a = cl["args"]
            cur, lik, post, beta = np.asarray(a[3], dtype=float), float(a[4]), float(a[5]), float(a[6])
            msg = None
            if beta != betas[k]:
                msg = ("mh-beta", f"MCMC_MH run at exponent {beta!r}, stage exponent is {betas[k]!r}")
            elif a[0] != j or cap.shape != (N, dim) or not np.array_equal(cur, cap[j]):
                msg = ("mh-start", "MCMC_MH does not start at the resampled particle")
            elif float(raw(j, cur)) != lik:
                msg = ("mh-entry-likelihood", f"entry log-likelihood {lik!r} is not that of the start state")
            else:
                lpr = math.fsum(logprior_ref(d, float(xi)) for d, xi in zip(pri, cur))
                want = lpr + beta * lik
                if not floats_close(post, want, 1e-9, 1e-9 * (1 + abs(lpr) + abs(beta * lik))):
                    msg = ("mh-entry-posterior", f"entry tempered log-posterior {post!r}, start state has {want!r} at beta={beta!r} (stage {k}, particle {j})")
            r = cl["ret"]
            if msg is None and (nxt.shape != (N, dim) or not np.array_equal(np.asarray(r[0], dtype=float), nxt[j]) or float(r[1]) != float(nl[j])):
                msg = ("carry-over", f"stage {k + 1} does not record the MH result of particle {j}")
            if msg:
                out.append((dict(base, symptom=msg[0]), f"stage {k}: " + msg[1]))
                return out
    return out


def run_mh_subcase(c, k, j, cl):
    """a recorded MCMC_MH call of the run as an MH case (for the MH oracle)"""
    a = cl["args"]
    sub = {"pri": c["pri"], "ll": c["ll"], "cur": [float(v) for v in a[3]], "Em": np.asarray(a[1]).tolist(), "beta": float(a[6]),
           "n": int(a[2]), "acc0": int(a[7]), "seed": None, "pn": j, "stale": False}
    r = cl["ret"]
    o = {"res": ("ok", np.asarray(r[0], dtype=float), float(r[1]), float(r[2]), int(r[3])), "log": cl["log"],
         "lik0": float(a[4]), "post0": float(a[5]), "st0": cl["st0"], "st1": cl["st1"], "Em": np.asarray(a[1], dtype=float),
         "cur0": np.asarray(a[3], dtype=float)}
    return sub, o


def part_run(ctx):
    cases = gen_run_cases(ctx)
    for c in cases:
        o = run_tmcmc_case(c)
        o_raw = o["raw"]
        cj = {"part": "run", **c}
        ctx.count(("run", c["seed"], c["N"]), True, "run")
        for feat, text in oracle_run(c, o):
            ctx.fail(feat, cj, text)
        if o["res"][0] != "ok":
            ctx.tie_bad("run-stage", cj, list(o["res"]), "model not consulted")
            continue
        trace = o["res"][1]
        N, dim = c["N"], len(c["pri"])
        if c is cases[0] or c is cases[-1]:
            # global state: the same run (same seed) under np.errstate(all='raise') / warnings-as-errors: same trace or an exception
            for mode in MODES:
                om = run_tmcmc_case(dict(c, mode=mode))
                ctx.count(("run-mode", mode, c["seed"]), True, "run-" + mode)
                if om["res"][0] != "ok":
                    ctx.bump(f"run-{mode}:raises-" + om["res"][1])
                    continue
                tm = om["res"][1]
                if len(tm) != len(trace) or any(float(a.beta) != float(b.beta) or not np.array_equal(np.asarray(a.Sm), np.asarray(b.Sm))
                                                for a, b in zip(tm, trace)):
                    ctx.fail({"call": "TMCMC.run", "symptom": "differs-under-" + mode, "dim": dim}, dict(cj, mode=mode),
                             f"under {mode} the same run (same seed) silently produces a different trace "
                             f"({len(tm) - 1} stages, exponents {[float(a.beta) for a in tm][:6]}… instead of {len(trace) - 1} stages, {[float(a.beta) for a in trace][:6]}…)")
                for feat, text in oracle_run(c, om):
                    ctx.fail(dict(feat, mode=mode), dict(cj, mode=mode), f"[{mode}] " + text)
        calls = o["calls"]
        nst = len(trace) - 1
        ctx.bump("run-stages", nst)
        if len(calls) != nst * N:
            ctx.tie_bad("run-stage", cj, {"calls": len(calls)}, "call count")
            continue
        # the per-stage (beta, ESS) chain re-derived by the model's bisection (harness answers ESS(beta) from the stage's Lm)
        chain, pe, bp = [], N, 0.0
        for k in range(nst):
            chain.append({"old": bp, "prev": pe, "ll": [float(v) for v in np.asarray(trace[k].Lm, dtype=float)]})
            pe, bp = trace[k].ESS, float(trace[k].beta)
        chain_res, chain_tabs = model_bisect(chain, want_tabs=True)
        for k, (cc, (t, nq)) in enumerate(zip(chain, chain_res)):
            ctx.count(("run-bisect", c["seed"], k), True, "run-bisect")
            st = trace[k]
            # the model tries exact rationals, the code their binary64 roundings: next to an int() step of the ESS a
            # decision may differ, which moves beta by at most the bisection tolerance and the ESS by one
            if t[0] == "ok" and abs(float(F(t[1])) - float(st.beta)) <= 3e-8 and abs(int(F(t[2])) - int(st.ESS)) <= 1 \
                    and ((t[3] == "1") == (float(st.beta) == 1)):
                ctx.tie_ok()
            else:
                ctx.tie_bad("run-bisect", dict(cj, stage=k, old=cc["old"], prev=cc["prev"]),
                            {"beta": float(st.beta), "ESS": int(st.ESS)}, " ".join(t)[:160])
        # initial log-priors: the first N*dim recorded prior evaluations
        init = parse_events([e for e in o["log"][:N * dim]], dim, N)
        post = None
        if init is not None:
            post = [s[1] for s in init]
        reqs, metas = [], []
        post0, stage_parts = (list(post) if post is not None else None), []
        bprev = 0.0
        for k in range(nst):
            st = trace[k]
            Sm = np.asarray(st.Sm, dtype=float); Lm = np.asarray(st.Lm, dtype=float); cap = np.asarray(st.Smcap, dtype=float)
            beta = float(st.beta)
            if post is None:
                reqs.append("stage bad-record"); metas.append(None); break
            index = {}
            for i in range(N):
                index.setdefault((tuple(Sm[i].tolist()), float(Lm[i])), i)
            ids, moves, ok = [], [], True
            for j in range(N):
                cl = calls[k * N + j]
                a = cl["args"]
                key = (tuple(np.asarray(a[3], dtype=float).tolist()), float(a[4]))
                if key not in index:
                    ok = False; break
                ids.append(index[key])
                nsteps = int(a[2])
                deltas, us, after_mvn = reproduce_stream(cl["st0"], dim, np.asarray(a[1], dtype=float), nsteps)
                steps = parse_events(cl["log"], dim, nsteps)
                if steps is None:
                    ok = False; break
                with np.errstate(all="ignore"):
                    lus = np.log(np.array(us, dtype=float)) if us else np.array([])
                moves.append(move_wire(steps, lus))
                # the MH oracle on every recorded call of the first and last stage (and a sample of the others)
                if k in (0, nst - 1) or j % 7 == 0:
                    sub, so = run_mh_subcase(c, k, j, cl)
                    so["raw"] = o_raw
                    for feat, text in oracle_mh(sub, so, deltas, us, after_mvn, where="MCMC_MH in run"):
                        ctx.fail(feat, dict(cj, stage=k, particle=j), text)
            if not ok:
                reqs.append("stage bad-record"); metas.append(None); break
            parts = " ".join(f"{ql(Sm[i].tolist())} {ev(Lm[i])} {ev(post[i])}" for i in range(N))
            reqs.append(f"stage {q(bprev)} {q(beta)} {N} {parts} [{','.join(map(str, ids))}] {N} " + " ".join(moves))
            metas.append((k, beta))
            stage_parts.append((ids, moves))
            post = [float(calls[k * N + j]["ret"][2]) for j in range(N)]
            bprev = beta
        reps = core.model_batch("C19", reqs)
        for rep, meta in zip(reps, metas):
            ctx.count(("run-stage", c["seed"], meta), True, "run-stage")
            if meta is None:
                ctx.tie_bad("run-stage", cj, "recorded calls not in the expected shape", rep[:100])
                continue
            k, beta = meta
            t = rep.split()
            why = None
            if t[0] != "ok" or int(t[1]) != N:
                why = "model: " + rep[:80]
            else:
                for j in range(N):
                    r = calls[k * N + j]["ret"]
                    a = calls[k * N + j]["args"]
                    mx, ml, mp, ma = t[2 + 4 * j: 6 + 4 * j]
                    scale = max(_mag(a[5], beta, a[4]), _mag(r[2], beta, r[1]))
                    if unql(mx) != [F(float(v)) for v in np.asarray(r[0], dtype=float)] or not ev_close(r[1], ml, 1) \
                            or not post_close(r[2], mp, scale) or int(ma) != int(r[3]):
                        why = f"particle {j}: MH result differs from the model"
                        break
                    if not post_close(a[5], t[2 + 4 * N + j], scale):
                        why = f"particle {j}: re-tempered posterior passed to MCMC_MH {float(a[5])!r} differs from the model {t[2 + 4 * N + j]}"
                        break
            if why is None:
                ctx.tie_ok()
            else:
                ctx.tie_bad("run-stage", dict(cj, stage=k), {"beta": beta}, why)
        # the whole loop in one request: exponents by the model's bisection (ESS tables of the chain replay, keys
        # matched up to 1e-12), populations by the model's stage step; compared with the recorded trace
        if post0 is not None and len(stage_parts) == nst:
            Sm0 = np.asarray(trace[0].Sm, dtype=float); Lm0 = np.asarray(trace[0].Lm, dtype=float)
            parts = " ".join(f"{ql(Sm0[i].tolist())} {ev(Lm0[i])} {ev(post0[i])}" for i in range(N))
            envs = " ".join(f"[{','.join(chain_tabs[k][0])}] [{','.join(chain_tabs[k][1])}] [{','.join(map(str, stage_parts[k][0]))}] {N} "
                            + " ".join(stage_parts[k][1]) for k in range(nst))
            rep = core.model_batch("C19", [f"run 1/1000000000000 0 {N} {N} {parts} {nst} {envs}"])[0]
            ctx.count(("run-loop", c["seed"]), True, "run-loop")
            t = rep.split()
            why = None
            if t[0] != "ok" or t[1] != "1":
                why = "model: " + rep[:120]
            else:
                mb = unql(t[2]); lens = t[3].strip("[]").split(",")
                tb = [float(s.beta) for s in trace]
                if len(mb) != len(tb) or any(abs(float(a) - b) > 3e-8 for a, b in zip(mb, tb)) or mb[-1] != 1 or mb[-2] != 1:
                    why = f"exponent chain differs: model {[float(a) for a in mb]} trace {tb}"
                elif any(int(x) != N for x in lens) or int(t[4]) != N:
                    why = "population sizes differ"
                else:
                    exact_chain = all(close(b, a, 64) for a, b in zip(mb, tb))
                    fin_S = np.asarray(trace[-1].Sm, dtype=float); fin_L = np.asarray(trace[-1].Lm, dtype=float)
                    for j in range(N):
                        mx, ml, mp = t[5 + 3 * j: 8 + 3 * j]
                        r = calls[(nst - 1) * N + j]["ret"]
                        if unql(mx) != [F(float(v)) for v in fin_S[j]] or not ev_close(fin_L[j], ml, 1):
                            if exact_chain:
                                why = f"final particle {j} differs"
                            break
                        if exact_chain and not post_close(r[2], mp, 64 * _mag(r[2], 1.0, r[1])):
                            why = f"final particle {j}: tempered log-posterior {float(r[2])!r} model {mp}"
                            break
            if why is None:
                ctx.tie_ok()
            else:
                ctx.tie_bad("run-loop", cj, {"betas": [float(s.beta) for s in trace]}, why)
        if len(ctx.samples) < 6:
            ctx.sample({"part": "run", "N": N, "priors": c["pri"], "ll": c["ll"]["kind"], "stages": nst,
                        "betas": [float(s.beta) for s in trace]})


# =====================================================================================
# part D : the prior objects themselves — initial population, copies that cross a process boundary
def gen_prior_cases(ctx):
    rng = ctx.rng
    ds = [gen_prior(rng, f) for f in FAMS]
    ds += [{"fam": "T", "mu": 3.0, "sig": 0.1, "low": 4.0, "up": 4.5, "tail": 10.0},
           {"fam": "T", "mu": 0.0, "sig": 1.0, "low": -9.0, "up": -8.0, "tail": -8.0},
           {"fam": "T1L", "mu": 0.0, "sig": 1.0, "low": 8.0, "tail": 8.0},
           {"fam": "T1U", "mu": 1.0, "sig": 2.0, "up": -21.0, "tail": -11.0},
           {"fam": "SU", "loc": -1.0, "scale": 1.0}]
    for _ in range(ctx.scale(30, 600)):
        ds.append(gen_prior(rng, rng.choice(FAMS + ["TT", "TT1", "TT", "SU"])))
    return [{"d": d, "seed": rng.randrange(2 ** 31), "n": rng.choice([51, 60, 100])} for d in ds]


def _same(a, b):
    a, b = float(a), float(b)
    return a == b or (math.isnan(a) and math.isnan(b))


def oracle_prior(c):
    out = []
    d = c["d"]
    base = {"call": "prior", "fam": d["fam"], "tail": bool(d.get("tail"))}
    lo, hi = support(d)
    try:
        P = build_prior(d)
        np.random.seed(c["seed"])
        with np.errstate(all="ignore"):
            x = np.asarray(P.generate_rns(c["n"]), dtype=float)
    except BaseException as ex:  # noqa
        return [(dict(base, symptom="raises:" + err_kind(ex)), f"building / sampling the prior raises {ex!r}")]
    # the initial population of a run: N draws, all inside the support with finite log-prior
    if x.shape != (c["n"],):
        out.append((dict(base, symptom="sample-shape"), f"generate_rns({c['n']}) has shape {x.shape}"))
        return out
    bad = [float(v) for v in x if not (lo <= v <= hi)]
    if bad:
        out.append((dict(base, symptom="sample-outside-support"),
                    f"{len(bad)}/{c['n']} draws of the initial population are outside the prior support [{lo!r}, {hi!r}], e.g. {bad[0]!r}"))
    else:
        with np.errstate(all="ignore"):
            lp = [float(P.log_pdf_eval(float(v))) for v in x]
        nb = [i for i, v in enumerate(lp) if not math.isfinite(v)]
        # (a draw exactly on a bound where the density is 0/inf is possible only with probability 0)
        if nb:
            out.append((dict(base, symptom="sample-logprior-not-finite"),
                        f"log-prior of draw {float(x[nb[0]])!r} (inside the support) is {lp[nb[0]]!r}"))
    # copies: what Pool.starmap hands to the workers (pickle) / what a user keeps (deepcopy)
    w = width(d)
    grid = [v for v in (lo - 0.37 * w, lo + 1e-3 * w, hi - 1e-3 * w, hi + 0.37 * w, lo - 1.9 * w, hi + 1.9 * w) if math.isfinite(v)]
    grid += [float(v) for v in x[:6] if math.isfinite(v)]
    for how in ("pickle", "deepcopy"):
        try:
            C = ship_prior(P, how)
            with np.errstate(all="ignore"):
                diff = [(g, float(P.log_pdf_eval(g)), float(C.log_pdf_eval(g))) for g in grid]
                np.random.seed(c["seed"] + 1)
                y = np.asarray(C.generate_rns(20), dtype=float)
        except BaseException as ex:  # noqa
            out.append((dict(base, symptom="copy-raises", how=how), f"{how} copy of the prior raises {ex!r}"))
            continue
        dd = [t for t in diff if not _same(t[1], t[2])]
        if dd:
            g, a, b = dd[0]
            out.append((dict(base, symptom="copy-differs", how=how),
                        f"the prior a pool worker receives ({how} copy) has log-density {b!r} at {g!r}, the prior given to TMCMC has {a!r}: "
                        f"worker-side MH runs against a different prior (support [{lo!r}, {hi!r}])"))
        elif any(not (lo <= v <= hi) for v in y):
            out.append((dict(base, symptom="copy-sample-outside-support", how=how), f"{how} copy of the prior samples outside the support"))
    return out


def part_priors(ctx):
    for c in gen_prior_cases(ctx):
        d = c["d"]
        ctx.count(("prior", json.dumps(d, sort_keys=True), c["seed"]), True, "prior")
        ctx.bump("prior-check:" + d["fam"] + ("-tail" if d.get("tail") else ""))
        for feat, text in oracle_prior(c):
            ctx.fail(feat, {"part": "prior", **c}, text)


class PickLL:
    """picklable log-likelihood (module-level class) for runs through a real process pool"""
    def __init__(self, d):
        self.d = d
        self._f = None

    def __getstate__(self):
        return {"d": self.d, "_f": None}

    def __call__(self, pn, s):
        if self._f is None:
            self._f = make_ll(self.d)
        return self._f(pn, s)


class _Timeout(Exception):
    pass


def run_real_pool_case(c, timeout=150):
    """TMCMC.run() through the REAL multiprocessing.Pool (2 worker processes): priors and likelihood are pickled"""
    import multiprocessing as mp, signal, io, contextlib
    T = _T()
    patch_pool()
    T.console.quiet = True
    pars = [build_prior(d) for d in c["pri"]]
    LL = PickLL(c["ll"])
    saved_pool, saved_cc = mp.Pool, mp.cpu_count
    mp.Pool = mp._verif_real_Pool
    mp.cpu_count = lambda: 4                      # the code uses cpu_count() - 2 processes
    fd, status = tempfile.mkstemp(prefix="verif_c19_", suffix=".txt")
    os.close(fd)

    def on_alarm(sig, frm):
        raise _Timeout()
    old = signal.signal(signal.SIGALRM, on_alarm)
    signal.alarm(timeout)
    np.random.seed(c["seed"])
    try:
        with contextlib.redirect_stdout(io.StringIO()), np.errstate(all="ignore"):
            t = T.TMCMC(N=c["N"], parameters=pars, names=[f"p{i}" for i in range(len(pars))], log_likelihood=LL,
                        mutation_steps=c["steps"], status_file_name=status)
            trace = t.run()
        res = ("ok", trace)
    except _Timeout:
        res = ("err", "Timeout", f"TMCMC.run through a process pool did not finish within {timeout} s")
    except BaseException as ex:  # noqa
        res = ("err", err_kind(ex), repr(ex)[:200])
    finally:
        signal.alarm(0)
        signal.signal(signal.SIGALRM, old)
        mp.Pool, mp.cpu_count = saved_pool, saved_cc
        for ch in mp.active_children():
            ch.terminate()
        try:
            os.unlink(status)
        except OSError:
            pass
    return {"res": res, "calls": None, "raw": LL, "log": []}


def gen_pool_cases(ctx):
    rng = ctx.rng
    cases = [{"pri": [{"fam": "SU", "loc": -1.0, "scale": 1.0}, {"fam": "T1L", "mu": 0.3, "sig": 1.0, "low": 0.0}],
              "ll": {"kind": "quad", "c": [0.0, 0.0], "w": [0.25, 0.4], "s": 1.0}, "N": 51, "steps": 2, "seed": rng.randrange(2 ** 31)}]
    for _ in range(ctx.scale(0, 3)):
        pri = [gen_prior(rng, rng.choice(["SU", "SE", "DU", "T", "TT", "DL", "U", "H"])) for _ in range(rng.choice([1, 2]))]
        lld = gen_ll_desc(rng, pri)
        lld["kind"], lld["s"] = "quad", 1.0
        lld["c"] = [support(p)[0] if math.isfinite(support(p)[0]) else lld["c"][i] for i, p in enumerate(pri)]   # pushes against a bound
        lld["w"] = [width(p) * 0.25 for p in pri]
        cases.append({"pri": pri, "ll": lld, "N": rng.choice([51, 60]), "steps": 2, "seed": rng.randrange(2 ** 31)})
    return cases


def part_pool(ctx):
    for c in gen_pool_cases(ctx):
        o = run_real_pool_case(c)
        ctx.count(("pool-run", c["seed"]), True, "pool-run")
        for feat, text in oracle_run(c, o):
            ctx.fail(dict(feat, pool="real"), {"part": "pool-run", **c}, "real process pool: " + text)
        if o["res"][0] == "ok":
            ctx.bump("pool-run-stages", len(o["res"][1]) - 1)


# =====================================================================================
def run(ctx: core.Check):
    ctx.rule = ("bisect: log-likelihood vectors of 9 shapes (normal, ties, few/many -inf, flat, one dominant, two-level, heavy tail) "
                "x scale 1e-3..1e4 x shifts, N in 51..400, old beta in {0, dyadic, random, 1-1e-k}, previous ESS in {N, <N, 0.95*prev integer, "
                "floor-50 active, non-integer, >N}; non-trivial unless flat/all -inf/old>=2. mh: 1-3 parameters, "
                "quadratic / zero-likelihood-region / flat log-likelihoods, random SPD proposal covariances at 4 scales, 0-8 steps, "
                "beta in {1, random, tiny, 0}, starts next to a finite bound of the support; 12 prior families incl. one-sided / untruncated TruncatedNormal and library lognormal/expon; non-trivial when at least one step. run: calibrations with N in {60,100,160,..}, 1-5 parameters, every stage tied and the (beta, ESS) chain re-derived. "
                "prior: every family (windows 5-12 sigma in either tail included) sampled as an initial population, pickle/deepcopy copies compared on a grid; pool-run: one calibration through a real 2-process multiprocessing.Pool. distinctness on the canonical input description.")
    ctx.assumptions = ["exp/log are not modelled: exp values and log-uniforms are computed by numpy and supplied to the model; "
                       "ESS(beta) is an oracle answered by the harness with the implementation's own three numpy lines",
                       "binary64 rounding is not modelled: dyadic old-beta streams must agree exactly, others within 4*depth ulp",
                       "numpy's generator is not modelled: its stream is reproduced from the recorded state and fed to the model",
                       "multiprocessing is replaced by an in-process pool (starmap = itertools.starmap) in the harness process",
                       "ESS is assumed antitone in the increment for the optimality theorem (true for the real ESS; checked numerically by the oracle)"]
    core.stub_moments()
    gen_out = core.LEAN / "Pun/Gen/TmcmcGen.lean"
    ctx.lean_stage(["Pun.Props.C19", "Pun.Props.C19Gen"],
                   generators=[("tmcmc.py bisection constants", lambda: tr.generate(core.REPO, gen_out))])
    _T()
    part_bisect(ctx)
    part_mh(ctx)
    part_run(ctx)
    part_priors(ctx)
    part_pool(ctx)


def replay(obj):
    c = obj.get("case", {})
    print(json.dumps({k: v for k, v in obj.items() if k != "case"}, indent=1, default=str))
    part = c.get("part")
    if part == "bisect":
        cc = {"old": c["old"], "prev": c["prev"], "lev": c["lev"], "kind": c["kind"], "stream": "bisect-general",
              "ll": [float(x) for x in c["ll"]]}
        im = run_bisect_impl(cc)
        print("impl   :", _js_bis(im))
        print("model  :", " ".join(model_bisect([cc])[0][0]))
        for feat, text in oracle_bisect(None, cc, im):
            print("oracle :", text)
    elif part == "mh":
        o = run_mh_case(c)
        deltas, us, after_mvn = reproduce_stream(o["st0"], len(c["pri"]), o["Em"], c["n"])
        print("impl   :", _js_mh(o["res"]))
        for feat, text in oracle_mh(c, o, deltas, us, after_mvn):
            print("oracle :", text)
    elif part == "prior":
        for feat, text in oracle_prior(c):
            print("oracle :", text)
    elif part == "pool-run":
        cc = {k: c[k] for k in ("pri", "ll", "N", "steps", "seed")}
        o = run_real_pool_case(cc)
        print("result :", o["res"][0], o["res"][1:] if o["res"][0] == "err" else len(o["res"][1]))
        for feat, text in oracle_run(cc, o):
            print("oracle :", text)
    elif part == "run":
        cc = {k: c[k] for k in ("pri", "ll", "N", "steps", "seed")}
        o = run_tmcmc_case(cc)
        for feat, text in oracle_run(cc, o):
            print("oracle :", text)
    return 0
