"""regenerate every Pun/Gen/*.lean from /repo (used by MANIFEST.setup_cmd so that `lake build Pun` finds them)"""
import sys, pathlib
sys.path.insert(0, str(pathlib.Path(__file__).resolve().parents[1]))
from pv import core
from pv.translator import arith
from pv.translator import hedge
arith.generate(core.REPO, core.LEAN / "Pun/Gen/ArithGen.lean")
from pv.translator import tmcmc as _tmcmc
_tmcmc.generate(core.REPO, core.LEAN / "Pun/Gen/TmcmcGen.lean")
from pv.translator import ks as _ks
_ks.generate(core.REPO, core.LEAN / "Pun/Gen/KSGen.lean")
hedge.generate(core.REPO, core.LEAN / "Pun/Gen/HedgeGen.lean")
from pv.translator import grid as _grid
_grid.generate(core.REPO, core.LEAN / "Pun/Gen/GridGen.lean")
_grid.generate_levels(core.REPO, core.LEAN / "Pun/Gen/LevelsGen.lean")
from pv.translator import trig as _trig
_trig.generate(core.REPO, core.LEAN / "Pun/Gen/TrigGen.lean")
from pv.translator import free as _free
_free.generate(core.REPO, core.LEAN / "Pun/Gen/FreeGen.lean")
from pv.translator import frechet as _frechet
_frechet.generate(core.REPO, core.LEAN / "Pun/Gen/FrechetGen.lean")
from pv.translator import dispatch as _dispatch
_dispatch.generate(core.REPO, core.LEAN / "Pun/Gen/DispatchGen.lean")
from pv.translator import param as _param
_param.generate(core.REPO, core.LEAN / "Pun/Gen/ParamGen.lean")
from pv.translator import envimp as _envimp
_envimp.generate(core.REPO, core.LEAN / "Pun/Gen/EnvImpGen.lean")
from pv.translator import numops as _numops
_numops.generate(core.REPO, core.LEAN / "Pun/Gen/NumOpsGen.lean")
_frechet.generate_corners(core.REPO, core.LEAN / "Pun/Gen/CornersGen.lean")
from pv.translator import cuts as _cuts
_cuts.generate(core.REPO, core.LEAN / "Pun/Gen/CutsGen.lean")
from pv.translator import ctor as _ctor
_ctor.generate(core.REPO, core.LEAN / "Pun/Gen/CtorGen.lean")
print("generated")
