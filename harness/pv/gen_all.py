"""regenerate every Pun/Gen/*.lean from /repo (used by MANIFEST.setup_cmd so that `lake build Pun` finds them)"""
import sys, pathlib
sys.path.insert(0, str(pathlib.Path(__file__).resolve().parents[1]))
from pv import core
from pv.translator import arith
arith.generate(core.REPO, core.LEAN / "Pun/Gen/ArithGen.lean")
print("generated")
