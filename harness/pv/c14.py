"""C14 — mixed propagation outputs are mixtures of interval images of input alpha-cuts.

proof  : Pun.Props.C14 (level tuples = every combination once, output = stack of b2b images of cut boxes, support inside
         the image of the supports, all-interval and all-precise inputs)
tie    : real slicing / interval_monte_carlo vs `Pun.MixedUp.slicing / imc`: the probability levels actually cut (captured by
         wrapping Pbox.alpha_cut) and the focal intervals handed to `stacking` (captured by wrapping it)
oracle : independent of the model: every focal interval is b2b of the box of nearest-level cuts (own exact argmin), slicing
         uses every one of the k^d level tuples exactly once, levels in [0,1], support inside the image of the supports,
         all intervals -> exactly the interval image, all precise -> zero width, the Staircase is the equal-weight stack,
         interval Monte Carlo reproducible and its reported levels are the ones cut.
"""
from __future__ import annotations
import itertools, math, json
from collections import Counter
from fractions import Fraction as F
import numpy as np
from . import core
from .core import q, ql, unq, unql, err_kind
from . import c13 as X


def _mods():
    from pyuncertainnumber.propagation import mixed_up
    from pyuncertainnumber.pba.pbox_abc import Staircase, convert_pbox
    from pyuncertainnumber.pba.params import Params
    return mixed_up, Staircase, convert_pbox, Params


class Capture:
    """wrap `stacking` (focal list) and `Staircase.alpha_cut` (levels actually cut) for the duration of one call"""

    def __enter__(self):
        mixed_up, Staircase, _, _ = _mods()
        self.mu, self.S = mixed_up, Staircase
        self.focal, self.alphas = None, []
        self._st, self._ac = mixed_up.stacking, Staircase.alpha_cut
        cap = self

        def stacking(container, *a, **k):
            cap.focal = [X.canon(c) for c in container]
            return cap._st(container, *a, **k)

        def alpha_cut(self_, alpha=0.5):
            cap.alphas.append(float(alpha))
            return cap._ac(self_, alpha)
        mixed_up.stacking = stacking
        Staircase.alpha_cut = alpha_cut
        return self

    def __exit__(self, *a):
        self.mu.stacking = self._st
        self.S.alpha_cut = self._ac


def build_input(spec):
    from pyuncertainnumber import pba
    k = spec[0]
    if k == "I":
        if len(spec) > 3 and spec[3] == "int":      # Python ints as bounds
            return pba.I(int(spec[1]), int(spec[2]))
        return pba.I(float(spec[1]), float(spec[2]))
    if k == "P":
        fam, a, b = spec[1], spec[2], spec[3]
        return getattr(pba, fam)(list(a), list(b)) if fam != "normal1" else pba.normal(list(a), [b[0]])
    if k == "D":
        if len(spec) > 3 and spec[3] == "list":     # parameters given as a list instead of a tuple
            return pba.Distribution(spec[1], list(spec[2]))
        return pba.Distribution(spec[1], tuple(spec[2]))
    raise ValueError(k)


def dependency_of(spec, d):
    """spec = None | (family, parameter[, style]); style says HOW the Dependency object is built:
    'params' Dependency(fam, params=p) (default) | 'pos' Dependency(fam, p) | 'kw' Dependency(fam, corr=p / theta=p) |
    'matrix' Dependency('gaussian', corr=<d x d matrix>) | 't' Dependency('t', corr=p[0], df=p[1]) | 'string' the str 'independence'"""
    from pyuncertainnumber.pba.dependency import Dependency
    if spec is None:
        return None
    fam, par = spec[0], spec[1]
    style = spec[2] if len(spec) > 2 else "params"
    if style == "string":
        return "independence"
    if fam == "independence":
        return Dependency("independence", k_dim=d)
    if fam == "t":
        return Dependency("t", corr=par[0], df=par[1])
    if (fam == "gaussian" and d != 2) or style == "matrix":
        c = np.full((d, d), float(par))
        np.fill_diagonal(c, 1.0)
        return Dependency("gaussian", corr=c)
    if style == "pos":
        return Dependency(fam, par)
    if style == "kw":
        return Dependency(fam, **{("corr" if fam == "gaussian" else "theta"): par})
    return Dependency(fam, params=par)


import contextlib


@contextlib.contextmanager
def grid_params(params):
    """the public discretisation (Params.p_lboundary, p_hboundary, steps, p_values) set to another grid, and ALWAYS set back"""
    _, _, _, Params = _mods()
    if not params:
        yield
        return
    old = (Params.p_lboundary, Params.p_hboundary, Params.steps, Params.p_values)
    try:
        pl, ph, steps = params
        Params.p_lboundary, Params.p_hboundary, Params.steps = pl, ph, steps
        Params.p_values = np.linspace(pl, ph, steps)
        yield
    finally:
        Params.p_lboundary, Params.p_hboundary, Params.steps, Params.p_values = old


def run_mixed(case, *a, **k):
    with grid_params(case.get("params")):
        out = _run_mixed(case, *a, **k)
        _, _, _, Params = _mods()
        out["pv"] = [float(p) for p in Params.p_values]
        return out


def roundtrip(obj, how):
    import copy, pickle
    if how == "copy":
        return copy.copy(obj)
    if how == "deepcopy":
        return copy.deepcopy(obj)
    if how == "pickle":
        return pickle.loads(pickle.dumps(obj))
    return obj


def _run_mixed(case, seed_override=None, dep_obj=None, inputs_via=None):
    mixed_up, Staircase, convert_pbox, Params = _mods()
    vars_ = [build_input(s) for s in case["inputs"]]
    if inputs_via:
        vars_ = [roundtrip(v, inputs_via) for v in vars_]
    f = X.Func(case["e"], len(vars_))
    fcall = X.make_callable(f, case.get("fstyle", "object"))
    via = case.get("via")
    s, st, n = case["cf"]
    kw = {}
    if st is not None:
        kw["subinterval_style"] = st
    if n is not None:
        kw["n_sub"] = n
    out = {}
    dep = dependency_of(case.get("dep"), len(vars_)) if case["method"] != "slicing" else None
    if dep_obj is not None:
        dep = dep_obj          # reuse the SAME Dependency object (a history: two runs on one object)
    with Capture() as cap:
        try:
            seed = case.get("seed") if seed_override is None else seed_override
            if via == "MixedPropagation":
                from pyuncertainnumber.propagation.p import MixedPropagation
                if case["method"] == "slicing":
                    r, lv = MixedPropagation(vars_, fcall, "slicing", interval_strategy=s).run(n_slices=case["k"], **kw), None
                else:
                    r, lv = MixedPropagation(vars_, fcall, "interval_monte_carlo", dependency=dep, interval_strategy=s).run(
                        n_sam=case["n_sam"], random_state=seed, side_effects=True, **kw)
            elif via == "Propagation":
                import pyuncertainnumber as pun
                import logging
                logging.disable(logging.CRITICAL)
                from pyuncertainnumber.propagation.p import Propagation
                us = [pun.UncertainNumber.fromConstruct(v) if hasattr(pun.UncertainNumber, "fromConstruct") else v for v in vars_]
                if case["method"] == "slicing":
                    r, lv = Propagation(us, fcall, "slicing", interval_strategy=s).run(n_slices=case["k"], **kw)._construct, None
                else:       # constructUN wraps the return value: no side effects; the levels are the ones seen by alpha_cut
                    r = Propagation(us, fcall, "interval_monte_carlo", dependency=dep, interval_strategy=s).run(
                        n_sam=case["n_sam"], random_state=seed, **kw)._construct
                    lv = np.array(cap.alphas, dtype=float).reshape(-1, len(vars_))
            elif case["method"] == "slicing":
                r = mixed_up.slicing(vars_, fcall, s, case["k"], **kw)
                lv = None
            else:
                r, lv = mixed_up.interval_monte_carlo(vars_, fcall, s, case["n_sam"], dependency=None if isinstance(dep, str) else dep,
                                                      random_state=seed, side_effects=True, **kw)
            out["raw"], out["vars"] = r, vars_
            out["vars_snap"] = [snapshot_input(v) for v in vars_]
            out["res"] = ("ok", np.array(r.left, dtype=float), np.array(r.right, dtype=float))
            out["levels"] = None if lv is None else np.array(lv, dtype=float)
        except BaseException as ex:  # noqa
            out["res"] = ("err", err_kind(ex))
            out["levels"] = None
    out["focal"], out["alphas"] = cap.focal, cap.alphas
    out["dep_obj"] = dep
    return out


def snapshot_input(v):
    I = X._I()
    if isinstance(v, I):
        return ("I", float(v.lo), float(v.hi))
    if hasattr(v, "left") and hasattr(v, "right"):
        return ("P", np.array(v.left, dtype=float).tolist(), np.array(v.right, dtype=float).tolist())
    return ("D", repr(getattr(v, "dist_family", None)), repr(getattr(v, "dist_params", None)))


def pbox_arrays(spec):
    _, _, convert_pbox, _ = _mods()
    p = convert_pbox(build_input(spec))
    return [float(v) for v in p.left], [float(v) for v in p.right]


# ----------------------------------------------------------------------------------------------
def gen_cases(ctx):
    rng = ctx.rng
    cases = []
    cap_cuts = ctx.scale(260, 1600)

    def rand_input(kind):
        if kind == "I":
            a, b = sorted([rng.randint(-24, 24) / 8, rng.randint(-24, 24) / 8])
            return ("I", a, b)
        if kind == "Ipos":
            a, b = sorted([rng.randint(1, 24) / 8, rng.randint(1, 24) / 8])
            return ("I", a, b)
        if kind == "P":
            fam = rng.choice(["normal", "uniform", "normal1"])
            if fam == "uniform":
                a = sorted([rng.randint(-8, 8) / 4, rng.randint(-8, 8) / 4])
                w = rng.randint(1, 8) / 4
                return ("P", "uniform", (a[0], a[1]), (a[1] + w, a[1] + w + rng.randint(0, 4) / 4))
            m = sorted([rng.randint(-8, 8) / 4, rng.randint(-8, 8) / 4])
            if m[0] == m[1]:
                m[1] += 0.5
            if fam == "normal1":
                return ("P", "normal1", tuple(m), (rng.choice([0.5, 1.0, 2.0]),))
            s = sorted([rng.choice([0.5, 1.0]), rng.choice([1.0, 1.5, 2.0])])
            return ("P", "normal", tuple(m), tuple(s))
        fam = rng.choice(["gaussian", "uniform"])
        if fam == "gaussian":
            return ("D", "gaussian", (rng.randint(-8, 8) / 4, rng.choice([0.5, 1.0, 2.0])))
        a = rng.randint(-8, 8) / 4
        return ("D", "uniform", (a, a + rng.randint(1, 8) / 4))

    def rand_cf(d):
        r = rng.random()
        if r < 0.4:
            return ("direct", None, None)
        if r < 0.7:
            return ("endpoints", None, None)
        return ("subinterval", rng.choice(["direct", "endpoints"]), rng.choice([1, 2, 3] if d < 3 else [1, 2]))

    def add(stream, inputs, e, cf, method, **kw):
        cases.append(dict(stream=stream, inputs=inputs, e=e, cf=cf, method=method, **kw))

    def choose_k(d, cf):
        per = 1 if cf[0] != "subinterval" else max(cf[2], 1) ** d
        ks = [k for k in range(2, 21) if (k ** d) * per <= cap_cuts]
        return rng.choice(ks + [ks[-1]])

    ops = ["add", "sub", "mul", "mul", "pow"]
    consts = [-2, -1, 0.5, 2, 3]
    kinds_pool = ["mixed", "mixed", "mixed", "allI", "allD", "allP"]
    # witnesses: single input in a list (repaired), both methods
    one = ("sub", ("mul", ("v", 0), ("v", 0)), ("v", 0))
    add("witness", [("P", "normal", (2.0, 3.0), (1.0, 1.0))], one, ("direct", None, None), "slicing", k=5)
    add("witness", [("P", "normal", (2.0, 3.0), (1.0, 1.0))], one, ("endpoints", None, None), "imc", n_sam=7, seed=3, dep=None)
    # witness: a single draw of the gaussian copula (repaired: u_sample returned shape (d,))
    add("witness", [("D", "gaussian", (-0.25, 1.0)), ("D", "uniform", (1.25, 3.25))], ("mul", ("v", 0), ("sub", ("v", 1), ("c", 1))),
        ("endpoints", None, None), "imc", n_sam=1, seed=11, dep=("gaussian", 0.5))
    # three inputs: every k^3 tuple; interval inputs repeat every focal image k (or k^2) times (multiplicity in the stack)
    three = ("sub", ("mul", ("v", 0), ("v", 1)), ("mul", ("v", 2), ("v", 0)))
    for k, inputs, cf in ((2, [("P", "normal", (0.0, 1.0), (1.0, 1.0)), ("P", "uniform", (0.0, 1.0), (2.0, 3.0)), ("D", "gaussian", (1.0, 0.5))], ("direct", None, None)),
                          (3, [("P", "normal1", (-1.0, 0.5), (1.0,)), ("I", -1.0, 2.0), ("I", 0.5, 1.5)], ("endpoints", None, None)),
                          (5, [("I", -1.0, 2.0), ("P", "uniform", (0.0, 1.0), (2.0, 3.0)), ("D", "uniform", (0.0, 2.0))], ("direct", None, None)),
                          (4, [("D", "gaussian", (0.0, 1.0)), ("D", "uniform", (1.0, 2.0)), ("D", "gaussian", (2.0, 0.5))], ("subinterval", "direct", 2))):
        add("three-inputs", inputs, three, cf, "slicing", k=k)
    add("multiplicity", [("P", "normal", (0.0, 1.0), (1.0, 1.0)), ("I", 1.0, 2.0)], ("mul", ("v", 0), ("v", 1)), ("direct", None, None), "slicing", k=7)
    add("multiplicity", [("I", 1.0, 2.0), ("P", "normal", (0.0, 1.0), (1.0, 1.0)), ("I", -1.0, 1.0)], three, ("endpoints", None, None),
        "imc", n_sam=30, seed=5, dep=("gaussian", 0.8))
    add("multiplicity", [("P", "uniform", (0.0, 1.0), (2.0, 3.0)), ("I", 0.0, 1.0)], ("add", ("v", 0), ("v", 1)), ("direct", None, None),
        "imc", n_sam=100, seed=9, dep=("clayton", 3.0))
    # thin but not degenerate inputs at large offsets / tiny magnitudes (an isclose in place of == collapses their cuts)
    lin2 = ("add", ("mul", ("v", 0), ("v", 1)), ("v", 0))
    thinI = [("I", 200000.0, 200001.0), ("I", 1000.0, 1000.03), ("I", 300.0, 300.002), ("I", 2e-9, 8e-9), ("I", 1e6, 1e6 + 1e-3)]
    thin_cases = [
        ([("I", 200000.0, 200001.0), ("I", 3.0, 4.0)], ("add", ("v", 1), ("mul", ("c", 10), ("sub", ("v", 0), ("c", 200000)))), ("endpoints", None, None), "slicing", dict(k=3)),
        ([("I", 1000.0, 1000.03), ("I", 3.0, 4.0)], lin2, ("subinterval", "endpoints", 4), "slicing", dict(k=2)),
        ([("I", 300.0, 300.002), ("D", "gaussian", (1.0, 0.5))], lin2, ("endpoints", None, None), "imc", dict(n_sam=9, seed=4, dep=None)),
        ([("P", "normal", (200000.0, 200001.0), (1.0, 1.0)), ("I", 3.0, 4.0)], lin2, ("endpoints", None, None), "slicing", dict(k=4)),
        ([("P", "uniform", (1000.0, 1000.01), (1000.02, 1000.03)), ("I", 2.0, 3.0)], lin2, ("subinterval", "endpoints", 2), "imc", dict(n_sam=12, seed=8, dep=("gaussian", 0.5))),
        ([("I", 2e-9, 8e-9), ("I", -5e-9, 3e-9)], ("sub", ("mul", ("c", 2), ("v", 0)), ("v", 1)), ("endpoints", None, None), "slicing", dict(k=3)),
        ([("I", 2e-9, 8e-9), ("D", "uniform", (1.0, 2.0))], ("sub", ("v", 0), ("mul", ("c", 1e-9), ("v", 1))), ("subinterval", "endpoints", 3), "imc", dict(n_sam=7, seed=2, dep=None)),
        ([("I", 1e6, 1e6 + 1e-3), ("I", -1.0, 2.0)], ("sub", ("v", 0), ("v", 1)), ("direct", None, None), "slicing", dict(k=3)),
    ]
    for inputs, e, cf, method, kw in thin_cases:
        add("thin", inputs, e, cf, method, **kw)
    for _ in range(ctx.scale(6, 100)):
        d = rng.choice([1, 2, 3])
        inputs = [rng.choice(thinI) if (j == 0 or rng.random() < 0.3) else rand_input(rng.choice(["I", "P", "D"])) for j in range(d)]
        rng.shuffle(inputs)
        e = X.gen_expr(rng, d, 2, ["add", "sub", "mul"], [-2, 0.5, 2, 3])
        cf = rng.choice([("endpoints", None, None), ("subinterval", "endpoints", rng.choice([2, 4])), ("direct", None, None)])
        if rng.random() < 0.5:
            add("thin", inputs, e, cf, "slicing", k=rng.choice([2, 3, 4]))
        else:
            add("thin", inputs, e, cf, "imc", n_sam=rng.choice([3, 10]), seed=rng.randint(0, 10 ** 6), dep=None)
    # operand representation: Python-int interval bounds, distribution parameters given as a list
    add("representation", [("I", 2, 5, "int"), ("D", "gaussian", (1.0, 0.5), "list")], lin2, ("endpoints", None, None), "slicing", k=4)
    add("representation", [("D", "uniform", (1.0, 3.0), "list"), ("I", -1, 2, "int"), ("P", "normal", (0.0, 1.0), (1.0, 1.0))], three, ("direct", None, None),
        "imc", n_sam=8, seed=6, dep=None)
    add("representation", [("I", 1, 3, "int"), ("I", 2, 4, "int")], lin2, ("subinterval", "direct", 2), "slicing", k=3)
    # less common entry points of the same functionality
    add("entry-point", [("P", "normal", (0.0, 1.0), (1.0, 1.0)), ("I", 1.0, 2.0)], lin2, ("direct", None, None), "slicing", k=5, via="MixedPropagation")
    add("entry-point", [("D", "gaussian", (0.0, 1.0)), ("I", 1.0, 2.0)], lin2, ("endpoints", None, None), "imc", n_sam=11, seed=13, dep=("gaussian", 0.3), via="MixedPropagation")
    add("entry-point", [("P", "uniform", (0.0, 1.0), (2.0, 3.0)), ("D", "uniform", (1.0, 2.0))], lin2, ("subinterval", "endpoints", 2), "imc", n_sam=6, seed=1, dep=None, via="MixedPropagation")
    add("entry-point", [("P", "normal", (0.0, 1.0), (1.0, 1.0)), ("I", 1.0, 2.0), ("D", "gaussian", (2.0, 0.5))], three, ("endpoints", None, None), "slicing", k=3, via="Propagation")
    # API layers x how the Dependency object was built: the levels must be the sample of THAT dependency
    dep_specs = [("gaussian", 0.9, "pos"), ("gaussian", 0.9, "params"), ("gaussian", 0.9, "kw"), ("gaussian", -0.6, "matrix"),
                 ("frank", 8.0, "kw"), ("frank", 8.0, "pos"), ("clayton", 2.0, "kw"), ("gumbel", 2.0, "kw"), ("t", (-0.8, 4), "kw"),
                 ("independence", None), ("independence", None, "string"), None]
    api_inputs = [[("P", "normal", (0.0, 1.0), (1.0, 1.0)), ("D", "gaussian", (1.0, 0.5))],
                  [("D", "uniform", (1.0, 2.0)), ("I", 1.0, 2.0)],
                  [("P", "uniform", (0.0, 1.0), (2.0, 3.0)), ("P", "normal1", (0.0, 0.5), (1.0,))]]
    for j, dsp in enumerate(dep_specs):
        for via in ("MixedPropagation", "Propagation", None):
            if via is None and (dsp is None or len(dsp) < 3 or dsp[2] not in ("kw", "matrix")):
                continue        # the plain function is exercised by the random streams; here only the keyword-built objects
            add("api-layer", api_inputs[j % 3], lin2 if j % 2 else ("sub", ("mul", ("c", 2), ("v", 0)), ("v", 1)),
                (("direct", None, None), ("endpoints", None, None), ("subinterval", "endpoints", 2))[j % 3], "imc",
                n_sam=(6, 10, 16)[j % 3], seed=100 + j, dep=dsp, via=via, fstyle=("object", "closure", "lambda")[j % 3])
    add("api-layer", [("P", "normal", (0.0, 1.0), (1.0, 1.0)), ("D", "gaussian", (1.0, 0.5)), ("I", 0.5, 1.5)], three, ("endpoints", None, None), "imc",
        n_sam=12, seed=77, dep=("gaussian", 0.5, "matrix"), via="MixedPropagation")
    add("api-layer", [("P", "normal", (0.0, 1.0), (1.0, 1.0)), ("D", "gaussian", (1.0, 0.5)), ("I", 0.5, 1.5)], three, ("direct", None, None), "imc",
        n_sam=12, seed=78, dep=("gaussian", 0.5, "matrix"), via="Propagation")
    # extreme levels: interval Monte Carlo draws below the first and above the last grid level (find_nearest outside the grid);
    # the seeds are searched here with statsmodels, so that the stream always contains such draws
    def find_seed(dsp, d, n, col, low):
        dep0 = dependency_of(dsp if dsp is not None else ("independence", None), d)
        for sd in range(0, 4000):
            u = np.atleast_2d(dep0.copula.rvs(n, random_state=sd))
            if (low and u[:, col].min() < 0.001) or (not low and u[:, col].max() > 0.999):
                return sd
        return None
    xl_inputs = [("P", "normal", (0.0, 1.0), (1.0, 1.5)), ("D", "gaussian", (1.0, 0.5))]
    for j, (dsp, n_sam, col, low) in enumerate([(None, 15, 0, True), (None, 15, 1, False), (("gaussian", 0.6, "kw"), 25, 0, True),
                                                (("clayton", 2.0, "pos"), 25, 1, True), (("frank", 5.0, "kw"), 40, 0, False),
                                                (("independence", None), 60, 1, True)]):
        sd = find_seed(dsp, 2, n_sam, col, low)
        if sd is not None:
            add("extreme-levels", xl_inputs, lin2 if j % 2 else ("sub", ("mul", ("c", 2), ("v", 0)), ("v", 1)),
                (("direct", None, None), ("endpoints", None, None), ("subinterval", "direct", 2))[j % 3], "imc", n_sam=n_sam, seed=sd, dep=dsp,
                via=(None, "MixedPropagation", "Propagation")[j % 3])
    sd = find_seed(None, 1, 30, 0, True)
    if sd is not None:
        add("extreme-levels", [("P", "uniform", (0.0, 1.0), (2.0, 3.0))], one, ("endpoints", None, None), "imc", n_sam=30, seed=sd, dep=None)
    # small problems exhaustively: d in 1..3 inputs x n_sub in 0..3 x both styles, both methods (single-input tilings included)
    small_inputs = [("P", "normal", (1.0, 2.0), (0.5, 1.0)), ("I", 1.0, 5.0), ("D", "uniform", (1.0, 2.0))]
    small_fns = {1: ("add", ("mul", ("c", 3), ("v", 0)), ("c", 1)), 2: lin2, 3: three}
    for d in (1, 2, 3):
        for n in ((0, 1, 2, 3) if d < 3 else ctx.scale((2,), (0, 1, 2, 3))):
            for st in ("direct", "endpoints"):
                for rot in (range(3) if (d == 1 and n >= 1) else ((n + d) % 3,)):     # a single input: every kind of input
                    inputs = [small_inputs[(rot + j) % 3] for j in range(d)]
                    if (n + rot + (st == "direct")) % 2 == 0:
                        add("small", inputs, small_fns[d], ("subinterval", st, n), "slicing", k=2 if d == 3 else 3)
                    else:
                        add("small", inputs, small_fns[d], ("subinterval", st, n), "imc", n_sam=4, seed=n + rot, dep=None)
    for inp in small_inputs:                    # one input, the two plain strategies
        add("small", [inp], small_fns[1], ("direct", None, None), "slicing", k=4)
        add("small", [inp], small_fns[1], ("endpoints", None, None), "imc", n_sam=5, seed=0, dep=None)
    # slice counts at the equalities with the 200-level grid (levels on the grid points, between them, one more, two fewer)
    for k in ctx.scale((199, 200), (198, 199, 200, 201)):
        add("grid-sizes", [("P", "normal", (0.0, 1.0), (1.0, 1.5))], one, ("direct", None, None) if k % 2 else ("endpoints", None, None), "slicing", k=k)
    # magnitudes: power-of-two and decimal scalings of intervals and precise distributions, degree-one response
    lin = ("sub", ("mul", ("c", 2), ("v", 0)), ("v", 1))
    for sc in (2.0 ** -70, 2.0 ** -30, 2.0 ** 36, 1e-19, 1e-170, 1e150):
        add("scaled", [("I", 1.0 * sc, 3.0 * sc), ("D", "uniform", (2.0 * sc, 5.0 * sc))], lin, ("endpoints", None, None), "slicing", k=3, mag_floor=0.0)
        add("scaled", [("D", "uniform", (-1.0 * sc, 1.0 * sc)), ("I", -2.0 * sc, 1.0 * sc)], lin, ("subinterval", "direct", 2), "imc", n_sam=6, seed=3, dep=None, mag_floor=0.0)
    # falsy but valid arguments: seed 0, a zero correlation, the interval [0,0], n_sub = 0
    add("falsy", [("P", "normal", (0.0, 1.0), (1.0, 1.0)), ("I", 0.0, 0.0)], lin2, ("endpoints", None, None), "imc", n_sam=9, seed=0, dep=("gaussian", 0.0, "pos"))
    add("falsy", [("I", 0.0, 0.0), ("D", "gaussian", (0.0, 1.0))], lin, ("subinterval", "endpoints", 0), "imc", n_sam=9, seed=0, dep=("gaussian", 0.0, "kw"), via="MixedPropagation")
    add("falsy", [("I", 0.0, 0.0), ("P", "uniform", (0.0, 0.0), (1.0, 2.0))], lin, ("direct", None, None), "slicing", k=3)
    # the public discretisation changed (and set back): other boundaries, other numbers of steps
    pg_inputs = [("P", "normal", (0.0, 1.0), (1.0, 1.5)), ("D", "gaussian", (1.0, 0.5))]
    for j, prm in enumerate([(0.05, 0.95, 200), (0.05, 0.95, 100), (0.001, 0.999, 40), (0.01, 0.99, 300)]):
        add("params-grid", pg_inputs, lin2, (("direct", None, None), ("endpoints", None, None))[j % 2], "slicing", k=3 + j, params=prm)
        add("params-grid", [("P", "uniform", (0.0, 1.0), (2.0, 3.0)), ("I", 1.0, 2.0)], lin, ("subinterval", "endpoints", 2), "imc",
            n_sam=9, seed=5 + j, dep=("gaussian", 0.5, "kw") if j % 2 else None, params=prm)
    add("params-grid", pg_inputs, lin2, ("direct", None, None), "slicing", k=4)       # the default grid again, after the changes
    # N a multiple of 1000: the lowest grid level 0.001 coincides exactly with the cumulated mass 1/N * (N/1000)
    add("coincidence", [("P", "normal", (0.0, 1.0), (1.0, 1.5)), ("D", "gaussian", (1.0, 0.5)), ("P", "uniform", (0.0, 1.0), (2.0, 3.0))], three,
        ("direct", None, None), "slicing", k=10)
    add("coincidence", [("P", "normal", (0.0, 1.0), (1.0, 1.5)), ("D", "uniform", (1.0, 3.0))], lin2, ("direct", None, None), "imc",
        n_sam=ctx.scale(125, 1000), seed=12, dep=None, light=True)       # 25/125 = 0.2 is not a level, 1000 in the thorough tier
    # sequences: different response functions with one __qualname__ on the same inputs, one after the other
    seq_inputs = [("P", "normal", (0.0, 1.0), (1.0, 1.0)), ("I", 1.0, 2.0)]
    for fstyle in ("closure", "lambda"):
        for e in (lin2, ("mul", ("v", 0), ("v", 1)), ("sub", ("mul", ("c", 3), ("v", 1)), ("v", 0))):
            add("sequence", seq_inputs, e, ("endpoints", None, None), "slicing", k=3, fstyle=fstyle)
            add("sequence", seq_inputs, e, ("subinterval", "endpoints", 2), "imc", n_sam=5, seed=17, dep=None, fstyle=fstyle)
    n_s = ctx.scale(28, 350)
    n_i = ctx.scale(28, 350)
    for which, count in (("slicing", n_s), ("imc", n_i)):
        made = 0
        tries = 0
        while made < count and tries < 50 * count:
            tries += 1
            d = rng.choice([1, 2, 2, 3])
            kp = rng.choice(kinds_pool)
            if kp == "allI":
                inputs = [rand_input("I") for _ in range(d)]
            elif kp == "allD":
                inputs = [rand_input("D") for _ in range(d)]
            elif kp == "allP":
                inputs = [rand_input("P") for _ in range(d)]
            else:
                inputs = [rand_input(rng.choice(["I", "P", "P", "D"])) for _ in range(d)]
            use_div = rng.random() < 0.25
            e = X.gen_expr(rng, d, rng.choice([2, 3]), ops + (["div"] if use_div else []) + ([rng.choice(["exp", "sqrt"])] if rng.random() < 0.2 else []), consts)
            cf = rand_cf(d)
            # the function must be defined (interval evaluation succeeds) on the box of supports
            sup = []
            for s in inputs:
                l, r = pbox_arrays(s)
                sup.append((l[0], r[-1]))
            rr, _ = X.run_b2b(e, sup, "L", "direct", None, None)
            if rr[0] != "ok" or not all(math.isfinite(v) and abs(v) < 1e9 for v in rr[1:]):
                continue
            fstyle = ("object", "closure", "lambda")[made % 3]
            ks = set(i[0] for i in inputs)
            mixed_ok = ("P" in ks) or ({"I", "D"} <= ks)
            via = (None, "MixedPropagation", "Propagation", None)[made % 4] if mixed_ok else None
            if which == "slicing":
                add("slicing-" + kp, inputs, e, cf, "slicing", k=choose_k(d, cf), fstyle=fstyle, via=via)
            else:
                per = 1 if cf[0] != "subinterval" else max(cf[2], 1) ** d
                n_sam = rng.choice([1, 2, 5, 17, 40, 70])
                n_sam = max(1, min(n_sam, cap_cuts // per))
                fam = rng.choice([None, "independence", "gaussian", "frank", "clayton"])
                if fam in ("frank", "clayton") and d != 2:
                    fam = "gaussian" if d == 3 else None
                if fam == "gaussian" and d == 1:
                    fam = None
                dep = None if fam is None else (fam, {"independence": None, "gaussian": rng.choice([-0.5, 0.3, 0.8] if d == 2 else [-0.3, 0.3, 0.8]),
                                                      "frank": rng.choice([2.0, 5.0]), "clayton": rng.choice([1.0, 3.0])}[fam])
                if dep is not None and dep[0] in ("gaussian", "frank", "clayton") and d == 2:
                    dep = (dep[0], dep[1], ("params", "kw", "pos")[made % 3])
                add("imc-" + kp, inputs, e, cf, "imc", n_sam=n_sam, seed=rng.randint(0, 10 ** 6), dep=dep, fstyle=fstyle, via=via)
            made += 1
    return cases


# ----------------------------------------------------------------------------------------------
def own_cut(pv, left, right, alpha):
    """oracle's own alpha-cut: first index minimising |p - alpha| in exact arithmetic"""
    a = F(alpha)
    best, bi = None, 0
    for i, p in enumerate(pv):
        dd = abs(p - a)
        if best is None or dd < best:
            best, bi = dd, i
    return left[bi], right[bi]


def feat(case, what, impl=None):
    s, st, n = case["cf"]
    kinds = "".join(sorted(set(i[0] for i in case["inputs"])))
    dep = case.get("dep")
    return {"call": case["method"], "strategy": s, "style": st, "n_sub": n, "d": len(case["inputs"]), "kinds": kinds,
            "via": case.get("via") or "function", "dep_family": dep[0] if dep else None,
            "dep_style": (dep[2] if len(dep) > 2 else "params") if dep else None,
            "what": what, "symptom": ("raises:" + impl[1]) if impl is not None and impl[0] == "err" else "value"}


def cj(case, **kw):
    d = {k: v for k, v in case.items() if not k.startswith("_")}
    d["expr"] = X.show_expr(case["e"])
    d.update(kw)
    return d


def run(ctx: core.Check, cases=None):
    core.stub_moments()
    ctx.rule = ("inputs: lists of 1..3 of {interval, p-box (normal/uniform with interval parameters), precise distribution "
                "(gaussian/uniform)}, all-interval / all-precise / all-p-box / mixed; response functions from the C13 grammar "
                "(+ - * / pow exp sqrt, repeated variables) defined on the box of supports; strategies direct, endpoints, "
                "subinterval x {direct,endpoints} x n_sub 1..3; slicing with k in 2..20 (k^d capped), interval Monte Carlo with "
                "n_sam in {1..100}, seeds, copulas {default, independence, gaussian, frank, clayton}. One evaluation = one call of "
                "slicing / interval_monte_carlo (IMC is run twice for reproducibility); all are non-trivial; distinct on the full case. "
                "Fixed streams: three-inputs, multiplicity, thin (cuts of relative width 1e-9..1e-5 at large offsets, tiny magnitudes), "
                "representation (int bounds, list parameters), entry-point (MixedPropagation, Propagation), api-layer (interval Monte Carlo "
                "through the function, MixedPropagation and Propagation x Dependency built positionally / params= / corr= / theta= / "
                "t(corr, df) / correlation matrix / independence object / the string / None; the levels must equal u_sample of THAT "
                "object, of an identically built one, and statsmodels' rvs), the random streams rotate the API layer and the "
                "construction style, extreme-levels (seeds searched so that a draw falls below the first / above the last grid level), small "
                "(1..3 inputs x n_sub 0..3 x both styles, single-input tilings), grid-sizes (k = 198..201), scaled (2^-70 .. 2^36, "
                "1e-170 .. 1e150), falsy (seed 0, correlation 0.0, the interval [0,0], n_sub 0); Dependency objects and inputs are also "
                "passed through copy / deepcopy / pickle before use; sequence (functions sharing a "
                "__qualname__). Every focal interval is also compared with exact corner / tile-corner evaluation done without b2b; every "
                "returned p-box and input object is re-read after all calls.")
    ctx.assumptions = [
        "p-box construction and the conversion of intervals / distributions to p-boxes (convert_pbox) are inputs: the model "
        "receives the 200 left/right quantiles",
        "the copula sample of interval Monte Carlo (statsmodels RNG) is an input of the model; reproducibility is tested, not proved",
        "stacking is the C08 model Pun.Dss.stacking (equal masses): the tie compares the focal list handed to it AND the returned "
        "Staircase, except at grid levels that coincide with k/N (binary64 cumsum, see C08); the oracle independently checks "
        "every level against the rank-ceil(p*N) focal endpoint",
        "nearest-level ties of alpha_cut are decided in exact arithmetic on the binary64 grid values (float subtraction of nearby "
        "levels is exact)",
        "rounding as in C13: focal intervals within 2^12*size ulp of the largest intermediate",
        "moments of every p-box are stubbed in the harness process (not part of this property)",
    ]
    ctx.lean_stage(["Pun.Props.C14"])
    if cases is None:
        cases = gen_cases(ctx)
    _, _, _, Params = _mods()
    pvf = [float(p) for p in Params.p_values]
    pv = [F(p) for p in pvf]
    pv_tok = ql(pvf)
    # ---- real code ---------------------------------------------------------------------------------
    outs = []
    for c in cases:
        o = run_mixed(c)
        with grid_params(c.get("params")):
            c["_arrays"] = [pbox_arrays(s) for s in c["inputs"]]
        c["_pv"] = [F(p) for p in o["pv"]]
        c["_pvtok"] = ql(o["pv"])
        c["_bounds"] = (c["params"][0], c["params"][1]) if c.get("params") else (Params.p_lboundary, Params.p_hboundary)
        outs.append(o)
    # ---- model ---------------------------------------------------------------------------------------
    def mk_req(i, tab):
        c, o = cases[i], outs[i]
        d = len(c["inputs"])
        vtok = "|".join(ql(l) + "|" + ql(r) for l, r in c["_arrays"])
        s, st, n = c["cf"]
        if c["method"] == "slicing":
            grid = sorted(set(o["alphas"])) if o["alphas"] else [float(v) for v in np.linspace(c["_bounds"][0], c["_bounds"][1], c["k"])]
            mode, lv = "slice", ql(grid)
        else:
            rows = o["levels"] if o["levels"] is not None else np.array(o["alphas"]).reshape(-1, d)
            mode, lv = "imc", ql([float(v) for v in np.asarray(rows).ravel()])
        return (f"mix {mode} {c['_pvtok']} {vtok} {lv} {s} {st or 'none'} {n if n is not None else 'none'} "
                f"{X.wire_expr(c['e'])} {tab}")

    replies = X.model_with_needs("C14", mk_req, len(cases))
    grid_reqs = [f"grid {q(c['_bounds'][0])} {q(c['_bounds'][1])} {c['k']}" for c in cases if c["method"] == "slicing"]
    grid_reps = iter(core.model_batch("C14", grid_reqs))

    for c, o, rep in zip(cases, outs, replies):
        d = len(c["inputs"])
        ctx.count(json.dumps(cj(c), default=str), nontrivial=True, stream=c["stream"])
        impl = o["res"]
        ctx.bump("impl:" + (impl[1] if impl[0] == "err" else "value"))
        tol = tol_of(c)
        # ---------------- tie: focal list ----------------
        if rep == "unavail":
            ctx.bump("model-unavailable")
        else:
            t = rep.split()
            if t[0] == "ok":
                flat = unql(t[2])
                mf = [(flat[2 * i], flat[2 * i + 1]) for i in range(len(flat) // 2)]
                if impl[0] == "ok" and o["focal"] is not None and all(fc[0] == "ok" for fc in o["focal"]):
                    fi = [(F(fc[1]), F(fc[2])) for fc in o["focal"]]
                    eq = lambda u, w: len(u) == len(w) and all(abs(a - x) <= tol and abs(b - y) <= tol for (a, b), (x, y) in zip(u, w))
                    same = eq(fi, mf) or eq(sorted(fi), sorted(mf))      # stacking does not depend on the order
                else:
                    same = False
            elif t[0] == "err":
                same = impl[0] == "err" and impl[1] == t[1]
            else:
                same = False
            if same:
                ctx.tie_ok()
            else:
                ctx.tie_bad(c["stream"], cj(c), [impl[0], None if impl[0] == "ok" else impl[1], (o["focal"] or [])[:4]], rep[:300])
            # ---------------- tie: the p-box stacked from the focal list (C08 model of `stacking`) ----------------
            if t[0] == "ok" and same and len(t) >= 6 and t[3] == "pbox":
                ml, mr = unql(t[4]), unql(t[5])
                N = len(o["focal"])
                bad = None
                if len(ml) != len(impl[1]) or len(mr) != len(impl[2]):
                    bad = "length"
                else:
                    for i, p in enumerate(c["_pv"]):
                        x = p * N
                        if abs(x - round(x)) <= F(1, 10 ** 6):
                            continue        # a grid level on k/N: binary64 cumsum may fall on either side (C08)
                        if abs(F(float(impl[1][i])) - ml[i]) > tol or abs(F(float(impl[2][i])) - mr[i]) > tol:
                            bad = i
                            break
                if bad is None:
                    ctx.tie_ok()
                else:
                    ctx.tie_bad(c["stream"], cj(c, what="stacked p-box", at=bad),
                                [float(impl[1][bad]), float(impl[2][bad])] if isinstance(bad, int) else [len(impl[1])],
                                [float(ml[bad]), float(mr[bad])] if isinstance(bad, int) else [len(ml)])
            elif t[0] == "ok" and same and len(t) >= 5 and t[3] == "stackerr":
                ctx.tie_bad(c["stream"], cj(c, what="stacked p-box"), "ok", " ".join(t[3:5]))
        # ---------------- tie: slicing grid ----------------
        if c["method"] == "slicing":
            g = next(grid_reps)
            mg = unql(g.split()[1])
            ig = sorted(set(o["alphas"]))
            if len(mg) == len(ig) and all(abs(F(a) - b) <= 4 * F(core.ulp(1.0)) for a, b in zip(ig, mg)):
                ctx.tie_ok()
            else:
                ctx.tie_bad(c["stream"], cj(c, what="grid"), ig[:6], g[:200])
        # ---------------- oracle ----------------
        oracle(ctx, c, o, c["_pv"], tol)
        if (len(ctx.samples) + ctx.evaluations) % 40 == 0:
            verify_kept(ctx, cases[:len(outs)], outs)
        if len(ctx.samples) < 6 and impl[0] == "ok":
            ctx.sample(cj(c, n_focal=len(o["focal"] or []), focal_head=[list(f) for f in (o["focal"] or [])[:3]],
                          support=[float(impl[1][0]), float(impl[2][-1])]))
    verify_kept(ctx, cases, outs)
    # floating-point errors raise and warnings are errors: the same p-box or an exception, never another value; and afterwards
    # the default settings give the recorded result again
    import warnings as _w
    picked = [(c, o) for c, o in zip(cases, outs) if o["res"][0] == "ok" and c["stream"] in ("small", "thin", "api-layer", "params-grid", "scaled")][::7][:ctx.scale(10, 60)]
    for c, o in picked:
        with np.errstate(all="raise"), _w.catch_warnings():
            _w.simplefilter("error")
            o6 = run_mixed(c)
        ctx.evaluations += 1
        r6 = o6["res"]
        if r6[0] == "ok" and not (np.array_equal(r6[1], o["res"][1]) and np.array_equal(r6[2], o["res"][2])):
            ctx.fail(feat(c, "differs-under-strict-fp"), cj(c), "under np.errstate(all='raise') and warnings as errors the call returns a DIFFERENT p-box")
        elif r6[0] != "ok":
            ctx.bump("strict-fp:raised")
    for c, o in picked[:3]:
        o7 = run_mixed(c)
        ctx.evaluations += 1
        if o7["res"][0] != "ok" or not (np.array_equal(o7["res"][1], o["res"][1]) and np.array_equal(o7["res"][2], o["res"][2])):
            ctx.fail(feat(c, "state-not-restored"), cj(c), "after the strict floating-point runs the default settings no longer give the recorded p-box")


def verify_kept(ctx, cases, outs):
    """every returned Staircase and every input object, re-read after ALL calls were made"""
    for c, o in zip(cases, outs):
        if o["res"][0] != "ok" or o.get("raw") is None:
            continue
        l, r = np.array(o["raw"].left, dtype=float), np.array(o["raw"].right, dtype=float)
        if not (np.array_equal(l, o["res"][1]) and np.array_equal(r, o["res"][2])):
            ctx.fail(feat(c, "result-changed-after-return"), cj(c),
                     "the p-box returned by this call reads differently after later calls (its arrays are shared with other results)")
        if [snapshot_input(v) for v in o["vars"]] != o["vars_snap"]:
            ctx.fail(feat(c, "operand-modified"), cj(c), "an input object was modified by the propagation or by a later call")


def independent_focal(c, box):
    """what b2b must return on one box of cuts, WITHOUT calling b2b: exact evaluation at the corners (vertex strategy), at the
    lattice of tile corners (subinterval/vertex); for direct evaluation only an inner bound (corner and midpoint values)"""
    s, st, n = c["cf"]
    e = c["e"]
    fb = [(F(a), F(b)) for a, b in box]
    if s == "endpoints" or (s == "subinterval" and st == "endpoints"):
        m = 1 if s == "endpoints" else max(n, 1)
        ks = [sorted(set(X.knots(a, b, m))) for a, b in fb]
        vals = [X.evq(e, list(p)) for p in itertools.product(*ks)]
        if any(v is None for v in vals):
            return None
        return ("exact", min(vals), max(vals))
    pts = list(itertools.product(*[(a, b) for a, b in fb])) + [tuple((a + b) / 2 for a, b in fb)]
    vals = [X.evq(e, list(p)) for p in pts]
    vals = [v for v in vals if v is not None]
    if not vals:
        return None
    return ("inner", min(vals), max(vals))


def tol_of(c):
    sup = [(l[0], r[-1]) for l, r in c["_arrays"]]
    fake = dict(e=c["e"], box=sup, exact=False, mag_floor=c.get("mag_floor", 1.0))
    return X.tolerance(fake)



def _repro_diag(o, o2, left, right, lv):
    """what differs between two runs that must be identical (kept in the replay file)"""
    d = {"res2": o2["res"][0]}
    try:
        r2 = o2["res"]
        if r2[0] == "ok":
            d.update(left_maxdiff=float(np.max(np.abs(r2[1] - left))), right_maxdiff=float(np.max(np.abs(r2[2] - right))),
                     n_left_diff=int(np.sum(r2[1] != left)), n_right_diff=int(np.sum(r2[2] != right)))
        d["levels_equal"] = bool(o2["levels"] is not None and lv is not None and np.array_equal(o2["levels"], lv))
        f1, f2 = o.get("focal"), o2.get("focal")
        if f1 is not None and f2 is not None:
            d["n_focal"] = [len(f1), len(f2)]
            diff = [i for i, (a, b) in enumerate(zip(f1, f2)) if a != b]
            d["focal_diff_idx"] = diff[:5]
            if diff:
                d["focal_first_diff"] = [repr(f1[diff[0]]), repr(f2[diff[0]])]
        a1, a2 = o.get("alphas"), o2.get("alphas")
        if a1 is not None and a2 is not None:
            d["alphas_equal"] = bool(len(a1) == len(a2) and all(x == y for x, y in zip(a1, a2)))
    except Exception as e:  # diagnostics must never break the check
        d["diag_error"] = repr(e)[:120]
    return d


def _confirm_not_reproducible(ctx, c, same_object):
    """A reproducibility failure must itself be reproducible before it is reported: run the pair again
    (fresh inputs; for same_object two runs on ONE Dependency object).  A seeded defect (e.g. a generator kept
    per Dependency object, an unseeded draw) shows again; a one-off disagreement that cannot be replayed is
    counted in the evidence as `transient-not-reproducible-unconfirmed` and not reported."""
    def eq(a, b):
        ra, rb = a["res"], b["res"]
        return (ra[0] == rb[0] == "ok" and np.array_equal(ra[1], rb[1]) and np.array_equal(ra[2], rb[2])
                and a["levels"] is not None and b["levels"] is not None and np.array_equal(a["levels"], b["levels"]))
    for _ in range(2):
        a = run_mixed(c)
        b = run_mixed(c, dep_obj=a["dep_obj"]) if (same_object and a.get("dep_obj") is not None) else run_mixed(c)
        ctx.evaluations += 2
        if not eq(a, b):
            return True
    ctx.bump("transient-not-reproducible-unconfirmed")
    return False


def oracle(ctx, c, o, pv, tol):
    impl = o["res"]
    d = len(c["inputs"])
    s, st, n = c["cf"]
    if impl[0] != "ok":
        ctx.fail(feat(c, "no-result", impl), cj(c, impl=list(impl)),
                 f"{c['method']} on {d} input(s) {c['inputs']} with {c['cf']} raises {impl[1]} although the function is defined on the supports")
        return
    left, right = impl[1], impl[2]
    focal = o["focal"]
    if focal is None or not all(fc[0] == "ok" for fc in focal):
        ctx.fail(feat(c, "focal-not-intervals"), cj(c), "the container handed to stacking is not a list of scalar intervals")
        return
    alphas = o["alphas"]
    if len(alphas) % d != 0 or len(alphas) // d != len(focal):
        ctx.fail(feat(c, "cuts-vs-focal-count"), cj(c, n_alpha=len(alphas), n_focal=len(focal)),
                 f"{len(alphas)} alpha-cuts for {d} inputs but {len(focal)} focal intervals")
        return
    rows = [tuple(alphas[i * d:(i + 1) * d]) for i in range(len(focal))]
    # levels in [0,1]
    if any(not (0.0 <= a <= 1.0) for a in alphas):
        ctx.fail(feat(c, "level-outside-unit"), cj(c), "a probability level outside [0,1] was cut")
    # 1. every focal interval is b2b of the box of nearest-level cuts (own argmin, real b2b on that box)
    arrays = c["_arrays"]
    exp_focal = []
    cache = {}
    for row in rows:
        box = []
        for (l, r), a in zip(arrays, row):
            key = (id(l), a)
            if key not in cache:
                cache[key] = own_cut(pv, l, r, a)
            box.append(cache[key])
        bkey = tuple(box)
        if bkey not in cache:
            n_b2b = cache.get("#b2b", 0)
            if n_b2b >= ctx.scale(48, 400):     # the real b2b on a sample of the distinct cut boxes; 1b below and the tie cover all
                exp_focal.append(None)
                continue
            cache["#b2b"] = n_b2b + 1
            rr, _ = X.run_b2b(c["e"], box, "L", s, st, n)
            cache[bkey] = rr
        exp_focal.append(cache[bkey])
    # 1b. ... and, independently of b2b, of exact evaluation at the corners / tile corners of that box
    seen_boxes = {}
    for row, fc in zip(rows, focal):
        box = tuple(cache[(id(l), a)] for (l, r), a in zip(arrays, row))
        if box in seen_boxes:
            continue
        seen_boxes[box] = True
        if len(seen_boxes) > 150:
            break
        ind = independent_focal(c, box)
        if ind is None or fc[0] != "ok":
            continue
        kind, lo_i, hi_i = ind
        lo_f, hi_f = F(fc[1]), F(fc[2])
        inex = isinstance(lo_i, float) or isinstance(hi_i, float)
        lo_i, hi_i = F(lo_i), F(hi_i)
        t2 = tol if not inex else max(tol, F(1, 10 ** 9) * max(abs(lo_i), abs(hi_i), 1))
        bad = (abs(lo_f - lo_i) > t2 or abs(hi_f - hi_i) > t2) if kind == "exact" else (lo_f > lo_i + t2 or hi_f < hi_i - t2)
        if bad:
            ctx.fail(feat(c, "focal-not-independent-image"), cj(c, box=[list(b) for b in box], focal=list(fc), independent=[kind, float(lo_i), float(hi_i)]),
                     f"focal interval {fc[1:]} of the cut box {box}: exact evaluation at the "
                     f"{'corners / tile corners gives' if kind == 'exact' else 'corners and midpoint reaches'} [{float(lo_i)},{float(hi_i)}]")
            break
    pairs = [(i, f_, x_) for i, (f_, x_) in enumerate(zip(focal, exp_focal)) if x_ is not None]
    if any(r[0] != "ok" for _, _, r in pairs):
        bad = next(r for _, _, r in pairs if r[0] != "ok")
        ctx.fail(feat(c, "b2b-on-cut-raises", bad), cj(c), f"b2b on a box of alpha-cuts raises {bad}")
        return
    complete = len(pairs) == len(focal)
    mism = [(i, a, b) for i, a, b in pairs if (a[1], a[2]) != (b[1], b[2])]
    if mism and (not complete or sorted((f[1], f[2]) for f in focal) != sorted((f[1], f[2]) for f in exp_focal)):
        k, a, b = mism[0]
        ctx.fail(feat(c, "focal-not-image-of-cuts"), cj(c, row=list(rows[k]), focal=list(a), expected=list(b)),
                 f"focal interval {a[1:]} for levels {rows[k]} is not b2b of the nearest-level alpha-cuts ({b[1:]})")
    # 2. slicing: every combination of the k grid levels exactly once
    if c["method"] == "slicing":
        k = c["k"]
        grid = sorted(set(alphas))
        cnt = Counter(rows)
        if len(grid) != k or len(rows) != k ** d or set(cnt) != set(itertools.product(grid, repeat=d)) or any(v != 1 for v in cnt.values()):
            ctx.fail(feat(c, "grid-incomplete"), cj(c, n_rows=len(rows), n_levels=len(grid)),
                     f"slicing with k={k}, d={d}: {len(rows)} level tuples over {len(grid)} levels, not every combination exactly once")
        if c["stream"] in ("representation", "thin", "three-inputs", "small", "scaled") and (k + d) % 2 == 0:
            how = ("copy", "deepcopy", "pickle")[(k + d) % 3]
            try:
                o5 = run_mixed(c, inputs_via=how)
            except BaseException as ex:  # noqa
                o5 = {"res": ("err", err_kind(ex))}
            ctx.evaluations += 1
            r5 = o5["res"]
            if r5[0] != "ok" or not (np.array_equal(r5[1], left) and np.array_equal(r5[2], right)):
                ft = feat(c, "changed-by-" + how)
                ft["copied"] = "inputs"
                ctx.fail(ft, cj(c, copied="inputs", how=how), f"slicing with the input objects passed through {how} gives a different p-box")
        ref = np.linspace(c["_bounds"][0], c["_bounds"][1], k)
        if len(grid) == k and any(abs(a - b) > 1e-12 for a, b in zip(grid, ref)):
            ctx.fail(feat(c, "grid-levels"), cj(c, grid=grid[:5]), "slicing levels are not equally spaced between the probability boundaries")
    else:
        lv = o["levels"]
        if lv is None or lv.shape != (c["n_sam"], d):
            ctx.fail(feat(c, "levels-shape"), cj(c, shape=None if lv is None else list(lv.shape)),
                     f"interval Monte Carlo reports levels of shape {None if lv is None else lv.shape}, expected ({c['n_sam']},{d})")
        else:
            if not np.all((lv >= 0) & (lv <= 1)):
                ctx.fail(feat(c, "level-outside-unit"), cj(c), "reported probability levels outside [0,1]")
            if [tuple(float(v) for v in r) for r in lv] != rows:
                ctx.fail(feat(c, "reported-levels-not-cut"), cj(c, reported=lv[:3].tolist(), cut=[list(r) for r in rows[:3]]),
                         "the probability levels reported by interval Monte Carlo are not the ones whose alpha-cuts were propagated")
            # ... and they are the sample of THIS dependency for THIS seed (statsmodels called directly)
            indep = c["dep"] is None or (len(c["dep"]) > 2 and c["dep"][2] == "string")
            dep_ref = dependency_of(("independence", None) if indep else c["dep"], d)
            refs = [("statsmodels copula.rvs", np.atleast_2d(dep_ref.copula.rvs(c["n_sam"], random_state=c["seed"]))),
                    ("u_sample of an identically built Dependency", np.atleast_2d(dep_ref.u_sample(c["n_sam"], random_state=c["seed"])))]
            if o.get("dep_obj") is not None and not isinstance(o["dep_obj"], str):
                refs.append(("u_sample of THE Dependency object that was passed", np.atleast_2d(o["dep_obj"].u_sample(c["n_sam"], random_state=c["seed"]))))
            for name, ref_lv in refs:
                if ref_lv.shape != lv.shape or not np.array_equal(ref_lv, lv):
                    ctx.fail(feat(c, "levels-not-copula-sample"), cj(c, reference=name, reported=lv[:2].tolist(), expected=ref_lv[:2].tolist()),
                             f"the probability levels used are not the sample of the given dependency structure for the given seed ({name})")
                    break
        # reproducibility: same seed and dependency -> identical p-box and levels
        if c.get("light"):
            return _oracle_tail(ctx, c, o, pv, tol, left, right, focal, arrays, s, st, n, d)
        kwb = c["dep"] is not None and (c["dep"][0] == "t" or (len(c["dep"]) > 2 and c["dep"][2] in ("kw", "matrix")))
        full = c["stream"] in ("extreme-levels", "witness", "entry-point", "falsy") or (c["stream"] == "api-layer" and kwb and c.get("via"))
        o2 = run_mixed(c) if (full or c["seed"] % 2 == 0 or o.get("dep_obj") is None or isinstance(o.get("dep_obj"), str)) else o      # the other half repeats on the SAME Dependency object below
        ctx.evaluations += 1
        r2 = o2["res"]
        if r2[0] != "ok" or not (np.array_equal(r2[1], left) and np.array_equal(r2[2], right)) or \
                not (o2["levels"] is not None and lv is not None and np.array_equal(o2["levels"], lv)):
            diag = _repro_diag(o, o2, left, right, lv)
            if _confirm_not_reproducible(ctx, c, False):
                ctx.fail(feat(c, "not-reproducible"), cj(c, diag=diag), "interval Monte Carlo with the same seed and dependency gives a different p-box")
        # ... also when the very same Dependency object is used again (a second draw must restart the stream)
        if o.get("dep_obj") is not None and (full or c["seed"] % 2 == 1):
            o4 = run_mixed(c, dep_obj=o["dep_obj"])
            ctx.evaluations += 1
            r4 = o4["res"]
            if r4[0] != "ok" or not (np.array_equal(r4[1], left) and np.array_equal(r4[2], right)) or \
                    not (o4["levels"] is not None and lv is not None and np.array_equal(o4["levels"], lv)):
              if _confirm_not_reproducible(ctx, c, True):
                ctx.fail(feat(c, "not-reproducible-same-object"), cj(c, diag=_repro_diag(o, o4, left, right, lv)),
                         "a second interval Monte Carlo run with the same seed on the SAME Dependency object gives a different p-box")
        # ... and when the Dependency object (or the inputs) went through copy.copy / copy.deepcopy / pickle before use
        hows = ("copy", "deepcopy", "pickle")
        todo = []
        if o.get("dep_obj") is not None and not isinstance(o["dep_obj"], str):
            kwbuilt = c["dep"] is not None and (c["dep"][0] == "t" or (len(c["dep"]) > 2 and c["dep"][2] in ("kw", "matrix")))
            todo += [("dep", h) for h in (hows if (kwbuilt and c["stream"] == "api-layer" and c.get("via") == "MixedPropagation") else (hows[c["seed"] % 3],))]
        if c["stream"] in ("representation", "falsy") or c["seed"] % 4 == 0:
            todo.append(("inputs", hows[(c["seed"] + 1) % 3]))
        for what, how in todo:
            try:
                o5 = run_mixed(c, dep_obj=roundtrip(o["dep_obj"], how)) if what == "dep" else run_mixed(c, inputs_via=how)
            except BaseException as ex:  # noqa  (an object that cannot be copied / pickled at all)
                o5 = {"res": ("err", err_kind(ex)), "levels": None}
            ctx.evaluations += 1
            r5 = o5["res"]
            if r5[0] != "ok" or not (np.array_equal(r5[1], left) and np.array_equal(r5[2], right)) or \
                    not (o5["levels"] is not None and lv is not None and np.array_equal(o5["levels"], lv)):
                ft = feat(c, "changed-by-" + how)
                ft["copied"] = what
                ctx.fail(ft, cj(c, copied=what, how=how, result=r5[0] if r5[0] != "ok" else "value",
                                levels_head=None if o5["levels"] is None else o5["levels"][:2].tolist(), expected_levels_head=None if lv is None else lv[:2].tolist()),
                         f"interval Monte Carlo with the {'Dependency object' if what == 'dep' else 'input objects'} passed through {how} "
                         f"gives {'an error ' + str(r5[1]) if r5[0] != 'ok' else 'different probability levels / a different p-box'} (same seed)")
        if c["n_sam"] >= 5 and (c["seed"] % 2 == 0 or c["n_sam"] <= 15):
            o3 = run_mixed(c, seed_override=c["seed"] + 1)
            if o3["levels"] is not None and lv is not None and np.array_equal(o3["levels"], lv):
                ctx.fail(feat(c, "seed-ignored"), cj(c), "a different seed gives the same probability levels")
    return _oracle_tail(ctx, c, o, pv, tol, left, right, focal, arrays, s, st, n, d)


def _oracle_tail(ctx, c, o, pv, tol, left, right, focal, arrays, s, st, n, d):
    # 3. support inside the interval image of the supports
    sup = [(l[0], r[-1]) for l, r in arrays]
    img, _ = X.run_b2b(c["e"], sup, "L", "direct", None, None)
    lo_out, hi_out = float(np.min(left)), float(np.max(right))
    if img[0] == "ok":
        if not (F(img[1]) - tol <= F(lo_out) and F(hi_out) <= F(img[2]) + tol):
            ctx.fail(feat(c, "support-outside-image"), cj(c, support=[lo_out, hi_out], image=list(img[1:])),
                     f"output support [{lo_out},{hi_out}] is not inside the interval image {img[1:]} of the input supports")
    if np.any(left > right):
        ctx.fail(feat(c, "left-above-right"), cj(c), "the returned p-box has left > right somewhere")
    # 4. all intervals: exactly the interval image (by the chosen strategy)
    kinds = set(i[0] for i in c["inputs"])
    if kinds == {"I"}:
        ref, _ = X.run_b2b(c["e"], [(i[1], i[2]) for i in c["inputs"]], "L", s, st, n)
        if ref[0] != "ok" or not (np.all(left == ref[1]) and np.all(right == ref[2])):
            ctx.fail(feat(c, "all-intervals-not-image"), cj(c, image=list(ref), out=[float(left[0]), float(left[-1]), float(right[0]), float(right[-1])]),
                     f"all inputs are intervals: output should be the interval {ref[1:]} at every level, got left in "
                     f"[{left.min()},{left.max()}], right in [{right.min()},{right.max()}]")
    # 5. all precise distributions: zero width
    if kinds == {"D"}:
        if not np.array_equal(left, right):
            w = float(np.max(right - left))
            ctx.fail(feat(c, "precise-not-degenerate"), cj(c, max_width=w),
                     f"all inputs are precise distributions but the output p-box has width up to {w}")
        if any(fc[1] != fc[2] for fc in focal):
            ctx.fail(feat(c, "precise-focal-not-degenerate"), cj(c), "all inputs precise but a focal interval has positive width")
    # 6. the Staircase is the equal-weight stack of the focal intervals: at every grid level p the left (right) value is
    #    the ceil(p*N)-th smallest lower (upper) end, multiplicities counted; one rank of slack only where p*N is an integer
    N = len(focal)
    los = sorted(f[1] for f in focal)
    his = sorted(f[2] for f in focal)
    if len(left) != len(pv) or len(right) != len(pv):
        ctx.fail(feat(c, "wrong-number-of-steps"), cj(c, steps=len(left), configured=len(pv)),
                 f"the returned p-box has {len(left)} steps, the configured probability grid has {len(pv)} levels")
        return
    cum = np.cumsum(np.repeat(1 / N, N))        # the binary64 cumulated masses of N equal weights (what decides at an exact tie)
    for arr, srt, name in ((left, los, "left"), (right, his, "right")):
        for i, p in enumerate(pv):
            x = p * N
            j = min(max(1, math.ceil(x)), N)
            if abs(x - round(x)) <= F(1, 10 ** 6):
                # a grid level on (or within rounding of) a cumulated mass m/N: the generalised inverse takes the FIRST step whose
                # cumulated mass reaches the level, decided on the binary64 values
                j = min(int(np.searchsorted(cum, float(p), side="left")) + 1, N)
            cand = {srt[j - 1]}
            if float(arr[i]) not in cand:
                ctx.fail(feat(c, "not-equal-weight-stack"), cj(c, side=name, index=i, value=float(arr[i]), expected_rank=j, N=N),
                         f"{name}[{i}] = {float(arr[i])} is not the rank-{j} of the {N} focal {name} endpoints "
                         f"({srt[j - 1]}): not an equal-weight stack")
                break


def replay(obj):
    c = obj.get("case", {})
    if "inputs" not in c:
        print(json.dumps(obj, indent=1))
        return 0
    core.stub_moments()
    c = dict(c)
    c["e"] = X.to_tuple(c["e"])
    c["cf"] = tuple(c["cf"])
    c["inputs"] = [X.to_tuple(i) for i in c["inputs"]]
    if c.get("dep") is not None:
        c["dep"] = tuple(c["dep"])
    o = run_mixed(c)
    print("case  :", {k: v for k, v in c.items() if k not in ("e",)})
    print("result:", o["res"][0], None if o["res"][0] == "err" else (float(o["res"][1][0]), float(o["res"][2][-1])))
    print("focal :", (o["focal"] or [])[:5])
    print("what  :", obj.get("what"))
    return 0
