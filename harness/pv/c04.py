"""C04 — every p-box value handed to the user is well formed.

proof  : Pun.Props.C04 — the full constructor (`mkN`) only returns well-formed boxes, rejects NaN, normalises any
         non-empty bound to exactly `steps` entries; every arithmetic / unary / aggregation node maps well-formed
         operands to a well-formed result (so the order check of the constructor never fires inside arithmetic:
         `eval = evalNG`); histories of ANY depth evaluate to well-formed boxes with support [left[0], right[n-1]];
         Popoviciu / mean bounds that justify the oracle's moment limits.
tie    : (a) the constructor `Staircase(left, right)` on raw arrays / lists: exact length, longer (condensation),
         shorter ('next' interpolation on the probability grid, all 199 lengths), NaN, crossing, swapped, unequal
         lengths, empty — against `Pun.WF.mkN` / `boundStepsN`;
         (b) expression histories to depth 4 over boxes from the public constructors, the four binary operations
         under f/p/o/i (+ unknown code), number operands on both sides, negation, reciprocal, exp/sqrt/log,
         envelope, imposition — against `Pun.WF.eval` (moment code stubbed);
oracle : on EVERY p-box the real code returns (every intermediate of every history, every constructor, plus
         operations that are not modelled: pow, min/max, sin/cos/tanh, condensation, DSS round trip, ufuncs):
         exactly Params.steps entries, no NaN, both bounds non-decreasing, left <= right at every step,
         range/lo/hi/support == [left[0], right[-1]], mean inside the support, 0 <= var <= width^2/4, no
         placeholder; a second stream runs the REAL moment code (LP / ECDF fallback) in worker processes.
round 3: every public entry point that returns a p-box is in both streams with small adversarial arguments (pba.ECDF on
         two-point / balanced / single samples, KS_bounds on 1-3 values, from_percentiles with interval percentiles,
         known_properties / known_constraints, DSS with one or separated focal elements, Distribution with list parameters,
         stochastic_mixture, stacking of Interval objects mixed with lists and unequal weights, condensation, min/max,
         pow by numbers and p-boxes); integer-dtype bounds (arrays and lists of ints); thin-but-not-degenerate and tiny
         operands; constants 1e-20, 2^-60, 1e18; precise boxes far from the origin.  Aliasing: every returned p-box (and every
         operand) is snapshotted and re-read after later calls (every 50 histories, at the end, inside the moment workers),
         30 histories are evaluated twice, and a fixed sequence repeats calls whose arguments differ only in the masses /
         in how the same numbers are bound.
round 4/5: must-raise / must-return / raise-or-well-formed edge stream (invalid parameter corners, empty impositions, domain
         edges, falsy arguments, copied / pickled operands); every stream also at tiny and huge magnitudes (power-of-two scaled
         integer boxes in constructor cases and whole histories, 1e-170 … 1e150 in the moment stream); `grid_stream`: every
         public caller of interpolate_p / bound_steps_check (stacking, stochastic_mixture, DempsterShafer.to_pbox, ECDF,
         KS_bounds, pbox_from_ecdf_bundle, Staircase) with steps-3 … steps+2 points, ties, duplicates, unequal masses, compared
         with independent references (`ref_bundle`, `ref_normalise`).
round 7: `state_stream` (41 calls under np.errstate(all='raise'), under warnings escalated to errors, and under
         Params.steps = 40 / 100 / 320: same value, or well formed with exactly the configured number of steps, or raises;
         values identical after restoring), `alias_stream` (p-boxes built from caller-owned float64 buffers of exactly `steps`
         entries / column views / other lengths and dtypes: unchanged after the caller writes into his buffers; results never
         alias operands), `types_stream` (float32/16, longdouble, Fraction, Decimal, ints beyond 2^53, float exponents equal
         the float64 computation), leaves with a flat run in one bound only.
"""
from __future__ import annotations
import math, operator, json, os, itertools, time
from concurrent.futures import ThreadPoolExecutor
from fractions import Fraction as F
import numpy as np
from . import core, pbx
from .core import q, ql

OPS = {"add": operator.add, "sub": operator.sub, "mul": operator.mul, "div": operator.truediv}
SENTINEL = 666


# ---------------------------------------------------------------------------------------------
# configuration read from the repository (the model takes it on the wire)
def params():
    from pyuncertainnumber.pba.params import Params
    return int(Params.steps), float(Params.p_lboundary), float(Params.p_hboundary)


def cfg_wire():
    n, lb, hb = params()
    return f"{n} {q(lb)} {q(hb)}"


# ---------------------------------------------------------------------------------------------
# leaf constructors: spec = [name, args]  (JSON-able, rebuilt by `build_leaf`)
def rle(xs):
    out = []
    for v in xs:
        if out and out[-1][0] == v:
            out[-1][1] += 1
        else:
            out.append([v, 1])
    return out


def unrle(r):
    out = []
    for v, c in r:
        out.extend([v] * c)
    return out


def build_leaf(spec):
    from pyuncertainnumber import pba
    from pyuncertainnumber.pba.pbox_abc import Staircase
    from pyuncertainnumber.pba.ecdf import get_ecdf, eCDF_bundle
    name, a = spec
    if name == "raw":
        return Staircase(left=np.array(unrle(a[0]), dtype=float), right=np.array(unrle(a[1]), dtype=float))
    if name in ("normal", "lognormal", "beta", "gamma", "t", "pareto", "cauchy", "weibull_min", "gumbel_r", "laplace", "chi2", "triang"):
        return getattr(pba, name)(*a)
    if name == "uniform":
        return pba.uniform(a[0], a[1])
    if name == "exponential":
        return pba.exponential(scale=a[0])
    if name == "exponential_by_lambda":
        return pba.exponential_by_lambda(a[0])
    if name == "interval":
        return pba.I(a[0], a[1]).to_pbox()
    if name == "dist":
        return pba.D(a[0], tuple(a[1])).to_pbox()
    if name in ("min_max", "min_mean", "mean_std", "mean_var", "min_max_mean", "min_max_mode", "min_max_median",
                "min_max_mean_std", "min_max_mean_var", "pos_mean_std"):
        return getattr(pba, name)(*a)
    if name == "from_percentiles":
        return pba.from_percentiles({float(k): v for k, v in a})
    if name == "KS_bounds":
        return pba.KS_bounds(np.array(a[0], dtype=float), alpha=a[1], display=False, output_type="pbox")
    if name == "dss":
        return pba.DSS(a[0], a[1]).to_pbox()
    if name == "stacking":
        return pba.stacking(a[0]) if a[1] is None else pba.stacking(a[0], weights=a[1])
    if name == "ECDF":                 # pba.ECDF(sample): itself a Staircase
        data = a[0]
        return pba.ECDF(list(data) if a[1] == "list" else np.array(data, dtype=(int if a[1] == "int" else float)))
    if name == "rawscaled":            # integer step box times a power of two (exact at every magnitude)
        sc = 2.0 ** a[2]
        return Staircase(left=np.array(unrle(a[0]), dtype=float) * sc, right=np.array(unrle(a[1]), dtype=float) * sc)
    if name == "rawint":               # integer-dtype bounds (np.array of ints / Python lists of ints)
        l, r = [int(x) for x in unrle(a[0])], [int(x) for x in unrle(a[1])]
        return Staircase(left=l, right=r) if a[2] == "list" else Staircase(left=np.array(l), right=np.array(r))
    if name == "known_properties":
        return pba.known_properties(**a[0]).construct
    if name == "known_constraints":
        return pba.known_constraints(**a[0]).construct
    if name == "stochastic_mixture":   # of intervals: another road to stacking
        items = [pba.I(x[0], x[1]) if a[2] == "I" else list(x) for x in a[0]]
        return pba.stochastic_mixture(*items) if a[1] is None else pba.stochastic_mixture(*items, weights=a[1])
    if name == "stacking_mixed":       # Interval objects and [lo, hi] lists in one call, unequal weights
        items = [pba.I(x[0], x[1]) if i % 2 == 0 else list(x) for i, x in enumerate(a[0])]
        return pba.stacking(items, weights=a[1])
    if name == "stacking_vec":
        return pba.stacking(pba.I([x[0] for x in a[0]], [x[1] for x in a[0]]))
    if name == "dist_list":            # Distribution(...) given a list of parameters
        return pba.D(a[0], list(a[1])).to_pbox()
    if name == "from_percentiles_ivl":
        return pba.from_percentiles({float(k): (pba.I(v[0], v[1]) if isinstance(v, list) else v) for k, v in a})
    if name == "ecdf_bundle":
        lo, hi = sorted(a[0]), sorted(a[1])
        q1, p1 = get_ecdf(np.array(lo, dtype=float))
        q2, p2 = get_ecdf(np.array(hi, dtype=float))
        return pba.pbox_from_ecdf_bundle(eCDF_bundle(q1, p1), eCDF_bundle(q2, p2))
    raise KeyError(name)


def r2(rng, a, b):
    return round(rng.uniform(a, b), 3)


SCALE_EXPONENTS = (-40, -70, 36)


def leaf_specs(rng, n_lib, n_int):
    """random constructor calls: every family of the quantifier, every sign class"""
    S = []
    def ivl(a, w):
        return [a, round(a + w, 3)]
    for sign in ("pos", "neg", "str"):
        c = {"pos": r2(rng, 4, 9), "neg": r2(rng, -9, -4), "str": r2(rng, -0.5, 0.5)}[sign]
        S.append(["normal", [ivl(c, r2(rng, 0.1, 1.5)), ivl(r2(rng, 0.2, 0.6), r2(rng, 0.05, 0.5))]])
        S.append(["interval", [c - r2(rng, 0.1, 2), c + r2(rng, 0.1, 2)]])
    S.append(["normal", [r2(rng, -3, 3), r2(rng, 0.3, 2)]])                       # precise
    S.append(["interval", [2.5, 2.5]])                                             # a point
    S.append(["uniform", [ivl(r2(rng, 0.5, 3), r2(rng, 0.1, 1)), ivl(r2(rng, 4.5, 6), r2(rng, 0.1, 2))]])
    S.append(["uniform", [ivl(r2(rng, -6, -4), 0.5), ivl(r2(rng, -3, -1.5), 1.0)]])
    S.append(["lognormal", [ivl(r2(rng, 0, 0.4), 0.3), ivl(r2(rng, 0.15, 0.3), 0.2)]])
    S.append(["beta", [ivl(r2(rng, 1.5, 3), 1.0), ivl(r2(rng, 2, 5), 1.0)]])
    S.append(["gamma", [ivl(r2(rng, 2, 4), 1.0), ivl(r2(rng, 0.5, 2), 0.5)]])
    S.append(["exponential", [ivl(r2(rng, 0.5, 2), 1.0)]])
    S.append(["exponential_by_lambda", [ivl(r2(rng, 0.5, 2), 1.0)]])
    S.append(["weibull_min", [ivl(r2(rng, 1.2, 3), 0.5)]])
    S.append(["gumbel_r", [ivl(r2(rng, -1, 1), 0.5), ivl(r2(rng, 0.5, 1.5), 0.3)]])
    S.append(["laplace", [ivl(r2(rng, -1, 1), 0.5), ivl(r2(rng, 0.5, 1.5), 0.3)]])
    S.append(["chi2", [ivl(r2(rng, 2, 6), 1.0)]])
    S.append(["t", [ivl(r2(rng, 3, 6), 1.0)]])
    FIXED = [["t", [[1.5, 2]]], ["pareto", [[1.5, 2]]], ["cauchy", [[0, 1], [1, 2]]]]      # no finite variance / mean
    # less common entry points with small adversarial arguments (two-point / balanced samples, one focal element,
    # integer arguments, Interval objects mixed with lists, list parameters)
    half = rng.choice([3, 25])
    FIXED += [
        ["ECDF", [[2, 5], "float"]], ["ECDF", [[1, 1, 4], "int"]], ["ECDF", [[0] * half + [1] * half, "list"]],
        ["ECDF", [[r2(rng, 0, 6) for _ in range(rng.choice([2, 3, 7]))], "float"]], ["ECDF", [[3.0], "float"]],
        ["KS_bounds", [[2.0, 5.0], 0.05]], ["KS_bounds", [[2.0], 0.05]], ["KS_bounds", [[2, 5, 7], 0.025]],
        ["from_percentiles_ivl", [[0, 0], [0.5, [1, 2]], [0.75, [2, 3]], [1, 6]]], ["from_percentiles", [[0, 0], [0.5, 1], [1, 4]]],
        ["known_properties", [{"minimum": 0, "maximum": 2, "mean": 1}]], ["known_properties", [{"minimum": 0, "maximum": 2}]],
        ["known_properties", [{"mean": 1, "var": 0.25}]], ["known_constraints", [{"minimum": 0, "maximum": 2, "mean": 1}]],
        ["min_max", [2, 5]], ["interval", [1, 3]], ["interval", [0, 0]],
        ["dist_list", ["norm", [0, 1]]], ["dist", ["uniform", [1, 2]]],
        ["stochastic_mixture", [[[1, 3], [2, 4]], None, "list"]], ["stochastic_mixture", [[[1, 3], [2, 4]], [0.9, 0.1], "I"]],
        ["stacking_mixed", [[[1, 3], [2, 4], [0, 5]], [0.2, 0.3, 0.5]]], ["stacking_vec", [[[1, 3], [2, 4], [0, 5]]]],
        ["stacking", [[[1, 3]], None]], ["dss", [[[1, 3]], [1.0]]], ["dss", [[[1, 2], [3, 4]], [0.5, 0.5]]],
        ["dss", [[[5, 5], [6, 7]], [0.5, 0.5]]],
        # shapes: one flat and one varying bound (nested focal elements sharing an endpoint), unaligned masses,
        # exactly one zero-width focal element; samples longer than the number of steps
        ["stacking", [[[0, 1], [0, 2], [0, 3]], None]], ["stacking", [[[1, 5], [2, 5], [3, 5]], None]],
        ["dss", [[[0, 1], [0, 2], [0, 3]], [0.3, 0.25, 0.45]]], ["dss", [[[1, 2], [3, 4]], [0.55, 0.45]]],
        ["dss", [[[1, 1], [2, 4]], [0.3, 0.7]]],
        ["ECDF", [[round(0.37 * i % 7.0, 4) for i in range(rng.choice([200, 201, 261]))], "float"]],
        ["ECDF", [[round(0.61 * i % 5.0, 4) for i in range(rng.choice([399, 1000, 1025]))], "float"]],
        # a flat run in ONE bound that the other bound does not share
        ["raw", [[[2.0, 200]], [[3.0 + 0.01 * i, 1] for i in range(200)]]], ["raw", [[[-5.0 + 0.02 * i, 1] for i in range(200)], [[0.0, 200]]]],
        ["raw", [[[1.0, 120], [2.0, 80]], [[2.0 + 0.005 * i, 1] for i in range(200)]]],
        # thin but not degenerate, tiny magnitudes
        ["interval", [1.0, 1.0 + 1e-9]], ["interval", [2e-9, 8e-9]], ["interval", [-3e-7, 5e-7]],
        ["uniform", [[1.0, 1.0 + 1e-7], [1.0 + 2e-7, 1.0 + 3e-7]]], ["normal", [[5.0, 5.0 + 1e-6], [1e-7, 2e-7]]],
    ]
    S.append(["dist", ["norm", [r2(rng, -1, 1), r2(rng, 0.5, 2)]]])
    S.append(["dist", ["uniform", [r2(rng, 1, 2), r2(rng, 1, 3)]]])
    a = r2(rng, -2, 3); w = r2(rng, 1, 4)
    S.append(["min_max", [a, a + w]])
    S.append(["min_mean", [a, a + r2(rng, 0.2, 1)]])
    S.append(["mean_std", [a, r2(rng, 0.2, 1)]])
    S.append(["mean_var", [a, r2(rng, 0.1, 1)]])
    S.append(["min_max_mean", [a, a + w, round(a + w * rng.uniform(0.2, 0.8), 3)]])
    S.append(["min_max_mode", [a, a + w, round(a + w * rng.uniform(0.2, 0.8), 3)]])
    S.append(["min_max_median", [a, a + w, round(a + w * rng.uniform(0.2, 0.8), 3)]])
    S.append(["min_max_mean_std", [a, a + w, round(a + w * 0.5, 3), round(w * rng.uniform(0.1, 0.3), 3)]])
    S.append(["min_max_mean_var", [a, a + w, round(a + w * 0.5, 3), round((w * rng.uniform(0.1, 0.3)) ** 2, 4)]])
    S.append(["pos_mean_std", [r2(rng, 1, 3), r2(rng, 0.2, 1)]])
    pts = sorted(r2(rng, -1, 6) for _ in range(4))
    S.append(["from_percentiles", [[0, pts[0]], [0.3, pts[1]], [0.7, pts[2]], [1, pts[3]]]])
    sample = [r2(rng, 0, 6) for _ in range(rng.choice([5, 8, 13]))]
    S.append(["KS_bounds", [sample, rng.choice([0.025, 0.05])]])
    for k in (2, 3, 5):
        ivs = [[x, round(x + r2(rng, 0, 2), 3)] for x in [r2(rng, -4, 4) for _ in range(k)]]
        S.append(["stacking", [ivs, None]])
        m = [rng.randint(1, 5) for _ in range(k)]
        S.append(["dss", [ivs, [round(x / sum(m), 6) for x in m[:-1]] + [round(1 - sum(round(x / sum(m), 6) for x in m[:-1]), 6)]]])
    lo = sorted(r2(rng, 0, 5) for _ in range(6))
    S.append(["ecdf_bundle", [lo, [round(x + r2(rng, 0, 1.5), 3) for x in lo]]])
    rng.shuffle(S)
    S = FIXED + S[:n_lib]
    for i in range(n_int):
        l, r = pbx.int_box200(rng, [None, "pos", "neg", "str"][i % 4])
        S.append(["raw", [rle([int(x) for x in l]), rle([int(x) for x in r])]])
    for k in SCALE_EXPONENTS:                  # tiny and huge magnitudes, exactly representable
        for i in range(4):
            l, r = pbx.int_box200(rng, [None, "pos", "neg", "str"][i % 4])
            S.append(["rawscaled", [rle([int(x) for x in l]), rle([int(x) for x in r]), k]])
    for i in range(max(4, n_int // 3)):        # the same kind of box kept as integer arrays / lists of Python ints
        l, r = pbx.int_box200(rng, [None, "pos", "neg", "str"][i % 4])
        S.append(["rawint", [rle([int(x) for x in l]), rle([int(x) for x in r]), "list" if i % 2 else "array"]])
    return S


# ---------------------------------------------------------------------------------------------
# the semantic oracle: the property on ONE returned value
def tolr(scale):
    return 1e-6 * scale


def wf_problems(p, real_moments=False):
    """list of (check, detail) for every clause of the property that `p` violates"""
    from pyuncertainnumber.pba.pbox_abc import Pbox
    n, _, _ = params()
    out = []
    if not isinstance(p, Pbox):
        return [("type", type(p).__name__)]
    try:
        l = np.asarray(p.left, dtype=float).ravel(); r = np.asarray(p.right, dtype=float).ravel()
    except Exception as e:  # noqa
        return [("bounds-unreadable", repr(e)[:60])]
    if len(l) != n or len(r) != n:
        out.append(("steps", f"len(left)={len(l)} len(right)={len(r)} steps={getattr(p, 'steps', None)} configured={n}"))
    if int(getattr(p, "steps", -1)) != n:
        out.append(("steps-attribute", f"the steps attribute reads {getattr(p, 'steps', None)}; len(left)={len(l)}, configured={n}"))
    if np.isnan(l).any() or np.isnan(r).any():
        out.append(("nan", f"{int(np.isnan(l).sum())} NaN in left, {int(np.isnan(r).sum())} in right"))
        return out
    if (np.diff(l) < 0).any():
        k = int(np.argmax(np.diff(l) < 0)); out.append(("left-decreasing", f"left[{k}]={l[k]!r} > left[{k+1}]={l[k+1]!r}"))
    if (np.diff(r) < 0).any():
        k = int(np.argmax(np.diff(r) < 0)); out.append(("right-decreasing", f"right[{k}]={r[k]!r} > right[{k+1}]={r[k+1]!r}"))
    m = min(len(l), len(r))
    if (l[:m] > r[:m]).any():
        k = int(np.argmax(l[:m] > r[:m]))
        out.append(("left-above-right", f"{int((l[:m] > r[:m]).sum())} steps, first at {k}: left={l[k]!r} right={r[k]!r}"))
    if len(l) == 0:
        return out
    lo, hi = float(l[0]), float(r[-1])
    try:
        rg = p.range
        vals = [(float(rg.lo), float(rg.hi)), (float(p.lo), float(p.hi)), (float(p.support.lo), float(p.support.hi))]
        if any(v != (lo, hi) for v in vals):
            out.append(("support", f"range={vals[0]} lo/hi={vals[1]} support={vals[2]} but [left[0], right[-1]]={(lo, hi)}"))
    except Exception as e:  # noqa
        out.append(("support", "unreadable: " + repr(e)[:60]))
    # moments
    try:
        mlo, mhi = float(p.mean.lo), float(p.mean.hi)
        vlo, vhi = float(p.var.lo), float(p.var.hi)
    except Exception as e:  # noqa
        out.append(("moments-unreadable", repr(e)[:80]))
        return out
    meta = getattr(p, "_moments_meta", None)
    if (mlo == mhi == SENTINEL and vlo == vhi == SENTINEL) or (real_moments and isinstance(meta, dict) and meta.get("method") == "unavailable"):
        out.append(("moment-placeholder", f"mean={mlo, mhi} var={vlo, vhi}"))
        return out
    w = hi - lo
    if any(math.isnan(v) for v in (mlo, mhi, vlo, vhi)):
        out.append(("moment-nan", f"mean={mlo, mhi} var={vlo, vhi}"))
        return out
    mag = max(abs(lo), abs(hi)) if not (math.isinf(lo) or math.isinf(hi)) else 0.0
    tm = tolr(w) + 1e-9 * mag if not math.isinf(w) else 0.0
    if not (mlo <= mhi + tm) or mlo < lo - tm or mhi > hi + tm:
        out.append(("mean-outside-support", f"mean=[{mlo!r},{mhi!r}] support=[{lo!r},{hi!r}]"))
    q4 = w * w / 4
    tv = (tolr(q4) + 1e-9 * mag * max(w, 1e-300)) if not math.isinf(w) else 0.0
    if not (vlo <= vhi + tv) or vlo < -tv or vhi > q4 + tv:
        out.append(("var-outside-[0,w2/4]", f"var=[{vlo!r},{vhi!r}] width^2/4={q4!r}"))
    return out


# ---------------------------------------------------------------------------------------------
# histories.  spec (JSON-able):
#   ["leaf", i]                      pool index
#   ["bin", op, dep, A, B]           dep in f p o i x(unknown) b(bare operator, ambient dependency)
#   ["num", op, c, A]   ["rnum", op, c, A]   ["neg", A]   ["recip", A]   ["un", f, A]   ["env", A, B]   ["imp", A, B]
#   not modelled (oracle only; the value becomes a leaf of the model expression):
#   ["pown", c, A] ["powp", dep, A, B] ["minmax", which, dep, A, B] ["trig", f, A] ["cond", n, A] ["dssrt", A]
#   ["stackrt", A] ["ufunc", f, A]
MODELLED = {"leaf", "bin", "num", "rnum", "neg", "recip", "un", "env", "imp"}
UFN = {"exp": np.exp, "sqrt": np.sqrt, "log": np.log}


def snapshot(v):
    """canonical value of a returned p-box: bounds (bytes + dtype), moments, range — compared again later to see
    whether a value already handed to the user was changed by later calls (shared buffers, caches)"""
    import hashlib
    l, r = np.ascontiguousarray(v.left), np.ascontiguousarray(v.right)
    return (hashlib.sha1(l.tobytes()).hexdigest(), hashlib.sha1(r.tobytes()).hexdigest(), str(l.dtype), str(r.dtype), len(l), len(r),
            repr(float(v.mean.lo)), repr(float(v.mean.hi)), repr(float(v.var.lo)), repr(float(v.var.hi)),
            repr(float(v.range.lo)), repr(float(v.range.hi)))


def snapshot_safe(v):
    try:
        return snapshot(v)
    except Exception as e:  # noqa
        return ("unreadable", repr(e)[:60])


class _Raised(Exception):
    """the real code raised inside a history; `wire` = model request built so far (None if not expressible)"""

    def __init__(self, orig, wire):
        super().__init__(repr(orig))
        self.orig, self.wire = orig, wire


DUMMY = "L 0 [] []"     # stands for an operand the real code never evaluated (an earlier operand raised)


class Hist:
    """evaluates a spec with the real code, records every returned p-box, builds the model request"""

    def __init__(self, pool):
        self.pool = pool
        self.values = []      # (path, kind, value)  every p-box the real code returned
        self.scale = 0.0      # largest magnitude met along the way (the tolerance of the tie is relative to it)
        self.nodes = 0
        self.nonfinite = False
        self.exact = True
        self.unmodelled = 0
        self.absorbed = False

    def note(self, path, kind, v):
        self.values.append((path, kind, v, snapshot_safe(v)))
        try:
            a = np.concatenate([np.asarray(v.left, float).ravel(), np.asarray(v.right, float).ravel()])
            if not np.all(np.isfinite(a)):
                self.nonfinite = True
            else:
                self.scale = max(self.scale, float(np.max(np.abs(a))))
                if self.exact and not np.all(a == np.round(a)):
                    self.exact = False
        except Exception:  # noqa
            self.nonfinite = True

    def as_leaf(self, v):
        l = [float(x) for x in np.asarray(v.left, float).ravel()]
        r = [float(x) for x in np.asarray(v.right, float).ravel()]
        if not all(math.isfinite(x) for x in l + r):
            self.nonfinite = True
            return DUMMY
        return f"L 0 {ql(l)} {ql(r)}"

    def touches_zero(self, v):
        """a zero bound of a divisor becomes +-inf in numpy: outside the rational model"""
        if np.any(np.asarray(v.left) == 0) or np.any(np.asarray(v.right) == 0):
            self.nonfinite = True

    def mkwire(self, spec, wires, vals):
        k = spec[0]
        if any(w is None for w in wires):
            return None
        if k == "bin":
            dep = spec[2]
            return f"B {spec[1]} {'f' if dep == 'b' else ('u' if dep == 'x' else dep)} {wires[0]} {wires[1]}"
        if k == "num":
            return f"N {spec[1]} {q(spec[2])} {wires[0]}"
        if k == "rnum":
            return f"R {spec[1]} {q(spec[2])} {wires[0]}"
        if k == "neg":
            return f"G {wires[0]}"
        if k == "recip":
            return f"C {wires[0]}"
        if k == "env":
            return f"E {wires[0]} {wires[1]}"
        if k == "imp":
            return f"I {wires[0]} {wires[1]}"
        if k == "un":
            if not vals:
                return f"U {spec[1]} [0] [0] {wires[0]}"      # the operand raised: the table is never consulted
            a = vals[0]
            keys = np.unique(np.concatenate([np.asarray(a.left, float), np.asarray(a.right, float)]))
            with np.errstate(all="ignore"):
                fv = UFN[spec[1]](keys)
            ok = np.isfinite(keys) & np.isfinite(fv)
            if spec[1] == "exp" and not np.all(ok):
                self.nonfinite = True          # exp overflows to inf: outside the rational model
            keys, fv = keys[ok], fv[ok]
            if len(keys) == 0:
                keys, fv = np.array([0.0]), np.array([0.0])
            return f"U {spec[1]} {ql(keys)} {ql(fv)} {wires[0]}"
        return None

    def apply(self, spec, vals):
        from pyuncertainnumber import pba
        k = spec[0]
        if k == "bin":
            op, dep = spec[1], spec[2]
            if op == "div":
                self.touches_zero(vals[1])
            return OPS[op](vals[0], vals[1]) if dep == "b" else getattr(vals[0], op)(vals[1], dependency=dep)
        # sums of operands whose magnitudes are more than 2^45 apart: binary64 absorbs the small one, the exact model does not
        def mag(v_):
            try:
                return float(max(np.max(np.abs(np.asarray(v_.left, float))), np.max(np.abs(np.asarray(v_.right, float)))))
            except Exception:  # noqa
                return 0.0
        if k in ("num", "rnum") and spec[1] in ("add", "sub"):
            a_, b_ = mag(vals[0]), abs(float(spec[2]))
            if a_ > 0 and b_ > 0 and max(a_, b_) / min(a_, b_) > 2.0 ** 45:
                self.absorbed = True
        if k == "bin" and spec[1] in ("add", "sub"):
            a_, b_ = mag(vals[0]), mag(vals[1])
            if a_ > 0 and b_ > 0 and max(a_, b_) / min(a_, b_) > 2.0 ** 45:
                self.absorbed = True
        if k == "rpow":
            return spec[1] ** vals[0]
        if k == "num":
            return OPS[spec[1]](vals[0], spec[2])
        if k == "rnum":
            if spec[1] == "div":
                self.touches_zero(vals[0])
            return OPS[spec[1]](spec[2], vals[0])
        if k == "neg":
            return -vals[0]
        if k == "recip":
            self.touches_zero(vals[0])
            return vals[0].reciprocal()
        if k == "un":
            self.exact = False
            return getattr(vals[0], spec[1])()
        if k == "env":
            return pba.envelope(vals[0], vals[1])
        if k == "imp":
            return pba.imposition(vals[0], vals[1])
        if k == "pown":
            return vals[0] ** spec[1]
        if k == "powp":
            return vals[0].pow(vals[1], dependency=spec[1])
        if k == "minmax":
            return getattr(vals[0], spec[1])(vals[1], method=spec[2])
        if k == "trig":
            return getattr(vals[0], spec[1])()
        if k == "cond":
            return vals[0].condensation(spec[1])
        if k == "dssrt":
            return vals[0].to_dss().to_pbox()
        if k == "stackrt":
            return pba.stacking(vals[0].to_interval())
        if k == "ufunc":
            return getattr(np, spec[1])(vals[0])
        raise KeyError(k)

    def run(self, spec, path="r"):
        """returns (value, wire); raises _Raised when the real code raises"""
        k = spec[0]
        self.nodes += 1
        if k == "leaf":
            v, w = self.pool[spec[1]]["value"], self.pool[spec[1]]["wire"]
            self.note(path, "leaf", v)
            return v, w
        modelled = k in MODELLED
        kids = _children(spec)
        vals, wires = [], []
        for i, cs in enumerate(kids):
            try:
                v, w = self.run(cs, path + str(i))
            except _Raised as e:
                ws = wires + [e.wire] + [DUMMY] * (len(kids) - i - 1)
                e.wire = self.mkwire(spec, ws, None) if modelled else None
                raise
            vals.append(v); wires.append(w)
        wire = self.mkwire(spec, wires, vals) if modelled else None
        try:
            v = self.apply(spec, vals)
        except BaseException as ex:  # noqa
            raise _Raised(ex, wire)
        self.note(path, k, v)
        if not modelled:
            self.unmodelled += 1
            wire = self.as_leaf(v)
        return v, wire


def gen_spec(rng, depth, npool, budget):
    """random history of the given depth (root at `depth`, leaves at 0); `budget` = max leaves"""
    if depth == 0 or budget[0] <= 1:
        budget[0] -= 1
        return ["leaf", rng.randrange(npool)]
    kind = rng.choice(["bin"] * 9 + ["num", "num", "rnum", "rnum", "neg", "neg", "recip", "un", "un", "env", "imp",
                                    "pown", "powp", "minmax", "trig", "cond", "dssrt", "stackrt", "ufunc", "rpow"])
    sub = lambda: gen_spec(rng, depth - 1 if rng.random() < 0.75 else rng.randrange(depth), npool, budget)
    C = [-3, -1, -0.5, 0.5, 2, 7, 0, 1, 10.25, -2]
    if rng.random() < 0.15:      # constants below machine epsilon and above 1e15
        C = [1e-20, 2.0 ** -60, 1.380649e-23, -1e-20, 1e18, -3e15]
    def pair():
        a = sub()
        if rng.random() < 0.12:           # the SAME operand (object, for a leaf) on both sides: X*X, X-X, env(a, a)
            return a, json.loads(json.dumps(a))
        return a, sub()
    if kind == "bin":
        op = rng.choice(["add", "sub", "mul", "div"])
        dep = rng.choice(["f", "f", "p", "p", "o", "o", "i", "i", "b", "x"] if rng.random() < 0.5 else ["f", "p", "o", "i"])
        a, b = pair()
        return ["bin", op, dep, a, b]
    if kind in ("num", "rnum"):
        return [kind, rng.choice(["add", "sub", "mul", "div"]), rng.choice(C), sub()]
    if kind in ("neg", "recip", "dssrt", "stackrt"):
        return [kind, sub()]
    if kind == "un":
        return ["un", rng.choice(["exp", "sqrt", "log"]), sub()]
    if kind in ("env", "imp"):
        a, b = pair()
        return [kind, a, b]
    if kind == "rpow":               # number ** p-box: a decreasing map for a base below one
        return ["rpow", rng.choice([0.5, 2, 0.1, 1, 3.5]), sub()]
    if kind == "pown":
        return ["pown", rng.choice([-2, -1, 0, 1, 2, 3, 0.5]), sub()]
    if kind == "powp":
        a = sub(); b = sub()
        return ["powp", rng.choice("fpoi"), a, b]
    if kind == "minmax":
        a = sub(); b = sub()
        return ["minmax", rng.choice(["min", "max"]), rng.choice("fpoi"), a, b]
    if kind == "trig":
        return ["trig", rng.choice(["sin", "cos", "tanh"]), sub()]
    if kind == "cond":
        return ["cond", rng.choice([3, 5, 10, 50]), sub()]
    if kind == "ufunc":
        return ["ufunc", rng.choice(["exp", "sqrt", "log", "tanh", "reciprocal"]), sub()]
    raise KeyError(kind)


def spec_depth(s):
    subs = [x for x in s[1:] if isinstance(x, list) and x and isinstance(x[0], str) and x[0] in ALLK]
    return 0 if s[0] == "leaf" else 1 + max([spec_depth(x) for x in subs] + [0])


ALLK = MODELLED | {"pown", "powp", "minmax", "trig", "cond", "dssrt", "stackrt", "ufunc", "rpow"}


def spec_kinds(s, acc):
    acc.append(s[0] if s[0] != "bin" else f"bin:{s[1]}/{s[2]}")
    for x in s[1:]:
        if isinstance(x, list) and x and isinstance(x[0], str) and x[0] in ALLK:
            spec_kinds(x, acc)
    return acc


# ---------------------------------------------------------------------------------------------
# constructor stream: Staircase(left, right) on raw input
def qn(x):
    return "nan" if (isinstance(x, float) and math.isnan(x)) else q(x)


def qln(xs):
    return "[" + ",".join(qn(x) for x in xs) + "]"


def ctor_cases(ctx):
    rng = ctx.rng
    n, _, _ = params()
    cases = []   # (stream, lists, left, right)
    def sorted_ints(m, lo=-30, hi=30):
        return sorted(rng.randint(lo, hi) for _ in range(m))
    def wf_pair(m, distinct=False):
        if distinct:      # strictly increasing bounds: every index of a length normalisation is visible in the values
            l = sorted(rng.sample(range(-4 * m - 10, 4 * m + 10), m))
        else:
            l = sorted_ints(m)
        w = [rng.choice([0, 0, 1, 3]) for _ in range(m)]
        r = [a + b for a, b in zip(l, w)]
        if distinct:
            for i in range(1, m):
                r[i] = max(r[i], r[i - 1] + 1)
        else:
            r = list(np.maximum.accumulate(r))
        return [float(x) for x in l], [float(x) for x in r]
    # exact length: accepted / swapped / crossing / unsorted
    for _ in range(ctx.scale(12, 200)):
        l, r = wf_pair(n)
        cases.append(("ctor-exact", rng.random() < 0.3, l, r))
        cases.append(("ctor-swapped", rng.random() < 0.3, r, l))
        k = rng.randrange(n)
        l2, r2 = list(l), list(r)
        j0, j1 = sorted([rng.randrange(n), rng.randrange(n)])
        for j in range(j0, j1 + 1):           # cross on a stretch: left above right there, both stay sorted
            l2[j], r2[j] = max(l[j], r[j]) + 1.0, min(l[j], r[j])
        l2 = list(np.maximum.accumulate(l2)); r2 = sorted(r2)
        cases.append(("ctor-crossing", rng.random() < 0.5, [float(x) for x in l2], [float(x) for x in r2]))
        l3 = list(l); l3[k] = l3[k] - 100.0 if k > 0 else l3[k] + 100.0
        cases.append(("ctor-unsorted", rng.random() < 0.3, l3, r) if rng.random() < 0.5 else ("ctor-unsorted", False, l, list(reversed(r))))
    # lists: lexicographic switch (first entry larger, the rest not)
    for _ in range(ctx.scale(6, 60)):
        l, r = wf_pair(n)
        l2 = list(l); l2[0] = r[0] + 1.0 if r[0] + 1.0 <= l[1] else l2[0]
        cases.append(("ctor-lexi", True, l2, r))
        cases.append(("ctor-lexi", True, r, l2))
    # NaN
    for _ in range(ctx.scale(16, 300)):
        l, r = wf_pair(n)
        side, pos = rng.choice("lr"), rng.choice([0, 1, n // 2, n - 2, n - 1, rng.randrange(n)])
        (l if side == "l" else r)[pos] = float("nan")
        cases.append(("ctor-nan", False, l, r))
    cases.append(("ctor-nan", False, [float("nan")] * n, [float("nan")] * n))
    # longer: condensation (with and without NaN on a sampled index)
    for _ in range(ctx.scale(10, 150)):
        m = rng.choice([n + 1, n + 2, 2 * n - 1, 2 * n, 3 * n + 7, rng.randint(n + 1, 5 * n), 1025, 4097, 5000])
        l, r = wf_pair(m, distinct=True)
        if rng.random() < 0.3:
            (l if rng.random() < 0.5 else r)[rng.randrange(m)] = float("nan")
        cases.append(("ctor-longer", False, l, r))
    # shorter: 'next' interpolation
    for m in sorted(set([1, 2, 3, n - 1, n - 2] + [rng.randint(1, n - 1) for _ in range(ctx.scale(8, 120))])):
        l, r = wf_pair(m, distinct=True)
        cases.append(("ctor-shorter", rng.random() < 0.3, l, r))
    cases.append(("ctor-shorter", False, [-3.0], [-2.0]))       # one value: outside the single level the end value is used
    cases.append(("ctor-shorter", False, [5.0], [7.0]))
    # unequal lengths, broadcasting, empty
    for _ in range(ctx.scale(6, 60)):
        m1, m2 = rng.choice([(3, 5), (n, n + 1), (1, n), (n, 1), (1, 7), (n - 1, n), (2 * n, n)])
        l, _ = wf_pair(m1); _, r = wf_pair(m2)
        cases.append(("ctor-unequal", rng.random() < 0.4, l, [x + 40 for x in r]))
    cases.append(("ctor-empty", False, [], []))
    cases.append(("ctor-empty", True, [], []))
    cases.append(("ctor-empty", False, [], [1.0]))
    # the same cases at tiny and huge magnitudes (a scaling changes no order relation; powers of two keep every value exact)
    SCALES = [2.0 ** -30, 2.0 ** -50, 2.0 ** -70, 1e-19, 1e-170, 2.0 ** 36, 1e150]
    out = []
    for j, (stream, lists, l, r) in enumerate(cases):
        out.append((stream, lists, l, r))
        if stream != "ctor-empty" and (j % 2 == 0 or stream in ("ctor-unsorted", "ctor-crossing", "ctor-nan")):
            sc = SCALES[j % len(SCALES)] if rng.random() < 0.7 else rng.choice(SCALES)
            out.append((stream, lists, [x * sc for x in l], [x * sc for x in r]))
    return out


def ctor_impl(lists, l, r):
    from pyuncertainnumber.pba.pbox_abc import Staircase
    try:
        if lists:
            p = Staircase(left=list(l), right=list(r))
        else:
            p = Staircase(left=np.array(l, dtype=float), right=np.array(r, dtype=float))
        return pbx.canon_pb(p), p
    except BaseException as e:  # noqa
        return ("err", core.err_kind(e)), None


def bsc_impl(b):
    from pyuncertainnumber.pba.pbox_abc import bound_steps_check
    try:
        out = bound_steps_check(np.array(b, dtype=float))
        return ("ok", [float(x) for x in out])
    except BaseException as e:  # noqa
        return ("err", core.err_kind(e))


def parse_nr_reply(s):
    t = s.split()
    if t[0] == "err":
        return ("err", t[1])
    if t[0] == "ok":
        body = t[1][1:-1]
        return ("ok", [None if x == "nan" else F(x) for x in body.split(",")] if body else [])
    return ("bad", s)


def same_nr(impl, model):
    if impl[0] != model[0]:
        return False
    if impl[0] == "err":
        return impl[1] == model[1]
    if len(impl[1]) != len(model[1]):
        return False
    for a, b in zip(impl[1], model[1]):
        if math.isnan(a) != (b is None):
            return False
        if b is not None and F(a) != b:
            return False
    return True


# ---------------------------------------------------------------------------------------------
def model_par(prop, reqs, workers=None):
    """the compiled model on many requests, split over several driver processes"""
    if not reqs:
        return []
    workers = workers or min(12, os.cpu_count() or 4)
    lines = [f"{i} {r}" for i, r in enumerate(reqs)]
    # interleave so that heavy cases spread evenly
    chunks = [lines[k::workers] for k in range(workers)]
    chunks = [c for c in chunks if c]
    with ThreadPoolExecutor(len(chunks)) as ex:
        outs = list(ex.map(lambda c: core.run_driver(prop, c), chunks))
    res = [None] * len(reqs)
    for out in outs:
        for o in out:
            i, _, rest = o.partition(" ")
            res[int(i)] = rest
    if any(r is None for r in res):
        raise core.InfraError("driver lost a reply")
    return res


# ---------------------------------------------------------------------------------------------
# moment stream (REAL `_init_moments`), evaluated in worker processes
def moment_specs(ctx):
    rng = ctx.rng
    S = []
    u = lambda: ["uniform", [[r2(rng, 0.5, 2), r2(rng, 2, 3)], [r2(rng, 4, 5), r2(rng, 5, 7)]]]
    nrm = lambda: ["normal", [[r2(rng, 1, 2), r2(rng, 2, 3)], [r2(rng, 0.3, 0.5), r2(rng, 0.6, 1)]]]
    L = lambda s: ["L", s]
    S.append(("uniform", L(u())))
    S.append(("stacking", L(["stacking", [[[1, 3], [2, 4], [r2(rng, -1, 0), 5]], None]])))
    S.append(("dss", L(["dss", [[[1, 3], [2, 4], [0, 5]], [0.2, 0.3, 0.5]]])))
    S.append(("KS_bounds", L(["KS_bounds", [[r2(rng, 0, 6) for _ in range(7)], 0.05]])))
    S.append(("min_mean", L(["min_mean", [0, r2(rng, 0.5, 2)]])))
    S.append(("min_max_mean", L(["min_max_mean", [0, 2, r2(rng, 0.5, 1.5)]])))
    S.append(("from_percentiles", L(["from_percentiles", [[0, 0], [0.25, 0.5], [0.5, 1], [0.75, 2], [1, 4]]])))
    S.append(("exponential_by_lambda", L(["exponential_by_lambda", [[1, 2]]])))
    S.append(("ecdf_bundle", L(["ecdf_bundle", [[0.5, 1, 2, 3], [1, 2.5, 3, 4.5]]])))
    S.append(("point", L(["raw", [[[2.0, 200]], [[2.0, 200]]]])))
    S.append(("two-step", L(["raw", [[[0.0, 100], [1.0, 100]], [[1.0, 100], [2.0, 100]]]])))
    for d in "fpoi":
        S.append((f"add/{d}", ["bin", "add", d, L(nrm()), L(nrm())]))
    S.append(("sub/f", ["bin", "sub", "f", L(nrm()), L(nrm())]))
    S.append(("mul/p", ["bin", "mul", "p", L(nrm()), L(nrm())]))
    S.append(("mul/i", ["bin", "mul", "i", L(nrm()), L(["normal", [[-1, 1], [0.5, 1]]])]))
    S.append(("div/f", ["bin", "div", "f", L(nrm()), L(["normal", [[5, 6], [0.5, 0.6]]])]))
    S.append(("num-mul", ["num", "mul", rng.choice([2, -3, 0.5]), L(nrm())]))
    S.append(("num-add", ["num", "add", rng.choice([1, -7.5]), L(nrm())]))
    S.append(("rnum-sub", ["rnum", "sub", 3, L(nrm())]))
    S.append(("neg", ["neg", L(u())]))
    S.append(("exp", ["un", "exp", L(nrm())]))
    S.append(("sqrt", ["un", "sqrt", L(["normal", [[9, 10], [0.5, 1]]])]))
    S.append(("env", ["env", L(nrm()), L(nrm())]))
    S.append(("imp", ["imp", L(["normal", [[1, 3], [1, 1.5]]]), L(["normal", [[2, 4], [1, 1.5]]])]))
    # scale / offset stress of the moment code
    S.append(("scale-1e6", ["num", "mul", 1e6, L(nrm())]))
    S.append(("scale-1e-6", ["num", "mul", 1e-6, L(nrm())]))
    S.append(("offset-1e8", ["num", "add", 1e8, L(nrm())]))
    S.append(("offset-1e4-narrow", ["num", "add", 1e4, L(["normal", [[0, 0.01], [0.001, 0.002]]])]))
    S.append(("near-degenerate", L(["raw", [[[2.0, 200]], [[2.000000000001, 200]]]])))
    S.append(("unbounded-support", ["recip", L(["min_max_mode", [0, 2, 1]])]))
    S.append(("ecdf-fallback-offset", ["num", "add", 1000, ["num", "mul", 0.001, L(["t", [[1.5, 2]]])]]))
    S.append(("left-wider-than-right", L(["raw", [[[0.0, 50], [5.0, 100], [10.0, 50]], [[10.0, 100], [10.5, 100]]]])))
    S.append(("heavy-tail-t", L(["t", [[1.5, 2]]])))
    S.append(("heavy-tail-pareto", L(["pareto", [[1.5, 2]]])))
    # interval parameters whose corners straddle the "family moments fit the discretised support" test
    S.append(("heavy-tail-t-mixed", L(["t", [[2.001, 30]]])))
    S.append(("heavy-tail-pareto-mixed", L(["pareto", [[2.001, 4]]])))
    S.append(("heavy-tail-lognormal-mixed", L(["lognormal", [0, [0.5, 3.5]]])))
    S.append(("heavy-tail-t-mixed-neg", ["neg", L(["t", [[2.001, 30]]])]))
    # --- less common entry points, small adversarial arguments (moments derived or supplied by the entry point) ---
    half = rng.choice([3, 25])
    S.append(("ECDF-two-point", L(["ECDF", [[2, 5], "float"]])))
    S.append(("ECDF-repeated-extreme", L(["ECDF", [[1, 1, 4], "int"]])))
    S.append(("ECDF-balanced-binary", L(["ECDF", [[0] * half + [1] * half, "list"]])))
    S.append(("ECDF-balanced-binary-neg", ["neg", L(["ECDF", [[0] * 25 + [1] * 25, "float"]])]))
    S.append(("ECDF-sample", L(["ECDF", [[r2(rng, 0, 6) for _ in range(rng.choice([3, 7, 12]))], "float"]])))
    S.append(("ECDF-one-value", L(["ECDF", [[3.0], "float"]])))
    S.append(("ECDF-far", L(["ECDF", [[1e6 + 1, 1e6 + 2, 1e6 + 2.5], "float"]])))
    S.append(("KS-two-values", L(["KS_bounds", [[2.0, 5.0], 0.05]])))
    S.append(("from_percentiles-intervals", L(["from_percentiles_ivl", [[0, 0], [0.5, [1, 2]], [0.75, [2, 3]], [1, 6]]])))
    S.append(("known_properties-mmm", L(["known_properties", [{"minimum": 0, "maximum": 2, "mean": r2(rng, 0.5, 1.5)}]])))
    S.append(("known_properties-mv", L(["known_properties", [{"mean": 1, "var": 0.25}]])))
    S.append(("known_constraints", L(["known_constraints", [{"minimum": 0, "maximum": 2, "mean": 1}]])))
    S.append(("stochastic_mixture", L(["stochastic_mixture", [[[1, 3], [2, 4]], [0.9, 0.1], "I"]])))
    S.append(("stacking-mixed", L(["stacking_mixed", [[[1, 3], [2, 4], [0, 5]], [0.2, 0.3, 0.5]]])))
    S.append(("dss-one-focal", L(["dss", [[[1, 3]], [1.0]]])))
    S.append(("dss-separated-offset", ["num", "add", 3000, L(["dss", [[[1, 2], [3, 4]], [0.5, 0.5]]])]))
    S.append(("dss-separated-offset-neg", ["neg", ["num", "add", 3000, L(["dss", [[[1, 2], [3, 4]], [0.5, 0.5]]])]]))
    S.append(("dss-degenerate-focal-far", L(["dss", [[[5000, 5000], [5001, 5002]], [0.5, 0.5]]])))
    S.append(("indep-sum-offset", ["num", "sub", 8000, ["bin", "add", "i", L(["normal", [[0, 1], 1]]), L(["normal", [[0, 1], 1]])]]))
    S.append(("dist-list-params", ["num", "add", 1, L(["dist_list", ["norm", [0, 1]]])]))
    S.append(("condensation", ["cond", 5, L(nrm())]))
    S.append(("dss-round-trip", ["dssrt", L(u())]))
    S.append(("min/f", ["minmax", "min", "f", L(nrm()), L(u())]))
    S.append(("max/o", ["minmax", "max", "o", L(nrm()), L(u())]))
    S.append(("pow-minus-one", ["pown", -1, L(["interval", [1.0, 2.0]])]))
    S.append(("pow-minus-two", ["pown", -2, L(["normal", [[5, 6], 1]])]))
    S.append(("pow-cube-inside-unit", ["pown", 3, L(["uniform", [0.1, 0.5]])]))
    S.append(("pow-zero", ["pown", 0, L(nrm())]))
    S.append(("pow/p", ["powp", "p", L(["uniform", [[1, 2], [3, 4]]]), L(["uniform", [[0.5, 1], [1.5, 2]]])]))
    S.append(("tanh", ["trig", "tanh", L(nrm())]))
    # --- integer-dtype bounds ---
    S.append(("int-dtype-array", L(["rawint", [[[0, 100], [1, 100]], [[1, 100], [3, 100]], "array"]])))
    S.append(("int-dtype-list-times-2", ["num", "mul", 2, L(["rawint", [[[-3, 50], [1, 150]], [[2, 120], [4, 80]], "list"]])]))
    S.append(("int-dtype-plus-int", ["num", "add", 7, L(["min_max", [2, 5]])]))
    S.append(("int-dtype-sum", ["bin", "add", "p", L(["rawint", [[[0, 100], [1, 100]], [[1, 100], [3, 100]], "array"]]), L(["min_max", [2, 5]])]))
    # --- thin but not degenerate; tiny magnitudes ---
    S.append(("thin-uniform", L(["uniform", [[1.0, 1.0 + 1e-7], [1.0 + 2e-7, 1.0 + 3e-7]]])))
    S.append(("thin-sum", ["bin", "add", "f", L(["interval", [1.0, 1.0 + 1e-9]]), L(["interval", [1.0, 1.0 + 1e-9]])]))
    S.append(("thin-difference", ["bin", "sub", "p", L(["uniform", [[1.0, 1.0 + 1e-7], [1.0 + 2e-7, 1.0 + 3e-7]]]), L(["interval", [1.0, 1.0 + 1e-9]])]))
    S.append(("tiny-product", ["bin", "mul", "p", L(["interval", [2e-9, 8e-9]]), L(["uniform", [[2e-9, 3e-9], [7e-9, 8e-9]]])]))
    # --- extreme constants; precise boxes far from the origin ---
    for cname, cst in (("1e-20", 1e-20), ("2^-60", 2.0 ** -60), ("1e18", 1e18)):
        S.append(("scale-" + cname, ["num", "mul", cst, L(nrm())]))
    S.append(("scale-1e-170", ["num", "mul", 1e-170, L(nrm())]))
    S.append(("scale-1e150", ["num", "mul", 1e150, L(u())]))
    S.append(("scale-2^-70-int", L(["rawscaled", [[[0, 100], [1, 100]], [[1, 100], [3, 100]], -70]])))
    S.append(("offset-1e15", ["num", "add", 1e15, L(u())]))
    S.append(("precise-uniform+3e8", ["num", "add", 3e8, L(["uniform", [0, 3]])]))
    S.append(("precise-normal-1e8", ["num", "sub", 1e8, L(["normal", [0, 1]])]))
    S.append(("precise-exp+1e10", ["num", "add", 1e10, ["un", "exp", L(["uniform", [0, 1]])]]))
    S.append(("ECDF+1e9", ["num", "add", 1e9, L(["ECDF", [[1.0, 2.0, 4.0, 7.0], "float"]])]))
    if ctx.tier == "thorough":
        S.append(("mul/f-straddle", ["bin", "mul", "f", L(["normal", [[-1, 1], [0.5, 1]]]), L(nrm())]))
        for _ in range(60):
            S.append(("rand-uniform", L(u())))
            S.append(("rand-add", ["bin", "add", rng.choice("fpoi"), L(nrm()), L(u())]))
            S.append(("rand-offset", ["num", "add", rng.choice([1e3, -1e5, 1e7]), L(u())]))
            S.append(("rand-scale", ["num", "mul", rng.choice([1e3, 1e-4, -1e5]), L(u())]))
    return S


def moment_eval(spec):
    k = spec[0]
    if k == "L":
        return build_leaf(spec[1])
    if k == "bin":
        return getattr(moment_eval(spec[3]), spec[1])(moment_eval(spec[4]), dependency=spec[2])
    if k == "num":
        return OPS[spec[1]](moment_eval(spec[3]), spec[2])
    if k == "rnum":
        return OPS[spec[1]](spec[2], moment_eval(spec[3]))
    if k == "neg":
        return -moment_eval(spec[1])
    if k == "recip":
        return moment_eval(spec[1]).reciprocal()
    if k == "un":
        return getattr(moment_eval(spec[2]), spec[1])()
    if k == "env":
        return moment_eval(spec[1]).env(moment_eval(spec[2]))
    if k == "imp":
        return moment_eval(spec[1]).imp(moment_eval(spec[2]))
    if k == "cond":
        return moment_eval(spec[2]).condensation(spec[1])
    if k == "dssrt":
        return moment_eval(spec[1]).to_dss().to_pbox()
    if k == "minmax":
        return getattr(moment_eval(spec[3]), spec[1])(moment_eval(spec[4]), method=spec[2])
    if k == "pown":
        return moment_eval(spec[2]) ** spec[1]
    if k == "powp":
        return moment_eval(spec[2]).pow(moment_eval(spec[3]), dependency=spec[1])
    if k == "trig":
        return getattr(moment_eval(spec[2]), spec[1])()
    raise KeyError(k)


def moment_worker(item):
    import warnings
    warnings.filterwarnings("ignore")
    core.unstub_moments()
    name, spec = item
    t = time.time()
    try:
        p = moment_eval(spec)
    except BaseException as e:  # noqa
        return {"name": name, "spec": spec, "err": core.err_kind(e), "msg": str(e)[:80]}
    probs = wf_problems(p, real_moments=True)
    # the value stays alive while unrelated p-boxes are built and dropped; it must still read the same
    snap = snapshot_safe(p)
    try:
        for k_ in range(3):       # cheap constructors that carry their own moments (no LP)
            _tmp = [-build_leaf(["normal", [[0.5 + k_, 1.5 + k_], [0.3, 0.4]]]), build_leaf(["interval", [k_, k_ + 2]]),
                    build_leaf(["min_max", [k_, k_ + 3]])]
            del _tmp
    except BaseException:  # noqa
        pass
    if snapshot_safe(p) != snap:
        probs.append(("changed-after-return", "bounds or moments differ after unrelated calls"))
    meta = getattr(p, "_moments_meta", None)
    return {"name": name, "spec": spec, "problems": probs, "method": (meta or {}).get("method"),
            "support": [float(p.left[0]), float(p.right[-1])], "mean": [float(p.mean.lo), float(p.mean.hi)],
            "var": [float(p.var.lo), float(p.var.hi)], "secs": round(time.time() - t, 2)}


# ---------------------------------------------------------------------------------------------
def report_problems(ctx, probs, feat, case, where):
    for chk, detail in probs:
        ctx.fail({**feat, "check": chk}, case, f"{where}: {chk} — {detail}")


def run(ctx: core.Check):
    import multiprocessing as mp
    core.stub_moments()
    n, lb, hb = params()
    cw = cfg_wire()
    rng = ctx.rng
    ctx.rule = ("(a) Staircase(left,right) on raw arrays/lists: exact length (accepted, swapped, crossing, unsorted, lexicographic lists), "
                "NaN at every kind of position, longer bounds (condensation), shorter bounds (every length 1..steps-1 in thorough, "
                "a sample in quick; bound_steps_check alone for all lengths), unequal lengths, empty; "
                "(b) random histories of depth 1..4 (at most 6 leaves) over boxes from ~45 public constructor calls "
                "(parametric families, distribution-free, interval, DSS/stacking, ECDF bundle/KS) and integer step boxes; nodes: "
                "add/sub/mul/div under f,p,o,i, bare operators, unknown dependency code, number operands on either side, negation, "
                "reciprocal, exp/sqrt/log, envelope, imposition (modelled) and pow, min/max, sin/cos/tanh, condensation, DSS round "
                "trip, numpy ufuncs (oracle only). Non-trivial = at least one operation node; distinct on the history. "
                "(c) ~90 boxes whose moments come from the real LP / ECDF code or from the entry point itself (ECDF, KS, DSS, "
                "known_properties, mixtures, condensation, min/max, pow, integer dtype, thin/tiny operands, extreme constants, "
                "offsets up to 1e15). (d) a fixed call sequence and snapshot re-reads of all returned values (aliasing).")
    ctx.assumptions = [
        "binary64 rounding is not modelled: integer histories must agree exactly, others within 64*nodes ulp of the largest magnitude met",
        "exp/sqrt/log enter the model as value tables computed by the same numpy call (nearest-key lookup); theorems assume monotone",
        "scipy.optimize.linprog and the ECDF moment fallback are not modelled; their outputs are checked by the oracle only",
        "infinite bounds (division by a box touching zero) are outside the rational model: such histories are checked by the oracle only",
        "constructors are opaque: the model receives the arrays they pass to Staircase/Leaf (their meaning is C08/C09/C10)",
    ]
    def _ctor():
        from .translator import ctor
        r = ctor.generate(core.REPO, core.LEAN / "Pun/Gen/CtorGen.lean")
        return "ok: " + "; ".join(f"{k} {v}" for k, v in r.items())
    ctx.lean_stage(LEAN_MODULES, generators=[("constructor validation of utils.py / pbox_abc.py (ctor translator)", _ctor)])

    # ---- moment stream starts first (worker processes, real moment code) -------------------------
    mspecs = moment_specs(ctx)
    mpctx = mp.get_context("fork")
    pool_proc = mpctx.Pool(min(len(mspecs), max(2, (os.cpu_count() or 4) - 2)))
    masync = pool_proc.map_async(moment_worker, mspecs, chunksize=1)

    # ---- (a) constructor stream ----------------------------------------------------------------
    cc = ctor_cases(ctx)
    reqs = [f"mkn {cw} {1 if lists else 0} {qln(l)} {qln(r)}" for (_, lists, l, r) in cc]
    lens = list(range(1, n)) if ctx.tier == "thorough" else sorted(set([1, 2, 3, 4, 5, 7, 50, 100, 101, n - 2, n - 1] + [rng.randint(1, n - 1) for _ in range(30)]))
    lens += [n, n + 1, 2 * n, 2 * n + 1, 3 * n - 1, 997, 1024, 1025, 4097, n * n]
    breqs = [f"bsc {cw} {ql(range(m))}" for m in lens]
    replies = model_par("C04", reqs + breqs)
    for (stream, lists, l, r), rep in zip(cc, replies[: len(cc)]):
        ctx.count(("ctor", lists, tuple(map(repr, l)), tuple(map(repr, r))), True, stream)
        impl, obj = ctor_impl(lists, l, r)
        model = pbx.parse_reply(rep)
        if pbx.same(impl, model, exact=True):
            ctx.tie_ok()
        else:
            ctx.tie_bad(stream, {"lists": lists, "len": [len(l), len(r)], "left": l[:6], "right": r[:6]}, pbx.js(impl), pbx.js(model))
        case = {"stream": stream, "lists": lists, "left": rle(l) if len(rle(l)) < 40 else l[:8], "right": rle(r) if len(rle(r)) < 40 else r[:8],
                "impl": pbx.js(impl)}
        if obj is not None:
            report_problems(ctx, wf_problems(obj), {"node": "ctor", "stream": stream, "lists": lists}, case, f"Staircase(...) [{stream}]")
        # what the constructor owes on input that IS a p-box (independent of the model)
        clean = not any(math.isnan(x) for x in l + r)
        want = None
        if stream == "ctor-exact":
            want = (l, r)
        elif stream == "ctor-swapped":
            want = (r, l)
        if want is not None:
            if impl[0] != "ok" or impl[1] != want[0] or impl[2] != want[1]:
                ctx.fail({"node": "ctor", "stream": stream, "lists": lists, "check": "valid-input-not-returned"}, case,
                         f"Staircase on well-formed bounds ({stream}) did not return them: {pbx.js(impl)}")
        if stream in ("ctor-longer", "ctor-shorter") and clean:
            if impl[0] != "ok":
                ctx.fail({"node": "ctor", "stream": stream, "lists": lists, "check": "length-normalisation-raises"}, case,
                         f"Staircase on well-formed bounds of length {len(l)} raised {impl[1]}")
            else:
                for side, src, got in (("left", l, impl[1]), ("right", r, impl[2])):
                    okk = len(got) == n and got[0] == src[0] and got[-1] == src[-1] and set(got) <= set(src) and got == ref_normalise(src, n)
                    if not okk:
                        ctx.fail({"node": "ctor", "stream": stream, "lists": lists, "check": "length-normalisation-values"}, case,
                                 f"{side} bound of length {len(src)} normalised to {len(got)} values; ends {got[:1]}..{got[-1:]} vs {src[:1]}..{src[-1:]}, "
                                 f"foreign values: {sorted(set(got) - set(src))[:3]}")
        ctx.sample({"stream": stream, "lists": lists, "len": [len(l), len(r)], "impl": pbx.js(impl)}, cap=4)
    for m, rep in zip(lens, replies[len(cc):]):
        ctx.count(("bsc", m), True, "bound-steps")
        impl = bsc_impl(list(range(m)))
        model = parse_nr_reply(rep)
        if same_nr(impl, model):
            ctx.tie_ok()
        else:
            ctx.tie_bad("bound-steps", {"len": m}, impl[:1] + ((impl[1][:8],) if impl[0] == "ok" else impl[1:]), rep[:120])
        if impl[0] == "ok" and len(impl[1]) != n:
            ctx.fail({"node": "bound_steps_check", "check": "steps", "len": m}, {"len": m}, f"bound_steps_check returned {len(impl[1])} values for a bound of {m}")

    # ---- (b) histories -------------------------------------------------------------------------
    specs = leaf_specs(rng, ctx.scale(45, 60), ctx.scale(12, 24))
    pool = []
    for s in specs:
        try:
            v = build_leaf(s)
        except BaseException as e:  # noqa
            ctx.bump("leaf-constructor-raises:" + s[0])
            continue
        case = {"constructor": s[0], "args": s[1] if not s[0].startswith("raw") else "integer step box (%s)" % s[0]}
        probs = wf_problems(v)
        report_problems(ctx, probs, {"node": "leaf", "ctor": s[0], "stream": "leaf"}, case, f"constructor {s[0]}")
        ctx.count(("leaf", json.dumps(s)), True, "leaf")
        if any(c in ("steps", "nan", "left-decreasing", "right-decreasing", "left-above-right") for c, _ in probs):
            continue
        l = [float(x) for x in v.left]; r = [float(x) for x in v.right]
        if not all(math.isfinite(x) for x in l + r):
            continue
        pool.append({"spec": s, "value": v, "wire": f"L 0 {ql(l)} {ql(r)}", "int": s[0] in ("raw", "rawint"), "scale": s[1][2] if s[0] == "rawscaled" else None, "snap": snapshot_safe(v)})
    int_idx = [i for i, p in enumerate(pool) if p["int"]]
    def evaluate(sp):
        h = Hist(pool)
        try:
            v, wire = h.run(sp)
            impl = pbx.canon_pb(v)
        except _Raised as e:
            impl, wire, v = ("err", core.err_kind(e.orig)), e.wire, None
        # the oracle on every value the real code returned along the way
        h.problems = [(path, kind, wf_problems(val)) for path, kind, val, _ in h.values if kind != "leaf"]
        return (sp, h, impl, wire, None)

    def to_int(s):
        if s[0] == "leaf":
            return ["leaf", rng.choice(int_idx)]
        return [to_int(x) if (isinstance(x, list) and x and isinstance(x[0], str) and x[0] in ALLK) else x for x in s]

    def to_scaled(s, grp, sc):
        if s[0] == "leaf":
            return ["leaf", rng.choice(grp)]
        out = [to_scaled(x, grp, sc) if (isinstance(x, list) and x and isinstance(x[0], str) and x[0] in ALLK) else x for x in s]
        if out[0] in ("num", "rnum") and out[1] in ("add", "sub"):
            out[2] = out[2] * sc          # additive constants live at the same magnitude
        return out

    runs = []
    keep = 400      # only the latest results stay alive in long runs

    def recheck(lo_, hi_, when):
        """values already handed out must still read the same (no shared buffers / caches written by later calls),
        and the operands must be what they were"""
        for (sp_, h_, _, _, _) in runs[lo_:hi_]:
            for path, kind, val, snap in h_.values:
                if kind == "leaf" or val is None:
                    continue
                now = snapshot_safe(val)
                if now != snap:
                    ctx.fail({"node": kind, "stream": "history", "check": "changed-after-return"},
                             {"history": sp_, "at": path, "when": when, "recorded": snap, "now": now},
                             f"a p-box returned by {kind} reads differently {when}: fields {[i for i, (a, b) in enumerate(zip(snap, now)) if a != b]}")
        for i_, pl in enumerate(pool):
            now = snapshot_safe(pl["value"])
            if now != pl["snap"]:
                ctx.fail({"node": "leaf", "stream": "history", "check": "operand-changed", "ctor": pl["spec"][0]},
                         {"leaf": pl["spec"] if not pl["spec"][0].startswith("raw") else pl["spec"][0], "when": when, "recorded": pl["snap"], "now": now},
                         f"operand #{i_} ({pl['spec'][0]}) was changed by an operation ({when})")
                pl["snap"] = now

    nh = ctx.scale(230, 9000)
    for i in range(nh):
        depth = [1, 2, 3, 4][i % 4]
        for attempt in range(4):
            sp = gen_spec(rng, depth, len(pool), [rng.choice([2, 3, 4, 6])])
            if i % 5 == 0 and int_idx:      # exact sub-stream: integer boxes only
                sp = to_int(sp)
            elif i % 7 == 3:                # the whole history at a tiny / huge magnitude (power-of-two scaling)
                k_ = SCALE_EXPONENTS[(i // 7) % len(SCALE_EXPONENTS)]
                grp = [j_ for j_, pl in enumerate(pool) if pl["scale"] == k_]
                if grp:
                    sp = to_scaled(sp, grp, 2.0 ** k_)
            res = evaluate(sp)
            # histories that raise are kept only now and then (they end at the first exception)
            if res[2][0] == "ok" or rng.random() < 0.3:
                break
        runs.append(res)
        if len(runs) % 50 == 0:
            recheck(max(0, len(runs) - keep), len(runs), f"after {len(runs)} histories")
            ctx.bump("aliasing-rechecks")
            for old_ in runs[max(0, len(runs) - keep - 50): max(0, len(runs) - keep)]:
                old_[1].values = []          # let go of results older than the window
    # witnesses of root causes repaired by `fix:` commits
    def first(name, default):
        return next((i for i, pl in enumerate(pool) if pl["spec"][0] == name), default)
    iu, ie = first("uniform", 0), first("exponential", 1 % len(pool))
    for d in "poi":
        runs.append(evaluate(["powp", d, ["leaf", iu], ["leaf", ie]]))
    runs.append(evaluate(["minmax", "max", "o", ["leaf", first("min_max_mean_std", 0)], ["leaf", first("mean_var", 1 % len(pool))]]))
    recheck(max(0, len(runs) - keep), len(runs), "at the end of the history stream")
    # the same history evaluated again, after everything else: identical value
    again = [j for j in range(len(runs)) if runs[j][2][0] == "ok"]
    rng.shuffle(again)
    for j in again[: ctx.scale(30, 300)]:
        second = evaluate(runs[j][0])
        ctx.bump("evaluated-twice")
        if second[2] != runs[j][2]:
            ctx.fail({"node": runs[j][0][0], "stream": "history", "check": "not-reproducible"},
                     {"history": runs[j][0], "first": pbx.js(runs[j][2]), "second": pbx.js(second[2])},
                     "the same history evaluated twice (other operations in between) gave different values")
    reqs, idx = [], []
    for j, (sp, h, impl, wire, v) in enumerate(runs):
        if wire is None or h.nonfinite or h.absorbed:
            continue
        reqs.append(f"ev {cw} {wire}")
        idx.append(j)
    replies = dict(zip(idx, model_par("C04", reqs)))
    for j, (sp, h, impl, wire, v) in enumerate(runs):
        kinds = spec_kinds(sp, [])
        ctx.count(json.dumps(sp), sp[0] != "leaf", "history-depth-%d" % spec_depth(sp))
        for kd in set(kinds):
            ctx.bump("node:" + kd)
        case = {"history": sp, "leaves": {str(i): pool[i]["spec"] if not pool[i]["spec"][0].startswith("raw") else "integer step box #%d (%s)" % (i, pool[i]["spec"][0])
                                         for i in sorted(set(_leaf_ids(sp, [])))}, "impl": pbx.js(impl)}
        for path, kind, probs in h.problems:
            sub = _sub_at(sp, path)
            feat = {"node": kind, "stream": "history", "op": sub[1] if kind in ("bin", "num", "rnum", "un", "trig", "ufunc", "minmax") else None,
                    "dep": sub[2] if kind in ("bin", "minmax") else (sub[1] if kind == "powp" else None)}
            report_problems(ctx, probs, feat, {**case, "at": path, "node": sub[:3]}, f"result of {kind} {sub[1:3] if len(sub) > 2 else ''}")
        if j in replies:
            model = pbx.parse_reply(replies[j])
            exact = h.exact and h.scale < 2.0 ** 50 and not any(k.startswith("bin:div") or k in ("recip", "un") for k in kinds) \
                and not any(s_[0] in ("num", "rnum") and (s_[1] == "div" or float(s_[2]) != int(s_[2])) for s_ in _all_nodes(sp, []))
            nodes_ = _all_nodes(sp, [])
            relative = all(s_[0] in ("leaf", "neg", "recip", "env", "imp") or (s_[0] in ("num", "rnum") and s_[1] in ("mul", "div"))
                           for s_ in nodes_)     # no sums: every entry is accurate relative to its own size
            ok = same_hist(impl, model, exact, h.scale, h.nodes, relative)
            if ok:
                ctx.tie_ok()
            else:
                ctx.tie_bad("history", {"history": sp, "leaves": case["leaves"]}, pbx.js(impl), pbx.js(model))
            ctx.bump("tie:exact" if exact else "tie:tolerance")
        else:
            ctx.bump("tie-skipped:" + ("nonfinite" if h.nonfinite else ("absorbed-by-1e15+" if h.absorbed else "raised-in-unmodelled-node")))
        if impl[0] == "err":
            ctx.bump("history-raises:" + impl[1])
        if j % 37 == 0:
            ctx.sample({"history": sp, "impl": pbx.js(impl)}, cap=8)

    # ---- (b') fixed sequence: the same entry points called repeatedly with operands created and dropped in
    # between, the same numbers bound differently; earlier results must not change and equal calls must agree ------
    sequence_stream(ctx)
    edge_stream(ctx)
    grid_stream(ctx)
    state_stream(ctx)
    alias_stream(ctx)
    types_stream(ctx)

    # ---- (c) moment stream results ---------------------------------------------------------------
    mres = masync.get(timeout=3000)
    pool_proc.close()
    for res in mres:
        ctx.count(("moments", json.dumps(res["spec"])), True, "moments-real")
        if "err" in res:
            ctx.bump("moments-raises:" + res["err"])
            continue
        ctx.bump("moments-method:" + str(res["method"]))
        case = {"name": res["name"], "spec": res["spec"], "support": res["support"], "mean": res["mean"], "var": res["var"], "method": res["method"]}
        feat = {"node": "moments", "stream": "moments", "name": res["name"], "method": res["method"]}
        for chk, detail in res["problems"]:
            ctx.fail({**feat, "check": chk}, case, f"real moment code on {res['name']}: {chk} — {detail}")
    ctx.extra_cov["moment_stream"] = [{k: r.get(k) for k in ("name", "method", "support", "mean", "var", "secs", "err")} for r in mres][:40]


def ref_normalise(src, n):
    """what `bound_steps_check` owes, written down independently: a longer bound keeps the entries
    floor(k (m-1) / (n-1)); a shorter one takes, at level k/(n-1) of the way, the NEXT given value ceil(k (m-1) / (n-1))"""
    m = len(src)
    if m == n or n < 2:
        return list(src)
    if m > n:
        return [src[(k * (m - 1)) // (n - 1)] for k in range(n)]
    return [src[-((-k * (m - 1)) // (n - 1))] for k in range(n)]


def ref_bundle(q, p, levels):
    """`Staircase.from_CDFbundle` written down independently: add level 0 / 1 when missing, then at every level take the
    quantile of the first point whose probability reaches it ('next'); returns None at a level that coincides with a given
    probability up to rounding (either neighbour is acceptable there)"""
    q, p = [float(x) for x in q], [float(x) for x in p]
    if p[0] != 0:
        p, q = [0.0] + p, [q[0]] + q
    if p[-1] != 1:
        p, q = p + [1.0], q + [q[-1]]
    order = sorted(range(len(p)), key=lambda i: p[i])
    ps, qs = [p[i] for i in order], [q[i] for i in order]
    out = []
    for x in levels:
        if x < ps[0]:
            out.append(q[0]); continue
        if x > ps[-1]:
            out.append(q[-1]); continue
        j = next(i for i, v in enumerate(ps) if v >= x)
        out.append(None if abs(ps[j] - x) < 1e-13 else qs[j])
    return out


def grid_stream(ctx):
    """every public caller of `interpolate_p` / `bound_steps_check` with data sizes around the number of steps
    (steps-3 … steps+2 points) and with ties, duplicates, unsorted and nested focal elements, unequal masses; the result is
    compared with the independent references above"""
    from pyuncertainnumber import pba
    from pyuncertainnumber.pba.pbox_abc import Staircase
    from pyuncertainnumber.pba.params import Params
    from pyuncertainnumber.pba.ecdf import eCDF_bundle
    rng = ctx.rng
    n = int(Params.steps)
    levels = [float(x) for x in Params.p_values]

    def compare(name, size, box, refL, refR):
        ctx.count(("grid", name, size), True, "grid")
        report_problems(ctx, wf_problems(box), {"node": "grid", "stream": "grid", "name": name, "size": size}, {"call": name, "size": size}, f"{name} with {size} points")
        for side, got, ref in (("left", box.left, refL), ("right", box.right, refR)):
            got = [float(x) for x in got]
            bad = [k for k, (g, w) in enumerate(zip(got, ref)) if w is not None and g != w]
            if len(got) != len(ref) or bad:
                k = bad[0] if bad else -1
                ctx.fail({"node": "grid", "stream": "grid", "name": name, "size": size, "check": "grid-values"},
                         {"call": name, "size": size, "side": side, "step": k, "got": got[k] if bad else len(got), "expected": ref[k] if bad else len(ref),
                          "n_wrong": len(bad)},
                         f"{name} with {size} points: {side} bound differs from the 'next' value on the probability grid at {len(bad)} steps "
                         f"(first at step {k}: {got[k] if bad else None!r}, expected {ref[k] if bad else None!r})")
                return

    sizes = sorted(set([1, 2, 3, n - 3, n - 2, n - 1, n, n + 1, n + 2, rng.randint(4, n - 4), rng.randint(n + 3, 3 * n)]))
    for m in sizes:
        try:
            # focal elements: ties, duplicates, unsorted, nested
            los = [round(rng.uniform(-3, 3), 1) for _ in range(m)]
            ivs = [[a, a + round(rng.uniform(0, 2), 1)] for a in los]
            c1, c2 = pba.stacking(ivs, return_type="cdf")
            refL, refR = ref_bundle(c1.quantiles, c1.probabilities, levels), ref_bundle(c2.quantiles, c2.probabilities, levels)
            compare("stacking(equal masses)", m, pba.stacking(ivs), refL, refR)
            compare("stochastic_mixture(intervals)", m, pba.stochastic_mixture(*ivs), refL, refR)
            w = [rng.randint(1, 9) for _ in range(m)]
            w = [x / sum(w) for x in w]
            c1, c2 = pba.stacking(ivs, weights=w, return_type="cdf")
            refL, refR = ref_bundle(c1.quantiles, c1.probabilities, levels), ref_bundle(c2.quantiles, c2.probabilities, levels)
            compare("stacking(unequal masses)", m, pba.stacking(ivs, weights=w), refL, refR)
            compare("DempsterShafer.to_pbox", m, pba.DSS(ivs, w).to_pbox(), refL, refR)
            # a sample: ECDF (bound_steps_check of n+1 values) and the Kolmogorov-Smirnov band (two bundles of n+2 points)
            data = [round(rng.uniform(0, 9), 2) for _ in range(m)]
            srt = sorted(data)
            refE = ref_normalise([srt[0]] + srt, n)
            compare("ECDF(sample)", m, pba.ECDF(np.array(data)), refE, refE)
            if m >= 2:
                bl, br = pba.KS_bounds(np.array(data), alpha=0.05, display=False, output_type="bounds")
                refL = ref_bundle(list(bl.quantiles), list(bl.probabilities), levels)
                refR = ref_bundle(list(br.quantiles), list(br.probabilities), levels)
                compare("KS_bounds(output_type='pbox')", m, pba.KS_bounds(np.array(data), alpha=0.05, display=False, output_type="pbox"), refL, refR)
            # two bundles given directly, with and without the end levels
            ql_ = sorted(round(rng.uniform(0, 5), 2) for _ in range(m))
            qr_ = [x + 1.5 for x in ql_]
            for nm, pr in (("0..1", np.linspace(0, 1, m)), ("inner", np.linspace(0.01, 0.99, m))):
                if m < 2 and nm == "0..1":
                    continue
                pr = [float(x) for x in pr]
                refL, refR = ref_bundle(ql_, pr, levels), ref_bundle(qr_, pr, levels)
                box = pba.pbox_from_ecdf_bundle(eCDF_bundle(np.array(ql_), np.array(pr)), eCDF_bundle(np.array(qr_), np.array(pr)))
                compare(f"pbox_from_ecdf_bundle({nm} levels)", m, box, refL, refR)
        except BaseException as e:  # noqa
            ctx.fail({"node": "grid", "stream": "grid", "size": m, "check": "raises"}, {"size": m, "error": repr(e)[:120]},
                     f"an entry point of the probability-grid machinery raised on {m} well-formed points: {type(e).__name__}: {str(e)[:80]}")


STATE_CALLS = None


def state_calls():
    from pyuncertainnumber import pba
    from pyuncertainnumber.pba.pbox_abc import Staircase
    I = pba.I
    N = lambda: pba.normal([1, 2], [0.5, 1])
    U = lambda: pba.uniform([1, 2], [3, 4])
    return [
        ("normal", N), ("uniform", U), ("interval", lambda: I(1, 3).to_pbox()), ("min_max", lambda: pba.min_max(0, 2)),
        ("min_mean", lambda: pba.min_mean(0, 1)), ("mean_std", lambda: pba.mean_std(1, 0.5)), ("min_max_mean", lambda: pba.min_max_mean(0, 2, 1)),
        ("min_max_mode", lambda: pba.min_max_mode(0, 2, 1)), ("min_max_median", lambda: pba.min_max_median(0, 2, 1)),
        ("min_max_mean_std", lambda: pba.min_max_mean_std(0, 2, 1, 0.5)), ("pos_mean_std", lambda: pba.pos_mean_std(1, 0.5)),
        ("from_percentiles", lambda: pba.from_percentiles({0: 0, 0.5: 1, 1: 4})),
        ("stacking", lambda: pba.stacking([[1, 3], [2, 4], [0, 5]])), ("stacking weights", lambda: pba.stacking([[1, 3], [2, 4]], weights=[0.3, 0.7])),
        ("DSS.to_pbox", lambda: pba.DSS([[1, 3], [2, 4]], [0.4, 0.6]).to_pbox()),
        ("ECDF 3 values", lambda: pba.ECDF(np.array([1.0, 2.0, 4.0]))), ("ECDF 500 values", lambda: pba.ECDF(np.sin(np.arange(500.0)))),
        ("KS_bounds", lambda: pba.KS_bounds(np.array([1.0, 2.0, 4.0, 5.0]), alpha=0.05, display=False, output_type="pbox")),
        ("Staircase short lists", lambda: Staircase(left=[1, 2, 3], right=[2, 3, 4])),
        ("Staircase long arrays", lambda: Staircase(left=np.arange(1000.0), right=np.arange(1000.0) + 1)),
        ("exponential_by_lambda", lambda: pba.exponential_by_lambda([1, 2])), ("Distribution.to_pbox", lambda: pba.D("norm", (0, 1)).to_pbox()),
        ("add/f", lambda: N() + U()), ("add/p", lambda: N().add(U(), dependency="p")), ("mul/i", lambda: N().mul(U(), dependency="i")),
        ("mul/f straddling", lambda: pba.normal([-1, 1], 1) * U()), ("neg", lambda: -U()), ("number ops", lambda: U() * 2 + 1),
        ("exp", lambda: U().exp()), ("sqrt", lambda: U().sqrt()), ("log", lambda: U().log()), ("sin", lambda: U().sin()), ("tanh", lambda: U().tanh()),
        ("envelope", lambda: pba.envelope(N(), U())), ("imposition", lambda: pba.imposition(N(), pba.uniform([0, 1], [3, 4]))),
        ("reciprocal", lambda: U().reciprocal()), ("div/f", lambda: N() / U()), ("pow 2", lambda: U() ** 2), ("pow 2.0", lambda: U() ** 2.0),
        ("condensation", lambda: N().condensation(5)), ("min/f", lambda: N().min(U())), ("max/p", lambda: N().max(U(), method="p")),
    ]


def state_stream(ctx):
    """process-wide state: floating-point error handling, warnings escalated to errors, and the public discretisation
    (Params.steps / Params.p_values).  A call made under another state gives the same value as under the defaults, or a
    well-formed value with exactly the configured number of steps, or raises; afterwards everything reads as before."""
    import warnings
    from pyuncertainnumber.pba.params import Params
    from pyuncertainnumber.pba.context import get_current_dependency
    calls = state_calls()

    def run_all(tag):
        out = {}
        for name, f in calls:
            ctx.count(("state", tag, name), True, "state:" + tag)
            try:
                out[name] = f()
            except BaseException as e:  # noqa
                out[name] = ("raised", type(e).__name__)
                ctx.bump(f"state:{tag}:raised")
        return out

    def canon(v):
        return None if isinstance(v, tuple) else (np.asarray(v.left, float).tobytes(), np.asarray(v.right, float).tobytes())

    base = run_all("default")
    for name, v in base.items():
        if isinstance(v, tuple):
            ctx.fail({"node": "state", "stream": "state", "name": name, "check": "raises"}, {"call": name}, f"{name} raised {v[1]} under the default settings")
    dep0, err0 = get_current_dependency(), np.geterr()
    grid0 = (Params.steps, Params.p_values, Params.p_lboundary, Params.p_hboundary)
    # (i) escalated floating-point errors / warnings: same value or an exception, never another value
    for tag in ("errstate-raise", "warnings-error"):
        try:
            if tag == "errstate-raise":
                with np.errstate(all="raise"):
                    got = run_all(tag)
            else:
                with warnings.catch_warnings():
                    warnings.simplefilter("error")
                    got = run_all(tag)
        finally:
            warnings.filterwarnings("ignore")
        for name, v in got.items():
            if isinstance(v, tuple) or isinstance(base[name], tuple):
                continue
            report_problems(ctx, wf_problems(v), {"node": "state", "stream": "state", "name": name, "state": tag}, {"call": name, "state": tag}, f"{name} under {tag}")
            if canon(v) != canon(base[name]):
                ctx.fail({"node": "state", "stream": "state", "name": name, "state": tag, "check": "value-depends-on-error-state"},
                         {"call": name, "state": tag}, f"{name} returned different bounds under {tag} than under the default settings")
    # (ii) another discretisation
    for st in (40, 320, 100):
        try:
            Params.steps = st
            Params.p_values = np.linspace(Params.p_lboundary, Params.p_hboundary, st)
            got = run_all(f"steps-{st}")
            probs = {name: wf_problems(v) for name, v in got.items() if not isinstance(v, tuple)}
        finally:
            Params.steps, Params.p_values, Params.p_lboundary, Params.p_hboundary = grid0
        for name, pr in probs.items():
            report_problems(ctx, pr, {"node": "state", "stream": "changed-grid", "name": name, "steps": st}, {"call": name, "Params.steps": st},
                            f"{name} with Params.steps = {st}")
    # afterwards: the ambient state and the values are what they were
    if get_current_dependency() != dep0 or np.geterr() != err0 or Params.steps != grid0[0] or not np.array_equal(Params.p_values, grid0[1]):
        ctx.fail({"node": "state", "stream": "state", "check": "ambient-state-changed"}, {}, "dependency context / numpy error state / Params differ after the state stream")
    again = run_all("restored")
    for name, v in again.items():
        if canon(v) != canon(base[name]):
            ctx.fail({"node": "state", "stream": "state", "name": name, "state": "restored", "check": "value-differs-after-restoring"},
                     {"call": name}, f"{name} gives different bounds after the settings were restored")
        elif not isinstance(v, tuple):
            report_problems(ctx, wf_problems(v), {"node": "state", "stream": "state", "name": name, "state": "restored"}, {"call": name}, f"{name} after restoring the settings")


def alias_stream(ctx):
    """caller-visible aliasing: a p-box built from the caller's arrays (float64, exactly the configured number of steps,
    contiguous or a strided column) must own its bounds — writing into the caller's buffers afterwards must not change it;
    results must not share memory with operands either"""
    from pyuncertainnumber import pba
    from pyuncertainnumber.pba.pbox_abc import Staircase, Leaf
    n, _, _ = params()
    I = pba.I

    def fresh():
        M = np.empty((n, 2))
        M[:, 0] = np.linspace(0, 1, n); M[:, 1] = np.linspace(0.5, 2, n)
        return {"contiguous": (np.linspace(0, 1, n), np.linspace(0.5, 2, n), None), "column view": (M[:, 0], M[:, 1], M),
                "longer": (np.linspace(0, 1, 3 * n + 1), np.linspace(0.5, 2, 3 * n + 1), None), "shorter": (np.linspace(0, 1, n - 1), np.linspace(0.5, 2, n - 1), None),
                "float32": (np.linspace(0, 1, n).astype(np.float32), np.linspace(0.5, 2, n).astype(np.float32), None)}

    BUILD = [
        ("Staircase(left=buf, right=buf2)", lambda L, R: Staircase(left=L, right=R)),
        ("Staircase(..., mean, var given)", lambda L, R: Staircase(left=L, right=R, mean=I(0.3, 1.5), var=I(0, 1))),
        ("Leaf(left=buf, right=buf2)", lambda L, R: Leaf(left=L, right=R, mean=I(0.3, 1.5), var=I(0, 1))),
        ("Staircase(left=buf, right=buf) one buffer twice", lambda L, R: Staircase(left=L, right=L)),
        ("stacking(I(buf, buf2))", lambda L, R: pba.stacking(I(L, R))),
        ("DSS(array, masses array)", lambda L, R: pba.DSS(np.stack([L, R], axis=1), np.full(len(L), 1.0 / len(L))).to_pbox()),
        ("ECDF(buf)", lambda L, R: pba.ECDF(L)),
    ]
    for kind in fresh():
        for name, build in BUILD:
            L, R, M = fresh()[kind]
            ctx.count(("alias", name, kind), True, "aliasing")
            try:
                v = build(L, R)
            except BaseException as e:  # noqa
                ctx.bump("aliasing:raised")
                continue
            probs = wf_problems(v)
            snap = snapshot_safe(v)
            shared = any(np.shares_memory(a, b) for a in (v.left, v.right) for b in (L, R))
            # the caller re-uses his buffers
            L += 5.0
            R[:] = -1.0
            if M is not None:
                M[::2, :] = 99.0
            now = snapshot_safe(v)
            if now != snap or shared:
                ctx.fail({"node": "alias", "stream": "aliasing", "name": name, "buffers": kind, "check": "changes-with-callers-buffer"},
                         {"call": name, "buffers": kind, "shares_memory": bool(shared), "after": wf_problems(v)},
                         f"{name} [{kind} buffers]: the returned p-box {'shares memory with' if shared else 'changed after writing into'} the caller's arrays "
                         f"(it now reads: {[c for c, _ in wf_problems(v)] or 'well formed, other values'})")
            report_problems(ctx, probs, {"node": "alias", "stream": "aliasing", "name": name, "buffers": kind}, {"call": name, "buffers": kind}, name)
    # results versus operands
    X = pba.normal([1, 2], [0.5, 1]); Y = pba.uniform([1, 2], [3, 4])
    sx, sy = snapshot_safe(X), snapshot_safe(Y)
    OPS_ = [("0 + X", lambda: 0 + X), ("X + 0", lambda: X + 0), ("X * 1", lambda: X * 1), ("1 * X", lambda: 1 * X), ("X - 0", lambda: X - 0),
            ("X / 1", lambda: X / 1), ("X ** 1", lambda: X ** 1), ("-(-X)", lambda: -(-X)), ("sum([X])", lambda: sum([X])),
            ("envelope(X, X)", lambda: pba.envelope(X, X)), ("imposition(X, X)", lambda: pba.imposition(X, X)), ("envelope(X, Y)", lambda: pba.envelope(X, Y)),
            ("X.add(Y,'p')", lambda: X.add(Y, dependency="p")), ("X.mul(Y,'f')", lambda: X.mul(Y, dependency="f")), ("X.min(Y)", lambda: X.min(Y)),
            ("X.exp()", lambda: X.exp()), ("stacking(X.to_interval())", lambda: pba.stacking(X.to_interval()))]
    for name, f in OPS_:
        ctx.count(("alias-op", name), True, "aliasing")
        try:
            v = f()
        except BaseException as e:  # noqa
            ctx.bump("aliasing:raised")
            continue
        report_problems(ctx, wf_problems(v), {"node": "alias", "stream": "aliasing", "name": name}, {"call": name}, name)
        if v is X or v is Y or any(np.shares_memory(a, b) for a in (v.left, v.right) for b in (X.left, X.right, Y.left, Y.right)):
            ctx.fail({"node": "alias", "stream": "aliasing", "name": name, "check": "result-aliases-operand"}, {"call": name, "is_operand": v is X or v is Y},
                     f"{name}: the result {'IS the operand object' if (v is X or v is Y) else 'shares memory with an operand'}")
    if snapshot_safe(X) != sx or snapshot_safe(Y) != sy:
        ctx.fail({"node": "alias", "stream": "aliasing", "check": "operand-changed"}, {}, "an operand of the aliasing stream was modified by an operation")


def types_stream(ctx):
    """numeric types: reduced / extended precision arrays, big Python ints, Fraction, Decimal, float exponents — the result
    equals the float64 computation of the same values"""
    from pyuncertainnumber import pba
    from pyuncertainnumber.pba.pbox_abc import Staircase
    from fractions import Fraction
    from decimal import Decimal
    n, _, _ = params()
    base_l = np.linspace(0.1, 3.3, n); base_r = base_l + 0.7
    Y = pba.uniform([1, 2], [3, 4])
    OPS_ = [("itself", lambda p: p), ("* 3 + 1", lambda p: p * 3 + 1), ("add/f", lambda p: p + Y), ("mul/p", lambda p: p.mul(Y, dependency="p")),
            ("exp", lambda p: p.exp()), ("neg", lambda p: -p), ("** 2", lambda p: p ** 2)]
    KINDS = [("float32", lambda a: a.astype(np.float32)), ("float16", lambda a: a.astype(np.float16)), ("longdouble", lambda a: a.astype(np.longdouble)),
             ("Fraction list", lambda a: [Fraction(float(x)) for x in a]), ("Decimal list", lambda a: [Decimal(float(x)) for x in a]),
             ("big ints", lambda a: [int(2 ** 53 + 1 + 4 * i) for i in range(len(a))]), ("int64", lambda a: (a * 10).astype(np.int64)),
             ("uint16", lambda a: (a * 10).astype(np.uint16))]
    for kname, conv in KINDS:
        try:
            L, R = conv(base_l), conv(base_r)
            L64, R64 = np.array([float(x) for x in L]), np.array([float(x) for x in R])
        except BaseException:  # noqa
            continue
        for oname, op in OPS_:
            ctx.count(("types", kname, oname), True, "numeric-types")
            try:
                want = op(Staircase(left=L64, right=R64))
            except BaseException:  # noqa
                continue
            try:
                got = op(Staircase(left=L, right=R))
            except BaseException as e:  # noqa
                ctx.bump("numeric-types:raised")       # refusing a type is acceptable
                continue
            report_problems(ctx, wf_problems(got), {"node": "types", "stream": "numeric-types", "kind": kname, "op": oname}, {"kind": kname, "op": oname}, f"{kname} bounds, {oname}")
            sc = float(max(np.max(np.abs(want.left)), np.max(np.abs(want.right)), 1e-300))
            if not (np.allclose(got.left, want.left, rtol=0, atol=64 * core.ulp(sc)) and np.allclose(got.right, want.right, rtol=0, atol=64 * core.ulp(sc))):
                ctx.fail({"node": "types", "stream": "numeric-types", "kind": kname, "op": oname, "check": "differs-from-float64"}, {"kind": kname, "op": oname},
                         f"Staircase from {kname} bounds, {oname}: the result differs from the float64 computation of the same values "
                         f"(max difference {float(max(np.max(np.abs(got.left - want.left)), np.max(np.abs(got.right - want.right)))):.3g})")
    for ename, e in (("2.0", 2.0), ("np.float64(2)", np.float64(2)), ("np.int32(2)", np.int32(2)), ("np.float32(3)", np.float32(3))):
        ctx.count(("types", "exponent", ename), True, "numeric-types")
        try:
            a, b = Y ** e, Y ** int(e)
        except BaseException:  # noqa
            continue
        if not (np.array_equal(a.left, b.left) and np.array_equal(a.right, b.right)):
            ctx.fail({"node": "types", "stream": "numeric-types", "kind": "exponent", "op": ename, "check": "differs-from-float64"}, {"exponent": ename},
                     f"Y ** {ename} differs from Y ** {int(e)}")


def edge_stream(ctx):
    """inputs for which NO p-box can be produced must raise (whatever else the code does); valid inputs right at the
    edge must return a well-formed value.  The oracle is "raises" / "returns well formed", independent of the model."""
    from pyuncertainnumber import pba
    from pyuncertainnumber.pba.pbox_abc import Staircase
    from pyuncertainnumber.pba.ecdf import get_ecdf, eCDF_bundle
    I = pba.I
    rng = ctx.rng
    hiS = r2(rng, 0.5, 3)          # the valid end of the parameter interval
    p = pba.normal([1, 2], [0.5, 1])
    strad = I(-1, 2).to_pbox()

    def crossing_bundle():
        q1, p1 = get_ecdf(np.array([1.0, 2.0, 6.0, 7.0]))
        q2, p2 = get_ecdf(np.array([0.5, 3.0, 4.0, 8.0]))
        return pba.pbox_from_ecdf_bundle(eCDF_bundle(q1, p1), eCDF_bundle(q2, p2))

    MUST_RAISE = [
        # a parameter interval that leaves the family's domain at ONE corner only (touching / straddling), every spelling
        ("param-corner", "normal(5,[0,s])", lambda: pba.normal(5, [0, hiS])),
        ("param-corner", "normal([4,5],[-1,s])", lambda: pba.normal([4, 5], [-1, hiS])),
        ("param-corner", "normal(5,I(0,s))", lambda: pba.normal(5, I(0, hiS))),
        ("param-corner", "gaussian(5,[0,s])", lambda: pba.gaussian(5, [0, hiS])),
        ("param-corner", "norm(5,[-1e-9,s])", lambda: pba.norm(5, [-1e-9, hiS])),
        ("param-corner", "gamma([0,2])", lambda: pba.gamma([0, 2])),
        ("param-corner", "gamma([-1,2],[1,2])", lambda: pba.gamma([-1, 2], [1, 2])),
        ("param-corner", "gamma(2,0,[0,1])", lambda: pba.gamma(2, 0, [0, 1])),
        ("param-corner", "beta([-1,2],3)", lambda: pba.beta([-1, 2], 3)),
        ("param-corner", "beta(2,[0,3])", lambda: pba.beta(2, [0, 3])),
        ("param-corner", "exponential(scale=[0,2])", lambda: pba.exponential(scale=[0, 2])),
        ("param-corner", "exponential(scale=[-1,2])", lambda: pba.exponential(scale=[-1, 2])),
        ("param-corner", "lognormal(0,[0,1])", lambda: pba.lognormal(0, [0, 1])),
        ("param-corner", "t([0,3])", lambda: pba.t([0, 3])),
        ("param-corner", "chi2([0,3])", lambda: pba.chi2([0, 3])),
        ("param-corner", "weibull_min([0,2])", lambda: pba.weibull_min([0, 2])),
        ("param-corner", "laplace(0,[0,1])", lambda: pba.laplace(0, [0, 1])),
        ("param-corner", "gumbel_r(0,[-1,1])", lambda: pba.gumbel_r(0, [-1, 1])),
        ("param-corner", "D('gaussian',(5,[0,1])).to_pbox()", lambda: pba.D("gaussian", (5, [0, 1])).to_pbox()),
        ("param-corner", "D('norm',[5,[0,1]]).to_pbox()", lambda: pba.D("norm", [5, [0, 1]]).to_pbox()),
        ("param-corner", "D('gamma',([0,2],)).to_pbox()", lambda: pba.D("gamma", ([0, 2],)).to_pbox()),
        ("param-corner", "2*normal(5,[0,1])+1", lambda: 2 * pba.normal(5, [0, 1]) + 1),
        ("param-corner", "normal(5,[0,1]).add(p,'p')", lambda: pba.normal(5, [0, 1]).add(p, dependency="p")),
        ("param-all-corners", "normal(5,0)", lambda: pba.normal(5, 0)),
        ("param-all-corners", "normal(5,[-2,-1])", lambda: pba.normal(5, [-2, -1])),
        ("param-all-corners", "uniform(3,1)", lambda: pba.uniform(3, 1)),
        # impositions that are empty: at every step (a whole-array switch would hide it), at some steps, as the last of three
        ("imposition-empty", "imposition(I(1,2),I(3,4)) boxes", lambda: pba.imposition(I(1, 2).to_pbox(), I(3, 4).to_pbox())),
        ("imposition-empty", "imposition(I(3,4),I(1,2)) boxes", lambda: pba.imposition(I(3, 4).to_pbox(), I(1, 2).to_pbox())),
        ("imposition-empty", "imposition(I(1,2),I(3,4)) intervals", lambda: pba.imposition(I(1, 2), I(3, 4))),
        ("imposition-empty", "imposition(p,p+100)", lambda: pba.imposition(p, p + 100)),
        ("imposition-empty", "(p+100).imp(p)", lambda: (p + 100).imp(p)),
        ("imposition-empty", "imposition(p,q,I(50,60))", lambda: pba.imposition(p, pba.normal([1.5, 2.5], 1), I(50, 60))),
        ("imposition-empty", "imposition of precise boxes", lambda: pba.imposition(pba.uniform(0, 4), pba.uniform(3, 5))),
        ("imposition-empty", "imposition empty at the low steps only", lambda: pba.imposition(pba.uniform([0, 1], [4, 5]), I(2.5, 3).to_pbox())),
        # unary maps just outside their domain
        ("domain-edge", "sqrt lo=-1e-17", lambda: I(-1e-17, 4).to_pbox().sqrt()),
        ("domain-edge", "np.sqrt lo=-1e-17", lambda: np.sqrt(I(-1e-17, 4).to_pbox())),
        ("domain-edge", "log lo=0", lambda: I(0, 4).to_pbox().log()),
        ("domain-edge", "log lo=-1e-17", lambda: I(-1e-17, 4).to_pbox().log()),
        ("domain-edge", "np.log lo=-1e-17", lambda: np.log(I(-1e-17, 4).to_pbox())),
        ("domain-edge", "straddling ** -1", lambda: strad ** -1),
        ("domain-edge", "straddling ** -3", lambda: pba.normal([-1, 1], 1) ** -3),
        # constructors whose arguments describe no p-box
        ("no-such-box", "from_percentiles non-nested", lambda: pba.from_percentiles({0: 0, 0.5: I(1, 5), 0.75: I(2, 3), 1: 6})),
        ("no-such-box", "from_percentiles decreasing", lambda: pba.from_percentiles({0: 0, 0.5: 3, 0.75: 2, 1: 6})),
        ("no-such-box", "crossing ECDF bundle", crossing_bundle),
        ("no-such-box", "min_max(3,1)", lambda: pba.min_max(3, 1)),
        ("no-such-box", "min_mean(2,1)", lambda: pba.min_mean(2, 1)),
        ("no-such-box", "mean_std(1,-1)", lambda: pba.mean_std(1, -1)),
        ("no-such-box", "min_max_mean(0,2,3)", lambda: pba.min_max_mean(0, 2, 3)),
        ("no-such-box", "Staircase NaN", lambda: Staircase(left=np.array([0.0, np.nan] * 100), right=np.arange(200.0) + 5)),
        # reciprocal / division by a box that straddles zero at EVERY step: see the known finding
        ("reciprocal-straddle", "I(-1,2).reciprocal()", lambda: strad.reciprocal()),
        ("reciprocal-straddle", "1 / I(-1,2)", lambda: 1 / strad),
        ("reciprocal-straddle", "p.div(I(-1,2),'f')", lambda: p.div(strad, dependency="f")),
    ]
    for group, name, f in MUST_RAISE:
        ctx.count(("must-raise", name), True, "must-raise")
        try:
            v = f()
        except BaseException as e:  # noqa
            ctx.bump("must-raise:" + core.err_kind(e))
            continue
        try:
            desc = f"{type(v).__name__} with support [{float(v.left[0])!r}, {float(v.right[-1])!r}]"
        except Exception:  # noqa
            desc = type(v).__name__
        ctx.fail({"node": "edge", "stream": "must-raise", "group": group, "name": name, "check": "returned-instead-of-raising"},
                 {"call": name, "group": group, "returned": desc},
                 f"{name}: no p-box can be produced from this input, yet the call returned a {desc} instead of raising")

    # at nano / pico magnitudes an unsorted or crossing bound must still be rejected: the call raises or returns a
    # well-formed box, at every scale
    def desc(sc):
        return Staircase(left=np.linspace(4, 1, 200) * sc, right=np.linspace(5, 4.5, 200) * sc)
    EITHER = []
    for sc in (1e-10, 1e-12, 2.0 ** -60, 1e-170, 1.0, 1e150):
        EITHER += [
            (f"0.5 ** uniform(scale {sc:g})", lambda sc=sc: 0.5 ** pba.uniform([1 * sc, 5 * sc], [2 * sc, 6 * sc])),
            (f"uniform nested the wrong way (scale {sc:g})", lambda sc=sc: pba.uniform([1 * sc, 4 * sc], [2 * sc, 3 * sc])),
            (f"Staircase descending bounds (scale {sc:g})", lambda sc=sc: desc(sc)),
            (f"crossing at some steps (scale {sc:g})", lambda sc=sc: Staircase(left=np.linspace(0, 4, 200) * sc, right=np.linspace(1, 3, 200) * sc)),
        ]
    for name, f in EITHER:
        ctx.count(("raise-or-wf", name), True, "raise-or-wellformed")
        try:
            v = f()
        except BaseException as e:  # noqa
            ctx.bump("raise-or-wf:raised")
            continue
        ctx.bump("raise-or-wf:returned")
        report_problems(ctx, wf_problems(v), {"node": "edge", "stream": "raise-or-wellformed", "name": name}, {"call": name}, name)

    # operands that were copied / pickled before use give the same value; so do results fed back as operands
    import copy, pickle
    qb = pba.uniform([1, 2], [3, 4])
    for name, f in (("add/f", lambda a, b: a.add(b, dependency="f")), ("mul/p", lambda a, b: a.mul(b, dependency="p")),
                    ("sub/i", lambda a, b: a.sub(b, dependency="i")), ("env", lambda a, b: pba.envelope(a, b)),
                    ("neg+num", lambda a, b: -a * 2 + 1), ("div/o", lambda a, b: a.div(b, dependency="o"))):
        ctx.count(("interaction", name), True, "interaction")
        try:
            base = f(p, qb)
            variants = {"copy.copy": f(copy.copy(p), copy.copy(qb)), "copy.deepcopy": f(copy.deepcopy(p), copy.deepcopy(qb)),
                        "pickle": f(pickle.loads(pickle.dumps(p)), pickle.loads(pickle.dumps(qb))),
                        "rebuilt from read-outs": f(Staircase(left=p.left.copy(), right=p.right.copy()), Staircase(left=list(qb.left), right=list(qb.right)))}
        except BaseException as e:  # noqa
            ctx.fail({"node": "edge", "stream": "interaction", "name": name, "check": "raises"}, {"op": name},
                     f"{name} on copied / pickled operands raised {type(e).__name__}: {str(e)[:80]}")
            continue
        for how, v in variants.items():
            report_problems(ctx, wf_problems(v), {"node": "edge", "stream": "interaction", "name": name, "how": how}, {"op": name, "how": how}, f"{name} on {how} operands")
            if not (np.array_equal(v.left, base.left) and np.array_equal(v.right, base.right)):
                ctx.fail({"node": "edge", "stream": "interaction", "name": name, "how": how, "check": "copy-differs"}, {"op": name, "how": how},
                         f"{name}: operands passed through {how} give different bounds than the originals")

    big = np.arange(4097.0)
    MUST_RETURN = [
        ("falsy", "min_max(0,0)", lambda: pba.min_max(0, 0)),
        ("falsy", "normal(0,[1,2])", lambda: pba.normal(0, [1, 2])),
        ("falsy", "mean_std(0,1)", lambda: pba.mean_std(0, 1)),
        ("falsy", "p * 0", lambda: p * 0),
        ("falsy", "0.0 * p + 0", lambda: 0.0 * p + 0),
        ("falsy", "p - (-0.0)", lambda: p - (-0.0)),
        ("falsy", "p ** 0", lambda: p ** 0),
        ("falsy", "I(0,0).to_pbox() + p", lambda: I(0, 0).to_pbox() + p),
        ("falsy", "envelope(p, I(0,0))", lambda: pba.envelope(p, I(0, 0))),
        ("falsy", "stacking weights None", lambda: pba.stacking([[0, 0], [0, 1]], weights=None)),
        ("param-valid-edge", "normal(5,[1e-12,s])", lambda: pba.normal(5, [1e-12, hiS])),
        ("param-valid-edge", "gamma([1e-3,2])", lambda: pba.gamma([1e-3, 2])),
        ("param-valid-edge", "exponential(scale=[1e-9,2])", lambda: pba.exponential(scale=[1e-9, 2])),
        ("imposition-touching", "imposition(I(1,2),I(2,3))", lambda: pba.imposition(I(1, 2).to_pbox(), I(2, 3).to_pbox())),
        ("imposition-same", "imposition(p,p)", lambda: pba.imposition(p, p)),
        ("same-operand", "p.sub(p,'p')", lambda: p.sub(p, dependency="p")),
        ("same-operand", "p*p", lambda: p * p),
        ("same-operand", "envelope(p,p)", lambda: pba.envelope(p, p)),
        ("domain-valid-edge", "sqrt lo=0", lambda: I(0, 4).to_pbox().sqrt()),
        ("domain-valid-edge", "log lo=1e-300", lambda: I(1e-300, 4).to_pbox().log()),
        ("domain-valid-edge", "exp hi=709", lambda: I(1, 709).to_pbox().exp()),
        ("domain-valid-edge", "tanh of a wide box", lambda: (p * 500).tanh()),
        ("dtype", "uint8 bounds", lambda: Staircase(left=np.arange(200, dtype=np.uint8) // 2, right=np.arange(200, dtype=np.uint8) // 2 + 3)),
        ("dtype", "-(uint8 bounds)", lambda: -Staircase(left=np.arange(200, dtype=np.uint8) // 2, right=np.arange(200, dtype=np.uint8) // 2 + 3)),
        ("dtype", "(uint8 bounds) - 5", lambda: Staircase(left=np.arange(200, dtype=np.uint8) // 2, right=np.arange(200, dtype=np.uint8) // 2 + 3) - 5),
        ("dtype", "(uint8 bounds) * np.uint8(3)", lambda: Staircase(left=np.arange(200, dtype=np.uint8) // 2, right=np.arange(200, dtype=np.uint8) // 2 + 3) * np.uint8(3)),
        ("long-bounds", "Staircase 4097 values", lambda: Staircase(left=big, right=big + 1)),
        ("long-bounds", "Staircase 1025 values", lambda: Staircase(left=big[:1025], right=big[:1025] + 1)),
        ("long-bounds", "ECDF 261 samples", lambda: pba.ECDF(np.linspace(0, 1, 261))),
        ("long-bounds", "ECDF 200 samples", lambda: pba.ECDF(np.linspace(0, 1, 200))),
        ("long-bounds", "ECDF 1000 samples * 2 + 1", lambda: pba.ECDF(np.sin(np.arange(1000.0))) * 2 + 1),
        ("long-bounds", "-ECDF 4097 samples", lambda: -pba.ECDF(np.cos(np.arange(4097.0)))),
    ]
    for group, name, f in MUST_RETURN:
        ctx.count(("must-return", name), True, "must-return")
        try:
            v = f()
        except BaseException as e:  # noqa
            ctx.fail({"node": "edge", "stream": "must-return", "group": group, "name": name, "check": "valid-input-raises"},
                     {"call": name, "group": group}, f"{name}: a valid input at the edge of the domain raised {type(e).__name__}: {str(e)[:80]}")
            continue
        report_problems(ctx, wf_problems(v), {"node": "edge", "stream": "must-return", "group": group, "name": name}, {"call": name, "group": group}, name)
    # the operands used above are still what they were
    for nm, v, want in (("p", p, pba.normal([1, 2], [0.5, 1])), ("I(-1,2)", strad, I(-1, 2).to_pbox())):
        if not (np.array_equal(v.left, want.left) and np.array_equal(v.right, want.right)):
            ctx.fail({"node": "edge", "stream": "must-return", "check": "operand-changed", "name": nm}, {"operand": nm},
                     f"the operand {nm} of the edge stream was modified in place")


def sequence_stream(ctx):
    from pyuncertainnumber import pba
    ivs = [[1, 3], [2, 4], [0, 5]]
    calls = [
        ("dss-masses-A", lambda: pba.DSS(ivs, [0.8, 0.1, 0.1]).to_pbox()),
        ("dss-masses-B", lambda: pba.DSS(ivs, [0.1, 0.1, 0.8]).to_pbox()),          # same focal elements, other masses
        ("dss-masses-A", lambda: pba.DSS(ivs, [0.8, 0.1, 0.1]).to_pbox()),
        ("stacking-w-A", lambda: pba.stacking(ivs, weights=[0.8, 0.1, 0.1])),
        ("stacking-w-B", lambda: pba.stacking(ivs, weights=[0.1, 0.1, 0.8])),
        ("stacking-w-A", lambda: pba.stacking([pba.I(1, 3), [2, 4], pba.I(0, 5)], weights=[0.8, 0.1, 0.1])),
        ("normal-A", lambda: pba.normal([1, 2], [0.5, 1])),
        ("normal-B", lambda: pba.normal([0.5, 1], [1, 2])),                          # the same numbers bound the other way
        ("normal-A", lambda: pba.normal(pba.I(1, 2), pba.I(0.5, 1))),
        ("expon-A", lambda: pba.exponential(scale=[1, 2])),
        ("expon-B", lambda: pba.exponential(scale=[2, 3])),
        ("expon-A", lambda: pba.exponential(scale=[1, 2])),
        ("ecdf-A", lambda: pba.ECDF(np.array([1.0, 2.0, 4.0]))),
        ("ecdf-B", lambda: pba.ECDF(np.array([1.0, 2.0, 7.0]))),
        ("ecdf-A", lambda: pba.ECDF([1.0, 2.0, 4.0])),
        ("sum-A", lambda: pba.normal([1, 2], [0.5, 1]).add(pba.uniform([1, 2], [3, 4]), dependency="p")),
        ("sum-B", lambda: pba.normal([1, 2], [0.5, 1]).add(pba.uniform([1, 2], [3, 5]), dependency="p")),
        ("sum-A", lambda: pba.normal([1, 2], [0.5, 1]).add(pba.uniform([1, 2], [3, 4]), dependency="p")),
    ]
    seen, alive = {}, []
    for rnd in range(2):
        for name, f in calls:
            ctx.count(("sequence", name, rnd, len(alive)), True, "sequence")
            try:
                v = f()
            except BaseException as e:  # noqa
                ctx.fail({"node": "sequence", "stream": "sequence", "name": name, "check": "raises"}, {"call": name},
                         f"sequence call {name} raised {type(e).__name__}: {str(e)[:80]}")
                continue
            report_problems(ctx, wf_problems(v), {"node": "sequence", "stream": "sequence", "name": name}, {"call": name}, f"sequence call {name}")
            c = (pbx.canon_pb(v)[1], pbx.canon_pb(v)[2])
            if name in seen and seen[name] != c:
                ctx.fail({"node": "sequence", "stream": "sequence", "name": name, "check": "not-reproducible"}, {"call": name},
                         f"the call {name} returned different bounds than the same call made earlier in the sequence")
            seen.setdefault(name, c)
            for other, co in seen.items():
                if other != name and other.rsplit("-", 1)[0] == name.rsplit("-", 1)[0] and co == c:
                    ctx.fail({"node": "sequence", "stream": "sequence", "name": name, "check": "distinct-arguments-identical-result"},
                             {"call": name, "other": other}, f"{name} and {other} have different arguments but returned identical bounds")
            alive.append((name, v, snapshot_safe(v)))
            _drop = [pba.I(i, i + 1).to_pbox() for i in range(3)]      # created and dropped in between (address reuse)
            del _drop
    for name, v, snap in alive:
        if snapshot_safe(v) != snap:
            ctx.fail({"node": "sequence", "stream": "sequence", "name": name, "check": "changed-after-return"}, {"call": name},
                     f"the p-box returned by {name} reads differently at the end of the sequence")


LEAN_MODULES = ["Pun.Lemmas.WellFormed", "Pun.Props.C04", "Pun.Props.C04Gen"]


def _leaf_ids(s, acc):
    if s[0] == "leaf":
        acc.append(s[1])
    else:
        for x in s[1:]:
            if isinstance(x, list) and x and isinstance(x[0], str) and x[0] in ALLK:
                _leaf_ids(x, acc)
    return acc


def _all_nodes(s, acc):
    acc.append(s)
    for x in s[1:]:
        if isinstance(x, list) and x and isinstance(x[0], str) and x[0] in ALLK:
            _all_nodes(x, acc)
    return acc


def _children(s):
    return [x for x in s[1:] if isinstance(x, list) and x and isinstance(x[0], str) and x[0] in ALLK]


def _sub_at(s, path):
    for ch in path[1:]:
        s = _children(s)[int(ch)]
    return s


def same_hist(impl, model, exact, scale, nodes, relative=False):
    if impl[0] != model[0]:
        return False
    if impl[0] == "err":
        return impl[1] == model[1]
    if impl[0] != "ok" or len(impl[1]) != len(model[1]) or len(impl[2]) != len(model[2]):
        return False
    vi, vm = impl[1] + impl[2], model[1] + model[2]
    if any(math.isnan(a) or math.isinf(a) for a in vi):
        return False
    if exact:
        return all(F(a) == b for a, b in zip(vi, vm))
    if relative:
        return all(abs(F(a) - b) <= F(64 * max(nodes, 1)) * F(core.ulp(max(abs(a), abs(float(b))))) for a, b in zip(vi, vm))
    S = max([scale] + [abs(float(b)) for b in vm])
    tol = F(64 * max(nodes, 1)) * F(core.ulp(S))
    return all(abs(F(a) - b) <= tol for a, b in zip(vi, vm))


def replay(obj):
    """re-run the stored case with the real code and print what the oracle sees"""
    import warnings
    warnings.filterwarnings("ignore")
    print(json.dumps({k: obj.get(k) for k in ("property", "kind", "what", "features")}, indent=1))
    case = obj.get("case") or {}
    if "spec" in case:
        print(json.dumps(moment_worker((case.get("name", "replay"), case["spec"])), indent=1, default=str))
    elif "constructor" in case and case["constructor"] != "raw":
        core.stub_moments()
        v = build_leaf([case["constructor"], case["args"]])
        print(wf_problems(v))
    else:
        print(json.dumps(case, indent=1, default=str)[:4000])
    return 0
