"""C01 — Interval + - * / return exactly the set image of the operands.

proof  : Pun.Props.C01 (hand model) + Pun.Props.C01Gen (tables regenerated from arithmetic.py)
tie    : real operators vs `Pun.Arith.binop` over every operand kind / shape pairing
oracle : exact-Fraction corner hull, elementwise with broadcasting; ZeroDivisionError iff 0 in divisor
"""
from __future__ import annotations
import itertools, operator, math
from fractions import Fraction as F
import numpy as np
from . import core
from .core import q, ql, unq, unql, close, err_kind
from .translator import arith as tr

OPS = {"add": operator.add, "sub": operator.sub, "mul": operator.mul, "div": operator.truediv}


def _I():
    from pyuncertainnumber.pba.intervals.number import Interval
    return Interval


# ---- operand descriptions: ("I",lo,hi) ("A",[lo],[hi]) ("N",x) ("S",x,'f'|'i') ("V",[x]) ("Z",x) ("B",b)
def build(d):
    I = _I()
    k = d[0]
    if k == "I":
        return I(d[1], d[2])
    if k == "A":
        return I(np.array(d[1], dtype=float), np.array(d[2], dtype=float))
    if k == "N":
        return d[1]
    if k == "S":
        if d[2] == "f":
            return np.float64(d[1])
        if d[2] == "u":
            return np.uint8(d[1])                       # unsigned scalar: -x wraps around
        return np.int64(d[1])
    if k == "V":
        if len(d) > 2 and d[2] == "i":
            return np.array([int(v) for v in d[1]])          # integer dtype, as np.array([2, 3, 5])
        if len(d) > 2 and d[2] == "u":
            return np.array([int(v) for v in d[1]], dtype=np.uint16)   # unsigned dtype
        return np.array(d[1], dtype=float)
    if k == "Z":
        return np.array(float(d[1]))
    if k == "B":
        return bool(d[1])
    raise ValueError(k)


def wire(d):
    k = d[0]
    if k == "I":
        return f"I {q(d[1])} {q(d[2])}"
    if k == "A":
        return f"A {ql(d[1])} {ql(d[2])}"
    if k in ("N", "S", "Z"):
        return f"{k} {q(d[1])}"
    if k == "V":
        return f"V {ql(d[1])}"
    if k == "B":
        return f"B {int(d[1])}"


def canon_impl(r):
    I = _I()
    if isinstance(r, I):
        lo, hi = np.asarray(r.lo, dtype=float), np.asarray(r.hi, dtype=float)
        if lo.shape == ():
            return ("ok", "I", [float(lo)], [float(hi)])
        return ("ok", "A", [float(x) for x in lo.ravel()], [float(x) for x in hi.ravel()])
    return ("ok", "other", repr(type(r)), None)


KEEP = []          # (real result object, canonical value when produced, case) — re-read later: results must not alias


def run_impl(op, l, r):
    try:
        L, R = build(l), build(r)
        res = OPS[op](L, R)
        c = canon_impl(res)
        if len(KEEP) < 4000:
            KEEP.append((res, c, (op, l, r), (L, canon_opd(L)), (R, canon_opd(R))))
        return c
    except BaseException as e:  # noqa
        return ("err", err_kind(e))


def canon_opd(x):
    I = _I()
    if isinstance(x, I):
        return ("I", np.array(x.lo, dtype=float).tolist(), np.array(x.hi, dtype=float).tolist())
    if isinstance(x, np.ndarray):
        return ("V", x.tolist())
    return ("N", x)


def parse_model(s):
    t = s.split()
    if t[0] == "err":
        return ("err", t[1])
    if t[0] == "ok" and t[1] == "I":
        return ("ok", "I", [unq(t[2])], [unq(t[3])])
    if t[0] == "ok" and t[1] == "A":
        return ("ok", "A", unql(t[2]), unql(t[3]))
    return ("bad", s)


def same(impl, model, exact, depth):
    if impl[0] != model[0]:
        return False
    if impl[0] == "err":
        return impl[1] == model[1]
    if impl[1] != model[1] or len(impl[2]) != len(model[2]):
        return False
    for a, b in zip(impl[2] + impl[3], model[2] + model[3]):
        if math.isnan(a) or math.isinf(a):
            return False
        if exact:
            if F(a) != b:
                return False
        elif not close(a, b, depth):
            return False
    return True


# ---- semantic oracle ---------------------------------------------------------
def as_ivls(d):
    """operand as list of exact (lo,hi) pairs + shape tag; None if not a number-like operand"""
    k = d[0]
    if k == "I":
        return None, [(F(d[1]), F(d[2]))]
    if k == "A":
        return len(d[1]), [(F(a), F(b)) for a, b in zip(d[1], d[2])]
    if k in ("N", "S", "Z"):
        return None, [(F(d[1]), F(d[1]))]
    if k == "V":
        return len(d[1]), [(F(x), F(x)) for x in d[1]]
    return "no", None


def hull(op, x, y):
    (a, b), (c, d) = x, y
    if op == "div":
        if c <= 0 <= d:
            return "zerodiv"
        vals = [a / c, a / d, b / c, b / d]
    elif op == "mul":
        vals = [a * c, a * d, b * c, b * d]
    elif op == "add":
        vals = [a + c, b + d]
    else:
        vals = [a - d, b - c]
    return (min(vals), max(vals))


def expected(op, l, r):
    """('ok', kind, lo[], hi[]) | ('err','ZeroDivision') | None when outside the property's domain"""
    sl, xl = as_ivls(l)
    sr, xr = as_ivls(r)
    if xl is None or xr is None:
        return None
    if any(a > b for a, b in xl + xr):
        return None
    if sl is None:
        sh = sr
    elif sr is None or sl == sr:
        sh = sl
    elif sl == 1:
        sh = sr
    elif sr == 1:
        sh = sl
    else:
        return None
    n = sh if sh is not None else 1
    g = lambda xs, i: xs[0] if len(xs) == 1 else xs[i]
    cells = [hull(op, g(xl, i), g(xr, i)) for i in range(n)]
    if op == "div" and (any(c <= 0 <= d for c, d in xr)):
        return ("err", "ZeroDivision")
    return ("ok", "I" if sh is None else "A", [c[0] for c in cells], [c[1] for c in cells])


def features(op, l, r, impl):
    kk = lambda d: ("A1" if d[0] == "A" and len(d[1]) == 1 else d[0])
    sym = ("raises:" + impl[1]) if impl[0] == "err" else "value"
    return {"op": op, "lkind": kk(l), "rkind": kk(r), "symptom": sym, "call": "Interval operator"}


# ---- generators ----------------------------------------------------------------
def grid_intervals(lo=-3, hi=3):
    return [(a, b) for a in range(lo, hi + 1) for b in range(a, hi + 1)]


def gen_cases(ctx):
    rng = ctx.rng
    G = grid_intervals()
    cases = []
    # 1. scalar-scalar grid: all 784 ordered pairs x 4 ops (covers 9x9 sign classes, touching zero, degenerate)
    for (a, b), (c, d) in itertools.product(G, G):
        for op in OPS:
            cases.append(("grid-ss", op, ("I", a, b), ("I", c, d), True))
    # 2. arrays mixing sign classes: array-array, scalar-array, array-scalar, (1,)-shaped scalars
    nA = ctx.scale(600, 6000)
    for _ in range(nA):
        n = rng.choice([1, 2, 2, 5, 6])
        xs = [rng.choice(G) for _ in range(n)]
        ys = [rng.choice(G) for _ in range(rng.choice([n, n, n, 1]))]
        A = ("A", [x[0] for x in xs], [x[1] for x in xs])
        B = ("A", [y[0] for y in ys], [y[1] for y in ys])
        s = rng.choice(G)
        S = ("I", s[0], s[1])
        op = rng.choice(list(OPS))
        form = rng.choice(["aa", "sa", "as"])
        if form == "aa":
            cases.append(("grid-aa", op, A, B, True))
        elif form == "sa":
            cases.append(("grid-sa", op, S, A, True))
        else:
            cases.append(("grid-as", op, A, S, True))
    # 3. every operand kind on either side
    nums = [-3, -1, 0, 1, 2, -2.5, 0.5, 4.0]
    nK = ctx.scale(1500, 15000)
    for _ in range(nK):
        iv = rng.choice(G)
        n = rng.choice([1, 2, 3])
        xs = [rng.choice(G) for _ in range(n)]
        ivl = rng.choice([("I", iv[0], iv[1]), ("A", [x[0] for x in xs], [x[1] for x in xs])])
        x = rng.choice(nums)
        kind = rng.choice(["N", "N", "Sf", "Si", "Su", "V", "V", "Vu", "Z", "B"])
        if kind == "N":
            o = ("N", x)
        elif kind == "Sf":
            o = ("S", float(x), "f")
        elif kind == "Si":
            o = ("S", int(x), "i")
        elif kind == "Su":
            o = ("S", rng.choice([0, 1, 2, 3, 200]), "u")
        elif kind == "Vu":
            m = rng.choice([n, n, 1, 2]) if ivl[0] == "A" else rng.choice([1, 2, 3])
            o = ("V", [rng.choice([1, 2, 3, 5, 40000]) for _ in range(m)], "u")
        elif kind == "V":
            m = rng.choice([n, n, 1, 2]) if ivl[0] == "A" else rng.choice([1, 2, 3])
            if rng.random() < 0.35:      # integer-dtype ndarray (np.reciprocal, // and in-place ops behave differently there)
                o = ("V", [rng.choice([-3, -2, 2, 3, 5, 1]) for _ in range(m)], "i")
            else:
                o = ("V", [float(rng.choice(nums)) for _ in range(m)])
        elif kind == "Z":
            o = ("Z", float(x))
        else:
            o = ("B", x > 0)
        op = rng.choice(list(OPS))
        if rng.random() < 0.5:
            cases.append(("kinds-right", op, ivl, o, True))
        else:
            cases.append(("kinds-left", op, o, ivl, True))
    # 4. random doubles over 12 decades (general tolerance)
    nR = ctx.scale(3000, 200000)
    def rd():
        m = rng.uniform(-1, 1) * 10 ** rng.uniform(-6, 6)
        return float(m)
    def riv():
        a, b = sorted([rd(), rd()])
        r = rng.random()
        if r < 0.1:
            b = a
        elif r < 0.2:
            a = 0.0 if b >= 0 else a
        elif r < 0.3:
            b = 0.0 if a <= 0 else b
        return a, b
    for _ in range(nR):
        a, b = riv()
        op = rng.choice(list(OPS))
        form = rng.random()
        if form < 0.5:
            c, d = riv()
            cases.append(("random-ss", op, ("I", a, b), ("I", c, d), False))
        elif form < 0.7:
            n = rng.choice([2, 3, 4])
            ys = [riv() for _ in range(n)]
            A = ("A", [y[0] for y in ys], [y[1] for y in ys])
            if rng.random() < 0.5:
                cases.append(("random-sa", op, ("I", a, b), A, False))
            else:
                cases.append(("random-as", op, A, ("I", a, b), False))
        elif form < 0.85:
            cases.append(("random-num-right", op, ("I", a, b), ("N", rd()), False))
        else:
            cases.append(("random-num-left", op, ("N", rd()), ("I", a, b), False))
    # 4b. thin but NOT degenerate operands (relative width 1e-9..1e-5, tiny magnitudes): an implementation that
    #     treats "close" as "equal" (np.allclose / np.isclose) collapses them to points
    for _ in range(ctx.scale(200, 3000)):
        base = rng.choice([2e-9, 1.0, 1500.0, 2.1e5, -3.0, -7e-8])
        rel = rng.choice([1e-9, 1e-7, 3e-6, 8e-6, 3.0])
        a0 = base; b0 = base + abs(base) * rel
        thin = ("I", min(a0, b0), max(a0, b0))
        c, d = riv()
        other = rng.choice([("I", c, d), ("I", 2.0, 3.0), ("A", [c, 2.0], [d, 3.0])])
        op = rng.choice(list(OPS))
        if rng.random() < 0.5:
            cases.append(("thin", op, other, thin, False))
        else:
            cases.append(("thin", op, thin, other, False))
    # 5. malformed: mismatched shapes (compared on error kind only)
    for _ in range(ctx.scale(60, 600)):
        n, m = rng.choice([(2, 3), (3, 2), (2, 5), (4, 3)])
        xs = [rng.choice(G) for _ in range(n)]
        ys = [rng.choice(G) for _ in range(m)]
        A = ("A", [x[0] for x in xs], [x[1] for x in xs])
        B = ("A", [y[0] for y in ys], [y[1] for y in ys])
        cases.append(("malformed-shape", rng.choice(list(OPS)), A, B, True))
    return cases


def nontrivial(op, l, r):
    # trivial = both operands degenerate points equal to 0 or 1 (identity-like)
    def triv(d):
        return d[0] in ("N", "S", "Z") and d[1] in (0, 1)
    return not (triv(l) and triv(r))


def run(ctx: core.Check, cases=None):
    ctx.rule = ("streams: exhaustive 28x28 integer-endpoint interval pairs x 4 ops (scalar-scalar); random arrays mixing "
                "sign classes in the 3 array pairings; every operand kind (int,float,np.float64,np.int64,0-d/1-d ndarray,bool) "
                "on either side; random doubles over 12 decades; mismatched shapes; the same object on both sides; rank-2/3 operands in C, Fortran, "
                "transposed, strided and reversed layouts; magnitudes 1e-300…1e150. A case is non-trivial unless both "
                "operands are the numbers 0/1; distinctness on the canonical (op,lhs,rhs) description.")
    ctx.assumptions = ["binary64 rounding is not modelled: integer/dyadic streams must agree exactly for + - *, "
                       "random-double streams within 4*depth ulp", "rank-2 and rank-3 operands are compared elementwise (flattened, every memory layout); higher ranks are not exercised"]
    gen_out = core.LEAN / "Pun/Gen/ArithGen.lean"
    ctx.lean_stage(["Pun.Props.C01", "Pun.Props.C01Gen"],
                   generators=[("arithmetic.py tables", lambda: _gen(gen_out))])
    if cases is None:
        cases = gen_cases(ctx)
    reqs = [f"bin {op} {wire(l)} {wire(r)}" for (_, op, l, r, _) in cases]
    replies = core.model_batch("C01", reqs)
    # unary minus (used by every subtraction of p-boxes and by the sign flips): exhaustive grid + arrays
    negs = [("I", a, b) for a, b in grid_intervals()]
    for _ in range(ctx.scale(100, 1000)):
        xs = [ctx.rng.choice(grid_intervals()) for _ in range(ctx.rng.choice([1, 2, 4]))]
        negs.append(("A", [x[0] for x in xs], [x[1] for x in xs]))
    nrep = core.model_batch("C01", [f"neg {wire(d)}" for d in negs])
    for d, rep in zip(negs, nrep):
        ctx.count(("neg", d), True, "neg")
        try:
            impl = canon_impl(-build(d))
        except BaseException as e:  # noqa
            impl = ("err", err_kind(e))
        model = parse_model(rep)
        if same(impl, model, True, 1):
            ctx.tie_ok()
        else:
            ctx.tie_bad("neg", {"op": "neg", "x": d}, _js(impl), _js(model))
        _, xs = as_ivls(d)
        exp = ("ok", "I" if d[0] == "I" else "A", [-b for a, b in xs], [-a for a, b in xs])
        if not same(impl, exp, True, 1):
            ctx.fail({"op": "neg", "lkind": d[0], "rkind": "-", "symptom": "value" if impl[0] == "ok" else "raises:" + impl[1],
                      "call": "Interval.__neg__"}, {"op": "neg", "x": d, "impl": _js(impl), "expected": _js(exp)},
                     f"-{d}: implementation gives {_js(impl)}, exact image is {_js(exp)}")
    for (stream, op, l, r, exact), rep in zip(cases, replies):
        ctx.count((op, l, r), nontrivial(op, l, r), stream)
        impl = run_impl(op, l, r)
        model = parse_model(rep)
        ex = exact and op != "div"
        if same(impl, model, ex, 2):
            ctx.tie_ok()
        else:
            ctx.tie_bad(stream, {"op": op, "l": l, "r": r}, _js(impl), _js(model))
        ctx.bump("impl:" + (impl[1] if impl[0] == "err" else "value"))
        # oracle on the real result
        exp = expected(op, l, r)
        if exp is None:
            continue
        if not same(impl, exp, ex, 2):
            ctx.fail(features(op, l, r, impl), {"op": op, "l": l, "r": r, "impl": _js(impl), "expected": _js(exp)},
                     f"{l} {op} {r}: implementation gives {_js(impl)}, exact set image is {_js(exp)}")
        if len(ctx.samples) < 5 and stream.startswith(("grid-aa", "random-ss", "kinds")):
            ctx.sample({"stream": stream, "op": op, "l": l, "r": r, "impl": _js(impl), "model": rep})
    same_object_stream(ctx)
    nd_stream(ctx)
    recheck_kept(ctx)


def _layout(a, how):
    """the same values in a different memory layout"""
    a = np.array(a, dtype=float)
    if how == "F":
        return np.asfortranarray(a)
    if how == "T":                              # transposed view of a C array
        return np.ascontiguousarray(a.T).T
    if how == "strided":                        # every other entry of a wider buffer (last axis)
        big = np.zeros(a.shape[:-1] + (2 * a.shape[-1],))
        big[..., ::2] = a
        return big[..., ::2]
    if how == "neg":                            # reversed view of the reversed data
        return np.ascontiguousarray(a[..., ::-1])[..., ::-1]
    return np.ascontiguousarray(a)


def nd_stream(ctx):
    """operands of rank 2 and 3 in every memory layout (C, Fortran, transposed / strided / reversed views) and
    tiny / huge magnitudes: the law is elementwise, the result has the operands' shape"""
    I = _I()
    rng = ctx.rng
    G = grid_intervals()
    lay = ["C", "F", "T", "strided", "neg"]
    jobs = []
    for _ in range(ctx.scale(260, 3000)):
        shape = rng.choice([(2, 3), (3, 2), (3, 3), (2, 2), (1, 3), (3, 1), (2, 3, 4), (2, 1, 2), (4, 2)])
        n = int(np.prod(shape))
        xs = [rng.choice(G) for _ in range(n)]
        ys = [rng.choice(G) for _ in range(n)]
        form = rng.choice(["II", "II", "Is", "sI", "IV", "VI", "IN", "NI"])
        op = rng.choice(list(OPS))
        jobs.append((shape, xs, ys, form, op, rng.choice(lay), rng.choice(lay), 1))
    # magnitudes at which products of endpoints under/overflow (a sign test by multiplication is wrong there)
    for _ in range(ctx.scale(120, 1200)):
        sc = rng.choice([1e-170, 1e-300, 3e-162, 1e150, 1e-200])
        xs = [rng.choice(G)]
        ys = [rng.choice([g for g in G if not (g[0] <= 0 <= g[1])])]
        op = rng.choice(["div", "div", "add", "sub", "mul"])
        jobs.append(((), xs, ys, rng.choice(["ss", "ss1"]), op, "C", "C", sc))
    reqs = []
    for (shape, xs, ys, form, op, l1, l2, sc) in jobs:
        A = ("A", [F(x[0]) * F(sc) for x in xs], [F(x[1]) * F(sc) for x in xs])
        if form in ("II",):
            B = ("A", [y[0] for y in ys], [y[1] for y in ys])
        elif form in ("Is", "sI", "ss", "ss1"):
            B = ("I", ys[0][0], ys[0][1])
        elif form in ("IV", "VI"):
            B = ("V", [float(y[0]) for y in ys])
        else:
            B = ("N", ys[0][0])
        if form in ("ss", "ss1"):
            A = ("I", F(xs[0][0]) * F(sc), F(xs[0][1]) * F(sc))
        l, r = (B, A) if form in ("sI", "VI", "NI") else (A, B)
        reqs.append((l, r))
    reps = core.model_batch("C01", [f"bin {j[4]} {wire(l)} {wire(r)}" for j, (l, r) in zip(jobs, reqs)])
    for (shape, xs, ys, form, op, l1, l2, sc), (l, r), rep in zip(jobs, reqs, reps):
        ctx.count(("nd", shape, tuple(xs), tuple(ys), form, op, l1, l2, sc), True, "nd-layout" if sc == 1 else "tiny-huge")
        def real(d, layout):
            if d[0] == "A":
                lo = _layout(np.array([float(v) for v in d[1]]).reshape(shape), layout)
                hi = _layout(np.array([float(v) for v in d[2]]).reshape(shape), layout)
                return I(lo, hi)
            if d[0] == "V":
                return _layout(np.array(d[1], dtype=float).reshape(shape), layout)
            if d[0] == "I":
                if form == "ss1":
                    return I(np.array([float(d[1])]), np.array([float(d[2])]))
                return I(float(d[1]), float(d[2]))
            return d[1]
        try:
            L, R = real(l, l1), real(r, l2)
            res = OPS[op](L, R)
            lo, hi = np.asarray(res.lo, dtype=float), np.asarray(res.hi, dtype=float)
            want_shape = shape if form not in ("ss", "ss1") else (() if form == "ss" else (1,))
            if lo.shape != tuple(want_shape) or hi.shape != tuple(want_shape):
                impl = ("ok", "shape", [float(x) for x in lo.shape], [float(x) for x in want_shape])
            else:
                impl = ("ok", "A" if form != "ss" else "I", [float(x) for x in lo.ravel()], [float(x) for x in hi.ravel()])
        except BaseException as e:  # noqa
            impl = ("err", err_kind(e))
        ctx.bump(("nd:" if sc == 1 else "tiny:") + (impl[1] if impl[0] == "err" else "value"))
        model = parse_model(rep)
        if model[0] == "ok" and form == "ss1":
            model = ("ok", "A", model[2], model[3])
        exact = sc == 1 and op != "div"
        case = {"op": op, "l": _jd(l), "r": _jd(r), "shape": list(shape), "layout": [l1, l2], "form": form, "scale": sc}
        if same(impl, model, exact, 2):
            ctx.tie_ok()
        else:
            ctx.tie_bad("nd-layout" if sc == 1 else "tiny-huge", case, _js(impl), _js(model))
        exp = expected(op, l, r)
        if exp is not None and form == "ss1" and exp[0] == "ok":
            exp = ("ok", "A", exp[2], exp[3])
        if exp is not None and not same(impl, exp, exact, 2):
            ctx.fail({"op": op, "lkind": l[0], "rkind": r[0], "symptom": "value" if impl[0] == "ok" else "raises:" + impl[1],
                      "call": "Interval operator (rank-%d operands, layout %s/%s)" % (len(shape), l1, l2) if sc == 1
                      else "Interval operator (magnitude %g)" % sc},
                     dict(case, impl=_js(impl), expected=_js(exp)),
                     f"{op} on operands of shape {shape} (layouts {l1},{l2}; form {form}; scale {sc}): implementation gives "
                     f"{_js(impl)}, exact elementwise set image is {_js(exp)}")


def _jd(d):
    return [d[0]] + [([float(v) for v in x] if isinstance(x, list) else (float(x) if isinstance(x, F) else x)) for x in d[1:]]


def same_object_stream(ctx):
    """X op X with the SAME object on both sides (no shortcut such as X*X -> X**2 is valid: the operands are
    independent occurrences for interval arithmetic)"""
    rng = ctx.rng
    G = grid_intervals()
    descs = [("I", a, b) for a, b in G]
    for _ in range(ctx.scale(60, 600)):
        xs = [rng.choice(G) for _ in range(rng.choice([1, 2, 4]))]
        descs.append(("A", [x[0] for x in xs], [x[1] for x in xs]))
    reqs, meta = [], []
    for d in descs:
        for op in OPS:
            reqs.append(f"bin {op} {wire(d)} {wire(d)}")
            meta.append((op, d))
    reps = core.model_batch("C01", reqs)
    for (op, d), rep in zip(meta, reps):
        ctx.count(("same", op, d), True, "same-object")
        try:
            X = build(d)
            impl = canon_impl(OPS[op](X, X))
        except BaseException as e:  # noqa
            impl = ("err", err_kind(e))
        model = parse_model(rep)
        ex = op != "div"
        if same(impl, model, ex, 2):
            ctx.tie_ok()
        else:
            ctx.tie_bad("same-object", {"op": op, "l": d, "r": d}, _js(impl), _js(model))
        exp = expected(op, d, d)
        if exp is not None and not same(impl, exp, ex, 2):
            ctx.fail({"op": op, "lkind": d[0], "rkind": d[0], "symptom": "value" if impl[0] == "ok" else "raises:" + impl[1],
                      "call": "Interval operator (same object on both sides)"},
                     {"op": op, "l": d, "r": "the same object", "impl": _js(impl), "expected": _js(exp)},
                     f"X {op} X with X = {d} (one object): implementation gives {_js(impl)}, exact set image is {_js(exp)}")


def recheck_kept(ctx):
    """results produced earlier must still read the same (no shared work buffers), operands must be unchanged"""
    n = 0
    I = _I()

    def bufs(x):
        if isinstance(x, I):
            return [b for b in (x.lo, x.hi) if isinstance(b, np.ndarray) and b.ndim > 0]
        return [x] if isinstance(x, np.ndarray) and x.ndim > 0 else []

    aliased = False
    for res, c0, (op, l, r), (L, cl), (R, cr) in KEEP:
        if aliased or not isinstance(res, I):
            break
        # the result is a NEW value: not one of the operand objects, and not sharing memory with them
        # (0 + X, X * 1, X - 0 … are no exceptions: a caller who later updates X in place must not see
        # an earlier result move)
        for side, O in (("left", L), ("right", R)):
            if res is O or any(np.shares_memory(a, b) for a in bufs(res) for b in bufs(O)):
                ctx.fail({"op": op, "lkind": l[0], "rkind": r[0], "symptom": "result-aliases-operand", "call": "Interval operator (aliasing)"},
                         {"op": op, "l": _jd(l), "r": _jd(r), "aliased_operand": side, "same_object": res is O},
                         f"the result of {l} {op} {r} {'IS' if res is O else 'shares memory with'} its {side} operand: "
                         f"modifying the operand afterwards changes the result")
                aliased = True
                break
    for res, c0, (op, l, r), (L, cl), (R, cr) in KEEP:
        n += 1
        c1 = canon_impl(res)
        if c1 != c0:
            ctx.fail({"op": op, "lkind": l[0], "rkind": r[0], "symptom": "result-changed-later", "call": "Interval operator (sequence)"},
                     {"op": op, "l": l, "r": r, "when_produced": _js(c0), "read_again_later": _js(c1)},
                     f"the result of {l} {op} {r} changed after later operations (was {_js(c0)}, now {_js(c1)}): results share memory")
            break
        if canon_opd(L) != cl or canon_opd(R) != cr:
            ctx.fail({"op": op, "lkind": l[0], "rkind": r[0], "symptom": "operand-mutated", "call": "Interval operator (sequence)"},
                     {"op": op, "l": l, "r": r}, f"an operand of {l} {op} {r} was modified by the operation")
            break
    ctx.bump("results-reread-later", n)
    KEEP.clear()


def _gen(out):
    tr.generate(core.REPO, out)
    return "ok: 8 tables regenerated"


def _js(t):
    if t is None:
        return None
    out = []
    for x in t:
        if isinstance(x, list):
            out.append([float(y) for y in x])
        else:
            out.append(x)
    return out


def replay(obj):
    c = obj.get("case", {})
    if "op" not in c:
        print(core.json.dumps(obj, indent=1))
        return 0
    op, l, r = c["op"], tuple(c["l"]), tuple(c["r"])
    impl = run_impl(op, l, r)
    rep = core.model_batch("C01", [f"bin {op} {wire(l)} {wire(r)}"])[0]
    print("case    :", op, l, r)
    print("impl    :", _js(impl))
    print("model   :", rep)
    print("expected:", _js(expected(op, l, r)))
    return 0
