"""C05 — interval elementary functions and integer powers enclose every pointwise value.

proof  : Pun.Props.C05 about Pun.Model.Elem (the definitions the driver executes); Pun.Props.C05Gen (scalar sin/cos/tan
         case tables regenerated from methods.py equal the hand model); Pun.Props.C05Real (Mathlib's Real.sin/cos/tan
         with the true periods satisfy every hypothesis of the trigonometric theorems)
tie    : Interval.abs/exp/sqrt/log/sin/cos/tan/__pow__, methods.tanh, activation.sigmoid, np.<ufunc>(Interval),
         scalar / (1,) / 1-d / 2-d forms, against the compiled model.  numpy's transcendental values and the
         rounded intermediates (width, reduced endpoints) travel on the wire; for sin/cos/tan/abs/exp/sqrt/log the
         result must then be EQUAL (the code only selects, orders and copies), for pow/sigmoid/tanh within rounding.
oracle : independent of the model: dense sampling + critical points (enclosure), exactness for monotone
         functions and abs, array form == scalar form element by element, domain violations / poles raise
         (or give an unbounded interval).
"""
from __future__ import annotations
import math
from fractions import Fraction as F
import numpy as np
from . import core
from .core import q, ql, unq, unql, close, err_kind

PI = float(np.pi)
T2 = float(2 * np.pi)
TRIG = ("sin", "cos", "tan")
MONO = ("exp", "sqrt", "log")
NS = 2001          # dense sampling points of the oracle


def _mods():
    from pyuncertainnumber.pba.intervals.number import Interval
    from pyuncertainnumber.pba.intervals import methods, activation
    return Interval, methods, activation


# ---------------------------------------------------------------------------- cases
# case = dict(stream, fn, form, entry, lo=[floats], hi=[floats], k=int|None, kind=str|None)
# form : S  Interval(lo,hi) of shape () | S1 shape (1,) | A shape (n,) | A2 shape (2,n/2)
# entry: method X.fn() | ufunc np.fn(X) | vec methods.fn_vector(X) | alt (methods.sigmoid instead of activation.sigmoid)

ARRAY_FORMS = ("A", "A2", "A2F", "A2T", "A3", "AL", "AI")
ORACLE_ONLY = ("sqrtpow",)      # compositions: judged by the oracle, no model entry point


def build(c):
    X = build0(c)
    prep = c.get("prep")
    if prep == "copy":
        import copy
        return copy.copy(X)
    if prep == "deepcopy":
        import copy
        return copy.deepcopy(X)
    if prep == "pickle":
        import pickle
        return pickle.loads(pickle.dumps(X))
    if prep == "rebuilt":          # rebuilt from its own public read-outs
        I, _, _ = _mods()
        return I(X.lo, X.hi)
    if prep == "getitem" and c["form"] in ARRAY_FORMS and c["form"] not in ("A2", "A2F", "A2T", "A3"):
        return X[:]
    return X


def build0(c):
    I, _, _ = _mods()
    lo, hi = c["lo"], c["hi"]
    f = c["form"]
    if f in ("A2F", "A2T", "A3"):
        n = len(lo) // 2
        L = np.array(lo, dtype=float).reshape(2, n)
        H = np.array(hi, dtype=float).reshape(2, n)
        if f == "A2F":             # Fortran-ordered memory, same logical array
            return I(np.asfortranarray(L), np.asfortranarray(H))
        if f == "A2T":             # non-contiguous transposed view, same logical array
            return I(np.ascontiguousarray(L.T).T, np.ascontiguousarray(H.T).T)
        return I(L.reshape(2, 1, n), H.reshape(2, 1, n))
    if f == "AL":                  # plain python lists
        return I([float(x) for x in lo], [float(x) for x in hi])
    if f == "AI":                  # integer dtype when every bound is an integer
        if all(float(x).is_integer() and abs(x) < 2 ** 40 for x in lo + hi):
            return I(np.array(lo, dtype=np.int64), np.array(hi, dtype=np.int64))
        return I(np.array(lo, dtype=float), np.array(hi, dtype=float))
    dt = c.get("dtype")
    if f == "S":
        if dt == "pyint":              # python ints (possibly beyond 2**53)
            return I(int(lo[0]), int(hi[0]))
        if dt == "fraction":
            from fractions import Fraction
            return I(Fraction(lo[0]), Fraction(hi[0]))
        if dt in ("float32", "float16", "longdouble"):      # numpy scalars of another floating type
            return I(getattr(np, dt)(lo[0]), getattr(np, dt)(hi[0]))
        return I(lo[0], hi[0])
    adt = getattr(np, dt) if dt in ("float32", "float16", "longdouble") else float
    if f == "S1":
        return I(np.array(lo[:1], dtype=adt), np.array(hi[:1], dtype=adt))
    if f == "A":
        return I(np.array(lo, dtype=adt), np.array(hi, dtype=adt))
    if f == "A2":
        n = len(lo) // 2
        return I(np.array(lo, dtype=adt).reshape(2, n), np.array(hi, dtype=adt).reshape(2, n))
    raise ValueError(f)


def kobj(c):
    k, kind = c["k"], c["kind"]
    if kind.startswith("np:"):
        return getattr(np, kind[3:])(k)
    if kind == "npint32":
        return np.int32(k)
    if kind == "npuint8":
        return np.uint8(k)
    return {"int": int(k), "npint": np.int64(k), "float": float(k), "bool": bool(k)}[kind]


def wire_kind(kind):
    """numpy integer classes are one kind for the model (class name in INTEGERS)"""
    return "npint" if (kind in ("npint32", "npuint8") or kind.startswith("np:")) else kind


def call(c, X):
    I, M, A = _mods()
    fn, e = c["fn"], c["entry"]
    if fn == "pow":
        return X ** kobj(c)
    if fn == "sig":
        return M.sigmoid(X) if e == "alt" else A.sigmoid(X)
    if fn == "tanh":
        return M.tanh(X)
    if fn == "atanh":
        return A.tanh(X)
    if fn == "sqrtpow":
        return (X ** kobj(c)).sqrt()
    if fn == "abs":
        return X.abs()
    if e == "ufunc":
        return getattr(np, fn)(X)
    if e == "vec":
        return getattr(M, fn + "_vector")(X)
    if e == "func":
        return getattr(M, fn)(X)
    return getattr(X, fn)()


def canon(r):
    I, _, _ = _mods()
    if isinstance(r, I):
        lo = np.asarray(r.lo, dtype=float).ravel()
        hi = np.asarray(r.hi, dtype=float).ravel()
        return ("ok", [float(x) for x in lo], [float(x) for x in hi])
    if r is None:
        return ("err", "None")
    return ("err", "NotInterval")


MUTATED = [None]      # set by run_impl: description of an operand changed in place by the last call


ALIASED = [None]      # set by run_impl: the result shares memory with the operand / is the operand


class _State:
    """floating-point error handling of the process for one call; always restored"""
    def __init__(self, state):
        self.state = state
    def __enter__(self):
        import warnings
        if self.state == "errraise":
            self.cm = [np.errstate(all="raise")]
        elif self.state == "warnerror":
            w = warnings.catch_warnings()
            self.cm = [w, np.errstate(divide="warn", over="warn", invalid="warn", under="ignore")]
        else:
            self.cm = [np.errstate(all="ignore")]
        for m in self.cm:
            m.__enter__()
        if self.state == "warnerror":
            warnings.simplefilter("error")
        return self
    def __exit__(self, *a):
        for m in reversed(self.cm):
            m.__exit__(*a)
        return False


def run_impl(c, state=None):
    MUTATED[0] = None
    ALIASED[0] = None
    X = None
    try:
        with np.errstate(all="ignore"):
            X = build(c)
            lo0, hi0 = np.array(X.lo, copy=True), np.array(X.hi, copy=True)
        with _State(state):
            res = call(c, X)
        r = canon(res)
        I = _mods()[0]
        if isinstance(res, I):
            if res is X:
                ALIASED[0] = "the result is the operand object itself"
            elif any(np.shares_memory(u, v) for u in (res.lo, res.hi) for v in (X.lo, X.hi)):
                ALIASED[0] = "the result shares memory with the operand (changing one changes the other)"
    except BaseException as e:  # noqa
        r = ("err", err_kind(e))
    if X is not None:
        try:
            if not (np.array_equal(lo0, X.lo, equal_nan=True) and np.array_equal(hi0, X.hi, equal_nan=True)):
                MUTATED[0] = f"operand changed in place: lo {lo0.tolist()} -> {np.asarray(X.lo).tolist()}, hi {hi0.tolist()} -> {np.asarray(X.hi).tolist()}"
        except Exception:
            pass
    return r


def uses_array_op(c):
    """which model entry point mirrors the path the real code takes"""
    if c["form"] in ARRAY_FORMS:
        return True
    if c["form"] == "S1":
        return c["fn"] not in TRIG        # sin/cos/tan treat shape (1,) as a scalar
    return False


def fz(x):
    """finite value for the wire (NaN/inf results of numpy on out-of-domain arguments are replaced by 0:
    the model decides itself that they are NaN)"""
    x = float(x)
    return x if math.isfinite(x) else 0.0


def qe(x):
    """extended value on the wire: +inf (numpy.exp overflow) is the token `inf`"""
    x = float(x)
    return "inf" if x == math.inf else q(fz(x))


def wire(c):
    fn = c["fn"]
    arr = uses_array_op(c)
    lo = np.array(c["lo"], dtype=float)
    hi = np.array(c["hi"], dtype=float)
    if c["form"] == "S1":
        lo, hi = lo[:1], hi[:1]
    tag = "A" if arr else "S"
    enc = (lambda v: ql([fz(x) for x in v])) if arr else (lambda v: q(fz(v[0])))
    ence = (lambda v: "[" + ",".join(qe(x) for x in v) + "]") if arr else (lambda v: qe(v[0]))
    with np.errstate(all="ignore"):
        if fn == "abs":
            return f"abs {tag} {enc(lo)} {enc(hi)}"
        if fn in MONO:
            f = getattr(np, fn)
            if fn == "exp":
                return f"{fn} {tag} {enc(lo)} {enc(hi)} {ence(f(lo))} {ence(f(hi))}"
            return f"{fn} {tag} {enc(lo)} {enc(hi)} {enc(f(lo))} {enc(f(hi))}"
        if fn == "pow":
            return f"pow {tag} {wire_kind(c['kind'])} {int(c['k'])} {enc(lo)} {enc(hi)}"
        if fn == "sig":
            return f"sig {tag} {ence(np.exp(-hi))} {ence(np.exp(-lo))}"
        if fn == "tanh":
            return f"tanh {tag} {ence(np.exp(2 * lo))} {ence(np.exp(2 * hi))}"
        if fn == "atanh":
            return f"atanh {tag} {ence(np.exp(2 * lo))} {ence(np.exp(2 * hi))}"
        if fn in ORACLE_ONLY:
            return "consts"
        T = np.pi if fn == "tan" else 2 * np.pi
        f = getattr(np, fn)
        w = hi - lo
        yl = lo % T
        yh = hi % T
        return f"{fn} {tag} {enc(lo)} {enc(hi)} {enc(w)} {enc(yl)} {enc(yh)} {enc(f(yl))} {enc(f(yh))}"


def parse_model(c, s):
    t = s.split()
    if not t:
        return ("bad", s)
    if t[0] == "err":
        return ("err", t[1])
    if t[0] != "ok":
        return ("bad", s)
    arr = uses_array_op(c)
    if c["fn"] == "tan":
        if arr:
            a, b, m = unql(t[1]), unql(t[2]), unql(t[3])
            return ("ok", [(-math.inf if mi else ai) for ai, mi in zip(a, m)],
                    [(math.inf if mi else bi) for bi, mi in zip(b, m)])
        if t[1] == "inf":
            return ("ok", [-math.inf], [math.inf])
        return ("ok", [unq(t[1])], [unq(t[2])])
    uq = lambda z: math.inf if z == "inf" else unq(z)
    if arr:
        ul = lambda z: [uq(y) for y in z.strip()[1:-1].split(",")] if z.strip() != "[]" else []
        return ("ok", ul(t[1]), ul(t[2]))
    return ("ok", [uq(t[1])], [uq(t[2])])


def pow_out_of_range(c):
    """a power of an endpoint underflows to 0 or overflows to inf in binary64: rounding range effects the exact
    model does not have (tie not applicable; the oracle still judges the real result)"""
    if c["fn"] not in ("pow", "sqrtpow") or c["k"] is None:
        return False
    k = abs(int(c["k"]))
    with np.errstate(all="ignore"):
        for x in c["lo"] + c["hi"]:
            if x != 0.0:
                v = float(np.power(np.float64(abs(x)), k))
                if v < 1e-290 or v > 1e290:          # incl. subnormal results and overflowing reciprocals
                    return True
    return False


def exact_inputs(c):
    return all(float(x).is_integer() and abs(x) <= 4 for x in c["lo"] + c["hi"])


def agree(c, impl, model):
    if impl[0] != model[0]:
        return False
    if impl[0] == "err":
        return impl[1] == model[1]
    if len(impl[1]) != len(model[1]):
        return False
    fn = c["fn"]
    for x, m in zip(impl[1] + impl[2], model[1] + model[2]):
        if isinstance(m, float):            # +-inf from the model
            if x != m:
                return False
            continue
        if math.isnan(x) or math.isinf(x):
            return False
        if fn in TRIG or fn in MONO or fn == "abs":
            if F(x) != m:
                return False
        elif fn == "pow":
            if exact_inputs(c) and c["k"] is not None and c["k"] >= 0:
                if F(x) != m:
                    return False
            elif not close(x, m, 3 + abs(int(c["k"]))):
                return False
        else:                               # sig, tanh: intermediates of size ~1
            if abs(F(x) - m) > F(16 * math.ulp(max(1.0, abs(x)))):
                return False
    return True


# ---------------------------------------------------------------------------- oracle
def ref_fn(c):
    fn = c["fn"]
    if fn == "pow":
        k = int(c["k"])
        return lambda x: np.power(x, float(k)) if k >= 0 else 1.0 / np.power(x, float(-k))
    if fn == "sig":
        return lambda x: 1.0 / (1.0 + np.exp(-x))
    if fn == "atanh":
        return np.tanh
    if fn == "sqrtpow":
        k = int(c["k"])
        return lambda x: np.power(np.abs(x), k / 2.0)
    return getattr(np, fn)


def tol(c, v, bound):
    fn = c["fn"]
    m = max(abs(v), abs(bound)) if math.isfinite(bound) else abs(v)
    if fn in ("sin", "cos"):
        return 1e-14            # the double 2*pi is not the real 2*pi (2.4e-16 per period, |x| <= 80)
    if fn == "tan":
        return (1 + v * v) * 2e-14
    if fn in ("sig", "tanh", "atanh"):
        return 1e-15
    if fn == "sqrtpow":
        return 64 * core.ulp(m) + 1e-300
    if fn == "pow":
        return 16 * (abs(int(c["k"])) + 1) * core.ulp(m) + 1e-300
    return 8 * core.ulp(m) + 1e-300


def in_domain(c, lo, hi):
    """None: inside the domain.  'domain': outside (must raise).  'pole': a pole lies in X (unbounded or raise).
    'edge': within rounding of a pole of tan (either answer accepted)."""
    fn = c["fn"]
    if fn == "sqrt":
        return "domain" if lo < 0 else None
    if fn == "log":
        return "domain" if lo <= 0 else None
    if fn == "pow" and c["k"] < 0:
        return "pole" if lo <= 0 <= hi else None
    if fn == "tan":
        j0 = math.floor((lo - PI / 2) / PI) - 1
        j1 = math.ceil((hi - PI / 2) / PI) + 1
        res = None
        for j in range(j0, j1 + 1):
            p = PI / 2 + j * PI
            eps = 1e-12 * (1 + abs(p))
            if lo + eps < p < hi - eps:
                return "pole"
            if lo - eps <= p <= hi + eps:
                res = "edge"
        return res
    return None


def sample_points(c, lo, hi):
    if math.isfinite(hi - lo):
        xs = np.linspace(lo, hi, NS)
    else:
        t = np.linspace(0.0, 1.0, NS)
        xs = lo * (1 - t) + hi * t
    xs[0], xs[-1] = lo, hi
    np.clip(xs, lo, hi, out=xs)
    if c["fn"] in ("sin", "cos"):
        j0, j1 = math.ceil(lo / (PI / 2)), math.floor(hi / (PI / 2))
        if j1 - j0 < 64:
            crit = np.clip(np.array([j * (PI / 2) for j in range(j0 - 1, j1 + 2)]), lo, hi)
            xs = np.concatenate([xs, crit])
    if c["fn"] == "abs" and lo <= 0 <= hi:
        xs = np.concatenate([xs, [0.0]])
    return xs


def monotone_exact(c, lo, hi):
    """(expected lo, expected hi) when the property demands the exact range, else None"""
    fn = c["fn"]
    with np.errstate(all="ignore"):
        if fn == "abs":
            a = 0.0 if lo <= 0 <= hi else min(abs(lo), abs(hi))
            return a, max(abs(lo), abs(hi))
        if fn == "sqrtpow":
            f = ref_fn(c)
            u, v = float(f(np.float64(lo))), float(f(np.float64(hi)))
            if u == 0.0 or v == 0.0 or math.isinf(u) or math.isinf(v) or min(u, v) ** 2 < 1e-300 or max(u, v) ** 2 > 1e300:
                return None        # x**k under/overflows in binary64: outside the model
            return (0.0 if lo <= 0 <= hi else min(u, v)), max(u, v)
        if fn in MONO or fn in ("sig", "tanh", "atanh"):
            f = ref_fn(c)
            return float(f(np.float64(lo))), float(f(np.float64(hi)))
        if fn == "pow":
            k = int(c["k"])
            if k == 0:
                return (1.0, 1.0) if not (lo <= 0 <= hi) else None      # [-1,2]**0 = [0,1]: sound, not tight
            if k % 2 == 1 or not (lo < 0 < hi):
                f = ref_fn(c)
                u, v = float(f(np.float64(lo))), float(f(np.float64(hi)))
                return min(u, v), max(u, v)
    return None


def oracle_element(c, lo, hi, res):
    """res = ('ok', a, b) | ('err', kind).  returns list of (symptom, text)"""
    out = []
    dom = in_domain(c, lo, hi)
    if dom == "domain":
        if res[0] == "ok":
            out.append(("no-raise", f"argument [{lo},{hi}] outside the domain returned [{res[1]},{res[2]}]"))
        return out
    if dom == "pole":
        if res[0] == "ok" and not (res[1] == -math.inf and res[2] == math.inf):
            out.append(("pole-bounded", f"a pole lies in [{lo},{hi}] but the result is [{res[1]},{res[2]}]"))
        return out
    if res[0] == "err":
        if dom == "edge":
            return out
        out.append(("raises:" + res[1], f"[{lo},{hi}] is inside the domain but the call raised {res[1]}"))
        return out
    a, b = res[1], res[2]
    if math.isnan(a) or math.isnan(b):
        out.append(("nan", f"NaN bound for [{lo},{hi}]"))
        return out
    with np.errstate(all="ignore"):
        xs = sample_points(c, lo, hi)
        vs = ref_fn(c)(xs)
    if np.any(vs == np.inf) and b != math.inf and c["fn"] != "tan":
        out.append(("unsound", f"f overflows to inf inside [{lo!r},{hi!r}] but the upper bound is {b!r}"))
        return out
    ok = np.isfinite(vs)
    vs = vs[ok]
    xs = xs[ok]
    if len(vs):
        i, j = int(np.argmin(vs)), int(np.argmax(vs))
        vmin, vmax = float(vs[i]), float(vs[j])
        if a - tol(c, vmin, a) > vmin:
            out.append(("unsound", f"f({xs[i]!r}) = {vmin!r} lies below the lower bound {a!r} of f([{lo!r},{hi!r}])"))
        elif b + tol(c, vmax, b) < vmax:
            out.append(("unsound", f"f({xs[j]!r}) = {vmax!r} lies above the upper bound {b!r} of f([{lo!r},{hi!r}])"))
    ex = monotone_exact(c, lo, hi)
    if ex is not None and not out:
        ea, eb = ex
        bad = False
        for got, want in ((a, ea), (b, eb)):
            if math.isnan(want):
                continue
            if math.isinf(want) or math.isinf(got):
                bad = bad or (got != want)
            else:
                bad = bad or abs(got - want) > tol(c, want, got)
        if bad:
            if True:
                out.append(("inexact", f"exact range of f on [{lo!r},{hi!r}] is [{ea!r},{eb!r}], result is [{a!r},{b!r}]"))
    return out


def elements(c):
    lo, hi = c["lo"], c["hi"]
    if c["form"] in ("S", "S1"):
        return [(lo[0], hi[0])]
    return list(zip(lo, hi))


def scalar_case(c, lo, hi):
    d = dict(c)
    d.update(form="S", lo=[lo], hi=[hi], entry=("method" if c["entry"] in ("ufunc", "vec") else c["entry"]), prep=None,
             dtype=None, state=None)
    return d


def same_float(x, y, fn):
    if x == y:
        return True
    if math.isnan(x) or math.isnan(y) or math.isinf(x) or math.isinf(y):
        return False
    if fn in ("sig", "tanh", "atanh"):       # intermediates of size ~1: a few ulp of 1 (as in the oracle's tolerance)
        return abs(x - y) <= 4 * core.ulp(max(abs(x), abs(y), 1.0))
    if fn == "pow":
        return abs(x - y) <= 4 * core.ulp(max(abs(x), abs(y)))
    return False


def oracle(c, impl):
    """list of (symptom, text) — the property evaluated on the real result"""
    els = elements(c)
    fn = c["fn"]
    if fn == "sqrtpow" and pow_out_of_range(c):
        return []          # the intermediate x**k under/overflows in binary64: outside the model
    if fn == "pow" and wire_kind(c["kind"]) not in ("int", "npint"):
        return []          # the property quantifies over integer exponents
    fails = []
    n = len(els)
    if impl[0] == "ok":
        ra, rb = impl[1], impl[2]
        if len(ra) == 1 and n > 1:
            fails.append(("shape", f"result has 1 element for {n} inputs"))
            return fails
        if len(ra) != n:
            fails.append(("shape", f"result has {len(ra)} elements for {n} inputs"))
            return fails
        for (lo, hi), a, b in zip(els, ra, rb):
            fails += oracle_element(c, lo, hi, ("ok", a, b))
    else:
        doms = [in_domain(c, lo, hi) for lo, hi in els]
        if not any(d in ("domain", "pole") for d in doms) and not (n == 1 and doms[0] == "edge"):
            fails.append(("raises:" + impl[1], f"every element is inside the domain but the call raised {impl[1]}"))
    # array form == scalar form, element by element
    if c["form"] != "S" and not fails:
        sc = [run_impl(scalar_case(c, lo, hi)) for lo, hi in els]
        if impl[0] == "ok":
            for i, s in enumerate(sc):
                if s[0] != "ok":
                    fails.append(("array!=scalar", f"element {i} {els[i]}: scalar form raises {s[1]}, array form returns a value"))
                    break
                if not (same_float(s[1][0], impl[1][i], fn) and same_float(s[2][0], impl[2][i], fn)):
                    fails.append(("array!=scalar", f"element {i} {els[i]}: scalar form [{s[1][0]!r},{s[2][0]!r}] "
                                                   f"array form [{impl[1][i]!r},{impl[2][i]!r}]"))
                    break
        elif all(s[0] == "ok" for s in sc):
            fails.append(("array!=scalar", f"array form raises {impl[1]} but every element's scalar form returns a value"))
    return fails


def features(c, symptom):
    return {"fn": c["fn"], "form": c["form"], "entry": c["entry"], "symptom": symptom,
            "k": (int(c["k"]) if c["k"] is not None else 0), "n": len(c["lo"]), "range": pow_out_of_range(c),
            "extreme": any(abs(x) > 354.0 for x in c["lo"] + c["hi"]), "prep": c.get("prep") or "none",
            "dtype": c.get("dtype") or "float64", "state": c.get("state") or "default",
            "call": "Interval elementary function"}


# ---------------------------------------------------------------------------- generators
def mk(stream, fn, form, entry, lo, hi, k=None, kind=None, prep=None):
    return {"stream": stream, "fn": fn, "form": form, "entry": entry,
            "lo": [float(x) for x in lo], "hi": [float(x) for x in hi], "k": k, "kind": kind, "prep": prep}


def trig_grid(period):
    """positions k*(T/4)+delta and widths relative to the period (DESIGN C05 tie)"""
    qd = period / 4
    ivs = []
    for k in range(-9, 10):
        base = k * qd
        for d in ("0", "+u", "-u", "+.1", "-.1", "T/8"):
            if d == "0":
                lo = base
            elif d == "+u":
                lo = float(np.nextafter(base, np.inf))
            elif d == "-u":
                lo = float(np.nextafter(base, -np.inf))
            elif d == "+.1":
                lo = base + 0.1
            elif d == "-.1":
                lo = base - 0.1
            else:
                lo = base + period / 8
            for w in (0.0, 1e-9, 0.3 * qd, qd, 2 * qd, float(np.nextafter(period, 0)) - 1e-9, period, period + 0.1, 3 * period):
                ivs.append((lo, lo + w))
    return ivs


def trig_pairs(period, rng, n):
    """both endpoints on (or one ulp off) the quadrant grid"""
    qd = period / 4
    out = []
    def pt():
        k = rng.randint(-9, 9)
        b = k * qd
        return rng.choice([b, float(np.nextafter(b, np.inf)), float(np.nextafter(b, -np.inf)), b + rng.uniform(-qd, qd)])
    for _ in range(n):
        a, b = sorted([pt(), pt()])
        out.append((a, b))
    return out


def exact_width_hi(lo, period):
    """hi such that the binary64 difference hi - lo is EXACTLY the period constant (None if there is none)"""
    lo = float(lo)
    hi = lo + period
    for _ in range(6):
        d = hi - lo
        if d == period:
            return float(hi)
        hi = float(np.nextafter(hi, np.inf if d < period else -np.inf))
    return None


def rd_(rng):
    return rng.choice([-1, 1]) * 10 ** rng.uniform(-3, 1.2)


def gen_cases(ctx):
    rng = ctx.rng
    cases = []
    # ---- 0. witnesses of the defects repaired by the fix: commits (always present) ---------------
    W = [("sin", "S", "method", [-1.0], [1.0]), ("cos", "S", "method", [6.0], [7.0]),
         ("cos", "A", "method", [-4 * PI, 1.0], [-2 * PI, 2.0]), ("cos", "S", "vec", [1.0], [2.0]),
         ("sin", "A", "method", [1.0, 0.0], [2.0, 7.0]), ("sin", "A2", "method", [1.0, 2.0, 0.1, 0.2], [2.0, 3.0, 0.2, 7.0]),
         ("tan", "S", "method", [0.0], [PI]), ("tan", "A", "method", [0.25, 1.0], [0.25 + PI, 1.2]),
         ("log", "A", "method", [1.0, 2.0], [2.0, 3.0])]
    for fn, form, entry, lo, hi in W:
        cases.append(mk("witness", fn, form, entry, lo, hi))
    cases.append(mk("witness", "atanh", "S", "method", [400.0], [500.0]))      # raised AssertionError before fa5d3fa
    cases.append(mk("witness", "atanh", "A", "method", [-1.0, 1.0, -3.0], [2.0, 2.0, -1.0]))
    cases.append(mk("witness", "pow", "S", "method", [1.0], [2.0], -2, "int"))
    cases.append(mk("witness", "pow", "S", "method", [-1.0], [2.0], -1, "int"))
    cases.append(mk("witness", "pow", "S", "method", [1.375], [1.875], -2, "npint"))
    # ---- 0b. widths EXACTLY equal to the period in binary64 (and one ulp either side) ------------
    for fn in TRIG:
        period = PI if fn == "tan" else T2
        los = [k * (period / 4) for k in range(-8, 9)] + [float(k) for k in range(-6, 7)] + \
              [k / 8 for k in range(-20, 21, 3)] + [rng.uniform(-60, 60) for _ in range(ctx.scale(40, 2000))]
        exact = []
        for lo in los:
            hi = exact_width_hi(lo, period)
            if hi is None:
                continue
            exact.append((lo, hi))
            cases.append(mk("trig-exactT", fn, "S", "method", [lo], [hi]))
            for h2 in (float(np.nextafter(hi, -np.inf)), float(np.nextafter(hi, np.inf))):
                cases.append(mk("trig-exactT", fn, "S", rng.choice(["method", "ufunc"]), [lo], [h2]))
        ordinary = [(0.1, 0.2), (1.0, 2.0), (-1.0, 1.0), (3.0, 3.5), (-0.3, 0.0)]
        for _ in range(ctx.scale(60, 1500)):
            n = rng.choice([2, 3, 4, 6])
            xs = [rng.choice(exact) if rng.random() < 0.5 else rng.choice(ordinary) for _ in range(n)]
            if not any(x in exact for x in xs):
                xs[rng.randrange(n)] = rng.choice(exact)
            form = "A2" if (n in (4, 6) and rng.random() < 0.4) else "A"
            cases.append(mk("trig-exactT-array", fn, form, rng.choice(["method", "ufunc"]), [x[0] for x in xs], [x[1] for x in xs]))
        for lo, hi in exact[:6]:
            cases.append(mk("trig-exactT", fn, "S1", "method", [lo], [hi]))
            cases.append(mk("trig-exactT", fn, "S", "vec", [lo], [hi]))
    # ---- 0c. abs of arrays that MIX zero-containing / zero-touching and zero-free elements ----------
    zin = [(-1.0, 2.0), (-3.0, 0.5), (0.0, 2.0), (-2.0, 0.0), (0.0, 0.0), (-1e-300, 1e-300), (-0.25, 4.0)]
    zfree = [(1.0, 2.0), (0.5, 0.5), (-3.0, -2.0), (-0.25, -1e-300), (1e-300, 4.0), (2.0, 9.0), (-9.0, -4.0)]
    for _ in range(ctx.scale(150, 3000)):
        n = rng.choice([2, 3, 4, 5, 6])
        xs = [rng.choice(zin) if rng.random() < 0.5 else rng.choice(zfree) for _ in range(n)]
        i, j = rng.sample(range(n), 2)
        xs[i], xs[j] = rng.choice(zin), rng.choice(zfree)
        if rng.random() < 0.3:
            a, b = sorted([rd_(rng), rd_(rng)])
            xs[rng.randrange(n)] = (a, b)
        form = "A2" if (n in (4, 6) and rng.random() < 0.4) else "A"
        cases.append(mk("abs-mixed", "abs", form, "method", [x[0] for x in xs], [x[1] for x in xs]))
    # ---- 0d. even / odd powers of straddling intervals, either endpoint dominating ------------------------
    for _ in range(ctx.scale(250, 6000)):
        k = rng.choice([0, 1, 2, 2, 3, 4, 4, 5, 6, 6])
        def strad():
            a, b = abs(rd_(rng)) % 8.0, abs(rd_(rng)) % 8.0
            r = rng.random()
            if r < 0.4:
                a, b = max(a, b) + 0.5, min(a, b)          # |lo| > hi
            elif r < 0.8:
                a, b = min(a, b), max(a, b) + 0.5          # hi > |lo|
            elif r < 0.9:
                b = 0.0                                    # touches 0 from the left
            else:
                a = 0.0
            if rng.random() < 0.5:
                a, b = float(round(a * 4) / 4), float(round(b * 4) / 4)
            return -a, b
        if rng.random() < 0.5:
            lo, hi = strad()
            cases.append(mk("pow-straddle", "pow", "S", "method", [lo], [hi], k, rng.choice(["int", "npint", "npint32", "npuint8"])))
        else:
            n = rng.choice([2, 3, 4])
            xs = [strad() if rng.random() < 0.7 else rng.choice([(1.0, 2.0), (-3.0, -1.5), (0.5, 0.75)]) for _ in range(n)]
            cases.append(mk("pow-straddle", "pow", "A2" if n == 4 and rng.random() < 0.5 else "A", "method",
                            [x[0] for x in xs], [x[1] for x in xs], k, rng.choice(["int", "npint"])))
    # ---- 0e. valid EXTREME arguments of the exp-based maps: beyond +-709.78 (exp overflows), +-745.13 (underflows),
    #          half of those for tanh (exp(2x)); mixed-sign wide intervals; arrays mixing moderate and extreme elements
    XP = [-1e308, -1500.0, -800.0, -746.0, -745.2, -745.1, -710.0, -709.8, -709.7, -400.0, -372.6, -372.5, -355.0, -354.8,
          -50.0, -1.0, 0.0, 1.0, 50.0, 354.8, 355.0, 372.5, 372.6, 400.0, 709.7, 709.78, 709.8, 710.0, 745.0, 746.0,
          800.0, 1500.0, 1e308]
    XI = [(a, b) for i, a in enumerate(XP) for b in XP[i:]]
    moderate = [(-1.0, 1.0), (0.5, 2.0), (-3.0, -0.5), (0.0, 0.0), (-20.0, 30.0)]
    for fn in ("exp", "sig", "tanh", "atanh"):
        entries = {"exp": ["method", "ufunc", "func"], "sig": ["method", "alt"], "tanh": ["method"], "atanh": ["method"]}[fn]
        for lo, hi in XI:
            cases.append(mk("extreme", fn, "S", rng.choice(entries), [lo], [hi]))
        for _ in range(ctx.scale(150, 3000)):
            n = rng.choice([1, 2, 3, 4, 6])
            xs = [rng.choice(XI) if rng.random() < 0.5 else rng.choice(moderate) for _ in range(n)]
            xs[rng.randrange(n)] = rng.choice(XI)
            if n > 1:
                j = rng.randrange(n)
                xs[j] = rng.choice(moderate) if xs[j] in XI and sum(x in XI for x in xs) > 1 else xs[j]
            form = "S1" if n == 1 else ("A2" if (n in (4, 6) and rng.random() < 0.4) else "A")
            cases.append(mk("extreme-array", fn, form, rng.choice(entries), [x[0] for x in xs], [x[1] for x in xs]))
    # ---- 0f. domain edges of sqrt / log: a lower endpoint just below 0 MUST raise through every entry point;
    #          0, -0.0 (sqrt) and the smallest positive doubles (log) are inside the domain and must not
    below = [-5e-324, -1e-320, -1e-300, -1e-17, -1.1102230246251565e-16, -2.220446049250313e-16, -1e-9]
    inside_sqrt = [0.0, -0.0, 5e-324, 1e-300, 1e-17]
    inside_log = [5e-324, 1e-320, 1e-300, 1e-17, 2.220446049250313e-16]
    his = [1e-300, 1e-16, 1.0, 4.0]
    for fn in ("sqrt", "log"):
        inside = inside_sqrt if fn == "sqrt" else inside_log
        for lo in below + inside + ([0.0, -0.0] if fn == "log" else []):
            for hi in his + [max(lo, 0.0)]:
                if hi < lo:
                    continue
                for entry in ("method", "ufunc", "func"):
                    cases.append(mk("domain-edge", fn, "S", entry, [lo], [hi]))
                cases.append(mk("domain-edge", fn, "S1", rng.choice(["method", "ufunc", "func"]), [lo], [hi]))
        good = [(1.0, 2.0), (0.25, 9.0), (1e-300, 1.0), (4.0, 4.0)]
        for _ in range(ctx.scale(120, 2500)):
            n = rng.choice([2, 3, 4, 6])
            xs = [rng.choice(good) for _ in range(n)]
            r = rng.random()
            if r < 0.6:
                xs[rng.randrange(n)] = (rng.choice(below + ([0.0, -0.0] if fn == "log" else [])), rng.choice(his))
            elif r < 0.85:
                e_lo = rng.choice(inside)
                xs[rng.randrange(n)] = (e_lo, max(e_lo, rng.choice(his)))
            form = "A2" if (n in (4, 6) and rng.random() < 0.4) else "A"
            cases.append(mk("domain-edge-array", fn, form, rng.choice(["method", "ufunc", "func"]),
                            [x[0] for x in xs], [x[1] for x in xs]))
    # ---- 0g. arrays all of whose elements have an endpoint EXACTLY on a multiple of pi/2 (pi/4 for tan) -------------
    for fn in TRIG:
        period = PI if fn == "tan" else T2
        qd = period / 4
        def onq():
            k = rng.randint(-8, 8)
            g = k * qd
            r = rng.random()
            if r < 0.4:
                return (g, g + rng.choice([0.0, qd, 2 * qd, 3 * qd, rng.uniform(0, period)]))
            if r < 0.8:
                return (g - rng.choice([0.0, qd, 2 * qd, rng.uniform(0, period)]), g)
            return (g, rng.randint(k, k + 5) * qd)
        for _ in range(ctx.scale(150, 3000)):
            n = rng.choice([2, 3, 4, 5, 6])
            xs = [onq() for _ in range(n)]
            form = "A2" if (n in (4, 6) and rng.random() < 0.4) else "A"
            cases.append(mk("trig-quadrant-array", fn, form, rng.choice(["method", "ufunc", "func"]),
                            [x[0] for x in xs], [x[1] for x in xs]))
    # ---- 0h. powers whose endpoint powers underflow / overflow in binary64; every numpy integer class ----------------
    tiny = [(1e-200, 1e200), (1e-100, 2.0), (-3.0, -1e-90), (1e-160, 1e-150), (-1e-200, -1e-300), (1e-120, 1e-110), (1e80, 1e160)]
    for lo, hi in tiny:
        for k in (-4, -3, -2, -1, 2, 3, 4):
            cases.append(mk("pow-range", "pow", "S", "method", [lo], [hi], k, rng.choice(["int", "npint"])))
    cases.append(mk("pow-range", "pow", "A", "method", [1e-200, 1.0], [1e200, 2.0], -2, "int"))
    for dt in ("int8", "int16", "int32", "int64", "uint8", "uint16", "uint32", "uint64", "intp"):
        for _ in range(ctx.scale(4, 40)):
            lo, hi = rng.choice([(-3.0, 1.0), (-1.0, 2.0), (1.0, 2.0), (-3.0, -2.0), (0.0, 2.0), (-2.5, 0.5)])
            k = rng.randint(0, 6) if dt.startswith("u") else rng.randint(-4, 6)
            form = rng.choice(["S", "S", "A"])
            cases.append(mk("pow-kinds", "pow", form, "method", [lo, 1.0], [hi, 2.0], k, "np:" + dt))
    # ---- 1. sin / cos / tan ---------------------------------------------------------
    for fn in TRIG:
        period = PI if fn == "tan" else T2
        G = trig_grid(period)
        P = trig_pairs(period, rng, ctx.scale(250, 4000))
        for lo, hi in G:
            cases.append(mk("trig-grid", fn, "S", "method", [lo], [hi]))
        for lo, hi in P:
            cases.append(mk("trig-pairs", fn, "S", "method", [lo], [hi]))
        pool = G + P
        for _ in range(ctx.scale(450, 9000)):
            r = rng.random()
            if r < 0.10:
                form, n = "S1", 1
            elif r < 0.22:
                form, n = "A2", rng.choice([4, 6])
            else:
                form, n = "A", rng.choice([2, 2, 3, 5, 6])
            xs = [rng.choice(pool) for _ in range(n)]
            entry = rng.choice(["method", "method", "ufunc"])
            cases.append(mk("trig-array", fn, form, entry, [x[0] for x in xs], [x[1] for x in xs]))
        for _ in range(ctx.scale(120, 2000)):
            lo, hi = rng.choice(pool)
            cases.append(mk("trig-entry", fn, "S", rng.choice(["ufunc", "vec"]), [lo], [hi]))
        for _ in range(ctx.scale(300, 20000)):          # random doubles, |x| <= 60
            lo = rng.uniform(-60, 60)
            w = rng.choice([0.0, rng.uniform(0, 1e-6), rng.uniform(0, period / 4), rng.uniform(0, period),
                            rng.uniform(0, 1.2 * period), rng.uniform(period, 4 * period)])
            cases.append(mk("trig-random", fn, "S", "method", [lo], [lo + w]))
    # ---- 2. abs exp sqrt log sigmoid tanh ----------------------------------------------
    pts = [-9.0, -4.0, -3.0, -1.0, -0.5, -1e-300, 0.0, 1e-300, 0.25, 1.0, 2.0, 4.0, 9.0, 30.5]
    GI = [(a, b) for i, a in enumerate(pts) for b in pts[i:]]
    def rd():
        return rng.choice([-1, 1]) * 10 ** rng.uniform(-6, 2.3)
    def riv(pos=False):
        a, b = sorted([rd(), rd()])
        if pos:
            a, b = sorted([abs(a), abs(b)])
        r = rng.random()
        if r < 0.1:
            b = a
        return a, b
    for fn in ("abs",) + MONO + ("sig", "tanh"):
        for lo, hi in GI:
            cases.append(mk("mono-grid", fn, "S", "method", [lo], [hi]))
            if fn in MONO and rng.random() < 0.3:
                cases.append(mk("mono-grid", fn, "S", "ufunc", [lo], [hi]))
            if fn == "sig" and rng.random() < 0.3:
                cases.append(mk("mono-grid", fn, "S", "alt", [lo], [hi]))
        for _ in range(ctx.scale(200, 4000)):
            r = rng.random()
            form, n = ("S1", 1) if r < 0.1 else (("A2", 4) if r < 0.25 else ("A", rng.choice([2, 3, 5])))
            # mostly in-domain arrays, some with one element outside
            good = [g for g in GI if not (fn in ("sqrt", "log") and g[0] <= 0)] or GI
            xs = [rng.choice(good) if rng.random() < 0.93 else rng.choice(GI) for _ in range(n)]
            entry = "ufunc" if (fn in MONO and rng.random() < 0.3) else "method"
            cases.append(mk("mono-array", fn, form, entry, [x[0] for x in xs], [x[1] for x in xs]))
        for _ in range(ctx.scale(200, 20000)):
            lo, hi = riv(pos=(fn in ("sqrt", "log") and rng.random() < 0.9))
            cases.append(mk("mono-random", fn, "S", "method", [lo], [hi]))
    # ---- 3. integer powers ------------------------------------------------------------------
    G3 = [(a, b) for a in range(-3, 4) for b in range(a, 4)]
    H3 = [(-2.5, -0.5), (-0.5, 0.25), (0.5, 1.5), (-1.5, 2.5), (0.0, 0.5), (-0.75, 0.0)]
    for k in range(-4, 7):
        for lo, hi in G3 + H3:
            cases.append(mk("pow-grid", "pow", "S", "method", [lo], [hi], k, "int"))
        for _ in range(ctx.scale(40, 800)):
            r = rng.random()
            form, n = ("S1", 1) if r < 0.1 else (("A2", 4) if r < 0.25 else ("A", rng.choice([2, 3, 5])))
            pool = G3 + H3
            if k < 0 and rng.random() < 0.8:
                pool = [g for g in pool if not (g[0] <= 0 <= g[1])]
            xs = [rng.choice(pool) for _ in range(n)]
            cases.append(mk("pow-array", "pow", form, "method", [x[0] for x in xs], [x[1] for x in xs], k,
                            rng.choice(["int", "int", "npint"])))
        for _ in range(ctx.scale(30, 3000)):
            lo, hi = riv()
            cases.append(mk("pow-random", "pow", "S", "method", [lo], [hi], k, rng.choice(["int", "npint"])))
    for _ in range(ctx.scale(40, 400)):
        lo, hi = rng.choice(G3)
        cases.append(mk("pow-kinds", "pow", rng.choice(["S", "A"]), "method", [lo, lo], [hi, hi], rng.choice([0, 1, 2, 3]),
                        rng.choice(["float", "bool"])))
    # ---- 4. every function on arrays MIXING the sign classes per element (negative / straddling / positive /
    #         touching zero from either side / the point 0), rank 1 and rank 2 ------------------------------------
    SC = [(-3.0, -1.0), (-2.0, -0.5), (-1.0, 2.0), (-0.5, 0.25), (-2.0, 0.0), (0.0, 1.5), (0.0, 0.0), (0.5, 2.0),
          (1.0, 1.0), (2.0, 9.0), (-1.0, -1.0), (-4.0, 3.0)]
    POS = [x for x in SC if x[0] > 0]
    NONNEG = [x for x in SC if x[0] >= 0]
    def mixed(n, pool):
        xs = [rng.choice(pool) for _ in range(n)]
        # make sure at least three different sign classes are present when the pool has them
        want = [p for p in ((-3.0, -1.0), (-1.0, 2.0), (0.5, 2.0), (-2.0, 0.0), (0.0, 1.5)) if p in pool]
        for i, p in zip(rng.sample(range(n), min(n, len(want), 3)), rng.sample(want, min(len(want), 3))):
            xs[i] = p
        return xs
    FN = [("abs", SC, ["method"]), ("exp", SC, ["method", "ufunc", "func"]), ("sig", SC, ["method", "alt"]),
          ("tanh", SC, ["method"]), ("atanh", SC, ["method"]), ("sqrt", NONNEG, ["method", "ufunc", "func"]),
          ("log", POS, ["method", "ufunc", "func"]), ("sin", SC, ["method", "ufunc", "func"]),
          ("cos", SC, ["method", "ufunc", "func"]), ("tan", SC, ["method", "ufunc", "func"])]
    for fn, pool, entries in FN:
        for lo, hi in SC:
            if (lo, hi) in pool:
                cases.append(mk("signs-scalar", fn, "S", rng.choice(entries), [lo], [hi]))
        for _ in range(ctx.scale(60, 1500)):
            n = rng.choice([3, 4, 4, 6, 6, 8])
            xs = mixed(n, pool)
            form = rng.choice(["A", "A2"]) if n % 2 == 0 else "A"
            cases.append(mk("signs-array", fn, form, rng.choice(entries), [x[0] for x in xs], [x[1] for x in xs]))
    for k in range(-4, 7):
        for _ in range(ctx.scale(12, 300)):
            n = rng.choice([3, 4, 6])
            pool = SC if k >= 0 else [x for x in SC if not (x[0] <= 0 <= x[1])]
            xs = mixed(n, pool)
            form = rng.choice(["A", "A2"]) if n % 2 == 0 else "A"
            cases.append(mk("signs-array", "pow", form, "method", [x[0] for x in xs], [x[1] for x in xs], k, rng.choice(["int", "npint"])))
    # ---- 5. results fed back as operands: sqrt(X**k), k = 2, 4 ------------------------------------------------------
    for k in (2, 4):
        for lo, hi in [(1e-5, 3e-5), (1.0, 2.0), (0.5, 0.75), (-2.0, -1.0), (-1.0, 2.0), (0.0, 3.0), (2.0 ** -20, 2.0 ** -18), (3.0, 1e3)]:
            cases.append(mk("chain", "sqrtpow", "S", "method", [lo], [hi], k, "int"))
        for _ in range(ctx.scale(20, 400)):
            xs = mixed(rng.choice([2, 4]), SC)
            cases.append(mk("chain", "sqrtpow", rng.choice(["A", "A2"]) if len(xs) == 4 else "A", "method",
                            [x[0] for x in xs], [x[1] for x in xs], k, "int"))
    # ---- 6. magnitudes: the grid / array streams again at tiny and huge scales (powers of two keep them exact) ----------
    SCALES = [2.0 ** -30, 2.0 ** -52, 2.0 ** -70, 1e-19, 1e-170, 2.0 ** 36, 1e150]
    fixed = [("sqrt", 1e-40, 1e-30), ("sqrt", 1e-170, 1e-19), ("log", 1e-40, 1e-30), ("abs", -1e-40, -1e-170), ("abs", -1e-19, 1e-40),
             ("sqrt", 2.0 ** 72, 1e150), ("log", 2.0 ** 36, 1e150), ("abs", -1e150, 2.0 ** 36), ("exp", -1e-19, 1e-19),
             ("tanh", -1e-19, 1e-19), ("sig", -1e-170, 1e-19), ("atanh", -1e-19, 1e-19), ("sin", -1e-19, 1e-19),
             ("cos", -1e-19, 1e-170), ("tan", 1e-170, 1e-19)]
    for fn, lo, hi in fixed:
        cases.append(mk("scaled", fn, "S", "method", [lo], [hi]))
        cases.append(mk("scaled", fn, "A", "method", [lo, 1.0], [hi, 2.0]))
    base = [c for c in cases if c["fn"] in ("abs", "sqrt", "log", "pow", "sqrtpow", "exp", "sig", "tanh", "atanh")
            and c["stream"] in ("mono-grid", "mono-array", "pow-grid", "pow-array", "signs-scalar", "signs-array", "abs-mixed",
                                "pow-straddle", "chain")]
    for c in rng.sample(base, min(len(base), ctx.scale(1800, 40000))):
        sc = rng.choice(SCALES)
        d = dict(c)
        d["lo"] = [x * sc for x in c["lo"]]
        d["hi"] = [x * sc for x in c["hi"]]
        d["stream"] = "scaled"
        cases.append(d)
    # ---- 7. helpers and interactions, spread over every array stream: memory layouts of rank-2 operands (Fortran order,
    #         transposed view), rank 3, python lists, integer dtype; operands copied / deep-copied / pickled / rebuilt / sliced
    for c in cases:
        if c["stream"] == "witness":
            continue
        r = rng.random()
        if c["form"] == "A2" and r < 0.55:
            c["form"] = rng.choice(["A2F", "A2T", "A3"])
        elif c["form"] == "A" and r < 0.2:
            c["form"] = rng.choice(["AL", "AI"])
        if rng.random() < 0.12:
            c["prep"] = rng.choice(["copy", "deepcopy", "pickle", "rebuilt", "getitem"])
        # numeric types: endpoint arrays / scalars of another floating type (the values are first rounded to that type, so
        # the float64 computation of the same values is the reference), python ints, Fractions
        r = rng.random()
        if c["form"] in ("A", "A2", "S1") and r < 0.16:
            dt = rng.choice(["float32", "float32", "float16", "longdouble"])
            if dt == "longdouble":
                c["dtype"] = dt
            else:
                with np.errstate(all="ignore"):
                    lo2 = [float(getattr(np, dt)(x)) for x in c["lo"]]
                    hi2 = [float(getattr(np, dt)(x)) for x in c["hi"]]
                if all(math.isfinite(v) for v in lo2 + hi2) and all((a == 0) == (b == 0) for a, b in zip(c["lo"] + c["hi"], lo2 + hi2)):
                    c["lo"], c["hi"], c["dtype"] = lo2, hi2, dt
        elif c["form"] == "S" and c["entry"] != "vec" and r < 0.06:
            dt = rng.choice(["float32", "longdouble", "fraction", "pyint"])
            if dt == "pyint":
                if all(float(x).is_integer() for x in c["lo"] + c["hi"]):
                    c["dtype"] = dt
            elif dt == "float32":
                with np.errstate(all="ignore"):
                    lo2, hi2 = [float(np.float32(c["lo"][0]))], [float(np.float32(c["hi"][0]))]
                if all(math.isfinite(v) for v in lo2 + hi2) and (lo2[0] == 0) == (c["lo"][0] == 0) and (hi2[0] == 0) == (c["hi"][0] == 0):
                    c["lo"], c["hi"], c["dtype"] = lo2, hi2, dt
            else:
                c["dtype"] = dt
        # process-wide floating-point error handling: the same call under np.errstate(all='raise') / warnings as errors
        if rng.random() < 0.10:
            c["state"] = rng.choice(["errraise", "warnerror"])
    # python ints beyond 2**53 as endpoints
    for lo, hi in [(2 ** 53 + 2, 2 ** 60), (-(2 ** 62), 2 ** 55), (2 ** 60, 2 ** 60)]:
        for fn in ("abs", "sqrt", "log"):
            if fn == "abs" or lo > 0:
                d = mk("numeric-types", fn, "S", "method", [float(lo)], [float(hi)])
                d["dtype"] = "pyint"
                cases.append(d)
    # fixed float32 / float16 array cases where single precision would differ visibly
    for fn, lo, hi in [("exp", [89.0, 1.0], [90.0, 2.0]), ("log", [0.1, 3.0], [0.2, 7.0]), ("sqrt", [2.0, 3.0], [3.0, 5.0]),
                       ("sin", [1.0, 2.0], [2.0, 3.0]), ("cos", [0.5, 2.0], [1.0, 3.0]), ("tan", [0.1, 2.0], [0.5, 3.0]),
                       ("sig", [-1.0, 0.5], [2.0, 3.0]), ("tanh", [-1.0, 0.5], [2.0, 3.0]), ("atanh", [-1.0, 0.5], [2.0, 3.0]),
                       ("abs", [-3.0, 0.1], [0.2, 0.3])]:
        for dt in ("float32", "float16"):
            with np.errstate(all="ignore"):
                lo2 = [float(getattr(np, dt)(x)) for x in lo]
                hi2 = [float(getattr(np, dt)(x)) for x in hi]
            d = mk("numeric-types", fn, "A", "method", lo2, hi2)
            d["dtype"] = dt
            cases.append(d)
    for k in (-3, -2, 2, 3, 5):
        d = mk("numeric-types", "pow", "A", "method", [float(np.float32(1.1)), float(np.float32(-2.3))], [float(np.float32(1.7)), float(np.float32(-0.3))], k, "int")
        d["dtype"] = "float32"
        cases.append(d)
    return cases


def nontrivial(c):
    # trivial: a single degenerate point at 0 or 1
    return not (len(c["lo"]) == 1 and c["lo"][0] == c["hi"][0] and c["lo"][0] in (0.0, 1.0))


def case_json(c, impl=None, model=None):
    d = {k: c.get(k) for k in ("stream", "fn", "form", "entry", "lo", "hi", "k", "kind", "prep", "dtype", "state")}
    d["lo_hex"] = [float(x).hex() for x in c["lo"]]
    d["hi_hex"] = [float(x).hex() for x in c["hi"]]
    if impl is not None:
        d["impl"] = impl
    if model is not None:
        d["model"] = model
    return d


def check_consts(ctx):
    rep = core.model_batch("C05", ["consts"])[0].split()
    ok = (rep[0] == "ok" and unq(rep[1]) == F(float(np.pi)) and unq(rep[2]) == F(float(2 * np.pi))
          and F(float(np.pi / 2)) == unq(rep[2]) / 4 and F(float(3 * (np.pi / 2))) == 3 * unq(rep[2]) / 4
          and F(float(3 * (np.pi / 2))) == F(float(3 * np.pi / 2)))
    if ok:
        ctx.tie_ok()
    else:
        ctx.tie_bad("consts", {"op": "consts"}, [float(np.pi), float(2 * np.pi)], rep)


def run(ctx: core.Check, cases=None):
    ctx.rule = ("streams: sin/cos/tan on positions k*(T/4)+delta (k=-9..9, delta in 0,+-1ulp,+-0.1,T/8) x widths "
                "{0,1e-9,<T/4,T/4,T/2,T-eps,T,>T,3T}, endpoint pairs on the quadrant grid, random doubles |x|<=60, "
                "arrays (1-d, 2-d, shape (1,)) mixing those, np.<ufunc> and *_vector entry points; abs/exp/sqrt/log/"
                "sigmoid/tanh on all ordered pairs of 14 points (negative/straddling/positive/outside the domain), "
                "arrays and random doubles over 8 decades; X**k for k=-4..6 on all integer-endpoint intervals in "
                "[-3,3] plus half-integers, arrays, random doubles, int/np.int64/float/bool exponents. "
                "Further streams: widths EXACTLY equal to the period in binary64 (+-1 ulp); abs of arrays mixing zero-containing and "
                "zero-free elements; powers of straddling intervals with either endpoint dominating; every numpy integer class as "
                "exponent; valid extreme arguments of exp/sigmoid/tanh (beyond +-709.78, +-745.13, +-354.9, mixed-sign wide, arrays "
                "mixing moderate and extreme); sqrt/log with lo just below 0 (-5e-324 ... -1e-9) and just inside, through method, "
                "np.<ufunc> and methods.<fn>; arrays whose elements have an endpoint exactly on a multiple of pi/2; powers whose "
                "endpoint powers underflow/overflow.  The operand is checked for in-place modification after every call. "
                "Every function (incl. activation.tanh) on "
                "arrays mixing the sign classes per element (negative / straddling / positive / touching 0 / the point 0), rank 1 "
                "and 2; compositions sqrt(X**k); all grid and array streams again at scales 2^-30, 2^-52, 2^-70, 1e-19, 1e-170, 2^36, "
                "1e150; rank-2 operands in Fortran order, as transposed views and as rank 3, python lists, integer dtype; operands "
                "copied / deep-copied / pickled / rebuilt from lo, hi / sliced before use. "
                "Numeric types: endpoint arrays of dtype float32 / float16 / longdouble (values first rounded to that type; the "
                "float64 computation of the same values is the reference), numpy scalars of those types, python ints beyond 2**53, "
                "Fractions.  Process state: 10% of the cases are run again under np.errstate(all='raise') or with warnings as errors "
                "(same value or an escalated floating-point error, never a different value).  After every call the result must not "
                "share memory with (or be) the operand. "
                "A case is non-trivial unless it is the single point 0 or 1; distinctness on (fn,form,entry,lo,hi,k,kind).")
    ctx.assumptions = [
        "binary64 rounding is not modelled; numpy's exp/log/sqrt/sin/cos/tan values and the rounded width and "
        "reduced endpoints (x % T) are supplied to the model, which checks them against the exact computation (2^-50)",
        "the theorems are about a function whose period is the constant the code uses (the double 2*pi); the oracle's "
        "dense sampling with numpy's functions bounds the difference to the real period on |x| <= 80 (tolerance 1e-14)",
        "numpy.exp overflow (+inf) is modelled (extended values EV in the model); underflow/overflow of x**k is not: those "
        "cases are judged by the oracle only (counted as tie-not-applicable)",
        "sampling oracle: 2001 points + multiples of pi/2 per interval; tolerances 8 ulp (monotone), 1e-15 (sigmoid, tanh)",
    ]
    gen_out = core.LEAN / "Pun/Gen/TrigGen.lean"
    mods = ["Pun.Props.C05", "Pun.Props.C05Gen"]
    # Props/C05Real (Mathlib's Real.sin/cos/tan satisfy the hypotheses) imports Mathlib's analysis library:
    # ~40-75 s to build from scratch, ~6 s to audit once built.  Thorough tier always; quick tier when it is built.
    real_built = (core.LEAN / ".lake/build/lib/lean/Pun/Props/C05Real.olean").exists()
    if ctx.tier == "thorough" or real_built:
        mods.append("Pun.Props.C05Real")
    else:
        ctx.notes.append("Pun.Props.C05Real not built yet: audited in the thorough tier only")
    ctx.lean_stage(mods, generators=[("methods.py sin/cos/tan case tables", lambda: _gen(gen_out))])
    check_consts(ctx)
    if cases is None:
        cases = gen_cases(ctx)
    replies = core.model_batch("C05", [wire(c) for c in cases])
    for c, rep in zip(cases, replies):
        key = (c["fn"], c["form"], c["entry"], tuple(c["lo"]), tuple(c["hi"]), c["k"], c["kind"], c.get("prep"), c.get("dtype"), c.get("state"))
        ctx.count(key, nontrivial(c), c["stream"])
        impl = run_impl(c)
        mutated = MUTATED[0]
        model = parse_model(c, rep)
        if c["fn"] in ORACLE_ONLY:
            ctx.bump("tie-not-applicable:composition")
        elif pow_out_of_range(c):
            ctx.bump("tie-not-applicable:pow-underflow/overflow")
        elif agree(c, impl, model):
            ctx.tie_ok()
        else:
            ctx.tie_bad(c["stream"], case_json(c), impl, rep)
        ctx.bump(f"fn:{c['fn']}")
        ctx.bump(f"form:{c['form']}")
        ctx.bump("impl:" + (impl[1] if impl[0] == "err" else "value"))
        aliased = ALIASED[0]
        found = oracle(c, impl)
        if mutated and not found:
            found = [("operand-mutated", mutated)]
        if aliased and not found:
            found = [("result-aliases-operand", aliased)]
        if c.get("state") and not found:
            alt = run_impl(c, state=c["state"])
            ctx.bump("state:" + c["state"] + (":raises" if alt[0] == "err" and impl[0] == "ok" else ":same"))
            if alt[0] == "ok":
                same = impl[0] == "ok" and len(alt[1]) == len(impl[1]) and all(
                    (x == y) or (math.isnan(x) and math.isnan(y)) for x, y in zip(alt[1] + alt[2], impl[1] + impl[2]))
                if not same:
                    found = [("state-dependent", f"under {c['state']} the call returns {alt}, under the default floating-point "
                                                 f"error handling {impl}")]
            elif impl[0] == "ok" and alt[1] != "Other":
                found = [("state-dependent", f"under {c['state']} the call raises {alt[1]} (not an escalated floating-point "
                                             f"warning), under the default settings it returns {impl}")]
        for sym, text in found[:1]:
            ctx.fail(features(c, sym), case_json(c, impl=impl), f"{c['fn']} {c['form']}/{c['entry']}: {text}")
        if len(ctx.samples) < 6 and c["stream"] in ("trig-array", "pow-array", "mono-random", "trig-pairs") and ctx.rng.random() < 0.01:
            ctx.sample(case_json(c, impl=impl, model=rep))


def _gen(out):
    from .translator import trig as tr
    tr.generate(core.REPO, out)
    return "ok: sinGen, cosGen, tanGen regenerated"


def replay(obj):
    c = obj.get("case", {})
    if "fn" not in c:
        print(core.json.dumps(obj, indent=1))
        return 0
    c = {k: c.get(k) for k in ("stream", "fn", "form", "entry", "lo", "hi", "k", "kind", "prep", "dtype", "state")}
    if "lo_hex" in obj.get("case", {}):
        c["lo"] = [float.fromhex(h) for h in obj["case"]["lo_hex"]]
        c["hi"] = [float.fromhex(h) for h in obj["case"]["hi_hex"]]
    impl = run_impl(c)
    rep = core.model_batch("C05", [wire(c)])[0]
    print("case   :", {k: c[k] for k in ("fn", "form", "entry", "lo", "hi", "k", "kind")})
    print("impl   :", impl)
    print("model  :", rep)
    print("oracle :", oracle(c, impl) or "property holds on this case")
    return 0
