"""C08 — Dempster-Shafer structures convert to their belief/plausibility p-box.

proof  : Pun.Props.C08 (generic in the grid) instantiated for the grid regenerated from params.py
tie    : stacking / stochastic_mixture / DempsterShafer.to_pbox / Pbox.to_dss().to_pbox() vs Pun.Dss.stacking, roundtrip
oracle : generalised inverses of plausibility / belief from the definition (exact Fractions);
         permutation and split variants must give the identical p-box; round trip must be the identity
"""
from __future__ import annotations
import math, json, logging, bisect
from fractions import Fraction as F
import numpy as np
from . import core
from .core import q, ql, unq, unql, err_kind
from .translator import grid as trgrid



def _api():
    from pyuncertainnumber.pba.aggregation import stacking, stochastic_mixture
    from pyuncertainnumber.pba.dss import DempsterShafer
    from pyuncertainnumber.pba.intervals.number import Interval
    from pyuncertainnumber.pba.pbox_abc import Staircase
    from pyuncertainnumber.pba.params import Params
    return stacking, stochastic_mixture, DempsterShafer, Interval, Staircase, Params


# ---- the real code ---------------------------------------------------------------
ENTRIES = ["stacking-list", "stacking-vec", "mixture", "dss"]


def run_entry(entry, lo, hi, w):
    stacking, mixture, DS, I, Staircase, Params = _api()
    try:
        if entry == "stacking-list":
            p = stacking([[a, b] for a, b in zip(lo, hi)], weights=w)
        elif entry == "stacking-vec":
            p = stacking(I(np.array(lo, dtype=float), np.array(hi, dtype=float)),
                         weights=None if w is None else np.array(w, dtype=float))
        elif entry == "mixture":
            p = mixture(*[I(a, b) for a, b in zip(lo, hi)], weights=w)
        elif entry == "dss":
            n = len(lo)
            m = np.repeat(1 / n, n) if w is None else w
            p = DS([[a, b] for a, b in zip(lo, hi)], m).to_pbox()
        else:
            raise ValueError(entry)
        return ("ok", [float(x) for x in p.left], [float(x) for x in p.right])
    except BaseException as e:  # noqa
        return ("err", err_kind(e))


def run_roundtrip(left, right, rep="float"):
    *_, Staircase, Params = _api()
    try:
        if rep == "int":          # integer-dtype bounds
            P = Staircase(left=np.array([int(x) for x in left]), right=np.array([int(x) for x in right]))
        elif rep == "list":
            P = Staircase(left=list(left), right=list(right))
        else:
            P = Staircase(left=np.array(left, dtype=float), right=np.array(right, dtype=float))
        snap = ([float(x) for x in P.left], [float(x) for x in P.right])
        if not (np.array_equal(P.left, np.array(left)) and np.array_equal(P.right, np.array(right))):
            return ("err", "Other")           # constructor altered the bounds: not a round-trip input
        R = P.to_dss().to_pbox()
        R2 = P.to_dss().to_pbox()                     # a second conversion of the same object
        if ([float(x) for x in P.left], [float(x) for x in P.right]) != snap:
            return ("err", "Mutated")
        if not (np.array_equal(R.left, R2.left) and np.array_equal(R.right, R2.right)):
            return ("err", "SecondDiffers")
        return ("ok", [float(x) for x in R.left], [float(x) for x in R.right])
    except BaseException as e:  # noqa
        return ("err", err_kind(e))


def model_batch_par(prop, reqs, workers=4):
    """core.model_batch over `workers` driver processes (the driver is a pure function of each request line)"""
    import concurrent.futures as cf
    if len(reqs) < 64:
        return core.model_batch(prop, reqs)
    chunks = [reqs[i::workers] for i in range(workers)]
    with cf.ThreadPoolExecutor(workers) as ex:
        outs = list(ex.map(lambda c: core.model_batch(prop, c), chunks))
    res = [None] * len(reqs)
    for w, out in enumerate(outs):
        res[w::workers] = out
    return res


def parse_model(s):
    t = s.split()
    if t[0] == "err":
        return ("err", t[1])
    if t[0] == "ok":
        return ("ok", unql(t[1]), unql(t[2]))
    return ("bad", s)


# ---- exact semantics -------------------------------------------------------------
def exact_masses(n, w):
    return [F(1, n)] * n if w is None else [F(float(x)) for x in w]


def geninv(vals, masses, levels):
    """for each level p: min{ v_k : sum_{v_j <= v_k} m_j >= p }  (None if no such k)"""
    pairs = sorted(zip([F(float(v)) for v in vals], masses))
    cums, acc, out = [], F(0), []
    # cumulated mass at each distinct value
    dist = []
    for v, m in pairs:
        acc += m
        if dist and dist[-1][0] == v:
            dist[-1] = (v, acc)
        else:
            dist.append((v, acc))
    for p in levels:
        r = None
        for v, c in dist:
            if c >= p:
                r = v
                break
        out.append(r)
    return out, [c for _, c in dist]


def cmp_check(G, vals, w):
    """The hypothesis of Props.C08.stacking_same_cmp for one endpoint array, evaluated exactly.

    reference masses  : the exact rationals of the given binary64 masses, as given (they sum to one up to an ulp; no
                        normalisation: a running sum that EQUALS a grid level reaches it) = what the model is sent
    effective masses  : differences of the binary64 cumulated sums numpy produces in get_ecdf (same argsort call)
    hypothesis        : along the value-sorted endpoints, the running sums of the model masses and of the effective
                        masses compare (<=) like the reference running sums against every grid level; both vectors
                        are positive and all their running sums but the last are below one.
    returns (holds, excused): `excused` = grid indices whose comparison differs (none when it holds)."""
    n = len(vals)
    wf = np.repeat(1 / n, n) if w is None else np.array(w, dtype=float)
    sv = np.array(vals, dtype=float)
    arr = np.stack((sv, wf), axis=1)
    idx = np.argsort(arr[:, 0])                     # exactly the call of get_ecdf
    cs = np.cumsum(arr[idx, 1])
    idx_st = np.argsort(sv, kind="stable")
    ew = [F(1, n)] * n if w is None else [F(float(x)) for x in w]
    S = sum(ew)
    mod, acc = [], F(0)
    for i in idx_st:
        acc += ew[int(i)]
        mod.append(acc)
    ref = mod          # the DS structure AS GIVEN: the exact rationals of the binary64 masses (Props.C08.model_geninv_pos)
    flo = [F(float(c)) for c in cs]
    ssort = [float(sv[int(i)]) for i in idx_st]
    same_order = [int(i) for i in idx] == [int(i) for i in idx_st]
    ks = range(n) if same_order else [k for k in range(n) if k == n - 1 or ssort[k + 1] != ssort[k]]
    holds, excused = True, set()
    for k in ks:
        a = bisect.bisect_right(G, ref[k])          # number of levels x with x <= reference running sum
        for other in (mod[k], flo[k]):
            b = bisect.bisect_right(G, other)
            if a != b:
                holds = False
                excused |= set(range(min(a, b), max(a, b)))
    for seq in (mod, flo):
        if any(seq[k] >= 1 for k in range(n - 1)) or any(b - a <= 0 for a, b in zip([F(0)] + seq, seq)):
            holds = False
            excused = set(range(len(G)))
    return holds, excused, same_order, ref


# ---- generators ------------------------------------------------------------------
def layout(rng, n, kind, vals):
    """n intervals of the given arrangement; `vals()` draws one coordinate"""
    if kind == "disjoint":
        xs = sorted(vals() for _ in range(2 * n))
        iv = [(xs[2 * k], xs[2 * k + 1]) for k in range(n)]
    elif kind == "nested":
        xs = sorted(vals() for _ in range(2 * n))
        iv = [(xs[k], xs[2 * n - 1 - k]) for k in range(n)]
    elif kind == "repeated":
        base = [tuple(sorted((vals(), vals()))) for _ in range(max(1, n // 2))]
        iv = [rng.choice(base) for _ in range(n)]
    elif kind == "degenerate":
        iv = []
        for _ in range(n):
            a, b = sorted((vals(), vals()))
            iv.append((a, a) if rng.random() < 0.5 else (a, b))
    else:  # overlapping
        iv = [tuple(sorted((vals(), vals()))) for _ in range(n)]
    rng.shuffle(iv)
    return [a for a, _ in iv], [b for _, b in iv]


LAYOUTS = ["overlapping", "nested", "disjoint", "repeated", "degenerate"]


def dyadic_masses(rng, n, bits=10):
    tot = 2 ** bits
    cuts = sorted(rng.sample(range(1, tot), n - 1))
    parts = [b - a for a, b in zip([0] + cuts, cuts + [tot])]
    return [p / tot for p in parts]


def random_masses(rng, n):
    x = np.array([rng.random() + 0.01 for _ in range(n)])
    x = x / x.sum()
    return [float(v) for v in x]


def hit_masses(rng, n, Gf):
    """masses whose cumulated sums (in listing order) land exactly on grid levels, with exact binary64 sums"""
    for _ in range(200):
        k = rng.randrange(1, n)                     # position whose cumulated mass is the grid level
        i = rng.randrange(0, len(Gf))
        target = Gf[i]
        # k dyadic masses below target/…, then one mass closing the gap to the level, then the rest up to one
        if k == 1:
            head = [target]
        else:
            d = 2.0 ** math.floor(math.log2(target / k)) if target / k > 0 else 0
            head = [d] * (k - 1)
            head.append(target - sum(head))
        rest_n = n - k
        rem = 1.0 - target
        if rest_n == 1:
            tail = [rem]
        else:
            d = 2.0 ** math.floor(math.log2(rem / rest_n))
            tail = [d] * (rest_n - 1)
            tail.append(rem - d * (rest_n - 1))
        w = head + tail
        if min(w) <= 0:
            continue
        cs = np.cumsum(np.array(w))
        acc, ok = F(0), True
        for x, c in zip(w, cs):
            acc += F(x)
            ok = ok and F(float(c)) == acc
        if ok and float(cs[k - 1]) == target:
            return w
    return None


def decimal_hit_masses(rng, n, Gf):
    """k/1000-style masses: the running sum after `j` elements (in listing order) EQUALS a grid level exactly (exact
    binary64 additions up to there), the remaining masses are 3-decimal numbers and the last one closes the sum in
    binary64, so that the float sum is 1 or 1 +- an ulp (and the exact rational sum is usually not one)"""
    for _ in range(200):
        j = rng.randint(1, max(1, n - 2))
        i = rng.randrange(2, len(Gf) - 2)
        target = Gf[i]
        if j == 1:
            head = [target]
        else:
            d = 2.0 ** math.floor(math.log2(target / j))
            head = [d] * (j - 1) + [target - d * (j - 1)]
        cs = np.cumsum(np.array(head))
        acc, ok = F(0), True
        for x, c in zip(head, cs):
            acc += F(x)
            ok = ok and F(float(c)) == acc and x > 0
        if not ok or float(cs[-1]) != target:
            continue
        rem = 1.0 - target
        k = n - j
        if k < 1:
            continue
        tail = [round(rem * rng.uniform(0.3, 1.0) / k, 3) for _ in range(k - 1)]
        run = float(np.sum(np.array(head + tail)))
        last = 1.0 - run
        if last <= 0.002 or any(t <= 0 for t in tail):
            continue
        # the closing mass one ulp up / down: the binary64 sum of the masses is then 1 + 2^-52, 1 or 1 - 2^-53
        last = rng.choice([last, float(np.nextafter(last, 1.0)), float(np.nextafter(last, 0.0)), float(np.nextafter(np.nextafter(last, 1.0), 1.0))])
        return head + tail + [last], i, j
    return None


def split_case(rng, lo, hi, w):
    """one focal element replaced by 2 or 3 copies sharing its mass (halves/quarters: exact in binary64)"""
    n = len(lo)
    ws = list(w) if w is not None else None
    if ws is None:
        return None
    k = rng.randrange(n)
    parts = rng.choice([[0.5, 0.5], [0.5, 0.25, 0.25], [0.25, 0.75]])
    new = [ws[k] * p for p in parts]
    if any(F(a) != F(ws[k]) * F(p) for a, p in zip(new, parts)) or sum(map(F, new)) != F(ws[k]):
        return None
    lo2 = lo[:k] + [lo[k]] * len(parts) + lo[k + 1:]
    hi2 = hi[:k] + [hi[k]] * len(parts) + hi[k + 1:]
    w2 = ws[:k] + new + ws[k + 1:]
    # scatter the copies
    idx = list(range(len(lo2)))
    rng.shuffle(idx)
    return [lo2[i] for i in idx], [hi2[i] for i in idx], [w2[i] for i in idx]


def gen_cases(ctx, Gf):
    rng = ctx.rng
    cases = []

    def add(stream, lo, hi, w, group=None, role="base"):
        cases.append({"stream": stream, "lo": [float(x) for x in lo], "hi": [float(x) for x in hi],
                      "w": None if w is None else [float(x) for x in w], "group": group, "role": role})

    gid = [0]

    def family(stream, lo, hi, w):
        """base + a permutation + (when masses are explicit) a splitting"""
        gid[0] += 1
        g = gid[0]
        add(stream, lo, hi, w, g, "base")
        idx = list(range(len(lo)))
        rng.shuffle(idx)
        add(stream, [lo[i] for i in idx], [hi[i] for i in idx], None if w is None else [w[i] for i in idx], g, "perm")
        if w is not None:
            sp = split_case(rng, list(lo), list(hi), w)
            if sp:
                add(stream, *sp, g, "split")
        else:
            # equal masses: duplicate every focal element (each copy 1/(2N): same DS structure)
            add(stream, list(lo) + list(lo), list(hi) + list(hi), None, g, "split")

    ints = lambda: rng.randint(-6, 6)
    # 1. small integer structures, every layout, dyadic / equal masses
    for _ in range(ctx.scale(100, 1500)):
        n = rng.randint(2, 7)
        lo, hi = layout(rng, n, rng.choice(LAYOUTS), ints)
        w = rng.choice([None, dyadic_masses(rng, n, rng.choice([2, 3, 4, 8]) if n <= 4 else 8)])
        if w is not None and len(w) != n:
            w = dyadic_masses(rng, n, 8)
        family("grid-int", lo, hi, w)
    # 2. cumulated masses exactly on grid levels
    for _ in range(ctx.scale(100, 1500)):
        n = rng.randint(2, 8)
        w = hit_masses(rng, n, Gf)
        if w is None:
            continue
        kind = rng.choice(["disjoint", "sorted-overlap", "overlapping"])
        if kind == "disjoint":
            xs = sorted(rng.sample(range(-40, 40), 2 * n))
            lo, hi = [xs[2 * k] for k in range(n)], [xs[2 * k + 1] for k in range(n)]
        elif kind == "sorted-overlap":
            lo = sorted(rng.sample(range(-40, 40), n))
            hi = [a + 7 + k for k, a in enumerate(lo)]
        else:
            lo, hi = layout(rng, n, "overlapping", lambda: rng.randint(-40, 40))
        family("grid-hit", lo, hi, w)
    # 2b. decimal masses (k/1000 style) with a running sum exactly on a grid level and a float sum of 1 +- ulp
    for _ in range(ctx.scale(80, 1500)):
        n = rng.randint(3, 8)
        r = decimal_hit_masses(rng, n, Gf)
        if r is None:
            continue
        w, gi, j = r
        # the first j elements hold the smallest lower AND upper endpoints, in listing order, so that the hit is seen by both bounds
        lo = sorted(rng.sample(range(-40, 40), n))
        hi = sorted(a + rng.randint(1, 9) for a in lo)
        hi = [max(h, l) for h, l in zip(hi, lo)]
        sc = rng.choice([1.0, 1.0, 2.0 ** -70, 2.0 ** -30, 2.0 ** 36, 1e150, 1e-170])
        family("grid-hit-decimal", [x * sc for x in lo], [x * sc for x in hi], w)
    # 3. random doubles, 2..50 focal elements
    for _ in range(ctx.scale(120, 2000)):
        n = rng.choice([2, 3, 5, 8, 13, 21, 34, 50, rng.randint(2, 50)])
        sc = 10 ** rng.uniform(-3, 4)
        lo, hi = layout(rng, n, rng.choice(LAYOUTS), lambda: rng.uniform(-1, 1) * sc)
        mk = rng.choice(["equal", "random", "dyadic"])
        w = None if mk == "equal" else (random_masses(rng, n) if mk == "random" else dyadic_masses(rng, n, 12))
        family("random", lo, hi, w)
    # 3a. more focal elements than typical chunk sizes (1024), not a multiple of them
    for nbig in ([198, 199, 200, 201, 1025, 1500] if ctx.tier != "thorough" else [198, 199, 200, 201, 202, 1025, 1500, 2500, 4097]):
        sc = 10 ** rng.uniform(-1, 3)
        lo, hi = layout(rng, nbig, rng.choice(["overlapping", "nested", "repeated"]), lambda: round(rng.uniform(-1, 1) * sc, 3))
        add("random-big", lo, hi, rng.choice([None, random_masses(rng, nbig)]), None, "base")
    # 3b. a single focal element (the whole mass on one interval)
    for _ in range(ctx.scale(6, 60)):
        a, b = sorted((ints(), ints()))
        add("single", [a], [b], rng.choice([None, [1.0]]), None, "base")
    # 4. malformed (error kind only)
    for _ in range(ctx.scale(12, 120)):
        kind = rng.choice(["empty", "inverted", "short-w", "long-w"])
        n = rng.randint(2, 5)
        lo, hi = layout(rng, n, "overlapping", ints)
        w = dyadic_masses(rng, n, 6)
        if kind == "empty":
            lo, hi, w = [], [], None
        elif kind == "inverted":
            k = rng.randrange(n)
            lo[k], hi[k] = hi[k] + 1, lo[k]
        elif kind == "short-w":
            w = w[:-1]
        else:
            w = w + [0.5]
        add("malformed", lo, hi, w, None, kind)
    return cases


def gen_roundtrip(ctx, stack_results):
    rng = ctx.rng
    out = []
    n = 200
    for _ in range(ctx.scale(60, 1500)):
        kind = rng.choice(["steps", "continuous", "degenerate", "constant", "touching", "thin", "extreme", "steps"])
        if kind == "thin":
            base, eps = rng.uniform(1, 50), 10 ** rng.uniform(-9, -5)
            left = list(np.maximum.accumulate([base * (1 + i * eps * rng.choice([0.0, 1.0])) for i in range(n)]))
            right = list(np.maximum.accumulate([x * (1 + eps) for x in left]))
        elif kind == "extreme":
            sc = rng.choice([1e18, 2.0 ** 70, 1e-20, 1.380649e-23])
            left = sorted(sc * rng.randint(-30, 30) for _ in range(n))
            right = list(np.maximum.accumulate([x + sc * rng.choice([0, 0, 3]) for x in left]))
        elif kind == "steps":
            k = rng.randint(1, 12)
            lv = sorted(rng.randint(-20, 20) for _ in range(k))
            cut = sorted(rng.randrange(1, n) for _ in range(k - 1))
            left = []
            for j, (a, b) in enumerate(zip([0] + cut, cut + [n])):
                left += [float(lv[j])] * (b - a)
            right = [x + rng.choice([0, 1, 5]) for x in left]
            right = list(np.maximum.accumulate(right))
        elif kind == "continuous":
            a = sorted(rng.uniform(-5, 5) for _ in range(n))
            b = sorted(rng.uniform(-5, 5) for _ in range(n))
            left = [min(x, y) for x, y in zip(a, b)]
            right = [max(x, y) for x, y in zip(a, b)]
        elif kind == "degenerate":
            left = sorted(rng.uniform(-5, 5) for _ in range(n))
            right = list(left)
        elif kind == "constant":
            c = float(rng.randint(-3, 3))
            left, right = [c] * n, [c + rng.choice([0.0, 2.0])] * n
        else:
            left = sorted(float(rng.randint(-5, 5)) for _ in range(n))
            right = [x + (0.0 if rng.random() < 0.5 else 1.0) for x in left]
            right = list(np.maximum.accumulate(right))
        ints = all(float(x).is_integer() and abs(x) < 2 ** 40 for x in list(left) + list(right))
        out.append({"stream": "roundtrip-" + kind, "left": [float(x) for x in left], "right": [float(x) for x in right],
                    "rep": rng.choice(["int", "list", "float"]) if ints else rng.choice(["float", "list"])})
    for l, r in stack_results[: ctx.scale(60, 1500)]:
        out.append({"stream": "roundtrip-stacked", "left": l, "right": r})
    return out



# ---- operand representations, sequences, aliasing (second-wave themes A-E) ---------------------------
def canon_op(o):
    """canonical, comparable form of an operand (to check that a call does not alter what it was given)"""
    if o is None or isinstance(o, (int, float, str, bool)):
        return ("s", type(o).__name__, o)
    if isinstance(o, np.ndarray):
        return ("a", str(o.dtype), o.shape, o.tolist())
    if isinstance(o, (list, tuple)):
        return (type(o).__name__, [canon_op(x) for x in o])
    if isinstance(o, dict):
        return ("d", sorted((k, canon_op(v)) for k, v in o.items()))
    d = getattr(o, "__dict__", {})
    if "_intervals" in d and "_masses" in d:
        return ("DS", canon_op(d["_intervals"]), canon_op(np.asarray(d["_masses"])))
    if "_lo" in d and "_hi" in d:
        return ("I", canon_op(np.asarray(d["_lo"])), canon_op(np.asarray(d["_hi"])))
    return ("o", repr(type(o)))


def variants(lo, hi, w, rng):
    """every public way of handing the same DS structure to the library: (name, fn, args, kwargs)"""
    stacking, mixture, DS, I, Staircase, Params = _api()
    from pyuncertainnumber.pba.dss import dempstershafer_element
    import pyuncertainnumber.pba as pba
    ints = all(float(x).is_integer() and abs(x) < 2 ** 40 for x in lo + hi)
    num = (lambda x: int(x)) if ints and rng.random() < 0.6 else (lambda x: float(x))
    pairs = [(num(a), num(b)) for a, b in zip(lo, hi)]
    n = len(pairs)
    wl = [float(x) for x in w]

    def mixed(kinds, need_list_before_interval=False):
        for _ in range(50):
            ks = [rng.choice(kinds) for _ in range(n)]
            if not need_list_before_interval:
                break
            if any(ks[i] == "list" and any(k in ("I", "pbaI") for k in ks[i + 1:]) for i in range(n)):
                break
        else:
            ks = ["list"] + ["I"] * (n - 1)
        mk = {"list": lambda p: [p[0], p[1]], "tuple": lambda p: (p[0], p[1]), "I": lambda p: I(p[0], p[1]),
              "pbaI": lambda p: pba.I(p[0], p[1]), "arr": lambda p: np.array([p[0], p[1]])}
        return [mk[k](p) for k, p in zip(ks, pairs)], "".join(k[0] for k in ks)

    dss = lambda intervals, masses: DS(intervals, masses).to_pbox()
    dss_kw = lambda intervals, masses: DS(masses=masses, intervals=intervals).to_pbox()
    V = []
    V.append(("stacking:list-of-lists", stacking, ([[a, b] for a, b in pairs],), {"weights": list(wl)}))
    V.append(("stacking:list-of-tuples", stacking, ([(a, b) for a, b in pairs],), {"weights": tuple(wl)}))
    V.append(("stacking:tuple-of-lists", stacking, (tuple([a, b] for a, b in pairs),), {"weights": np.array(wl)}))
    V.append(("stacking:list-of-Interval", stacking, ([I(a, b) for a, b in pairs],), {"weights": np.array(wl)}))
    ops, pat = mixed(["list", "tuple", "I", "pbaI"])
    V.append(("stacking:mixed", stacking, (ops,), {"weights": list(wl)}))
    V.append(("stacking:2d-array", stacking, (np.array(pairs),), {"weights": list(wl)}))
    V.append(("stacking:2d-float-array", stacking, (np.array(pairs, dtype=float),), {"weights": np.array(wl)}))
    V.append(("stacking:vec-Interval", stacking, (I(np.array([a for a, _ in pairs]), np.array([b for _, b in pairs])),), {"weights": tuple(wl)}))
    i0 = I(pairs[0][0], pairs[0][1])     # the SAME Interval object listed twice, sharing the mass of the first focal element
    wa = [wl[0] / 2, wl[0] / 2] + wl[1:]
    V.append(("stacking:same-object-twice", stacking, ([i0, i0] + [I(a, b) for a, b in pairs[1:]],), {"weights": wa},
              ([lo[0]] + list(lo), [hi[0]] + list(hi), wa)))
    wb = [wl[0] / 4] + wl[1:] + [wl[0] * 0.75]
    V.append(("mixture:same-object-twice", mixture, tuple([i0] + [I(a, b) for a, b in pairs[1:]] + [i0]), {"weights": wb},
              (list(lo) + [lo[0]], list(hi) + [hi[0]], wb)))
    if ints and min(lo) >= 0:
        # the narrowest unsigned dtype that HOLDS the endpoints (a harness-side wrap-around would be our error, not the library's)
        udt = np.uint16 if max(hi) < 2 ** 16 else np.uint64
        if max(hi) < 2 ** 63:
            V.append(("stacking:2d-uint-array", stacking, (np.array([[int(a), int(b)] for a, b in pairs], dtype=udt),), {"weights": list(wl)}))
    if ints and min(lo) >= 0 and max(hi) < 2 ** 63:
        V.append(("dss:vec-Interval-uint", dss, (I(np.array([int(a) for a, _ in pairs], dtype=np.uint64), np.array([int(b) for _, b in pairs], dtype=np.uint64)), list(wl)), {}))
    # objects rebuilt from their own public read-outs, copies and pickles must convert to the same p-box
    import copy, pickle
    mkds = lambda: DS([[a, b] for a, b in pairs], list(wl))
    V.append(("dss:rebuilt-from-structures", lambda d: DS.from_dsElements(d.structures).to_pbox(), (mkds(),), {}))
    V.append(("dss:rebuilt-from-intervals-masses", lambda d: DS(d.intervals, d.masses).to_pbox(), (mkds(),), {}))
    V.append(("dss:rebuilt-from-focal_elements", lambda d: DS(d.focal_elements, [e.mass for e in d.structures]).to_pbox(), (mkds(),), {}))
    V.append(("dss:copy", lambda d: copy.copy(d).to_pbox(), (mkds(),), {}))
    V.append(("dss:deepcopy", lambda d: copy.deepcopy(d).to_pbox(), (mkds(),), {}))
    V.append(("dss:pickle", lambda d: pickle.loads(pickle.dumps(d)).to_pbox(), (mkds(),), {}))
    V.append(("stacking:deepcopied-operands", lambda ops, weights: stacking(copy.deepcopy(ops), weights=copy.deepcopy(weights)),
              ([I(a, b) for a, b in pairs], np.array(wl)), {}))
    V.append(("stacking:pickled-operands", lambda ops, weights: stacking(pickle.loads(pickle.dumps(ops)), weights=pickle.loads(pickle.dumps(weights))),
              ([I(a, b) for a, b in pairs], list(wl)), {}))
    # reduced / extended precision containers of the same values must give the float64 result
    f32ok = all(float(np.float32(x)) == float(x) for x in list(lo) + list(hi) + wl)
    f16ok = all(float(np.float16(x)) == float(x) for x in list(lo) + list(hi))
    if f32ok:
        V.append(("stacking:float32-array", stacking, (np.array(pairs, dtype=np.float32),), {"weights": np.array(wl, dtype=np.float32)}))
        V.append(("dss:float32-vec-Interval", dss, (I(np.array([a for a, _ in pairs], dtype=np.float32), np.array([b for _, b in pairs], dtype=np.float32)), np.array(wl, dtype=np.float32)), {}))
    if f16ok:
        V.append(("stacking:float16-array", stacking, (np.array(pairs, dtype=np.float16),), {"weights": list(wl)}))
    V.append(("stacking:longdouble-array", stacking, (np.array(pairs, dtype=np.longdouble),), {"weights": np.array(wl, dtype=np.longdouble)}))
    if n != 2:      # the documented (2, n) layout: a row of lower endpoints and a row of upper endpoints
        V.append(("stacking:2xn-array", stacking, (np.array([[a for a, _ in pairs], [b for _, b in pairs]]),), {"weights": list(wl)}))
        V.append(("dss:2xn-array", dss, (np.array([[float(a) for a, _ in pairs], [float(b) for _, b in pairs]]), np.array(wl)), {}))
    V.append(("stacking:F-ordered-array", stacking, (np.asfortranarray(np.array(pairs, dtype=float)),), {"weights": list(wl)}))
    V.append(("stacking:array-view", stacking, (np.array([[0.0, a, b] for a, b in pairs])[:, 1:],), {"weights": np.array([0.0] + wl)[1:]}))
    V.append(("pba.stacking", pba.stacking, ([[a, b] for a, b in pairs],), {"weights": list(wl)}))
    V.append(("mixture:lists", mixture, tuple([a, b] for a, b in pairs), {"weights": list(wl)}))
    V.append(("mixture:Intervals", mixture, tuple(I(a, b) for a, b in pairs), {"weights": np.array(wl)}))
    ops, pat = mixed(["list", "I", "pbaI"], need_list_before_interval=True)
    V.append(("mixture:mixed-list-before-Interval", mixture, tuple(ops), {"weights": list(wl)}))
    ops, pat = mixed(["list", "I"])
    V.append(("mixture:mixed", mixture, tuple(ops), {"weights": tuple(wl)}))
    V.append(("pba.stochastic_mixture", pba.stochastic_mixture, tuple(pba.I(a, b) for a, b in pairs), {"weights": list(wl)}))
    V.append(("dss:lists", dss, ([[a, b] for a, b in pairs], list(wl)), {}))
    V.append(("dss:tuples", dss, ([(a, b) for a, b in pairs], tuple(wl)), {}))
    V.append(("dss:Intervals", dss, ([I(a, b) for a, b in pairs], np.array(wl)), {}))
    ops, pat = mixed(["list", "tuple", "I"])
    V.append(("dss:mixed", dss, (ops, list(wl)), {}))
    V.append(("dss:2d-array", dss, (np.array(pairs), np.array(wl)), {}))
    V.append(("dss:vec-Interval", dss, (I([a for a, _ in pairs], [b for _, b in pairs]), list(wl)), {}))
    V.append(("dss:keywords", dss_kw, ([[a, b] for a, b in pairs], list(wl)), {}))
    V.append(("dss:from_dsElements", lambda els: DS.from_dsElements(els).to_pbox(),
              ([dempstershafer_element(I(a, b), m) for (a, b), m in zip(pairs, wl)],), {}))
    return V, ints and isinstance(pairs[0][0], int)


def call_variant(fn, args, kwargs):
    try:
        p = fn(*args, **kwargs)
        return p, ("ok", [float(x) for x in p.left], [float(x) for x in p.right])
    except BaseException as e:  # noqa
        return None, ("err", err_kind(e))


def special_structures(rng, Gf):
    """DS structures aimed at the second-wave themes: thin / tiny / extreme endpoints, tiny extreme masses"""
    kind = rng.choice(["int-unequal", "int-unequal", "thin", "tiny", "extreme", "tiny-mass", "hit", "scaled", "scaled", "zero", "fine-mass",
                       "shared-lo", "shared-hi", "bigint"])
    n = rng.randint(2, 6)
    if kind == "thin":            # relative width 1e-9 .. 1e-5, neighbours differing by as little
        base = rng.uniform(1, 100)
        eps = 10 ** rng.uniform(-9, -5)
        lo = [base * (1 + k * eps) for k in range(n)]
        hi = [x * (1 + eps * rng.uniform(0.5, 3)) for x in lo]
    elif kind == "tiny":
        sc = rng.choice([1e-9, 2 ** -60, 1.380649e-23, 1e-20])
        lo = [sc * rng.randint(1, 9) for _ in range(n)]
        hi = [x + sc * rng.randint(0, 6) for x in lo]
    elif kind == "extreme":
        sc = rng.choice([1e18, 1e15, 2.0 ** 70])
        lo = [sc * rng.randint(-5, 5) for _ in range(n)]
        hi = [x + sc * rng.randint(0, 4) for x in lo]
        k = rng.randrange(n)
        lo[k], hi[k] = -1e-20, 1e-20
    elif kind == "scaled":        # the integer stream at tiny / huge magnitudes (powers of two keep everything exact)
        sc = rng.choice([2.0 ** -70, 2.0 ** -30, 2.0 ** 36, 1e-19, 1e-170, 1e150])
        lo, hi = layout(rng, n, rng.choice(LAYOUTS), lambda: rng.randint(-9, 9))
        lo, hi = [x * sc for x in lo], [x * sc for x in hi]
    elif kind in ("shared-lo", "shared-hi"):   # a flat run in ONE bound that is not matched in the other (ties in one sort key only)
        c = rng.randint(-5, 5)
        other = rng.sample(range(c + 1, c + 30), n) if kind == "shared-lo" else rng.sample(range(c - 30, c), n)
        k = rng.randint(1, n)                     # k of the n elements share the endpoint
        lo = [c if (kind == "shared-lo" and i < k) else (min(c, o) if kind == "shared-lo" else o) for i, o in enumerate(other)]
        hi = [c if (kind == "shared-hi" and i < k) else (max(c, o) if kind == "shared-hi" else o) for i, o in enumerate(other)]
        if kind == "shared-lo":
            lo = [c if i < k else rng.randint(c - 4, c + 4) for i in range(n)]
            hi = [max(l, o) for l, o in zip(lo, other)]
        else:
            hi = [c if i < k else rng.randint(c - 4, c + 4) for i in range(n)]
            lo = [min(h, o) for h, o in zip(hi, other)]
    elif kind == "bigint":        # Python ints beyond 2**53 (powers of two: exact in binary64)
        lo = [2 ** rng.randint(54, 62) * rng.choice([1, -1]) for _ in range(n)]
        hi = [x + 2 ** rng.randint(54, 60) for x in lo]
    elif kind == "zero":          # falsy-but-valid endpoints: 0, 0.0, -0.0 and the point interval at zero
        lo, hi = layout(rng, n, rng.choice(LAYOUTS), lambda: rng.randint(-3, 3))
        k = rng.randrange(n)
        lo[k], hi[k] = rng.choice([(0.0, 0.0), (-0.0, 0.0), (0, 0), (-2, 0), (0, 3)])
    else:
        lo, hi = layout(rng, n, rng.choice(LAYOUTS), lambda: rng.randint(-9, 9))
    idx = list(range(n))
    rng.shuffle(idx)
    lo, hi = [float(lo[i]) for i in idx], [float(hi[i]) for i in idx]
    if kind == "tiny-mass":       # an extreme focal element that does not reach the first / last grid level
        t = rng.choice([2.0 ** -11, 2.0 ** -12, 2.0 ** -13])
        rest = dyadic_masses(rng, n - 1, 8) if n > 2 else [1.0]
        w = [t] + [m * (1 - t) for m in rest]
        k = lo.index(min(lo)) if rng.random() < 0.5 else hi.index(max(hi))
        w[0], w[k] = w[k], w[0]
    elif kind == "hit":
        w = hit_masses(rng, n, Gf) or dyadic_masses(rng, n, 6)
    elif kind == "fine-mass":     # masses with more than three significant decimals
        w = dyadic_masses(rng, n, 16)
    else:
        for _ in range(20):
            w = dyadic_masses(rng, n, rng.choice([4, 6, 8]))
            if len(set(w)) == n or n > 4:
                break
    return kind, lo, hi, [float(x) for x in w]


def run_repr_stream(ctx, G, Gf):
    """every entry point x every operand representation, unequal masses; operands must stay untouched; results are
    kept alive and re-read later; the same focal elements with different masses in consecutive calls"""
    rng = ctx.rng
    alive = []            # (label, real result object, canonical value recorded when it was produced)

    def reverify(where):
        for label, obj, (l0, r0) in alive:
            l1, r1 = [float(x) for x in obj.left], [float(x) for x in obj.right]
            if l1 != l0 or r1 != r0:
                i = next(i for i in range(len(l0)) if l1[i] != l0[i] or r1[i] != r0[i])
                ctx.fail({"call": label, "symptom": "result-changed-later", "stream": "representations"},
                         {"label": label, "index": i, "was": [l0[i], r0[i]], "now": [l1[i], r1[i]], "when": where},
                         f"the p-box returned by {label} changed after later calls (step {i}: [{l0[i]},{r0[i]}] -> [{l1[i]},{r1[i]}])")
        ctx.bump("alive-results-reverified", len(alive))

    structs = [special_structures(rng, Gf) for _ in range(ctx.scale(70, 1200))]
    replies = model_batch_par("C08", [f"stack {ql(lo)} {ql(hi)} {ql(w)}" for _, lo, hi, w in structs])
    prev = None
    for ci, ((kind, lo, hi, w), rep) in enumerate(zip(structs, replies)):
        n = len(lo)
        ctx.count(("repr", tuple(lo), tuple(hi), tuple(w)), True, "representations:" + kind)
        masses = exact_masses(n, w)
        ok_lo, amb_lo0, _, _ = cmp_check(G, lo, w)
        ok_hi, amb_hi0, _, _ = cmp_check(G, hi, w)
        amb_lo, amb_hi = amb_lo0, amb_hi0
        exp_l = [float(v) for v in geninv(lo, masses, G)[0]]
        exp_r = [float(v) for v in geninv(hi, masses, G)[0]]
        model = parse_model(rep)
        cj = {"stream": "representations", "kind": kind, "lo": lo, "hi": hi, "w": w}
        V, as_int = variants(lo, hi, w, rng)
        if as_int:
            ctx.bump("representations:int-operands")
        first_obj = None
        for name, fn, args, kwargs, *alt in V:
            amb_lo, amb_hi = amb_lo0, amb_hi0
            if alt:                                   # a split structure: its own running sums decide what is strict
                amb_lo = amb_lo0 | cmp_check(G, alt[0][0], alt[0][2])[1]
                amb_hi = amb_hi0 | cmp_check(G, alt[0][1], alt[0][2])[1]
            snap = canon_op([args, kwargs])
            obj, impl = call_variant(fn, args, kwargs)
            ctx.bump("variant-calls")
            # tie
            if impl[0] == model[0] == "ok":
                badm = [(sd, i) for sd, a, b, amb in (("left", impl[1], model[1], amb_lo), ("right", impl[2], model[2], amb_hi))
                        for i, (x, y) in enumerate(zip(a, b)) if F(x) != y and i not in amb]
                (ctx.tie_ok() if not badm else ctx.tie_bad("representations:" + name, cj, _short(impl), _short(model)))
            elif impl[0] == "err" and name in ("dss:copy", "dss:deepcopy", "dss:pickle"):
                pass        # copying / pickling the object is not part of the modelled conversion: the oracle reports it
            else:
                ctx.tie_bad("representations:" + name, cj, _short(impl), _short(model))
            # oracle
            if impl[0] == "err":
                ctx.fail({"call": name, "symptom": "raises:" + impl[1], "stream": "representations"}, dict(cj, variant=name),
                         f"{name} raises {impl[1]} on a valid DS structure ({kind}, {n} focal elements)")
                continue
            bad = [(sd, i) for sd, a, b, amb in (("left", impl[1], exp_l, amb_lo), ("right", impl[2], exp_r, amb_hi))
                   for i, (x, y) in enumerate(zip(a, b)) if x != y and i not in amb]
            if bad or len(impl[1]) != len(exp_l):
                sd, i = bad[0] if bad else ("left", -1)
                got = (impl[1] if sd == "left" else impl[2])[i]
                want = (exp_l if sd == "left" else exp_r)[i]
                ctx.fail({"call": name, "symptom": "not-geninv", "side": sd, "stream": "representations"},
                         dict(cj, variant=name, index=i, got=got, want=want),
                         f"{name}: {sd}[{i}] = {got}, generalised inverse of {'plausibility' if sd == 'left' else 'belief'} at level p[{i}] is {want}")
            if canon_op([args, kwargs]) != snap:
                ctx.fail({"call": name, "symptom": "operand-mutated", "stream": "representations"}, dict(cj, variant=name),
                         f"{name} altered the operands it was given")
            if first_obj is None:
                first_obj = (name, fn, args, kwargs, impl)
            alive.append((name, obj, (impl[1], impl[2])))
        del alive[:-90]
        # --- the same focal elements with other masses, one after the other (objects kept), then the first again
        stacking, mixture, DS, I, *_ = _api()
        w2 = w[1:] + w[:1]
        if w2 != w:
            m2 = [F(float(x)) for x in w2]
            e2l = [float(v) for v in geninv(lo, m2, G)[0]]
            e2r = [float(v) for v in geninv(hi, m2, G)[0]]
            a2l, a2r = cmp_check(G, lo, w2)[1], cmp_check(G, hi, w2)[1]
            iv = [[a, b] for a, b in zip(lo, hi)]
            ivI = [I(a, b) for a, b in zip(lo, hi)]
            d1, d2 = DS(iv, list(w)), DS(iv, list(w2))
            seq = [("dss(w1)", lambda: d1.to_pbox(), 1), ("dss(w2) same focal elements", lambda: d2.to_pbox(), 2), ("dss(w1) again", lambda: d1.to_pbox(), 1),
                   ("stacking(w1)", lambda: stacking(ivI, weights=list(w)), 1), ("stacking(w2) same operands", lambda: stacking(ivI, weights=list(w2)), 2),
                   ("mixture(w2)", lambda: mixture(*ivI, weights=list(w2)), 2), ("mixture(w1) same operands", lambda: mixture(*ivI, weights=list(w)), 1),
                   ("DS(w2) fresh object", lambda: DS([list(x) for x in iv], list(w2)).to_pbox(), 2), ("DS(w1) fresh object", lambda: DS([list(x) for x in iv], list(w)).to_pbox(), 1)]
            for label, f, which in seq:
                obj, impl = call_variant(lambda: f(), (), {})
                ctx.bump("sequence-calls")
                el, er, al, ar = (exp_l, exp_r, amb_lo0, amb_hi0) if which == 1 else (e2l, e2r, a2l, a2r)
                if impl[0] == "err":
                    ctx.fail({"call": label, "symptom": "raises:" + impl[1], "stream": "sequence"}, dict(cj, w2=w2), f"{label} raises {impl[1]}")
                    continue
                bad = [(sd, i) for sd, a, b, amb in (("left", impl[1], el, al), ("right", impl[2], er, ar))
                       for i, (x, y) in enumerate(zip(a, b)) if x != y and i not in amb]
                if bad:
                    sd, i = bad[0]
                    ctx.fail({"call": label, "symptom": "not-geninv-in-sequence", "stream": "sequence"}, dict(cj, w2=w2, step=label, index=i),
                             f"sequence of conversions with the same focal elements and different masses: {label} gives {sd}[{i}] = "
                             f"{(impl[1] if sd == 'left' else impl[2])[i]}, expected {(el if sd == 'left' else er)[i]}")
                alive.append((label, obj, (impl[1], impl[2])))
            try:
                altered = canon_op(d1) != canon_op(DS(iv, list(w))) or canon_op(ivI) != canon_op([I(a, b) for a, b in zip(lo, hi)])
            except BaseException as e:  # noqa
                altered = True
            if altered:
                ctx.fail({"call": "sequence", "symptom": "operand-mutated", "stream": "sequence"}, cj, "a DS structure / Interval operand was altered by converting it")
        # --- the very first call of the previous case again, after all these unrelated calls
        if prev is not None:
            name, fn, args, kwargs, impl0 = prev
            _, impl1 = call_variant(fn, args, kwargs)
            if impl1 != impl0:
                ctx.fail({"call": name, "symptom": "second-evaluation-differs", "stream": "representations"}, {"variant": name},
                         f"{name}: evaluating the same call again after unrelated calls gives a different p-box")
            ctx.bump("evaluated-twice")
        prev = first_obj
        if ci % 10 == 9:
            reverify(f"after case {ci}")
    reverify("end of run")

def expected_bounds(lo, hi, w, G):
    m = [F(float(x)) for x in w]
    return [float(v) for v in geninv(lo, m, G)[0]], [float(v) for v in geninv(hi, m, G)[0]]


def bounds_bad(impl, el, er, al=(), ar=()):
    return [(sd, i) for sd, a, b, amb in (("left", impl[1], el, al), ("right", impl[2], er, ar))
            for i, (x, y) in enumerate(zip(a, b)) if x != y and i not in amb] or (len(impl[1]) != len(el))


def run_state_stream(ctx, G, Gf):
    """(Q) caller-visible aliasing, (P) global state: floating-point error handling / warnings escalated, and the public
    discretisation Params.steps / Params.p_values changed, used and restored"""
    import warnings as _w
    stacking, mixture, DS, I, Staircase, Params = _api()
    rng = ctx.rng
    # ---------------- (Q) the caller keeps working on its own arrays after handing them over
    for _ in range(ctx.scale(25, 600)):
        n = rng.randint(2, 6)
        lo, hi = layout(rng, n, rng.choice(LAYOUTS), lambda: rng.randint(-9, 9))
        lo, hi = [float(x) for x in lo], [float(x) for x in hi]
        w = dyadic_masses(rng, n, 8)
        al, ar = cmp_check(G, lo, w)[1], cmp_check(G, hi, w)[1]
        el, er = expected_bounds(lo, hi, w, G)
        cj = {"stream": "aliasing", "lo": lo, "hi": hi, "w": w}
        ctx.count(("alias", tuple(lo), tuple(hi), tuple(w)), True, "aliasing")
        for form in ("dss:ndarray-masses", "dss:ndarray-intervals", "dss:vec-Interval-arrays", "stacking:ndarrays", "mixture:Interval-of-arrays"):
            wb = np.array(w, dtype=float)
            ivb = np.array([[a, b] for a, b in zip(lo, hi)], dtype=float)
            lob, hib = np.array(lo, dtype=float), np.array(hi, dtype=float)
            try:
                bufs = [wb]
                if form == "dss:ndarray-masses":
                    obj = DS([[a, b] for a, b in zip(lo, hi)], wb)
                elif form == "dss:ndarray-intervals":
                    obj = DS(ivb, list(w)); bufs = [ivb]
                elif form == "dss:vec-Interval-arrays":
                    obj = DS(I(lob, hib), wb); bufs = [wb, lob, hib]
                elif form == "stacking:ndarrays":
                    obj = stacking(ivb, weights=wb); bufs = [ivb, wb]
                else:
                    ops = [I(np.array(a), np.array(b)) for a, b in zip(lo, hi)]
                    obj = mixture(*ops, weights=wb); bufs = [wb]
                first = None
                if form.startswith("dss"):
                    p0 = obj.to_pbox()
                    first = ("ok", [float(x) for x in p0.left], [float(x) for x in p0.right])
                # the caller re-uses its buffers
                for b in bufs:
                    if b is wb:
                        b[:] = b[::-1].copy() if len(set(w)) > 1 else b
                        b *= 0.5
                        b[0] += 0.5
                    else:
                        b += 5.0
                p1 = obj.to_pbox() if form.startswith("dss") else obj
                impl = ("ok", [float(x) for x in p1.left], [float(x) for x in p1.right])
                shares = any(np.shares_memory(np.asarray(p1.left), b) or np.shares_memory(np.asarray(p1.right), b) for b in bufs)
            except BaseException as e:  # noqa
                ctx.fail({"call": form, "symptom": "raises:" + err_kind(e), "stream": "aliasing"}, cj, f"{form} raises {type(e).__name__}")
                continue
            ctx.bump("aliasing-calls")
            bad = bounds_bad(impl, el, er, al, ar)
            if bad or shares or (first is not None and first != impl):
                what = ("the p-box shares memory with the caller's array" if shares and not bad else
                        "after the caller modified its own array in place, the conversion no longer gives the p-box of the DS structure that was constructed")
                ctx.fail({"call": form, "symptom": "aliases-caller-array", "stream": "aliasing"}, dict(cj, form=form), f"{form}: {what}")
    # ---------------- (P i) escalated floating-point errors / warnings: same value, or an exception; never another value
    for _ in range(ctx.scale(15, 300)):
        n = rng.randint(2, 6)
        lo, hi = layout(rng, n, rng.choice(LAYOUTS), lambda: rng.choice([rng.randint(-9, 9), rng.randint(-9, 9) * 2.0 ** -70, rng.randint(-9, 9) * 1e150]))
        lo, hi = [float(x) for x in lo], [float(x) for x in hi]
        w = dyadic_masses(rng, n, 8)
        al, ar = cmp_check(G, lo, w)[1], cmp_check(G, hi, w)[1]
        el, er = expected_bounds(lo, hi, w, G)
        cj = {"stream": "fp-state", "lo": lo, "hi": hi, "w": w}
        ctx.count(("fpstate", tuple(lo), tuple(hi), tuple(w)), True, "fp-state")
        calls = [("stacking", lambda: stacking([[a, b] for a, b in zip(lo, hi)], weights=list(w))),
                 ("dss", lambda: DS([[a, b] for a, b in zip(lo, hi)], list(w)).to_pbox()),
                 ("mixture", lambda: mixture(*[I(a, b) for a, b in zip(lo, hi)], weights=list(w)))]
        for mode in ("errstate-raise", "warnings-error"):
            for name, f in calls:
                try:
                    if mode == "errstate-raise":
                        with np.errstate(all="raise"):
                            p_ = f()
                    else:
                        with _w.catch_warnings():
                            _w.simplefilter("error")
                            p_ = f()
                    impl = ("ok", [float(x) for x in p_.left], [float(x) for x in p_.right])
                except BaseException:  # noqa   (an escalated warning / FloatingPointError propagating is acceptable)
                    ctx.bump(f"{mode}:raised")
                    continue
                ctx.bump(f"{mode}:value")
                if bounds_bad(impl, el, er, al, ar):
                    ctx.fail({"call": name, "symptom": "different-value-under-" + mode, "stream": "fp-state"}, dict(cj, mode=mode),
                             f"{name} under {mode} returns a p-box that is not the Bel/Pl inverse (it is under the default settings)")
        # the default settings still give the right answer afterwards
        try:
            p_ = stacking([[a, b] for a, b in zip(lo, hi)], weights=list(w))
            after = ("ok", [float(x) for x in p_.left], [float(x) for x in p_.right])
        except BaseException as e:  # noqa   (a raise here is a failing input like any other, not a harness crash)
            after = ("err", core.err_kind(e))
        if after[0] == "err" or bounds_bad(after, el, er, al, ar):
            ctx.fail({"call": "stacking", "symptom": "state-leaked" if after[0] == "ok" else "raises:" + after[1], "stream": "fp-state"}, cj,
                     "stacking gives another p-box (or raises) under the default settings after the escalated-warning calls")
    # ---------------- (P ii) the public discretisation changed, used, restored
    old = (Params.steps, Params.p_values)
    reqs, pend = [], []
    try:
        for steps in [300, 400, 100, 40, 201, 199][: ctx.scale(4, 6)]:
            Params.steps = steps
            Params.p_values = np.linspace(Params.p_lboundary, Params.p_hboundary, steps)
            Gs_f = [float(x) for x in Params.p_values]
            Gs = [F(x) for x in Gs_f]
            for _ in range(ctx.scale(4, 60)):
                n = rng.randint(2, 6)
                lo, hi = layout(rng, n, rng.choice(LAYOUTS), lambda: rng.randint(-9, 9))
                lo, hi = [float(x) for x in lo], [float(x) for x in hi]
                w = dyadic_masses(rng, n, 8)
                el, er = expected_bounds(lo, hi, w, Gs)
                cj = {"stream": "grid-changed", "steps": steps, "lo": lo, "hi": hi, "w": w}
                ctx.count(("grid", steps, tuple(lo), tuple(hi), tuple(w)), True, "grid-changed")
                for name, f in [("stacking", lambda: stacking([[a, b] for a, b in zip(lo, hi)], weights=list(w))),
                                ("dss", lambda: DS([[a, b] for a, b in zip(lo, hi)], list(w)).to_pbox()),
                                ("mixture", lambda: mixture(*[I(a, b) for a, b in zip(lo, hi)], weights=list(w)))]:
                    try:
                        p_ = f()
                        impl = ("ok", [float(x) for x in p_.left], [float(x) for x in p_.right])
                    except BaseException as e:  # noqa
                        ctx.fail({"call": name, "symptom": "raises:" + err_kind(e), "stream": "grid-changed", "steps": steps}, cj,
                                 f"{name} raises {type(e).__name__} when Params.steps = {steps} (grid linspace(0.001, 0.999, {steps}))")
                        continue
                    if len(impl[1]) != steps or bounds_bad(impl, el, er):
                        ctx.fail({"call": name, "symptom": "not-geninv-on-changed-grid", "stream": "grid-changed", "steps": steps}, cj,
                                 f"{name} with Params.steps = {steps}: {len(impl[1])} steps; not the Bel/Pl inverse at the {steps} configured levels")
                    if name == "stacking":
                        reqs.append(f"stackg {ql(Gs_f)} {ql(lo)} {ql(hi)} {ql(w)}")
                        pend.append((cj, impl))
                        try:          # round trip on the configured grid
                            r_ = p_.to_dss().to_pbox()
                            if [float(x) for x in r_.left] != impl[1] or [float(x) for x in r_.right] != impl[2]:
                                ctx.fail({"call": "to_dss().to_pbox()", "symptom": "roundtrip-differs", "stream": "grid-changed", "steps": steps}, cj,
                                         f"round trip with Params.steps = {steps} changes the p-box")
                        except BaseException as e:  # noqa
                            ctx.fail({"call": "to_dss().to_pbox()", "symptom": "raises:" + err_kind(e), "stream": "grid-changed"}, cj,
                                     f"p.to_dss().to_pbox() raises {type(e).__name__} when Params.steps = {steps}")
    finally:
        Params.steps, Params.p_values = old
    for (cj, impl), rep in zip(pend, model_batch_par("C08", reqs)):
        model = parse_model(rep)
        ok = model[0] == "ok" and len(model[1]) == len(impl[1]) and all(F(x) == y for x, y in zip(impl[1] + impl[2], model[1] + model[2]))
        (ctx.tie_ok() if ok else ctx.tie_bad("grid-changed", cj, _short(impl), _short(model)))
    # restored: the default grid answers as before
    p_ = stacking([[1, 5], [3, 6], [0, 2]], weights=[0.25, 0.5, 0.25])
    el, er = expected_bounds([1.0, 3.0, 0.0], [5.0, 6.0, 2.0], [0.25, 0.5, 0.25], G)
    if len(p_.left) != len(G) or bounds_bad(("ok", [float(x) for x in p_.left], [float(x) for x in p_.right]), el, er):
        ctx.fail({"call": "stacking", "symptom": "grid-not-restored", "stream": "grid-changed"}, {}, "after restoring Params the default grid is not in effect")


# ---- comparison ------------------------------------------------------------------
def diff_idx(impl, ref):
    """indices (side, i) where the implementation's bound differs from a reference given as Fractions"""
    bad = []
    for side, (a, b) in (("left", (impl[1], ref[0])), ("right", (impl[2], ref[1]))):
        if len(a) != len(b):
            return [(side, -1)]
        for i, (x, y) in enumerate(zip(a, b)):
            if y is None or math.isnan(x) or F(x) != y:
                bad.append((side, i))
    return bad


def run(ctx: core.Check):
    core.stub_moments()
    ctx.rule = ("streams: small integer DS structures in 5 layouts (overlapping, nested, disjoint, repeated, degenerate) with "
                "equal/dyadic masses; structures whose cumulated masses hit grid levels exactly (exact binary64 sums); random "
                "doubles with 2..50 focal elements and equal/random/dyadic masses; every base case is accompanied by a "
                "permutation and a splitting; round trips of step / continuous / degenerate / constant / stacked p-boxes; "
                "malformed inputs. Each case runs 4 entry points. Representation stream: structures with unequal masses (integer, "
                "thin 1e-9..1e-5, tiny 1e-9..1e-23, extreme 1e15..1e18 endpoints, extreme focal elements with mass below the first "
                "grid level, grid hits) x 22 ways of passing them (stacking / pba.stacking / stochastic_mixture / DempsterShafer / "
                "from_dsElements with lists, tuples, Interval objects, mixed with a list before an Interval, 2-D arrays incl. "
                "int dtype, vector Interval; weights as list / tuple / array; keywords); operands checked unchanged; the same focal "
                "elements with rotated masses converted one after the other (objects kept); results kept alive and re-read; "
                "calls evaluated twice; round trips also from int-dtype / list bounds and converted twice. "
                "Non-trivial = at least two distinct focal intervals; distinctness on (lo, hi, masses).")
    ctx.assumptions = ["binary64 cumsum of the masses is not modelled; by Props.C08.stacking_same_cmp it can matter only through the "
                       "comparisons 'level <= running sum': the harness evaluates that hypothesis exactly on every case (binary64 "
                       "running sums from the same numpy calls, as exact rationals) and demands equality whenever it holds; only the "
                       "levels whose comparison differs are excused (counted in input_distribution)",
                       "numpy's unstable default sort: tied endpoints carry the same value, so the bound arrays cannot depend on it",
                       "zero masses and masses not summing to one are outside the property"]
    gen_out = core.LEAN / "Pun/Gen/GridGen.lean"
    ctx.lean_stage(["Pun.Props.C08"], generators=[("params.py grid", lambda: trgrid.generate(core.REPO, gen_out))])
    *_, Params = _api()
    Gf = [float(x) for x in Params.p_values]
    G = [F(x) for x in Gf]
    cases = gen_cases(ctx, Gf)
    reqs = [f"stack {ql(c['lo'])} {ql(c['hi'])} {'none' if c['w'] is None else ql(c['w'])}" for c in cases]
    replies = model_batch_par("C08", reqs)
    groups: dict = {}
    stacked = []
    for c, rep in zip(cases, replies):
        lo, hi, w, stream = c["lo"], c["hi"], c["w"], c["stream"]
        n = len(lo)
        model = parse_model(rep)
        nontriv = len(set(zip(lo, hi))) >= 2
        ctx.count((tuple(lo), tuple(hi), None if w is None else tuple(w)), nontriv, stream)
        cj = {"stream": stream, "lo": lo, "hi": hi, "w": w, "role": c["role"]}
        valid = (stream != "malformed")
        if valid:
            masses = exact_masses(n, w)               # the masses as given, as exact rationals (no normalisation)
            ok_lo, amb_lo, so1, _ = cmp_check(G, lo, w)
            ok_hi, amb_hi, so2, _ = cmp_check(G, hi, w)
            exact = ok_lo and ok_hi
            ctx.bump("cmp-hypothesis-holds" if exact else "cmp-hypothesis-fails(levels excused)")
            if not (so1 and so2):
                ctx.bump("numpy-tie-order-differs-from-stable")
            exp_l, sums_l = geninv(lo, masses, G)
            exp_r, sums_r = geninv(hi, masses, G)
            if any(any(c_ == p for p in G) for c_ in sums_l + sums_r):
                ctx.bump("cases-with-exact-grid-hit")
                if w is not None and float(np.sum(np.array(w))) != 1.0:
                    ctx.bump("cases-with-exact-grid-hit-and-float-sum-" + ("above-1" if float(np.sum(np.array(w))) > 1 else "below-1"))
        first_ok = None
        for entry in ENTRIES:
            impl = run_entry(entry, lo, hi, w)
            ctx.bump("entry:" + entry)
            # --- tie
            ok = impl[0] == model[0]
            if ok and impl[0] == "err":
                ok = impl[1] == model[1]
                if not ok and entry in ("mixture", "dss") and stream == "malformed":
                    ok = True       # other entry points reject malformed input on a different line; only `stacking` is modelled there
            elif ok:
                bad = diff_idx(impl, (model[1], model[2]))
                if valid:
                    bad = [(s, i) for s, i in bad if i < 0 or i not in (amb_lo if s == "left" else amb_hi)]
                ok = not bad
            if ok:
                ctx.tie_ok()
            else:
                ctx.tie_bad(stream + ":" + entry, cj, _short(impl), _short(model))
            # --- oracle
            if not valid:
                if impl[0] != "err" and entry.startswith("stacking"):
                    ctx.bump("malformed-accepted")
                continue
            if impl[0] == "err":
                ctx.fail({"call": entry, "symptom": "raises:" + impl[1], "n": n, "role": c["role"]}, cj,
                         f"{entry} raises {impl[1]} on a valid DS structure with {n} focal elements")
                continue
            bad = diff_idx(impl, (exp_l, exp_r))
            bad = [(s, i) for s, i in bad if i < 0 or i not in (amb_lo if s == "left" else amb_hi)]
            if bad:
                s, i = bad[0]
                got = (impl[1] if s == "left" else impl[2])[i] if i >= 0 else None
                want = (exp_l if s == "left" else exp_r)[i] if i >= 0 else None
                ctx.fail({"call": entry, "symptom": "not-geninv", "side": s, "stream": stream}, dict(cj, index=i, got=got, want=str(want)),
                         f"{entry}: {s}[{i}] = {got}, generalised inverse of {'plausibility' if s == 'left' else 'belief'} at level p[{i}] is {want}")
            if first_ok is None:
                first_ok = impl
            elif impl != first_ok:
                ctx.fail({"call": entry, "symptom": "entry-points-differ"}, cj, f"{entry} and {ENTRIES[0]} give different p-boxes")
        if valid and first_ok is not None:
            if c["group"] is not None:
                groups.setdefault(c["group"], []).append((c, first_ok, exact, amb_lo, amb_hi))
            if len(stacked) < 3000 and c["role"] == "base":
                stacked.append((first_ok[1], first_ok[2]))
        if len(ctx.samples) < 4 and stream in ("grid-int", "grid-hit") and c["role"] == "base" and n <= 4:
            ctx.sample({"case": cj, "impl_left_at_0_50_100_150_199": [first_ok[1][i] for i in (0, 50, 100, 150, 199)] if first_ok else None,
                        "model": rep[:60] + "…"})
    # --- invariance under permutation / splitting (real outputs against each other)
    for g, members in groups.items():
        base = [m for m in members if m[0]["role"] == "base"]
        if not base:
            continue
        b = base[0]
        for m in members:
            if m is b:
                continue
            ctx.bump("variant:" + m[0]["role"])
            amb_l = b[3] | m[3]
            amb_r = b[4] | m[4]
            bad = [("left", i) for i, (x, y) in enumerate(zip(b[1][1], m[1][1])) if x != y and i not in amb_l]
            bad += [("right", i) for i, (x, y) in enumerate(zip(b[1][2], m[1][2])) if x != y and i not in amb_r]
            if bad:
                s, i = bad[0]
                ctx.fail({"call": "stacking", "symptom": "not-invariant", "role": m[0]["role"]},
                         {"base": {k: b[0][k] for k in ("lo", "hi", "w")}, "variant": {k: m[0][k] for k in ("lo", "hi", "w")}, "side": s, "index": i},
                         f"p-box changes under {m[0]['role']} of the focal elements ({s}[{i}])")
    # --- operand representations / sequences / aliasing
    run_repr_stream(ctx, G, Gf)
    run_state_stream(ctx, G, Gf)
    # --- round trip
    rts = gen_roundtrip(ctx, stacked)
    rreps = model_batch_par("C08", [f"rt {ql(c['left'])} {ql(c['right'])}" for c in rts])
    for c, rep in zip(rts, rreps):
        ctx.count(("rt", tuple(c["left"]), tuple(c["right"])), c["left"][0] != c["left"][-1] or c["right"][0] != c["right"][-1], c["stream"])
        impl = run_roundtrip(c["left"], c["right"], c.get("rep", "float"))
        ctx.bump("roundtrip-built-from:" + c.get("rep", "float"))
        model = parse_model(rep)
        ok = impl[0] == model[0] and (impl[1] == model[1] if impl[0] == "err" else not diff_idx(impl, (model[1], model[2])))
        cj = {"stream": c["stream"], "left": c["left"], "right": c["right"]}
        if ok:
            ctx.tie_ok()
        else:
            ctx.tie_bad(c["stream"], _rt_short(cj), _short(impl), _short(model))
        if impl[0] == "err":
            ctx.fail({"call": "to_dss().to_pbox()", "symptom": "raises:" + impl[1]}, cj, f"round trip raises {impl[1]}")
        elif impl[1] != c["left"] or impl[2] != c["right"]:
            i = next(i for i in range(200) if impl[1][i] != c["left"][i] or impl[2][i] != c["right"][i])
            ctx.fail({"call": "to_dss().to_pbox()", "symptom": "roundtrip-differs", "stream": c["stream"]}, dict(cj, index=i),
                     f"to_dss().to_pbox() changes step {i}: [{c['left'][i]}, {c['right'][i]}] -> [{impl[1][i]}, {impl[2][i]}]")


def _short(t):
    if t is None or t[0] != "ok":
        return list(t) if t else None
    return ["ok", [float(x) for x in t[1]][:8] + ["…"], [float(x) for x in t[2]][:8] + ["…"]]


def _rt_short(cj):
    return {"stream": cj["stream"], "left_head": cj["left"][:6], "right_head": cj["right"][:6]}


def replay(obj):
    core.stub_moments()
    c = obj.get("case", {})
    print(json.dumps({k: v for k, v in obj.items() if k != "case"}, indent=1, default=str))
    if "lo" in c:
        for entry in ENTRIES:
            impl = run_entry(entry, c["lo"], c["hi"], c["w"])
            print("impl ", entry, ":", _short(impl))
        rep = core.model_batch("C08", [f"stack {ql(c['lo'])} {ql(c['hi'])} {'none' if c['w'] is None else ql(c['w'])}"])[0]
        print("model:", _short(parse_model(rep)))
        if "index" in c:
            print("index", c["index"], "got", c.get("got"), "want", c.get("want"))
    elif "left" in c:
        impl = run_roundtrip(c["left"], c["right"])
        print("impl round trip equals input:", impl[0] == "ok" and impl[1] == c["left"] and impl[2] == c["right"])
    else:
        print(json.dumps(c, indent=1, default=str))
    return 0
