"""C18 — P-box queries (alpha-cut, cdf, discretisation, prediction interval) match the bounds.

proof  : Pun.Props.C18
tie    : alpha_cut (scalar/array), cdf (scalar/array), discretise, outer_discretisation, condensation, get_PI
         vs Pun.Query.* on the grid regenerated from params.py
oracle : from the bound arrays, with exact comparisons: nearest level; cdf within one grid step of the true
         cumulative bounds #{left<=x}, #{right<=x}; native discretisation returns the steps; each outer interval
         contains every alpha-cut of its band; condensation contains the p-box; widest PI contains narrowest,
         both monotone in the coverage level
"""
from __future__ import annotations
import math, json, bisect, logging
from fractions import Fraction as F
import numpy as np
from . import core
from .core import q, ql, unq, unql, err_kind
from .translator import grid as trgrid

N = 200


def _api():
    from pyuncertainnumber.pba.pbox_abc import Staircase
    from pyuncertainnumber.pba.params import Params
    return Staircase, Params


# ---- p-box generators ------------------------------------------------------------
def gen_box(rng, kind):
    n = N
    if kind == "continuous":
        sc = 10 ** rng.uniform(-2, 3)
        a = sorted(rng.uniform(-1, 1) * sc for _ in range(n))
        b = sorted(rng.uniform(-1, 1) * sc for _ in range(n))
        left = [min(x, y) for x, y in zip(a, b)]
        right = [max(x, y) for x, y in zip(a, b)]
    elif kind == "shifted":           # right = left + w : wide band, narrowest PI often missing
        left = sorted(rng.uniform(0, 1) for _ in range(n))
        w = rng.choice([0.05, 0.5, 2.0])
        right = [x + w for x in left]
    elif kind == "steps":             # DS-like: few distinct values, long flat runs
        k = rng.randint(2, 9)
        lv = sorted(rng.sample(range(-20, 20), k))
        cut = sorted(rng.sample(range(1, n), k - 1))
        left = []
        for j, (a, b) in enumerate(zip([0] + cut, cut + [n])):
            left += [float(lv[j])] * (b - a)
        k2 = rng.randint(2, 9)
        lv2 = sorted(rng.sample(range(-20, 25), k2))
        cut2 = sorted(rng.sample(range(1, n), k2 - 1))
        right = []
        for j, (a, b) in enumerate(zip([0] + cut2, cut2 + [n])):
            right += [float(lv2[j])] * (b - a)
        right = [max(x, y) for x, y in zip(left, right)]
    elif kind == "integer":           # strictly increasing integers (exact midpoints between bound values)
        left = [float(2 * i) for i in range(n)]
        off = rng.choice([0, 1, 7, 40])
        right = [x + off for x in left]
    elif kind == "degenerate":
        left = sorted(rng.uniform(-5, 5) for _ in range(n))
        right = list(left)
    elif kind == "constant":
        c = float(rng.randint(-3, 3))
        left, right = [c] * n, [c + rng.choice([0.0, 2.0])] * n
    elif kind == "one-flat":          # a flat run in ONE bound that is not matched in the other
        vary = sorted(rng.uniform(0, 10) for _ in range(n))
        if rng.random() < 0.5:
            left, right = [float(rng.randint(-3, 0))] * n, vary
        else:
            left, right = [v - 10 for v in vary], [float(rng.randint(1, 3))] * n
        k = rng.randrange(20, 180)        # ... and a version where only a stretch is flat
        if rng.random() < 0.5:
            left = sorted(left[:k] + [left[k]] * (n - k)) if left[0] != left[-1] else left
    elif kind == "scaled":            # the step / integer shapes at tiny and huge magnitudes (powers of two stay exact)
        l0, r0 = gen_box(rng, rng.choice(["steps", "integer", "mixed"]))
        sc = rng.choice([2.0 ** -70, 2.0 ** -30, 2.0 ** 36, 1e-19, 1e-170, 1e150])
        return [x * sc for x in l0], [x * sc for x in r0]
    elif kind == "thin":              # relative width 1e-9 .. 1e-5: not degenerate, but np.isclose would say so
        base = rng.uniform(1, 50)
        eps = 10 ** rng.uniform(-9, -5)
        left = [base * (1 + i * eps * rng.choice([0.0, 1.0, 1.0])) for i in range(n)]
        left = list(np.maximum.accumulate(left))
        right = [x * (1 + eps) for x in left]
        right = list(np.maximum.accumulate(right))
    elif kind == "tiny":              # tiny absolute magnitudes
        sc = rng.choice([1e-9, 2.0 ** -60, 1.380649e-23, 1e-20])
        left = sorted(sc * rng.randint(1, 40) for _ in range(n))
        right = [x + sc * rng.choice([0, 1, 3]) for x in left]
        right = list(np.maximum.accumulate(right))
    elif kind == "extreme":           # magnitudes above 1e15 next to values below machine epsilon
        sc = rng.choice([1e18, 1e15, 2.0 ** 70])
        left = sorted([sc * rng.randint(-20, 20) for _ in range(n - 20)] + [rng.choice([1e-20, -1e-20, 2.0 ** -60]) for _ in range(20)])
        right = [x + sc * rng.choice([0, 0, 2]) for x in left]
        right = list(np.maximum.accumulate(right))
    else:                             # "mixed": runs and strictly increasing stretches
        left, x = [], float(rng.randint(-5, 5))
        for _ in range(n):
            if rng.random() < 0.5:
                x += rng.choice([0.25, 1.0, 3.0])
            left.append(x)
        right, y = [], left[0]
        for i in range(n):
            y = max(y, left[i] + (rng.choice([0.0, 0.5, 2.0]) if rng.random() < 0.3 else 0.0))
            right.append(y)
    return [float(x) for x in left], [float(x) for x in right]


KINDS = ["continuous", "shifted", "steps", "integer", "degenerate", "constant", "mixed", "thin", "steps", "integer", "tiny", "extreme", "scaled", "one-flat"]


def ctor_boxes(rng):
    """p-boxes obtained from every constructor that accepts `steps=`, called with a non-default value; the bounds the
    constructor produced (200 steps after its own interpolation) are what the queries are checked against"""
    from pyuncertainnumber.pba import pbox_free as pf, pbox_parametric as pp
    k = lambda: rng.choice([10, 25, 50, 100, 199])
    a, b = rng.randint(-5, 2), rng.randint(3, 9)
    mk = [("uniform", lambda: pp.uniform([a, a + 1], [b, b + 2], steps=k())),
          ("uniform-precise", lambda: pp.uniform(a, b, steps=k())),
          ("min_max_mean", lambda: pf.min_max_mean(a, b, (a + b) / 2 + 0.5, steps=k())),
          ("min_max_median", lambda: pf.min_max_median(a, b, (a + b) / 2, steps=k())),
          ("min_max_mode", lambda: pf.min_max_mode(a, b, (a + b) / 2, steps=k())),
          ("min_mean", lambda: pf.min_mean(0, 2 + rng.random(), steps=k())),
          ("max_mean", lambda: pf.max_mean(b, b - 2, steps=k())),
          ("mean_std", lambda: pf.mean_std(1.0, 2.0, steps=k()))]
    from pyuncertainnumber.pba.pbox_abc import Staircase as _S
    for m_ in (rng.choice([2, 5, 50]), 198, 199, 201, 202, rng.choice([400, 1000])):
        base = sorted(rng.uniform(-5, 5) for _ in range(m_))
        wid = rng.choice([0.0, 0.5, 2.0])
        mk.append((f"bounds-of-length-{'short' if m_ < 198 else ('long' if m_ > 202 else m_)}",
                   lambda base=base, wid=wid: _S(left=np.array(base), right=np.array(base) + wid)))
    out = []
    for name, f in mk:
        try:
            P = f()
            P = getattr(P, "construct", P) if not hasattr(P, "left") else P
            left, right = [float(x) for x in P.left], [float(x) for x in P.right]
            wf = (len(left) == N == len(right) and all(math.isfinite(x) for x in left + right)
                  and all(x <= y for x, y in zip(left, left[1:])) and all(x <= y for x, y in zip(right, right[1:]))
                  and all(x <= y for x, y in zip(left, right)))
            if wf:
                out.append(("ctor:" + name, left, right, P))
        except BaseException:  # noqa  (a constructor that does not take this call is outside this property)
            pass
    return out


def build_box(Staircase, rng, left, right):
    """the same bounds handed over in different representations (float arrays, python lists, tuples, int-dtype arrays)"""
    ints = all(float(x).is_integer() and abs(x) < 2 ** 40 for x in left + right)
    mode = rng.choice((["float-array", "list", "tuple-ish", "int-array", "int-list"] if ints else ["float-array", "list"])
                      + ["steps-kw", "steps-kw", "leaf-steps-kw"])
    if ints and min(left) >= 0 and rng.random() < 0.3:      # unsigned-integer dtype bounds
        dt = rng.choice([np.uint16, np.uint32, np.uint64]) if max(right) < 60000 else np.uint64
        return "uint-array", Staircase(left=np.array([int(x) for x in left], dtype=dt), right=np.array([int(x) for x in right], dtype=dt))
    if rng.random() < 0.2:            # a copied / pickled p-box must answer like the original
        import copy, pickle
        how = rng.choice(["copy", "deepcopy", "pickle"])
        P0 = Staircase(left=np.array(left), right=np.array(right))
        return how, {"copy": copy.copy, "deepcopy": copy.deepcopy, "pickle": lambda o: pickle.loads(pickle.dumps(o))}[how](P0)
    if mode == "steps-kw":            # a non-default `steps=` keyword: the bounds stay 200 long, the grid must too
        return mode, Staircase(left=np.array(left), right=np.array(right), steps=rng.choice([10, 50, 100, 199, 201, 400]))
    if mode == "leaf-steps-kw":
        from pyuncertainnumber.pba.pbox_abc import Leaf
        return mode, Leaf(left=np.array(left), right=np.array(right), steps=rng.choice([10, 50, 100]))
    if mode == "float-array":
        # float64 arrays of exactly the native length; afterwards the caller goes on working on ITS arrays in place
        La, Ra = np.array(left, dtype=float), np.array(right, dtype=float)
        P = Staircase(left=La, right=Ra)
        shared = np.shares_memory(np.asarray(P.left), La) or np.shares_memory(np.asarray(P.right), Ra)
        La += 5.0
        Ra[:] = Ra[::-1].copy()
        return ("float-array(shares-caller-memory)" if shared else "float-array+caller-mutates"), P
    if mode == "list":
        return mode, Staircase(left=list(left), right=list(right))
    if mode == "tuple-ish":
        return mode, Staircase(left=np.array(left, dtype=np.float32).astype(float), right=np.array(right))
    if mode == "int-array":
        return mode, Staircase(left=np.array([int(x) for x in left]), right=np.array([int(x) for x in right]))
    return mode, Staircase(left=[int(x) for x in left], right=[int(x) for x in right])


# ---- exact nearest on a strictly increasing grid -----------------------------------
class GridX:
    def __init__(self, Gf):
        self.f = list(Gf)
        self.q = [F(x) for x in Gf]

    def nearest_set(self, a: float, slack=F(0)):
        """indices whose exact distance to `a` is within `slack` of the minimum (first = numpy's argmin when slack=0)"""
        aq = F(float(a))
        j = bisect.bisect_left(self.f, float(a))
        cand = [k for k in (j - 1, j, j + 1) if 0 <= k < len(self.f)]
        d = {k: abs(self.q[k] - aq) for k in cand}
        m = min(d.values())
        return sorted(k for k in cand if d[k] <= m + slack)

    def nearest(self, a: float):
        return self.nearest_set(a)[0]


SLACK = F(1, 2 ** 50)


def slack_for(Gf, a):
    """|p - a| is computed exactly in binary64 when p/2 <= a <= 2p (Sterbenz), which holds for both neighbours of
    every level a >= p[1]; only below p[1] can rounding of the distance decide a near-tie, so only there a
    near-tie (2^-58) is accepted either way.  On an EXACT tie (68 of the 199 grid midpoints are exact ties in
    binary64) both neighbours are "the nearest grid level" in the sense of the property, so either is accepted
    (numpy argmin and the model take the first); everything else is strict."""
    return F(1, 2 ** 58) if a < Gf[1] else F(0)


# ---- the real code -----------------------------------------------------------------
def ivl_out(r):
    lo, hi = np.asarray(r.lo, dtype=float), np.asarray(r.hi, dtype=float)
    if lo.shape == ():
        return ("ok", [float(lo)], [float(hi)], "scalar")
    return ("ok", [float(x) for x in lo.ravel()], [float(x) for x in hi.ravel()], "array")


def run_impl(P, op, arg, keep=None):
    """`keep`: a list to which the REAL result object is appended (kept alive and re-read later)"""
    r = _run_impl(P, op, arg, keep)
    return r


def _run_impl(P, op, arg, keep):
    def K(obj):
        if keep is not None:
            keep.append(obj)
        return obj
    try:
        if op == "cut":
            return ivl_out(K(P.alpha_cut(arg)))
        if op in ("cuts", "cdfs") and arg and arg[-1] == "f32":
            a32 = np.array(arg[:-1], dtype=np.float32)
            return ivl_out(K(P.alpha_cut(a32) if op == "cuts" else P.cdf(a32)))
        if op == "cuts":
            return ivl_out(K(P.alpha_cut(np.array(arg))))
        if op == "cdf":
            return ivl_out(K(P.cdf(arg)))
        if op == "cdfs":
            return ivl_out(K(P.cdf(np.array(arg))))
        if op == "disc":
            return ivl_out(K(P.discretise(arg)))
        if op == "outer":
            return ivl_out(K(P.outer_discretisation(arg)))
        if op == "cond":
            r = K(P.condensation(arg))
            return ("ok", [float(x) for x in r.left], [float(x) for x in r.right], "pbox")
        if op == "pi":
            return ivl_out(K(P.get_PI(arg[0], style=arg[1])))
        raise ValueError(op)
    except BaseException as e:  # noqa
        return ("err", err_kind(e))


def _plain(a):
    """JSON-friendly form of a query argument (numpy scalars -> python)"""
    if isinstance(a, (list, tuple)):
        return [_plain(x) for x in a]
    if isinstance(a, (np.integer,)):
        return int(a)
    if isinstance(a, (np.floating,)):
        return float(a)
    return a


def levels(Params, n):
    return [float(x) for x in np.linspace(Params.p_lboundary, Params.p_hboundary, n)]


_QL = {}


def _cached_ql(xs):
    k = id(xs)
    if k not in _QL or _QL[k][0] is not xs:
        _QL[k] = (xs, ql(xs))
    return _QL[k][1]


def model_batch_par(prop, reqs, workers=4):
    """core.model_batch over `workers` driver processes (the driver is a pure function of each request line)"""
    import concurrent.futures as cf
    if len(reqs) < 64:
        return core.model_batch(prop, reqs)
    chunks = [reqs[i::workers] for i in range(workers)]
    with cf.ThreadPoolExecutor(workers) as ex:
        outs = list(ex.map(lambda c: core.model_batch(prop, c), chunks))
    res = [None] * len(reqs)
    for w, out in enumerate(outs):
        res[w::workers] = out
    return res


def wire(op, left, right, arg, Params):
    L, R = _cached_ql(left), _cached_ql(right)
    if isinstance(arg, list) and arg and arg[-1] == "f32":
        arg = arg[:-1]
    if op in ("cut", "cdf"):
        return f"{op} {L} {R} {q(arg)}"
    if op in ("cuts", "cdfs"):
        return f"{op} {L} {R} {ql(arg)}"
    if op == "disc":
        lv = [] if (arg is None or 2 <= arg <= N) else levels(Params, arg)
        return f"disc {L} {R} {'none' if arg is None else arg} {ql(lv)}"
    if op in ("outer", "cond"):
        # for 2 <= n <= steps the driver uses its regenerated table (the one the theorems are about) and ignores `lv`
        lv = [] if arg is None else (levels(Params, arg) if not 2 <= arg <= N else [])
        return f"{op} {L} {R} {'none' if arg is None else arg} {ql(lv)}"
    if op == "pi":
        return f"pi {L} {R} {q(arg[0])} {'n' if arg[1] == 'narrowest' else 'w'}"


def parse_model(s):
    t = s.split()
    if t[0] == "err":
        return ("err", t[1])
    if t[0] == "ok" and len(t) == 3 and t[1].startswith("["):
        return ("ok", unql(t[1]), unql(t[2]))
    if t[0] == "ok" and len(t) == 3:
        return ("ok", [unq(t[1])], [unq(t[2])])
    return ("bad", s)


def same(impl, model):
    if impl[0] != model[0]:
        return False
    if impl[0] == "err":
        return impl[1] == model[1]
    if len(impl[1]) != len(model[1]) or len(impl[2]) != len(model[2]):
        return False
    return all(not math.isnan(a) and F(a) == b for a, b in zip(impl[1] + impl[2], model[1] + model[2]))


# ---- case lists ----------------------------------------------------------------------
def gen_queries(rng, Gf, left, right, tier_scale):
    """queries for one p-box"""
    Q = []
    mids = [(Gf[i] + Gf[i + 1]) / 2 for i in range(N - 1)]
    xmids = [m for i, m in enumerate(mids) if F(m) - F(Gf[i]) == F(Gf[i + 1]) - F(m)]     # exact ties in binary64
    # alpha levels
    lv = [0.0, 1.0, 0.001, 0.999, 0.5, rng.choice(Gf), rng.choice(Gf), rng.choice(mids), rng.choice(mids), mids[0], mids[-1],
          rng.random(), rng.random(), rng.uniform(0, 0.001), rng.uniform(0.999, 1)]
    for a in rng.sample(lv, 4):
        Q.append(("cut", a))
    Q.append(("cut", rng.choice([0, 1, np.int64(0), np.int64(1), True, np.uint8(1), np.uint64(0)])))   # levels given as integers
    Q.append(("cuts", rng.choice([[0, 1], [1, 0, 1], [0, 0.5, 1]])))
    # level arrays whose length is exactly the native step count (and one off): random, constant, unsorted
    m = rng.choice([N, N, N - 1, N + 1])
    form = rng.choice(["random", "constant", "reversed-grid", "shuffled-grid"])
    if form == "random":
        arr = [rng.random() for _ in range(m)]
    elif form == "constant":
        arr = [rng.choice([0.95, 0.5, 0.05, rng.random()])] * m
    elif form == "reversed-grid":
        arr = (Gf[::-1] + [0.5])[:m] if m > N else Gf[::-1][:m]
    else:
        arr = list(Gf) + ([0.5] if m > N else [])
        arr = arr[:m]
        rng.shuffle(arr)
    Q.append(("cuts", arr))
    if xmids:
        Q.append(("cut", rng.choice(xmids)))
    Q.append(("cuts", [rng.choice(lv + Gf[:3] + mids[:3] + xmids) for _ in range(rng.randint(1, 12))]))
    # x values
    vals = sorted(set(left + right))
    xs = [left[0], right[-1], left[0] - 1.0, right[-1] + 1.0, left[0] - 1e-9, rng.choice(left), rng.choice(right), rng.choice(left), rng.choice(right)]
    for _ in range(4):
        i = rng.randrange(len(vals))
        j = min(i + 1, len(vals) - 1)
        xs.append((vals[i] + vals[j]) / 2)
        xs.append(rng.uniform(left[0], right[-1]) if right[-1] > left[0] else left[0])
    for x in rng.sample(xs, 5):
        Q.append(("cdf", float(x)))
    xi = [x for x in xs if float(x).is_integer() and abs(x) < 2 ** 40]
    if xi:
        Q.append(("cdf", rng.choice([int(rng.choice(xi)), np.int64(int(rng.choice(xi)))])))
        Q.append(("cdfs", [int(x) for x in xi[:4]]))
    Q.append(("cdfs", [float(rng.choice(xs)) for _ in range(rng.randint(1, 10))]))
    # discretisations
    Q.append(("disc", rng.choice([None, N])))
    Q.append(("disc", rng.choice([2, 3, 5, 10, 50, 100, 198, 199, 201, 202, 333, rng.randint(2, 200)])))
    for m in {rng.choice([None, 2, 3, 4, 5, 198, 199, 200]), rng.randint(2, 200)}:
        Q.append(("outer", m))
    for m in {rng.choice([2, 3, 4, 5, 10, 198, 199, 200]), rng.randint(2, 200)}:
        Q.append(("cond", m))
    Q.append(("cuts", [float(np.float32(rng.random())) for _ in range(5)] + ["f32"]))      # marker: passed as a float32 array
    f32 = lambda v: float(np.float32(v)) if abs(v) < 3e38 else 0.0
    Q.append(("cdfs", [f32(rng.choice(xs)) for _ in range(5)] + ["f32"]))
    Q.append(("cdf", rng.choice([0, 0.0, -0.0])))                    # falsy but valid arguments
    Q.append(("cut", rng.choice([-0.0, 0.0, 0])))
    # prediction intervals: pairs of coverage levels, both styles
    al = sorted(rng.sample([0, 1, 0.5, 0.9, 0.95, 0.99, 0.999, 0.1, 0.25, 0.75, rng.random(), rng.random(), rng.randrange(1, 1024) / 1024], 3))
    for a in al:
        Q.append(("pi", (a, "narrowest")))
        Q.append(("pi", (a, "widest")))
    return Q


# ---- oracle helpers --------------------------------------------------------------------
def count_le(arr, x):
    return bisect.bisect_right(arr, x)


def feats(op, kind, symptom, **kw):
    d = {"call": op, "box": kind, "symptom": symptom}
    d.update(kw)
    return d


def run(ctx: core.Check):
    core.stub_moments()
    logging.disable(logging.WARNING)      # get_PI logs a warning on its documented fall-back
    ctx.rule = ("p-boxes with 200 steps of 7 kinds (continuous random, shifted wide band, few flat steps, strictly increasing "
                "integers, degenerate, constant, mixed runs); per box: alpha levels from {0, 1, grid points, grid midpoints, "
                "random, outside [0.001,0.999]} scalar and array; x inside/outside the support, on bound values and between "
                "them, scalar and array; discretise(None|200|n); outer_discretisation(None|m); condensation(m), m in 2..200; "
                "get_PI for 3 coverage levels x 2 styles. Also boxes with thin (1e-9..1e-5 relative), tiny (down to 1e-23) and "
                "extreme (1e15..1e18) bounds, boxes built from int-dtype arrays / python lists; levels and x given as int / "
                "np.int64 / bool; after the queries of a box its bounds must be unchanged and its first query is asked again; the "
                "real result objects of the last 120 queries are kept alive and re-read. "
                "Non-trivial = the box is not constant; distinctness on (box, query).")
    ctx.assumptions = ["binary64 rounding inside find_nearest (|p - a|) and in (1-alpha)/2 is not modelled: a level whose two nearest "
                       "grid distances differ by less than 2^-50 is accepted either way",
                       "levels np.linspace(0.001, 0.999, n) are supplied to the model by the harness (numpy table)"]
    gen_out = core.LEAN / "Pun/Gen/GridGen.lean"
    def _cuts():
        from .translator import cuts
        r = cuts.generate(core.REPO, core.LEAN / "Pun/Gen/CutsGen.lean")
        pi = r["get_PI"]
        return (f"ok: alpha_cut lo={r['alpha_cut']['lo']} hi={r['alpha_cut']['hi']}; cdf lo={r['cdf']['lo']} hi={r['cdf']['hi']}; "
                f"native lo={r['discretise']['lo']} hi={r['discretise']['hi']}; outer lo={r['outer']['lo']} hi={r['outer']['hi']}; "
                f"condensation {r['condensation']}; get_PI levels {pi['first']}, {pi['second']}; default {pi['default']}; "
                f"narrowest {pi['narrowest']} widest {pi['widest']} fallback {pi['fallback']}")
    ctx.lean_stage(["Pun.Props.C18", "Pun.Props.C18Gen"], generators=[
        ("query methods of pbox_abc.py (cuts translator)", _cuts),
        ("params.py grid", lambda: trgrid.generate(core.REPO, gen_out)),
        ("np.linspace level tables m=2..steps", lambda: trgrid.generate_levels(core.REPO, core.LEAN / "Pun/Gen/LevelsGen.lean"))])
    Staircase, Params = _api()
    Gf = [float(x) for x in Params.p_values]
    GX = GridX(Gf)
    rng = ctx.rng
    boxes = []
    nb = ctx.scale(84, 1000)
    prebuilt = {}
    for b in range(nb):
        kind = KINDS[b % len(KINDS)]
        left, right = gen_box(rng, kind)
        boxes.append((kind, left, right))
    for _ in range(ctx.scale(2, 20)):
        for name, left, right, P in ctor_boxes(rng):
            prebuilt[len(boxes)] = P
            boxes.append((name, left, right))
    cases = []
    for bi, (kind, left, right) in enumerate(boxes):
        for op, arg in gen_queries(rng, Gf, left, right, 1):
            cases.append((bi, op, arg))
    # arrays longer than typical chunk sizes (1024, 4096) and not a multiple of them, for alpha_cut, cdf, discretise
    LONG = [1025, 1500, 2500, 4097, 5000]
    for j in range(ctx.scale(5, 40)):
        bi = (j * 7 + 3) % len(boxes)
        kind, left, right = boxes[bi]
        L = LONG[j % len(LONG)]
        lv = [rng.random() if rng.random() < 0.9 else rng.choice([0.0, 1.0, rng.choice(Gf)]) for _ in range(L)]
        cases.append((bi, "cuts", lv))
        L2 = LONG[(j + 2) % len(LONG)]
        span = (right[-1] - left[0]) or 1.0
        xs = [rng.choice(left + right) if rng.random() < 0.3 else rng.uniform(left[0] - 0.1 * span, right[-1] + 0.1 * span) for _ in range(L2)]
        cases.append((bi, "cdfs", [float(x) for x in xs]))
        if j % 2 == 0:
            cases.append((bi, "disc", LONG[(j + 1) % len(LONG)]))
    # always present: the witnesses of the recorded findings
    cases.append((0, "cond", 2))
    reqs = [wire(op, boxes[bi][1], boxes[bi][2], arg, Params) for bi, op, arg in cases]
    replies = model_batch_par("C18", reqs)
    objs = {}
    pis = {}
    alive = []                 # real result objects of the last queries, with the value recorded when produced
    first_of_box = {}
    import random as _random
    rng_build = _random.Random(f"C18-build:{ctx.seed}")

    def reverify(where):
        for bi_, op_, arg_, obj, rec in alive:
            now = ("ok", [float(x) for x in obj.left], [float(x) for x in obj.right]) if op_ == "cond" else ivl_out(obj)
            if now[1] != rec[1] or now[2] != rec[2]:
                ctx.fail(feats(op_, boxes[bi_][0], "result-changed-later"), {"box": boxes[bi_][0], "op": op_, "arg": _plain(arg_), "when": where},
                         f"the object returned by {op_}({_plain(arg_)}) changed after later queries")
        ctx.bump("alive-results-reverified", len(alive))

    def box_unchanged(bi_):
        P_ = objs.get(bi_)
        if P_ is None:
            return
        kind_, left_, right_ = boxes[bi_]
        if [float(x) for x in P_.left] != left_ or [float(x) for x in P_.right] != right_:
            ctx.fail(feats("queries", kind_, "pbox-mutated"), {"box": kind_, "left": left_, "right": right_},
                     "the p-box bounds changed as a side effect of querying it")
        if not np.array_equal(Params.p_values, np.array(Gf)) or Params.steps != N:
            ctx.fail(feats("queries", kind_, "global-grid-mutated"), {"box": kind_}, "Params.p_values / Params.steps changed as a side effect of querying a p-box")
        # the first query of this box once more, after everything else
        op_, arg_, rec = first_of_box[bi_]
        again = run_impl(P_, op_, arg_)
        if again[:3] != rec[:3]:
            ctx.fail(feats(op_, kind_, "second-evaluation-differs"), {"box": kind_, "op": op_, "arg": _plain(arg_), "left": left_, "right": right_},
                     f"{op_}({_plain(arg_)}) asked a second time on the same p-box gives a different answer")
        ctx.bump("evaluated-twice")

    last_bi = None
    for (bi, op, arg), rep in zip(cases, replies):
        if last_bi is not None and bi != last_bi:
            box_unchanged(last_bi)
            if last_bi % 8 == 7:
                reverify(f"after box {last_bi}")
        last_bi = bi
        kind, left, right = boxes[bi]
        if bi not in objs:
            try:
                mode, P = ("constructor-with-steps", prebuilt[bi]) if bi in prebuilt else build_box(Staircase, rng_build, left, right)
                ctx.bump("built-from:" + mode)
                if [float(x) for x in P.left] != left or [float(x) for x in P.right] != right:
                    raise ValueError("constructor changed the bounds")
                objs[bi] = P
            except BaseException as e:  # noqa
                objs[bi] = None
                ctx.fail(feats("Staircase", kind, "constructor:" + err_kind(e)), {"box": kind, "left": left, "right": right},
                         f"Staircase(left, right) of a well-formed {kind} p-box raises / alters the bounds: {type(e).__name__}: {str(e)[:80]}")
        P = objs[bi]
        if P is None:
            continue
        ctx.count((bi, op, repr(arg)), kind != "constant", op)
        ctx.bump("box:" + kind)
        keep = []
        impl = run_impl(P, op, arg, keep)
        if keep and impl[0] == "ok":
            alive.append((bi, op, arg, keep[0], impl))
            del alive[:-120]
        first_of_box.setdefault(bi, (op, arg, impl))
        model = parse_model(rep)
        arg = _plain(arg)
        if isinstance(arg, list) and arg and arg[-1] == "f32":
            arg = arg[:-1]
            ctx.bump("float32-array-argument")
        cj = {"box": kind, "op": op, "arg": arg, "left": left, "right": right}
        sj = {"box": kind, "op": op, "arg": arg, "left_head": left[:5], "right_head": right[:5]}
        # ---------------- tie
        ok = same(impl, model)
        if not ok and impl[0] == "ok" and model[0] == "ok" and op in ("cut", "cuts", "disc", "outer", "pi"):
            ok = near_tie_ok(GX, left, right, op, arg, impl, Params)
            if ok:
                ctx.bump("near-tie-accepted")
        if ok:
            ctx.tie_ok()
        else:
            ctx.tie_bad(op + ":" + kind, sj, _short(impl), _short(model))
        # ---------------- oracle
        if impl[0] == "err":
            ctx.fail(feats(op, kind, "raises:" + impl[1], arg=arg if isinstance(arg, (int, type(None))) else "level"), cj,
                     f"{op}({arg}) raises {impl[1]} on a well-formed p-box")
            continue
        lo, hi = impl[1], impl[2]
        if op in ("cut", "cuts"):
            lv = [arg] if op == "cut" else arg
            if len(lo) != len(lv) or (op == "cut") != (impl[3] == "scalar"):
                ctx.fail(feats(op, kind, "shape"), cj, "alpha_cut returns the wrong shape")
                continue
            for a, l, h in zip(lv, lo, hi):
                ks = GX.nearest_set(a, slack_for(Gf, a))
                if not any(l == left[k] and h == right[k] for k in ks):
                    ctx.fail(feats(op, kind, "not-nearest-level"), dict(cj, level=a, got=[l, h], want=[left[ks[0]], right[ks[0]]]),
                             f"alpha_cut({a}) = [{l},{h}] but the bounds at the nearest grid level p[{ks[0]}] are [{left[ks[0]]},{right[ks[0]]}]")
                    break
        elif op in ("cdf", "cdfs"):
            xs = [arg] if op == "cdf" else arg
            if len(lo) != len(xs):
                ctx.fail(feats(op, kind, "shape"), cj, "cdf returns the wrong shape")
                continue
            for x, pl, ph in zip(xs, lo, hi):
                if pl not in Gf or ph not in Gf:
                    ctx.fail(feats(op, kind, "off-grid"), dict(cj, x=x), "cdf returns a probability that is not a grid level")
                    break
                kl, kh = Gf.index(pl), Gf.index(ph)
                tl = min(max(count_le(right, x) - 1, 0), N - 1)       # last step whose right bound is <= x
                th = min(max(count_le(left, x) - 1, 0), N - 1)
                inside = left[0] <= x <= right[-1]
                if abs(kl - tl) > 1 or abs(kh - th) > 1 or kl > kh:
                    ctx.fail(feats(op, kind, "cdf-not-inverse", inside=inside, flat=(kind in ("steps", "mixed", "constant"))),
                             dict(cj, x=x, got_idx=[kl, kh], want_idx=[tl, th]),
                             f"cdf({x}) = [p[{kl}], p[{kh}]] but #(right<=x)-1 = {tl}, #(left<=x)-1 = {th}: more than one grid step away from the inverse of the alpha-cuts")
                    break
        elif op == "disc":
            if arg is None or arg == N:
                if lo != left or hi != right:
                    ctx.fail(feats(op, kind, "native-differs"), cj, "discretise() with the native step count does not return the steps")
            else:
                lv = levels(Params, arg)
                bad = len(lo) != arg or any(not any(l == left[k] and h == right[k] for k in GX.nearest_set(a, slack_for(Gf, a))) for a, l, h in zip(lv, lo, hi))
                if bad:
                    ctx.fail(feats(op, kind, "not-alpha-cuts", n=arg), cj, f"discretise({arg}) is not the list of alpha-cuts at linspace levels")
        elif op == "outer":
            lv = Gf if arg is None else levels(Params, arg)
            m = len(lv)
            if len(lo) != m - 1:
                ctx.fail(feats(op, kind, "count", n=arg), cj, f"outer_discretisation({arg}) returns {len(lo)} intervals, expected {m - 1}")
                continue
            # every alpha-cut of band j = [lv[j], lv[j+1]] (levels: ends, grid levels inside, midpoints, one random)
            for j in range(m - 1):
                a0, a1 = lv[j], lv[j + 1]
                i0, i1 = bisect.bisect_left(Gf, a0), bisect.bisect_right(Gf, a1)
                probe = [a0, a1, (a0 + a1) / 2, rng.uniform(a0, a1)] + Gf[i0:i1][:4] + Gf[i0:i1][-4:]
                worst = None
                for a in probe:
                    k = GX.nearest(a)
                    if not (lo[j] <= left[k] and right[k] <= hi[j]):
                        worst = (a, k)
                        break
                if worst:
                    a, k = worst
                    ctx.fail(feats(op, kind, "band-not-contained", n=arg), dict(cj, band=j, level=a),
                             f"outer_discretisation({arg})[{j}] = [{lo[j]},{hi[j]}] does not contain the alpha-cut at level {a} = [{left[k]},{right[k]}]")
                    break
        elif op == "cond":
            if len(lo) != N or any(not (a <= b) for a, b in zip(lo, left)) or any(not (a <= b) for a, b in zip(right, hi)):
                i = next((i for i in range(min(N, len(lo))) if lo[i] > left[i] or right[i] > hi[i]), -1)
                ctx.fail(feats(op, kind, "not-containing", n=arg), dict(cj, index=i),
                         f"condensation({arg}) does not contain the p-box at step {i}")
            elif any(lo[i] > lo[i + 1] or hi[i] > hi[i + 1] or lo[i] > hi[i] for i in range(N - 1)):
                ctx.fail(feats(op, kind, "ill-formed", n=arg), cj, f"condensation({arg}) is not a well-formed p-box")
        elif op == "pi":
            pis.setdefault(bi, {})[(arg[0], arg[1])] = (lo[0], hi[0])
            if not lo[0] <= hi[0]:
                ctx.fail(feats(op, kind, "inverted"), cj, "get_PI returns an inverted interval")
            # coverage semantics: the two cut levels are (1-alpha)/2 and 1-(1-alpha)/2
            lc = (1 - arg[0]) / 2
            hc = 1 - lc
            K1, K2 = GX.nearest_set(lc, slack_for(Gf, lc)), GX.nearest_set(hc, slack_for(Gf, hc))
            cands = []
            for k1 in K1:
                for k2 in K2:
                    nn, ww = (right[k1], left[k2]), (left[k1], right[k2])
                    cands.append(ww if (arg[1] == "widest" or nn[0] > nn[1]) else nn)
            if (lo[0], hi[0]) not in cands:
                ctx.fail(feats(op, kind, "pi-value", style=arg[1]), dict(cj, got=[lo[0], hi[0]], want=list(cands[0])),
                         f"get_PI({arg[0]}, {arg[1]}) = [{lo[0]},{hi[0]}], the bounds at the cut levels {lc}, {hc} give {list(cands[0])}")
        if len(ctx.samples) < 6 and op in ("cut", "cdf", "pi", "outer") and bi < 3 and len(str(arg)) < 40:
            ctx.sample({"box": kind, "op": op, "arg": arg, "impl": _short(impl), "model": rep[:70]})
    if last_bi is not None:
        box_unchanged(last_bi)
    reverify("end of run")
    run_state_stream18(ctx, boxes, objs, Gf, Staircase, Params)
    # ---------------- sample(n): Latin-hypercube alpha-cuts; n beyond the chunk sizes. Every returned interval must be a
    # step of the box, and step k must be hit by about n * (width of the level region of k) of the n strata.
    sl = [float(3 * i) for i in range(N)]
    sr = [x + 1.0 for x in sl]
    try:
        Ps = Staircase(left=np.array(sl), right=np.array(sr))
        mids_ = [(Gf[i] + Gf[i + 1]) / 2 for i in range(N - 1)]
        edges = [0.0] + mids_ + [1.0]
        for n_s in [7, 200, 1024] + LONG[: ctx.scale(3, 5)]:
            ctx.count(("sample", n_s), True, "sample")
            r = Ps.sample(n_s)
            lo_, hi_ = [float(x) for x in np.atleast_1d(r.lo)], [float(x) for x in np.atleast_1d(r.hi)]
            bad = None
            if len(lo_) != n_s:
                bad = f"returns {len(lo_)} intervals"
            else:
                cnt = [0] * N
                for a_, b_ in zip(lo_, hi_):
                    k_ = int(a_ // 3)
                    if not (0 <= k_ < N and a_ == sl[k_] and b_ == sr[k_]):
                        bad = f"returns [{a_},{b_}] which is not a step of the p-box"
                        break
                    cnt[k_] += 1
                if bad is None:
                    for k_ in range(N):
                        w_ = edges[k_ + 1] - edges[k_]
                        if not (n_s * w_ - 2.001 <= cnt[k_] <= n_s * w_ + 2.001):
                            bad = f"step {k_} (level region of width {w_:.5f}) receives {cnt[k_]} of the {n_s} Latin-hypercube strata"
                            break
            if bad:
                ctx.fail(feats("sample", "integer", "sample-not-alpha-cuts", n=n_s), {"op": "sample", "n": n_s, "left": sl, "right": sr}, f"sample({n_s}) {bad}")
    except BaseException as e:  # noqa
        ctx.fail(feats("sample", "integer", "raises:" + err_kind(e)), {"op": "sample"}, f"sample(n) raises {type(e).__name__}: {str(e)[:80]}")
    # ---------------- prediction intervals: relations between the answers for one box
    for bi, d in pis.items():
        kind, left, right = boxes[bi]
        alphas = sorted({a for a, _ in d})
        for a in alphas:
            n_, w_ = d.get((a, "narrowest")), d.get((a, "widest"))
            if n_ and w_ and not (w_[0] <= n_[0] and n_[1] <= w_[1]):
                ctx.fail(feats("pi", kind, "widest-not-containing"), {"box": kind, "alpha": a, "narrowest": n_, "widest": w_, "left": left, "right": right},
                         f"get_PI({a}): widest {w_} does not contain narrowest {n_}")
        for a1, a2 in zip(alphas, alphas[1:]):
            for st in ("widest", "narrowest"):
                x, y = d.get((a1, st)), d.get((a2, st))
                if not (x and y):
                    continue
                if st == "narrowest":
                    # Props.C18: monotone where the narrowest interval exists at the smaller coverage
                    # (pi_narrow_monotone_where_exists: then it exists at the larger one too) and where it exists at
                    # neither (pi_narrow_monotone_both_fallback); the documented fall-back breaks it in between
                    # (pi_fallback_breaks_monotone), so only that region is skipped
                    n1, n2 = narrow_direct(GX, left, right, a1), narrow_direct(GX, left, right, a2)
                    ex1, ex2 = n1[0] <= n1[1], n2[0] <= n2[1]
                    if ex1 and not ex2:
                        ctx.fail(feats("pi", kind, "existence-not-monotone"), {"box": kind, "alpha": [a1, a2], "left": left, "right": right},
                                 f"narrowest PI exists at coverage {a1} but not at {a2}")
                        continue
                    if not ex1 and ex2:
                        ctx.bump("pi-fallback-region-skipped")
                        continue
                    ctx.bump("pi-narrowest-region-" + ("exists" if ex1 else "both-fallback"))
                    want = n1 if ex1 else None
                    if ex1 and x != n1:
                        ctx.fail(feats("pi", kind, "narrowest-value"), {"box": kind, "alpha": a1, "got": x, "want": n1, "left": left, "right": right},
                                 f"get_PI({a1}) narrowest = {x}, bounds give [{n1[0]},{n1[1]}]")
                if not (y[0] <= x[0] and x[1] <= y[1]):
                    ctx.fail(feats("pi", kind, "not-monotone", style=st), {"box": kind, "alpha": [a1, a2], "style": st, "pi": [x, y], "left": left, "right": right},
                             f"get_PI {st}: coverage {a1} gives {x}, larger coverage {a2} gives {y} which does not contain it")
    # ---------------- the decided counterexample of Props.C18.pi_fallback_breaks_monotone, replayed on the real code
    cl, cr = [float(i) for i in range(N)], [float(i + 100) for i in range(N)]
    try:
        Pc = Staircase(left=np.array(cl), right=np.array(cr))
        r1, r2 = run_impl(Pc, "pi", (1 / 8, "narrowest")), run_impl(Pc, "pi", (63 / 64, "narrowest"))
    except BaseException as e:  # noqa
        r1 = r2 = ("err", err_kind(e))
    m1, m2 = [parse_model(x) for x in core.model_batch("C18", [wire("pi", cl, cr, (1 / 8, "narrowest"), Params), wire("pi", cl, cr, (63 / 64, "narrowest"), Params)])]
    ctx.count(("cex", "pi"), True, "pi-counterexample")
    want1, want2 = ("ok", [F(87)], [F(212)]), ("ok", [F(101)], [F(198)])
    if same(r1, m1) and same(r2, m2) and m1[:3] == want1 and m2[:3] == want2:
        ctx.tie_ok()
        ctx.bump("pi-fallback-counterexample-reproduced-on-real-code")
    else:
        ctx.tie_bad("pi-counterexample", {"box": "left[i]=i, right[i]=i+100", "alphas": [0.125, 0.984375]}, [_short(r1), _short(r2)], [_short(m1), _short(m2)])


def run_state_stream18(ctx, boxes, objs, Gf, Staircase, Params):
    """(P i) queries under escalated floating-point errors / warnings give the same answer or raise;
    (P ii) Params.steps / Params.p_values set to another grid, used, restored: the queries answer on the configured grid"""
    import warnings as _w
    rng = ctx.rng
    todo = [bi for bi in sorted(objs) if objs[bi] is not None][: ctx.scale(12, 100)]
    for bi in todo:
        P, (kind, left, right) = objs[bi], boxes[bi]
        qs = [("cut", rng.random()), ("cuts", [rng.random() for _ in range(4)]), ("cdf", float(rng.choice(left + right))),
              ("pi", (rng.choice([0.5, 0.9, 0.95]), rng.choice(["narrowest", "widest"]))), ("outer", rng.choice([3, 7])),
              ("cond", rng.choice([3, 7])), ("disc", rng.choice([None, 9]))]
        for op, arg in qs:
            base = run_impl(P, op, arg)
            for mode in ("errstate-raise", "warnings-error"):
                ctx.count(("fpstate", bi, op, mode), kind != "constant", "fp-state")
                try:
                    if mode == "errstate-raise":
                        with np.errstate(all="raise"):
                            r = run_impl(P, op, arg)
                    else:
                        with _w.catch_warnings():
                            _w.simplefilter("error")
                            r = run_impl(P, op, arg)
                except BaseException:  # noqa
                    r = ("err", "Other")
                if r[0] == "err":
                    ctx.bump(mode + ":raised")       # an escalated warning / FloatingPointError propagating is acceptable
                elif base[0] == "ok" and r[:3] != base[:3]:
                    ctx.fail(feats(op, kind, "different-value-under-" + mode), {"box": kind, "op": op, "arg": _plain(arg), "left": left, "right": right},
                             f"{op}({_plain(arg)}) under {mode} gives another answer than under the default settings")
            again = run_impl(P, op, arg)
            if again[:3] != base[:3]:
                ctx.fail(feats(op, kind, "state-leaked"), {"box": kind, "op": op, "arg": _plain(arg)}, f"{op} answers differently after the escalated-warning calls")
    # ---- another public grid
    old = (Params.steps, Params.p_values)
    try:
        for steps in [100, 300, 40, 201][: ctx.scale(3, 4)]:
            Params.steps = steps
            Params.p_values = np.linspace(Params.p_lboundary, Params.p_hboundary, steps)
            g2 = [float(x) for x in Params.p_values]
            GX2 = GridX(g2)
            for _ in range(ctx.scale(4, 30)):
                kind = rng.choice(["continuous", "steps", "integer", "mixed"])
                l200, r200 = gen_box(rng, kind)
                idx = [round(i * (N - 1) / (steps - 1)) for i in range(steps)] if steps <= N else None
                left = [l200[i] for i in idx] if idx else sorted(l200 + l200[: steps - N])
                right = [r200[i] for i in idx] if idx else sorted(r200 + r200[: steps - N])
                right = [max(a, b) for a, b in zip(left, right)]
                cj = {"stream": "grid-changed", "steps": steps, "box": kind, "left": left, "right": right}
                ctx.count(("grid", steps, tuple(left[:5])), True, "grid-changed")

                def bad(what, **kw):
                    ctx.fail(feats(kw.pop("op"), kind, what, steps=steps, stream="grid-changed"), dict(cj, **kw),
                             f"with Params.steps = {steps}: {what} ({kw})")
                try:
                    P = Staircase(left=np.array(left), right=np.array(right))
                    if [float(x) for x in P.left] != left or [float(x) for x in P.right] != right:
                        bad("constructor does not keep bounds of the configured length", op="Staircase")
                        continue
                    for a in [0.0, 1.0, rng.random(), rng.choice(g2), (g2[3] + g2[4]) / 2 + 1e-9]:
                        c = ivl_out(P.alpha_cut(a))
                        if not any(c[1][0] == left[k] and c[2][0] == right[k] for k in GX2.nearest_set(a, slack_for(g2, a))):
                            bad("alpha_cut is not the cut at the nearest configured level", op="cut", level=a)
                    lv = [rng.random() for _ in range(steps)]
                    c = ivl_out(P.alpha_cut(np.array(lv)))
                    if len(c[1]) != steps or any(not any(l == left[k] and h == right[k] for k in GX2.nearest_set(a, slack_for(g2, a))) for a, l, h in zip(lv, c[1], c[2])):
                        bad("alpha_cut(array of exactly `steps` levels) wrong", op="cuts")
                    for x in [left[0] - 1, right[-1] + 1, rng.choice(left), rng.choice(right), (left[0] + right[-1]) / 2]:
                        c = ivl_out(P.cdf(float(x)))
                        if c[1][0] not in g2 or c[2][0] not in g2:
                            bad("cdf returns a probability that is not a configured level", op="cdf", x=x)
                            continue
                        kl, kh = g2.index(c[1][0]), g2.index(c[2][0])
                        tl = min(max(count_le(right, x) - 1, 0), steps - 1)
                        th = min(max(count_le(left, x) - 1, 0), steps - 1)
                        if abs(kl - tl) > 1 or abs(kh - th) > 1:
                            bad("cdf more than one configured step away from the inverse of the alpha-cuts", op="cdf", x=x, got=[kl, kh], want=[tl, th])
                    d = ivl_out(P.discretise())
                    if d[1] != left or d[2] != right:
                        bad("discretise() does not return the steps", op="disc")
                    m = rng.choice([2, 3, 5, steps])
                    lvm = [float(x) for x in np.linspace(Params.p_lboundary, Params.p_hboundary, m)]
                    o = ivl_out(P.outer_discretisation(m))
                    if len(o[1]) != m - 1 or any(o[1][j] != left[GX2.nearest(lvm[j])] or o[2][j] != right[GX2.nearest(lvm[j + 1])] for j in range(min(m - 1, len(o[1])))):
                        bad("outer_discretisation wrong", op="outer", m=m)
                    cnd = P.condensation(rng.choice([2, 3, 5]))
                    cl, cr = [float(x) for x in cnd.left], [float(x) for x in cnd.right]
                    if len(cl) != steps or any(a > b for a, b in zip(cl, left)) or any(a > b for a, b in zip(right, cr)):
                        bad("condensation does not contain the p-box / has another number of steps", op="cond")
                    al = rng.choice([0.5, 0.9, 0.99])
                    w_ = ivl_out(P.get_PI(al, style="widest"))
                    lc = (1 - al) / 2
                    if (w_[1][0], w_[2][0]) != (left[GX2.nearest(lc)], right[GX2.nearest(1 - lc)]):
                        bad("widest prediction interval wrong", op="pi", alpha=al)
                except BaseException as e:  # noqa
                    bad("raises " + type(e).__name__, op="queries", msg=str(e)[:80])
    finally:
        Params.steps, Params.p_values = old
    if Params.steps != N or not np.array_equal(Params.p_values, np.array(Gf)):
        ctx.fail(feats("Params", "-", "grid-not-restored"), {}, "Params not restored")


def narrow_direct(GX, left, right, alpha):
    lo_cut = (1 - alpha) / 2
    hi_cut = 1 - lo_cut
    return (right[GX.nearest(lo_cut)], left[GX.nearest(hi_cut)])


def near_tie_ok(GX, left, right, op, arg, impl, Params):
    Gf = GX.f
    SL = lambda a: slack_for(Gf, a)
    """a disagreement is excused when every returned interval is the pair of bounds at SOME grid level whose
    exact distance to the requested level is within 2^-50 of the minimum"""
    lo, hi = impl[1], impl[2]
    if op == "cut":
        lv = [arg]
    elif op == "cuts":
        lv = arg
    elif op == "disc":
        if arg is None or arg == N:
            return False
        lv = levels(Params, arg)
    elif op == "outer":
        lv = [float(x) for x in Params.p_values] if arg is None else levels(Params, arg)
        if len(lo) != len(lv) - 1:
            return False
        return all(any(l == left[k] for k in GX.nearest_set(a, SL(a))) for a, l in zip(lv[:-1], lo)) and \
            all(any(h == right[k] for k in GX.nearest_set(a, SL(a))) for a, h in zip(lv[1:], hi))
    elif op == "pi":
        a = arg[0]
        lc = (1 - a) / 2
        hc = 1 - lc
        K1, K2 = GX.nearest_set(lc, SLACK), GX.nearest_set(hc, SLACK)
        cands = []
        for k1 in K1:
            for k2 in K2:
                w = (left[k1], right[k2])
                nn = (right[k1], left[k2])
                cands.append(w if (arg[1] == "widest" or nn[0] > nn[1]) else nn)
        return (lo[0], hi[0]) in cands
    if len(lo) != len(lv):
        return False
    return all(any(l == left[k] and h == right[k] for k in GX.nearest_set(a, SL(a))) for a, l, h in zip(lv, lo, hi))


def _short(t):
    if t is None or t[0] != "ok":
        return list(t) if t else None
    return ["ok", [float(x) for x in t[1]][:6], [float(x) for x in t[2]][:6]]


def replay(obj):
    core.stub_moments()
    c = obj.get("case", {})
    print(json.dumps({k: v for k, v in obj.items() if k != "case"}, indent=1, default=str))
    if "op" in c and "left" in c:
        Staircase, Params = _api()
        P = Staircase(left=np.array(c["left"]), right=np.array(c["right"]))
        arg = c["arg"]
        if c["op"] == "pi":
            arg = tuple(arg)
        impl = run_impl(P, c["op"], arg)
        rep = core.model_batch("C18", [wire(c["op"], c["left"], c["right"], arg, Params)])[0]
        print("case :", c["op"], arg, "box", c.get("box"))
        print("impl :", _short(impl))
        print("model:", rep[:200])
        for k in ("x", "level", "got_idx", "want_idx", "got", "want", "band", "index"):
            if k in c:
                print(k, ":", c[k])
    else:
        print(json.dumps({k: v for k, v in c.items() if k not in ("left", "right")}, indent=1, default=str))
    return 0
