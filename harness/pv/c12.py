"""C12 — inclusion isotonicity: widening an input never narrows an output.

proof  : Pun.Lemmas.Iso + Pun.Props.C12 — sort_mono; Frechet / perfect / opposite / independent / naive rules isotone;
         constructor identity on well-formed bounds; public add/sub under f,p,o,i, mul under p,o,i (all signs) and under f
         (non-negative), neg, number operands, monotone unary maps, env, imp; interval + - * / with intervals and numbers on
         either side (exact image => isotone), nested interval expressions of any depth; nested p-box expressions over the
         proven nodes; weighted stacking (the generalised inverse is monotone in the focal endpoints); alpha-cut index
         independent of the operand; slicing with a fixed number of slices (direct strategy)
tie    : every run of a pair (X, Y) / (X', Y) is sent to the model: single interval operations -> Pun.Arith.binop,
         single p-box operations -> Pun.PBox.*, nested expressions -> Pun.Iso.ITree.eval / PTree.eval, stacking,
         alpha_cut, slicing -> Pun.Iso.*; the exact model results of a pair are compared with each other as well
oracle : (1) the REAL results of the two runs compared bound by bound (binary64 comparisons are exact; integer / dyadic
         streams exactly, float streams up to rounding).  X within X' is produced both ways: a random widening of X, and a
         narrowing of X' (down to a point / a precise distribution).
         (2) the dual statement with an exactly known sub-result: a point / precise sub-box has the exact arithmetic
         value (Fractions: points of interval operands, one-value-per-step selections of p-boxes paired as the dependency
         says, exact generalised inverse for stacking, exact cut index, exact natural extension of the cut boxes for
         slicing); it has to lie inside the real result for the box.  (2) is what finds a failing input for defects that
         keep the code monotone (a wrong case of a table, a forgotten dependency swap, a changed grid).
         (3) an exception on operands inside the operation's domain is a failure.
         (4) state carried between calls: interval Monte Carlo runs the pair (and a repetition) on ONE Dependency object
         with the default random_state, in both orders — the level rows of all runs must be identical and the repetition
         must reproduce the first result; the real operand / result objects of the last cases are kept alive and re-read
         later (they must still have their recorded value: shared buffers, in-place updates); every 14th case is evaluated
         a second time at the end of the run and must give the identical result.
         (5) domain edges: where F(X) returned a value and the wider X' leaves the domain of F (a pole inside for negative
         integer powers / the reciprocal, a negative lower end for sqrt / log), F(X') has to raise or to contain F(X): a
         finite non-containing value is a failure.
         (6) Dempster-Shafer operands (to_pbox, arithmetic, envelope / imposition, rebuilt from their own read-out): the
         widening makes focal elements coincide, nest or change order; the result must equal the one obtained from the
         exactly computed p-box of the structure.
         (7) global state and aliasing: explicit-dependency calls run INSIDE `with pba.dependency(d)` blocks of every other code
         (and infix operators inside the block of their own code) must give the model's result; a sample of cases runs under
         np.errstate(all="raise") / warnings escalated to errors (same value, or the escalation propagates); after every call
         the ambient dependency must be what it was, the result must not BE an operand nor share memory with an operand or
         with the caller's buffers, and overwriting the caller's buffers afterwards must not change the result.
streams also cover: integral exponents carried by int / numpy int / float / numpy float / float32 / Fraction (same value or a
         raise); float32 / longdouble operand arrays; the same cases at tiny / huge power-of-two scales (2^-70 .. 2^60); operands copied / deep-copied / pickled
         before use; X' touching zero with X of magnitude below machine epsilon next to every pole; stacking of 1, steps-2,
         steps-1, steps, steps+1 intervals; -0.0 as a constant; integer powers k in {-4..5} of intervals, interval vectors and p-boxes (contained operand one-signed, containing
         one one-signed / touching zero / zero inside); p-boxes with one flat bound, unaligned steps, one zero-width step; the same
         object on both sides (X op X, envelope(a, a)); operands touching zero exactly; integer-dtype / list / positional representations of the same numbers;
         thin but not degenerate operands (relative width 1e-9..1e-5, magnitudes down to 1e-9); constants below machine
         epsilon and above 1e15; interval vectors enumerating every pair of sign classes.  Rounding tolerances are relative
         to the magnitude of the intermediates of the operation (no absolute floor).
"""
from __future__ import annotations
import itertools, json, math, operator, warnings
from fractions import Fraction as F
import numpy as np
from . import core, pbx
from .core import unq, unql, err_kind
from .pbx import PYOPS

OPS4 = ["add", "sub", "mul", "div"]
STEPS = 200


def q(x) -> str:
    """exact num/den of a finite number (same text as the model's showRat: reduced, positive denominator)"""
    if isinstance(x, F):
        n, d = x.numerator, x.denominator
    elif isinstance(x, int) and not isinstance(x, bool):
        return str(x)
    else:
        xf = float(x)
        if math.isnan(xf) or math.isinf(xf):
            raise ValueError("non-finite value cannot be encoded")
        n, d = xf.as_integer_ratio()
    return str(n) if d == 1 else f"{n}/{d}"


def ql(xs) -> str:
    return "[" + ",".join(q(x) for x in xs) + "]"


def wire_pb(l, r):
    return f"{ql(l)} {ql(r)}"


def rat2float(t: str) -> float:
    if "/" in t:
        n, d = t.split("/")
        return int(n) / int(d)
    return float(int(t))


def strs(t: str):
    t = t.strip()
    body = t[1:-1]
    return body.split(",") if body else []


# =====================================================================================================
# the real code
def _I():
    from pyuncertainnumber.pba.intervals.number import Interval
    return Interval


_WHERE = None        # spec of the run being executed (attached to the kept objects)
_REP = "float"       # representation of the operands of the run being executed (set by impl from spec["rep"])
KEPT = []            # (object, canonical value when it was produced, label, case description): theme A
KEPT_MAX = 64


def _integral(vals):
    return all(float(x) == int(x) and abs(x) < 2 ** 40 for x in vals)


_VIA = None          # practice L: operands copied / deep-copied / pickled before use must give the same result


def via(obj):
    import copy, pickle
    if _VIA == "copy":
        return copy.copy(obj)
    if _VIA == "deepcopy":
        return copy.deepcopy(obj)
    if _VIA == "pickle":
        return pickle.loads(pickle.dumps(obj))
    return obj


def keep(obj, label, where=None):
    """remember a REAL operand / result object and its canonical value; verified again later (aliasing, shared buffers)"""
    try:
        c = canon(obj)
    except TypeError:
        return obj
    KEPT.append((obj, c, label, where if where is not None else _WHERE))
    if label == "operand":
        _OPS.append(obj)
    if label == "operand" and _VIA:
        obj = via(obj)
        KEPT.append((obj, c, label, where if where is not None else _WHERE))
    return obj


def same_canon(a, b):
    def eq(u, v):
        return len(u) == len(v) and all((x == y) or (x != x and y != y) for x, y in zip(u, v))
    return a[0] == b[0] and eq(a[1], b[1]) and eq(a[2], b[2])


def verify_kept(ctx, final=False):
    """re-read the kept objects: they must still have the value they had when they were produced"""
    global KEPT
    if not final and len(KEPT) < KEPT_MAX:
        return
    check, KEPT = (KEPT, []) if final else (KEPT[: KEPT_MAX // 2], KEPT[KEPT_MAX // 2:])
    for obj, c0, label, where in check:
        try:
            c1 = canon(obj)
        except BaseException as e:  # noqa
            c1 = ("err", type(e).__name__, [])
        ctx.bump("kept-objects-reverified")
        if c1[0] != "ok" or not same_canon(c0, c1):
            ctx.fail({"family": "aliasing", "check": "kept-" + label, "symptom": "object-changed-after-later-calls"},
                     {"where": where, "recorded": pbx.js(c0), "now": pbx.js(c1) if c1[0] == "ok" else list(c1)},
                     f"a {label} object of an earlier case no longer has the value it had when it was produced "
                     f"(shared buffer / aliasing): {json.dumps(where, default=str)[:200]}")


def mkI(v):
    """[lo, hi] -> scalar Interval ; [[los],[his]] -> vector Interval ; number -> float (int under the int representation)"""
    I = _I()
    if isinstance(v, (int, float)):
        return num(v)
    if isinstance(v[0], (list, tuple)):
        if _REP == "int" and _integral(list(v[0]) + list(v[1])):
            return keep(I(np.array(v[0], dtype=np.int64), np.array(v[1], dtype=np.int64)), "operand")
        if _REP == "list":
            return keep(I([float(x) for x in v[0]], [float(x) for x in v[1]]), "operand")
        if _REP == "pos":
            return keep(I(np.array(v[0], dtype=float), np.array(v[1], dtype=float)), "operand")
        return keep(I(lo=np.array(v[0], dtype=float), hi=np.array(v[1], dtype=float)), "operand")
    if _REP == "int" and _integral(v):
        return keep(I(int(v[0]), int(v[1])), "operand")
    if _REP == "pos" or _REP == "list":
        return keep(I(float(v[0]), float(v[1])), "operand")
    return keep(I(lo=float(v[0]), hi=float(v[1])), "operand")


def stair(l, r):
    """Staircase operand in the representation of the current run"""
    S = pbx.Staircase()
    if _REP == "int" and _integral(list(l) + list(r)):
        return keep(S(left=np.array(l, dtype=np.int64), right=np.array(r, dtype=np.int64)), "operand")
    if _REP == "list":
        return keep(S(left=[float(x) for x in l], right=[float(x) for x in r]), "operand")
    if _REP == "pos":
        return keep(S(np.array(l, dtype=float), np.array(r, dtype=float)), "operand")
    if _REP == "longdouble" or (_REP == "f32" and all(float(np.float32(v)) == float(v) for v in list(l) + list(r))):
        dt = np.float32 if _REP == "f32" else np.longdouble
        return keep(S(left=np.array(l, dtype=dt), right=np.array(r, dtype=dt)), "operand")
    bl, br = np.array(l, dtype=float), np.array(r, dtype=float)
    _BUFS.extend([bl, br])
    P = S(left=bl, right=br)
    if _WHERE is not None and _WHERE.get("mutate"):
        _OPS.append(P)
        return P                     # its buffers are overwritten after the call: not re-verified later
    return keep(P, "operand")


def num(c):
    """a number operand: a Python int under the int representation (also a huge one: 10**18 times an int64 array overflows)"""
    return int(c) if (_REP == "int" and float(c) == int(c)) else float(c)


def canon(r):
    """canonical form of a result of the real code: ('ok', [lefts], [rights])"""
    I = _I()
    if isinstance(r, I):
        return ("ok", [float(x) for x in np.ravel(r.lo)], [float(x) for x in np.ravel(r.hi)])
    if hasattr(r, "left") and hasattr(r, "right") and hasattr(r, "steps"):
        return pbx.canon_pb(r)
    if isinstance(r, tuple) and len(r) == 2:
        return pbx.canon_pair(r)
    if isinstance(r, (int, float, np.floating, np.integer)):
        return ("ok", [float(r)], [float(r)])
    if isinstance(r, np.ndarray):
        return ("ok", [float(x) for x in np.ravel(r)], [float(x) for x in np.ravel(r)])
    raise TypeError(f"unexpected result type {type(r).__name__}")


_AMB = None          # ambient dependency code the run is executed under (`with pba.dependency(d)`), or None
_FPMODE = None       # None | "raise" (np.errstate(all="raise")) | "warn-error" (warnings escalated to errors)
_BUFS = []           # the caller's float64 buffers the operands of the current run were built from (kind Q)
_OPS = []            # the operand objects of the current run
STATE_ISSUES = []    # global state found changed after a call: reported by the oracle of the case


def _arrays_of(obj):
    out = []
    for name in ("left", "right", "lo", "hi", "_left", "_right", "_lo", "_hi"):
        v = getattr(obj, name, None)
        if isinstance(v, np.ndarray) and v.ndim >= 1:
            out.append(v)
    return out


def guarded(f):
    from pyuncertainnumber.pba.context import dependency, get_current_dependency
    import contextlib
    del _BUFS[:], _OPS[:]
    before = get_current_dependency()
    try:
        with warnings.catch_warnings():
            warnings.simplefilter("error" if _FPMODE == "warn-error" else "ignore")
            with np.errstate(all="raise" if _FPMODE == "raise" else "ignore"):
                with (dependency(_AMB) if _AMB else contextlib.nullcontext()):
                    r = f()
                c = canon(r)
                if not isinstance(r, (int, float, tuple)):
                    KEPT.append((r, c, "result", _WHERE))
                    # kind Q: the result must not BE an operand, nor share memory with an operand or a caller's buffer
                    ra = _arrays_of(r)
                    single = _WHERE is not None and "tree" not in _WHERE and _WHERE.get("f") not in ("dss", "imc", "slice", "b2b")
                    for o in _OPS:
                        if o is r:
                            if single:
                                STATE_ISSUES.append(("result-is-operand", _WHERE))
                        elif single and any(np.shares_memory(x_, y_) for x_ in ra for y_ in _arrays_of(o)):
                            STATE_ISSUES.append(("result-shares-memory-with-operand", _WHERE))
                    if single and any(np.shares_memory(x_, b_) for x_ in ra for b_ in _BUFS):
                        STATE_ISSUES.append(("result-shares-memory-with-caller-buffer", _WHERE))
                    if _BUFS and _WHERE is not None and _WHERE.get("mutate"):
                        for b_ in _BUFS:
                            b_ += 5.0           # the caller re-uses its buffers
                        c2 = canon(r)
                        if not same_canon(c, c2):
                            STATE_ISSUES.append(("result-changed-when-caller-buffer-mutated", _WHERE))
                return c
    except OutOfDomain as e:
        return ("err", "Domain", str(e))
    except (FloatingPointError, Warning) as e:
        if _FPMODE:
            return ("err", "Escalated", f"{type(e).__name__}: {str(e)[:80]}")      # acceptable: the escalation propagated
        return ("err", err_kind(e), f"{type(e).__name__}: {str(e)[:80]}")
    except BaseException as e:  # noqa
        return ("err", err_kind(e), f"{type(e).__name__}: {str(e)[:80]}")
    finally:
        if get_current_dependency() != before:
            STATE_ISSUES.append(("ambient-dependency-left-changed:" + str(get_current_dependency()), _WHERE))
            from pyuncertainnumber.pba import context as _ctx
            _ctx._current_dependency.set(before)


class OutOfDomain(Exception):
    """a nested division whose divisor contains zero: the statement allows anything there"""


def holds0(v):
    I = _I()
    if isinstance(v, I):
        return bool(np.any((np.asarray(v.lo) <= 0) & (np.asarray(v.hi) >= 0)))
    if hasattr(v, "left") and hasattr(v, "right"):
        return bool(np.min(v.left) <= 0 <= np.max(v.right))
    if isinstance(v, np.ndarray):
        return bool(np.any(v == 0))
    return False


def ieval(t, xs):
    """nested Python expression over Intervals / numbers / numpy columns"""
    k = t[0]
    if k == "v":
        return xs[t[1]]
    if k == "n":
        return num(t[1])
    if k == "g":
        return -ieval(t[1], xs)
    a, b = ieval(t[2], xs), ieval(t[3], xs)
    if t[1] == "div" and holds0(b):
        raise OutOfDomain("divisor contains zero")
    return PYOPS[t[1]](a, b)


def peval(t, xs):
    """nested expression over p-boxes through the public methods / operators"""
    k = t[0]
    if k == "v":
        return xs[t[1]]
    if k == "b":
        a, b = peval(t[3], xs), peval(t[4], xs)
        if t[1] == "div" and holds0(b):
            raise OutOfDomain("divisor contains zero")
        return getattr(a, t[1])(b, dependency=t[2])
    if k == "r":
        return PYOPS[t[1]](peval(t[2], xs), num(t[3]))
    if k == "l":
        a = peval(t[3], xs)
        if t[1] == "div" and holds0(a):
            raise OutOfDomain("divisor contains zero")
        return PYOPS[t[1]](num(t[2]), a)
    if k == "g":
        return -peval(t[1], xs)
    if k == "e":
        return peval(t[1], xs).env(peval(t[2], xs))
    if k == "m":
        return peval(t[1], xs).imp(peval(t[2], xs))
    raise ValueError(k)


def make_func(tree):
    """response function with both calling conventions of b2b (list of Intervals / 2-D array of points)"""
    def f(x):
        if isinstance(x, np.ndarray):
            if x.ndim == 1:
                x = x[None, :]
            return ieval(tree, [x[:, i] for i in range(x.shape[1])])
        return ieval(tree, [x[i] for i in range(len(x))])
    return f


def _mtanh(v):
    from pyuncertainnumber.pba.intervals import methods as M
    return M.tanh(v)


UN_IVL = {"exp": np.exp, "log": np.log, "sqrt": np.sqrt, "sin": np.sin, "cos": np.cos, "tan": np.tan, "tanh": _mtanh,
          "abs": lambda v: v.abs(), "pow2": lambda v: v ** 2, "pow3": lambda v: v ** 3, "neg": lambda v: -v,
          "recip": lambda v: 1 / v}
UN_PB = {"exp": lambda P: P.exp(), "log": lambda P: P.log(), "sqrt": lambda P: P.sqrt(), "sin": lambda P: P.sin(),
         "cos": lambda P: P.cos(), "tanh": lambda P: P.tanh(), "pow2": lambda P: P ** 2, "pow3": lambda P: P ** 3,
         "npexp": lambda P: np.exp(P), "npsqrt": lambda P: np.sqrt(P), "nplog": lambda P: np.log(P)}
UN_MONO = {"exp": np.exp, "log": np.log, "sqrt": np.sqrt, "npexp": np.exp, "npsqrt": np.sqrt, "nplog": np.log}
RAW = {"frechet": "frechet_op", "perfect": "perfect_op", "opposite": "opposite_op", "independent": "independent_op",
       "naive": "new_vectorised_naive_frechet_op"}


def to_operand(kind, v):
    if kind == "interval":
        return mkI([v[0][0], v[1][-1]])
    return stair(*v)


def make_dependency(spec):
    from pyuncertainnumber import pba
    fam, d = spec["family"], len(spec["kinds"])
    if fam is None:
        return None
    if fam == "independence":
        return pba.Dependency("independence", k_dim=d)
    if fam == "gaussian":
        corr = spec["param"] if d == 2 else np.array([[1.0, spec["param"], 0.2], [spec["param"], 1.0, 0.1], [0.2, 0.1, 1.0]])
        return pba.Dependency("gaussian", corr=corr, k_dim=d)
    return pba.Dependency(fam, theta=spec["param"], k_dim=d)


def impl_imc(spec, runs):
    """interval Monte Carlo on the operand sets of one case, in the order spec['order'], all on ONE dependency object
    and with the default random_state (as a user who builds the dependency once would do); the first operand set is
    run once more at the end.  Returns (results per run, level rows per run, repeated result, its rows)."""
    global _REP, _WHERE, _VIA, _AMB, _FPMODE
    _REP, _WHERE, _VIA, _AMB, _FPMODE = spec.get("rep", "float"), spec, spec.get("via"), None, None
    from pyuncertainnumber.propagation.mixed_up import interval_monte_carlo
    try:
        de = make_dependency(spec)
    except BaseException as e:  # noqa
        err = ("err", err_kind(e), f"{type(e).__name__}: {str(e)[:80]}")
        return [err for _ in runs], [None for _ in runs], err, None
    order = list(range(len(runs))) if spec["order"] == "narrow-first" else list(range(len(runs) - 1, -1, -1))
    res, lev = [None] * len(runs), [None] * len(runs)

    def one(inp):
        box = {}
        def run():
            vs = [to_operand(k, v) for k, v in zip(spec["kinds"], inp["vars"])]
            kw = {}
            if spec["strategy"] == "subinterval":
                kw = {"subinterval_style": spec["style"], "n_sub": spec["n_sub"]}
            if de is not None:
                kw["dependency"] = de
            r, u = interval_monte_carlo(vars=vs, func=make_func(spec["tree"]), interval_strategy=spec["strategy"],
                                        n_sam=spec["n_sam"], side_effects=True, **kw)
            box["u"] = [[float(a) for a in row] for row in np.atleast_2d(u)]
            return r
        return guarded(run), box.get("u")
    for i in order:
        res[i], lev[i] = one(runs[i])
    again, lev_again = one(runs[order[0]])
    return res, lev, again, lev_again


def expo(spec):
    """kind S: the same integral exponent carried by different numeric types"""
    k, t = int(spec["k"]), spec.get("ktype", "int")
    from fractions import Fraction
    return {"int": k, "float": float(k), "npfloat": np.float64(k), "npint": np.int64(k), "npf32": np.float32(k),
            "fraction": Fraction(k)}[t]


def dss_run(spec, inp, exact_box):
    """an operation with a Dempster-Shafer operand; with `exact_box` the operand is replaced by the p-box (left, right)
    computed exactly from its definition (the hierarchy: both have to give the same result)"""
    from pyuncertainnumber.pba.dss import DempsterShafer
    import pyuncertainnumber as pun
    if exact_box is None:
        ivs = [[a, b] for a, b in zip(inp["lo"], inp["hi"])]
        if spec.get("ctor") == "objs":
            ivs = [mkI(v) for v in ivs]
        elif spec.get("ctor") == "vec":
            ivs = mkI([inp["lo"], inp["hi"]])
        D = DempsterShafer(ivs, list(spec["masses"]) if spec.get("mass_list") else np.array(spec["masses"], dtype=float))
        if spec["use"] == "roundtrip":
            D = DempsterShafer.from_dsElements(D.structures)
        keep(D.to_pbox(), "operand") if False else None
    else:
        D = stair(*exact_box)
    use = spec["use"]
    if use in ("to_pbox", "roundtrip"):
        return D.to_pbox() if exact_box is None else D
    P = stair(*inp["y"])
    if use == "bin":
        return getattr(P, spec["op"])(D, dependency=spec["dep"])
    if use == "rbin":
        return PYOPS[spec["op"]](D, P)
    if use == "env":
        return pun.envelope(P, D)
    if use == "imp":
        return pun.imposition(P, D)
    raise ValueError(use)


def impl(spec, inp):
    """one run of the real code"""
    global _REP, _WHERE, _VIA, _AMB, _FPMODE
    _REP, _WHERE, _VIA = spec.get("rep", "float"), spec, spec.get("via")
    _AMB, _FPMODE = spec.get("ambient"), spec.get("fpmode")
    f = spec["f"]
    if f == "ivl-bin":
        return guarded(lambda: PYOPS[spec["op"]](mkI(inp["x"]), mkI(inp["y"])))
    if f == "ivl-un":
        if spec["fn"] == "powk":
            return guarded(lambda: mkI(inp["x"]) ** expo(spec))
        return guarded(lambda: UN_IVL[spec["fn"]](mkI(inp["x"])))
    if f == "itree":
        return guarded(lambda: ieval(spec["tree"], [mkI(b) for b in inp["box"]]))
    if f == "pb-raw":
        from pyuncertainnumber.pba import operation as O
        fn = getattr(O, RAW[spec["rule"]])
        return guarded(lambda: fn(pbx.duck(*inp["x"]), pbx.duck(*inp["y"]), PYOPS[spec["op"]]))
    if f == "pb-bin":
        def run():
            X = stair(*inp["x"])
            Y = X if spec.get("alias") else to_operand(spec.get("ykind", "pbox"), inp["y"])      # lesson F: X op X, one object
            if spec.get("bare"):
                return PYOPS[spec["op"]](X, Y)
            return getattr(X, spec["op"])(Y, dependency=spec["dep"])
        return guarded(run)
    if f == "pb-num":
        c = num(spec["c"])
        if spec["side"] == "R":
            return guarded(lambda: PYOPS[spec["op"]](stair(*inp["x"]), c))
        return guarded(lambda: PYOPS[spec["op"]](c, stair(*inp["x"])))
    if f == "pb-neg":
        return guarded(lambda: -stair(*inp["x"]))
    if f == "pb-recip":
        return guarded(lambda: stair(*inp["x"]).reciprocal())
    if f == "pb-un":
        if spec["fn"] == "powk":
            return guarded(lambda: stair(*inp["x"]) ** expo(spec))
        return guarded(lambda: UN_PB[spec["fn"]](stair(*inp["x"])))
    if f == "pb-agg":
        def run():
            ops = [to_operand(k, v) for k, v in zip(spec["kinds"], inp["ops"])]
            if spec.get("alias"):
                ops = [ops[0]] * len(ops)
            if spec["api"] == "method":
                r = ops[0]
                for o in ops[1:]:
                    r = getattr(r, spec["agg"])(o)
                return r
            import pyuncertainnumber as pun
            return (pun.envelope if spec["agg"] == "env" else pun.imposition)(*ops)
        return guarded(run)
    if f == "ptree":
        return guarded(lambda: peval(spec["tree"], [stair(*v) for v in inp["vars"]]))
    if f == "stack":
        def run():
            from pyuncertainnumber.pba.aggregation import stacking
            w = spec["weights"]
            if spec["form"] == "vec":
                return stacking(mkI([inp["lo"], inp["hi"]]), weights=None if w is None else np.array(w, dtype=float))
            if spec["form"] == "objs":
                return stacking([mkI([a, b]) for a, b in zip(inp["lo"], inp["hi"])], weights=w)
            return stacking([[a, b] for a, b in zip(inp["lo"], inp["hi"])], weights=w)
        return guarded(run)
    if f == "dss":
        return guarded(lambda: dss_run(spec, inp, None))
    if f == "cut":
        return guarded(lambda: stair(*inp["x"]).alpha_cut(float(spec["alpha"])))
    if f == "slice":
        def run():
            from pyuncertainnumber.propagation.mixed_up import slicing
            vs = [to_operand(k, v) for k, v in zip(spec["kinds"], inp["vars"])]
            kw = {}
            if spec["strategy"] == "subinterval":
                kw = {"subinterval_style": spec["style"], "n_sub": spec["n_sub"]}
            return slicing(vars=vs, func=make_func(spec["tree"]), n_slices=spec["k"],
                           interval_strategy=spec["strategy"], **kw)
        return guarded(run)
    if f == "b2b":
        def run():
            from pyuncertainnumber.propagation.b2b import b2b
            kw = {}
            if spec["strategy"] == "subinterval":
                kw = {"subinterval_style": spec["style"], "n_sub": spec["n_sub"]}
            return b2b([mkI(b) for b in inp["box"]], make_func(spec["tree"]), interval_strategy=spec["strategy"], **kw)
        return guarded(run)
    raise ValueError(f)


# =====================================================================================================
# the model
def w_itree(t):
    k = t[0]
    if k == "v":
        return f"v {t[1]}"
    if k == "n":
        return f"n {q(t[1])}"
    if k == "g":
        return "g " + w_itree(t[1])
    return f"b {t[1]} {w_itree(t[2])} {w_itree(t[3])}"


def w_ptree(t):
    k = t[0]
    if k == "v":
        return f"v {t[1]}"
    if k == "b":
        return f"b {t[1]} {t[2]} {w_ptree(t[3])} {w_ptree(t[4])}"
    if k == "r":
        return f"r {t[1]} {w_ptree(t[2])} {q(t[3])}"
    if k == "l":
        return f"l {t[1]} {q(t[2])} {w_ptree(t[3])}"
    if k == "g":
        return "g " + w_ptree(t[1])
    return f"{k} {w_ptree(t[1])} {w_ptree(t[2])}"


def w_opd(v):
    if isinstance(v, (int, float)):
        return f"N {q(v)}"
    if isinstance(v[0], (list, tuple)):
        return f"A {ql(v[0])} {ql(v[1])}"
    return f"I {q(v[0])} {q(v[1])}"


_PV = None


def pvals():
    global _PV
    if _PV is None:
        from pyuncertainnumber.pba.params import Params
        _PV = [float(x) for x in Params.p_values]
    return _PV


def as_box(kind, v):
    if kind == "interval":
        return [v[0][0]] * STEPS, [v[1][-1]] * STEPS
    return v


def slice_levels(k):
    from pyuncertainnumber.pba.params import Params
    return [float(x) for x in np.linspace(Params.p_lboundary, Params.p_hboundary, k)]


def wire(spec, inp):
    """request line for the model, or None when this run is checked by the oracle only (also: a non-finite value of a
    transcendental map, which has no rational encoding)"""
    try:
        return _wire(spec, inp)
    except ValueError as e:
        if "non-finite" in str(e):
            return None
        raise


def _wire(spec, inp):
    f = spec["f"]
    if f == "ivl-bin":
        return f"bin {spec['op']} {w_opd(inp['x'])} {w_opd(inp['y'])}"
    if f == "ivl-un":
        fn = spec["fn"]
        if fn == "powk":
            return None
        if fn == "neg":
            return f"neg {w_opd(inp['x'])}"
        if fn == "recip":
            return f"bin div N 1 {w_opd(inp['x'])}"
        if fn in ("exp", "log", "sqrt"):
            lo, hi = inp["x"]
            if (fn == "log" and lo <= 0) or (fn == "sqrt" and lo < 0):
                return None
            with np.errstate(all="ignore"):
                return f"iun {q(UN_MONO[fn](float(lo)))} {q(UN_MONO[fn](float(hi)))}"
        return None
    if f == "itree":
        return f"itree {w_itree(spec['tree'])} {ql([b[0] for b in inp['box']])} {ql([b[1] for b in inp['box']])}"
    if f == "pb-raw":
        return f"raw {spec['rule']} {spec['op']} {wire_pb(*inp['x'])} {wire_pb(*inp['y'])}"
    if f == "pb-bin":
        y = as_box(spec.get("ykind", "pbox"), inp["y"])
        return f"bin {len(inp['x'][0])} {spec['op']} {spec['dep']} {wire_pb(*inp['x'])} {wire_pb(*y)}"
    if f == "pb-num":
        if spec["side"] == "R":
            return f"num {STEPS} {spec['op']} {wire_pb(*inp['x'])} {q(spec['c'])}"
        return f"rnum {STEPS} {spec['op']} {q(spec['c'])} {wire_pb(*inp['x'])}"
    if f == "pb-neg":
        return f"neg {STEPS} {wire_pb(*inp['x'])}"
    if f == "pb-recip":
        return f"recip {STEPS} {wire_pb(*inp['x'])}"
    if f == "pb-un":
        fn = spec["fn"]
        if fn not in UN_MONO:
            return None
        l, r = inp["x"]
        if (fn.endswith("log") and min(l) <= 0) or (fn.endswith("sqrt") and min(l) < 0):
            return None
        with np.errstate(all="ignore"):
            fl, fr_ = UN_MONO[fn](np.array(l, dtype=float)), UN_MONO[fn](np.array(r, dtype=float))
        return f"unary {STEPS} {ql(fl)} {ql(fr_)}"
    if f == "pb-agg":
        ops = [as_box(k, v) for k, v in zip(spec["kinds"], inp["ops"])]
        if all(k == "interval" for k in spec["kinds"]) and spec["api"] == "public" and spec["agg"] == "env":
            return None                       # all-Interval shortcut returns an Interval (oracle only)
        t = ("v", 0)
        for i in range(1, len(ops)):
            t = ("e" if spec["agg"] == "env" else "m", t, ("v", i))
        return f"ptree {STEPS} {w_ptree(t)} " + " ".join(wire_pb(*o) for o in ops)
    if f == "ptree":
        return f"ptree {STEPS} {w_ptree(spec['tree'])} " + " ".join(wire_pb(*v) for v in inp["vars"])
    if f == "stack":
        n = len(inp["lo"])
        w = spec["weights"]
        ws = [1 / n] * n if w is None else [float(x) for x in w]
        return f"stack {ql(pvals())} {ql(inp['lo'])} {ql(inp['hi'])} {ql(ws)}"
    if f == "dss":
        if spec["use"] not in ("to_pbox", "roundtrip"):
            return None
        return f"stack {ql(pvals())} {ql(inp['lo'])} {ql(inp['hi'])} {ql([float(x) for x in spec['masses']])}"
    if f == "cut":
        return f"cut {ql(pvals())} {wire_pb(*inp['x'])} {q(spec['alpha'])}"
    if f == "slice":
        if spec["strategy"] != "direct":
            return None
        vs = [as_box(k, v) for k, v in zip(spec["kinds"], inp["vars"])]
        n = spec["k"] ** len(vs)
        return (f"slice {ql(pvals())} {ql(slice_levels(spec['k']))} {q(1 / n)} {w_itree(spec['tree'])} "
                + " ".join(wire_pb(*v) for v in vs))
    if f == "b2b":
        if spec["strategy"] != "direct":
            return None
        return f"itree {w_itree(spec['tree'])} {ql([b[0] for b in inp['box']])} {ql([b[1] for b in inp['box']])}"
    if f == "imc":
        rows = inp.get("_levels")
        if spec["strategy"] != "direct" or not rows:
            return None
        vs = [as_box(k, v) for k, v in zip(spec["kinds"], inp["vars"])]
        return (f"imc {ql(pvals())} {q(1 / len(rows))} {len(rows)} " + " ".join(ql(r) for r in rows) + " "
                + w_itree(spec["tree"]) + " " + " ".join(wire_pb(*v) for v in vs))
    raise ValueError(f)


def parse_model(s):
    """('ok', [left texts], [right texts]) — exact rationals kept as the model printed them"""
    t = s.split()
    if t[0] == "err":
        return ("err", t[1], "")
    if t[0] == "ok":
        if t[1] == "I":
            return ("ok", [t[2]], [t[3]])
        if t[1] == "N":
            return ("ok", [t[2]], [t[2]])
        if t[1] == "A":
            return ("ok", strs(t[2]), strs(t[3]))
        if len(t) == 4 and not t[1].startswith("["):      # cut: index lo hi
            return ("ok", [t[2]], [t[3]])
        return ("ok", strs(t[1]), strs(t[2]))
    return ("bad", s, "")


def model_js(m):
    if m is None:
        return None
    if m[0] != "ok":
        return list(m)
    return pbx.js(("ok", [rat2float(x) for x in m[1]], [rat2float(x) for x in m[2]]))


def cum_ambiguous(spec, inp):
    """binary64 cumsum of the weights may decide a grid level the other way than the exact sum: such a
    stacking run is compared by the oracle only"""
    n = len(inp["lo"])
    w = spec.get("weights", spec.get("masses"))
    ws = np.repeat(1 / n, n) if w is None else np.array(w, dtype=float)
    eps = F(1, 2 ** 40)
    pv = [F(p) for p in pvals()]
    step = pv[1] - pv[0]
    for vals in (inp["lo"], inp["hi"]):
        order = np.argsort(np.array(vals, dtype=float), kind="stable")
        acc = F(0)
        for j in order:
            acc += F(float(ws[j]))
            k = int((acc - pv[0]) / step)
            for kk in (k - 1, k, k + 1):
                if 0 <= kk < len(pv) and abs(pv[kk] - acc) <= eps:
                    return True
    return False


# =====================================================================================================
# agreement and containment
def flat_mags(v, acc):
    if isinstance(v, dict):
        for k, x in v.items():
            if not k.startswith("_"):
                flat_mags(x, acc)
    elif isinstance(v, (list, tuple)):
        for x in v:
            flat_mags(x, acc)
    elif isinstance(v, (int, float)):
        acc.append(abs(float(v)))
    return acc


def tree_mag(t, leaf, mn):
    """upper bound of the magnitude of every intermediate value of a nested expression"""
    k = t[0]
    if k == "v":
        return leaf
    if k == "n":
        return abs(float(t[1]))
    if k == "g":
        return tree_mag(t[1], leaf, mn)
    if k in ("e", "m"):
        return max(tree_mag(t[1], leaf, mn), tree_mag(t[2], leaf, mn))
    if k == "b":
        op, a, b = (t[1], t[2], t[3]) if len(t) == 4 else (t[1], t[3], t[4])
        ma, mb = tree_mag(a, leaf, mn), tree_mag(b, leaf, mn)
    elif k == "r":
        op, ma, mb = t[1], tree_mag(t[2], leaf, mn), abs(float(t[3]))
    else:
        op, ma, mb = t[1], abs(float(t[2])), tree_mag(t[3], leaf, mn)
    if op in ("add", "sub"):
        return ma + mb
    if op == "mul":
        return 4 * ma * mb
    return 4 * ma / mn if mn > 0 else float("inf")


def mag_hint(spec, runs):
    """magnitude of the intermediates of the operation: rounding errors are relative to THIS, not to a result that
    may come from cancellation (and no absolute floor: operands of magnitude 1e-9 keep a relative tolerance)"""
    vals = flat_mags(runs, [])
    if "c" in spec:
        vals.append(abs(float(spec["c"])))
    leaf = max(vals + [0.0])
    nz = [v for v in vals if v > 0]
    mn = min(nz) if nz else 0.0
    f = spec["f"]
    try:
        if "tree" in spec:
            return min(tree_mag(spec["tree"], leaf, min(mn, 1.0)), 1e300)
        op = spec.get("op")
        if op in ("add", "sub"):
            return 2 * leaf
        if op in ("mul", "div"):
            # a single product / quotient is accurate relative to ITS OWN magnitude; only the Frechet product of
            # straddling operands (Balch: (x - x0)(y - y0) + ...) and the p-box quotient (1/y first) have intermediates
            if f in ("pb-bin", "pb-raw") and (spec.get("dep") == "f" or spec.get("rule") in ("frechet", "naive")):
                return min(4 * leaf * leaf if op == "mul" else (4 * leaf / mn if mn > 0 else 1e300), 1e300)
            return 0.0
        if spec.get("fn") in ("sin", "cos", "tan", "tanh", "pow2", "pow3"):
            return leaf
    except (OverflowError, ZeroDivisionError):
        return 1e300
    return 0.0


def agree(im, mo, exact, depth, hint=0.0):
    """exact: every entry of the real result IS the model's rational.  general: |impl - model| <= 4*depth*ulp(S),
    S the largest magnitude in either result or among the intermediates of the operation"""
    if im[0] != mo[0]:
        return False
    if im[0] == "err":
        return im[1] == mo[1]
    if im[0] != "ok" or len(im[1]) != len(mo[1]) or len(im[2]) != len(mo[2]):
        return False
    vi, vm = im[1] + im[2], mo[1] + mo[2]
    if any(math.isnan(a) or math.isinf(a) for a in vi):
        return False
    if exact:
        return all(q(a) == b for a, b in zip(vi, vm))
    fm = [rat2float(b) for b in vm]
    S = max([abs(a) for a in vi] + [abs(b) for b in fm] + [1e-300, hint])
    tol = 4 * depth * core.ulp(S)
    return all(abs(a - b) <= tol for a, b in zip(vi, fm))


def finite(res):
    return all(not (math.isinf(v) or math.isnan(v)) for v in res[1] + res[2])


def contained(a, b, exact, depth=16, hint=0.0):
    """real result a inside real result b, bound by bound (binary64 comparisons are exact); None or a witness"""
    if len(a[1]) != len(b[1]) or len(a[2]) != len(b[2]):
        return {"why": "length", "len": [len(a[1]), len(b[1])]}
    tol = 0.0
    if not exact:
        scale = max([abs(v) for v in a[1] + a[2] + b[1] + b[2]] + [1e-300, hint])
        tol = 4 * depth * core.ulp(scale)
    for k, (x, y) in enumerate(zip(a[1], b[1])):
        if not (y <= x or (tol and y - x <= tol)):
            return {"why": "left", "step": k, "narrow": x, "wide": y}
    for k, (x, y) in enumerate(zip(a[2], b[2])):
        if not (x <= y or (tol and x - y <= tol)):
            return {"why": "right", "step": k, "narrow": x, "wide": y}
    return None


def rat_le(s, t):
    """exact s <= t for two rationals given as text"""
    if s == t:
        return True
    fs, ft = rat2float(s), rat2float(t)
    if fs < ft and (ft - fs) > 1e-9 * max(abs(fs), abs(ft), 1e-300):
        return True
    if fs > ft and (fs - ft) > 1e-9 * max(abs(fs), abs(ft), 1e-300):
        return False
    return F(s) <= F(t)


def contained_model(a, b):
    """exact containment of two model results"""
    if len(a[1]) != len(b[1]) or len(a[2]) != len(b[2]):
        return {"why": "length", "len": [len(a[1]), len(b[1])]}
    for k, (x, y) in enumerate(zip(a[1], b[1])):
        if not rat_le(y, x):
            return {"why": "left", "step": k, "narrow": rat2float(x), "wide": rat2float(y)}
    for k, (x, y) in enumerate(zip(a[2], b[2])):
        if not rat_le(x, y):
            return {"why": "right", "step": k, "narrow": rat2float(x), "wide": rat2float(y)}
    return None


# =====================================================================================================
# domains: where the statement itself allows an exception / an unbounded result
def has0(v):
    """does the interval / p-box (l, r) / number contain 0"""
    if isinstance(v, (int, float)):
        return v == 0
    if isinstance(v[0], (list, tuple)):
        return min(v[0]) <= 0 <= max(v[1])
    return v[0] <= 0 <= v[1]


def tree_has(t, what):
    if t[0] in ("v", "n"):
        return False
    if t[0] == "b" and t[1] == "div" and "div" in what:
        return True
    if t[0] in ("r", "l") and t[1] == "div" and "div" in what:
        return True
    if t[0] == "m" and "imp" in what:
        return True
    return any(tree_has(c, what) for c in t[1:] if isinstance(c, (list, tuple)))


def in_domain(spec, inp):
    """is this run inside the domain of the operation (so that it has to return a result)"""
    f = spec["f"]
    if f == "ivl-bin":
        y = inp["y"]
        if spec["op"] == "div" and not isinstance(y, (int, float)) and isinstance(y[0], (list, tuple)):
            return not any(a <= 0 <= b for a, b in zip(y[0], y[1]))       # a vector divisor: element by element
        return not (spec["op"] == "div" and has0(y))
    if f == "ivl-un":
        if spec["fn"] == "powk":
            x = inp["x"]
            if spec["k"] >= 0:
                return True
            if isinstance(x[0], (list, tuple)):
                return not any(a <= 0 <= b for a, b in zip(x[0], x[1]))
            return not (x[0] <= 0 <= x[1])
        fn, (lo, hi) = spec["fn"], inp["x"]
        if fn == "log":
            return lo > 0
        if fn == "sqrt":
            return lo >= 0
        if fn == "recip":
            return not has0(inp["x"])
        return True
    if f in ("pb-bin", "pb-raw"):
        return not (spec["op"] == "div" and has0(inp["y"]))
    if f == "pb-num":
        if spec["op"] == "div":
            return spec["c"] != 0 if spec["side"] == "R" else not has0(inp["x"])
        return True
    if f == "pb-recip":
        return not has0(inp["x"])
    if f == "pb-un":
        fn = spec["fn"]
        if fn == "powk":
            return spec["k"] >= 0 or not has0(inp["x"])
        if fn.endswith("log"):
            return min(inp["x"][0]) > 0
        if fn.endswith("sqrt"):
            return min(inp["x"][0]) >= 0
        if fn.endswith("exp"):
            return max(inp["x"][1]) < 700          # binary64 overflow: exp gives inf, the constructor rejects inf - inf
        return True
    return True


# =====================================================================================================
# the dual statement with an exactly known sub-result: a point (precise) sub-box has the exact arithmetic value,
# which has to lie inside the result for the box.  Independent of the model (Fractions only).
def fexact(op, a, b):
    if op == "add":
        return a + b
    if op == "sub":
        return a - b
    if op == "mul":
        return a * b
    if b == 0:
        raise ZeroDivisionError
    return a / b


def tree_point(t, xs):
    """exact value of the expression at a point"""
    k = t[0]
    if k == "v":
        return xs[t[1]]
    if k == "n":
        return F(t[1])
    if k == "g":
        return -tree_point(t[1], xs)
    return fexact(t[1], tree_point(t[2], xs), tree_point(t[3], xs))


def tree_ivl_exact(t, box):
    """natural interval extension in exact arithmetic; None when a divisor contains zero"""
    k = t[0]
    if k == "v":
        return box[t[1]]
    if k == "n":
        return (F(t[1]), F(t[1]))
    if k == "g":
        a = tree_ivl_exact(t[1], box)
        return None if a is None else (-a[1], -a[0])
    a, b = tree_ivl_exact(t[2], box), tree_ivl_exact(t[3], box)
    if a is None or b is None:
        return None
    return pbx.ivl_hull(t[1], a[0], a[1], b[0], b[1])


def ginv_exact(vals, ws):
    """for every grid level p: the smallest value whose cumulated weight reaches p (the last value when none does);
    None where binary64 cumulation may decide the level the other way (within 2^-40)"""
    order = sorted(range(len(vals)), key=lambda j: vals[j])
    cums, acc = [], F(0)
    for j in order:
        acc += ws[j]
        cums.append((acc, vals[j]))
    eps = F(1, 2 ** 40)
    cs = [c for c, _ in cums]
    out = []
    import bisect
    for fp in pvals_F():
        i = bisect.bisect_left(cs, fp)          # first cum >= p
        near = (i < len(cs) and cs[i] - fp <= eps) or (i > 0 and fp - cs[i - 1] <= eps)
        if near:
            out.append(None)
        else:
            out.append(cums[i][1] if i < len(cs) else cums[-1][1])
    return out


_PVF = None


def pvals_F():
    global _PVF
    if _PVF is None:
        _PVF = [F(p) for p in pvals()]
    return _PVF


def pts_of(v, rng):
    """a few points of the interval [lo, hi] (exact)"""
    lo, hi = F(v[0]), F(v[1])
    return [lo, hi, (lo + hi) / 2, lo + (hi - lo) * F(rng.choice([1, 3, 5, 7]), 8)]


def inside(val, lo, hi, exact, scale, depth):
    if exact:
        return F(lo) <= val <= F(hi)
    return pbx.tol_le(F(lo), val, scale, depth) and pbx.tol_le(val, F(hi), scale, depth)


def selections_of(l, r, rng, k=2):
    """precise distributions inside the p-box (l, r): sorted selections of one value per step"""
    L, R = [F(v) for v in l], [F(v) for v in r]
    out = [L, R]
    for _ in range(k):
        out.append(sorted(rng.choice([a, b, (a + b) / 2]) for a, b in zip(L, R)))
    return out


def pairing(dep, n, rng):
    if dep == "p":
        return [list(range(n))]
    if dep == "o":
        return [list(range(n - 1, -1, -1))]
    perm = list(range(n))
    rng.shuffle(perm)
    return [list(range(n)), list(range(n - 1, -1, -1)), perm]


def sub_result_check(spec, inp, res, exact, depth, rng, hint=0.0):
    """None, or a witness that an exactly computed sub-result lies outside the real result"""
    f = spec["f"]
    scale = F(max([abs(v) for v in res[1] + res[2]] + [1e-300, hint]))
    if f == "ivl-bin":
        x, y, op = inp["x"], inp["y"], spec["op"]
        def elems(v):
            if isinstance(v, (int, float)):
                return None
            if isinstance(v[0], (list, tuple)):
                return [[a, b] for a, b in zip(v[0], v[1])]
            return [v]
        ex, ey = elems(x), elems(y)
        n = max(len(ex or [0]), len(ey or [0]))
        if len(res[1]) != n:
            return {"why": "shape", "len": len(res[1])}
        for i in range(n):
            px = [F(x)] if ex is None else pts_of(ex[i if len(ex) > 1 else 0], rng)
            py = [F(y)] if ey is None else pts_of(ey[i if len(ey) > 1 else 0], rng)
            for a in px:
                for b in py:
                    if op == "div" and b == 0:
                        continue
                    v = fexact(op, a, b)
                    if not inside(v, res[1][i], res[2][i], exact, scale, depth):
                        return {"why": "point", "element": i, "x": float(a), "y": float(b), "value": float(v),
                                "result": [res[1][i], res[2][i]]}
        return None
    if f == "ivl-un":
        fn = spec["fn"]
        g = {"neg": lambda a: -a, "abs": lambda a: abs(a), "pow2": lambda a: a * a, "pow3": lambda a: a * a * a,
             "recip": lambda a: 1 / a, "powk": lambda a: a ** int(spec.get("k", 1))}.get(fn)
        if g is None:
            return None
        x = inp["x"]
        elems = [[a, b] for a, b in zip(x[0], x[1])] if isinstance(x[0], (list, tuple)) else [x]
        if len(res[1]) != len(elems):
            return {"why": "shape", "len": len(res[1])}
        for i, e in enumerate(elems):
            for a in pts_of(e, rng):
                if (fn == "recip" or (fn == "powk" and spec["k"] < 0)) and a == 0:
                    continue
                v = g(a)
                if not inside(v, res[1][i], res[2][i], exact, scale, depth):
                    return {"why": "point", "element": i, "x": float(a), "value": float(v), "result": [res[1][i], res[2][i]]}
        return None
    if f == "pb-un" and spec["fn"] == "powk":
        k = int(spec["k"])
        x = inp["x"]
        RL, RR = [F(a) for a in res[1]], [F(a) for a in res[2]]
        near0 = sorted(min(max(F(0), F(a)), F(b)) for a, b in zip(x[0], x[1]))
        for sx in ([F(a) for a in x[0]], [F(a) for a in x[1]], near0):
            if k < 0 and any(a == 0 for a in sx):
                continue
            z = sorted(a ** k for a in sx)
            for j in range(len(z)):
                if not (pbx.tol_le(RL[j], z[j], scale, depth) and pbx.tol_le(z[j], RR[j], scale, depth)):
                    return {"why": "precise-sub-box", "step": j, "value": float(z[j]), "result": [res[1][j], res[2][j]]}
        return None
    if f in ("itree", "b2b"):
        if f == "b2b" and spec["strategy"] != "direct" and spec.get("repeated"):
            return None                      # vertex / tiled evaluation of a non-multilinear response may miss interior values
        box = inp["box"]
        cands = [pts_of(b, rng) for b in box]
        for _ in range(6):
            xs = [rng.choice(c) for c in cands]
            try:
                v = tree_point(spec["tree"], xs)
            except ZeroDivisionError:
                continue
            if not inside(v, res[1][0], res[2][0], exact, scale, depth):
                return {"why": "point", "x": [float(a) for a in xs], "value": float(v), "result": [res[1][0], res[2][0]]}
        return None
    if f in ("pb-raw", "pb-bin"):
        dep = spec.get("dep") or {"frechet": "f", "perfect": "p", "opposite": "o", "independent": "i", "naive": None}[spec["rule"]]
        if dep is None:
            return None
        x = inp["x"]
        y = as_box(spec.get("ykind", "pbox"), inp["y"]) if f == "pb-bin" else inp["y"]
        n = len(x[0])
        op = spec["op"]
        if f == "pb-raw" and op == "mul" and dep == "f" and not (min(x[0]) >= 0 and min(y[0]) >= 0):
            return None                      # the raw Frechet rule is only used on non-negative factors
        if dep == "i" and n > 8:
            return None
        # precise sub-boxes: (left, left), (right, right), (a mixed selection, another one)
        sel = lambda v: sorted(rng.choice([a, b]) for a, b in zip(v[0], v[1]))
        pairs = [(list(x[0]), list(y[0])), (list(x[1]), list(y[1])), (sel(x), sel(y)), (list(x[0]), list(y[1]))]
        if exact:
            conv, RL, RR = (lambda v: v), res[1], res[2]           # integer / dyadic data: binary64 + - * are exact
            fo = PYOPS[op]
            ok = lambda v, lo, hi: lo <= v <= hi
        else:
            conv = lambda v: [F(a) for a in v]
            RL, RR = [F(a) for a in res[1]], [F(a) for a in res[2]]
            fo = lambda a, b: fexact(op, a, b)
            ok = lambda v, lo, hi: pbx.tol_le(lo, v, scale, depth) and pbx.tol_le(v, hi, scale, depth)
        for sx, sy in pairs:
            if op == "div" and any(v == 0 for v in sy):
                continue
            sx, sy = conv(sx), conv(sy)
            if dep == "i":
                z = sorted(fo(a, b) for a in sx for b in sy)
                idx = list(range(n * n)) if len(RL) == n * n else ([k * (n + 1) for k in range(n)] if n > 1 else [0])
                zs = [[z[j] for j in idx]]
            else:
                zs = [sorted(fo(sx[m], sy[sg[m]]) for m in range(n)) for sg in pairing(dep, n, rng)]
            for z in zs:
                for k in range(len(z)):
                    if not ok(z[k], RL[k], RR[k]):
                        return {"why": "precise-sub-box", "dep": dep, "step": k, "value": float(z[k]), "result": [res[1][k], res[2][k]]}
        return None
    if f in ("pb-num", "pb-neg"):
        x = inp["x"]
        n = len(x[0])
        RL, RR = [F(a) for a in res[1]], [F(a) for a in res[2]]
        for sx in ([F(a) for a in x[0]], [F(a) for a in x[1]]):
            if f == "pb-neg":
                z = sorted(-a for a in sx)
            else:
                c, op = F(spec["c"]), spec["op"]
                if op == "div" and ((spec["side"] == "R" and c == 0) or (spec["side"] == "L" and any(a == 0 for a in sx))):
                    continue
                z = sorted((fexact(op, a, c) if spec["side"] == "R" else fexact(op, c, a)) for a in sx)
            for k in range(n):
                if not (RL[k] <= z[k] <= RR[k] if exact else (pbx.tol_le(RL[k], z[k], scale, depth) and pbx.tol_le(z[k], RR[k], scale, depth))):
                    return {"why": "precise-sub-box", "step": k, "value": float(z[k]), "result": [res[1][k], res[2][k]]}
        return None
    if f == "pb-agg":
        ops = [as_box(k, v) for k, v in zip(spec["kinds"], inp["ops"])]
        if len(res[1]) != len(ops[0][0]):
            ops = [([min(o[0])], [max(o[1])]) for o in ops]      # all-Interval envelope returns an Interval
        for i, o in enumerate(ops):
            a = ("ok", list(o[0]), list(o[1]))
            w = contained(a, res, True) if spec["agg"] == "env" else contained(res, a, True)
            if w is not None:
                return {"why": "operand-" + ("not-inside-envelope" if spec["agg"] == "env" else "does-not-contain-imposition"),
                        "operand": i, **w}
        return None
    if f == "stack":
        n = len(inp["lo"])
        w = spec["weights"]
        ws = [F(1 / n)] * n if w is None else [F(float(v)) for v in w]
        for side, vals in ((1, inp["lo"]), (2, inp["hi"])):
            exp = ginv_exact([F(v) for v in vals], ws)
            for k, e in enumerate(exp):
                if e is not None and F(res[side][k]) != e:
                    return {"why": "generalised-inverse", "bound": "left" if side == 1 else "right", "step": k,
                            "expected": float(e), "result": res[side][k]}
        return None
    if f == "dss":
        ws = [F(float(v)) for v in spec["masses"]]
        el = ginv_exact([F(v) for v in inp["lo"]], ws)
        er = ginv_exact([F(v) for v in inp["hi"]], ws)
        if spec["use"] in ("to_pbox", "roundtrip"):
            for side, exp in ((1, el), (2, er)):
                for k, e in enumerate(exp):
                    if e is not None and F(res[side][k]) != e:
                        return {"why": "generalised-inverse", "bound": "left" if side == 1 else "right", "step": k,
                                "expected": float(e), "result": res[side][k]}
            return None
        if any(e is None for e in el + er):
            return None
        ref = guarded(lambda: dss_run(spec, inp, ([float(e) for e in el], [float(e) for e in er])))
        if ref[0] != "ok":
            return {"why": "dss-operand-vs-its-pbox", "reference": list(ref)}
        for side in (1, 2):
            for k, (a, b) in enumerate(zip(res[side], ref[side])):
                if not (pbx.tol_le(F(a), F(b), scale, depth) and pbx.tol_le(F(b), F(a), scale, depth)):
                    return {"why": "dss-operand-vs-its-pbox", "bound": "left" if side == 1 else "right", "step": k,
                            "with_dss": a, "with_its_exact_pbox": b}
        return None
    if f in ("slice", "imc"):
        if spec["strategy"] != "direct" and spec.get("repeated"):
            return None
        vs = [as_box(k, v) for k, v in zip(spec["kinds"], inp["vars"])]
        pv = pvals_F()

        def cut_index(a):
            d = [abs(p - F(a)) for p in pv]
            return d.index(min(d))
        if f == "slice":
            cuts = [cut_index(a) for a in slice_levels(spec["k"])]
            rows = list(itertools.product(cuts, repeat=len(vs)))
        else:
            if not inp.get("_levels"):
                return None
            rows = [[cut_index(a) for a in row] for row in inp["_levels"]]
        los, his = [], []
        for row in rows:
            box = [(F(v[0][i]), F(v[1][i])) for v, i in zip(vs, row)]
            im = tree_ivl_exact(spec["tree"], box)
            if im is None:
                return None
            los.append(im[0]); his.append(im[1])
        n = len(los)
        ws = [F(1 / n)] * n
        for side, vals in ((1, los), (2, his)):
            exp = ginv_exact(vals, ws)
            for k, e in enumerate(exp):
                if e is not None and not (pbx.tol_le(e, F(res[side][k]), scale, depth) and pbx.tol_le(F(res[side][k]), e, scale, depth)):
                    return {"why": "stack-of-cut-images", "bound": "left" if side == 1 else "right", "step": k,
                            "expected": float(e), "result": res[side][k]}
        return None
    if f == "cut":
        pv = pvals_F()
        a = F(spec["alpha"])
        d = [abs(p - a) for p in pv]
        m = min(d)
        ok_idx = [i for i, v in enumerate(d) if v - m <= F(1, 10 ** 15)]
        x = inp["x"]
        if not any(res[1][0] == x[0][i] and res[2][0] == x[1][i] for i in ok_idx):
            return {"why": "cut-index", "expected_index": ok_idx[0], "expected": [x[0][ok_idx[0]], x[1][ok_idx[0]]],
                    "result": [res[1][0], res[2][0]]}
        return None
    return None


# =====================================================================================================
# generators of nested operands
INC_I = [0, 0, 1, 1, 2, 4, 9]


def widen_ivl(rng, v, dyadic=True):
    lo, hi = v
    pick = (lambda: rng.choice([0, 0, 0.25, 0.5, 1, 3, 10])) if dyadic else (lambda: rng.choice([0.0, rng.uniform(0, 1), rng.uniform(0, 8)]))
    m = rng.random()
    if not dyadic and m < 0.25:
        # thin widening: a few parts in 1e9 of the magnitude (or of the width)
        e = max(abs(lo), abs(hi), hi - lo) * 10 ** (-rng.uniform(6, 9)) + 1e-300
        return [lo - e * rng.choice([0, 1, 1]), hi + e * rng.choice([0, 1, 1])]
    if hi < 0 and m < 0.2:
        return [lo - rng.choice([0, 0, 1]), 0.0]
    if lo > 0 and m < 0.2:
        return [0.0, hi + rng.choice([0, 0, 1])]
    if m < 0.15:
        return [lo - pick(), hi]
    if m < 0.3:
        return [lo, hi + pick()]
    return [lo - pick(), hi + pick()]


def narrow_ivl(rng, v, dyadic=True):
    lo, hi = v
    m = rng.random()
    if m < 0.3:
        return [lo, lo]
    if m < 0.6:
        return [hi, hi]
    if m < 0.8:
        c = (lo + hi) / 2
        return [c, c]
    a = lo + (hi - lo) * rng.choice([0, 0.25, 0.5])
    b = hi - (hi - lo) * rng.choice([0, 0.125, 0.25])
    return [a, b]


EXTREME = [1e-20, 2.0 ** -60, 1.380649e-23, 1e18, -1e-20, -1e18, 3e15]


def rand_ivl(rng, sign=None, dyadic=True):
    if not dyadic and sign is None and rng.random() < 0.2:
        # theme C: thin but not degenerate (relative width 1e-9 .. 1e-5), also at tiny magnitudes
        a = rng.choice([rng.uniform(-8, 8), rng.uniform(-8, 8), 2e-9, -3e-9, 1e6 + rng.random()])
        w = abs(a) * 10 ** (-rng.uniform(5, 9))
        return [a, a + w] if rng.random() < 0.8 else [2e-9, 8e-9]
    if dyadic:
        a = rng.choice([-7, -3, -1.5, -1, -0.5, 0, 0.25, 1, 2, 5.5])
        w = rng.choice([0, 0.5, 1, 2, 3, 8])
    else:
        a = rng.uniform(-8, 8)
        w = rng.choice([0.0, rng.uniform(0, 1), rng.uniform(0, 10)])
    lo, hi = a, a + w
    if sign == "pos" and lo <= 0:
        lo, hi = lo - a + 0.5, hi - a + 0.5
    if sign == "neg" and hi >= 0:
        lo, hi = lo - hi - 0.5, -0.5
    return [lo, hi]


def pair_ivl(rng, sign=None, dyadic=True):
    """(X, X') with X within X'"""
    v = rand_ivl(rng, sign, dyadic)
    if rng.random() < 0.6:
        w = widen_ivl(rng, v, dyadic)
        if sign == "pos" and w[0] <= 0:
            w[0] = v[0]
        if sign == "neg" and w[1] >= 0:
            w[1] = v[1]
        return v, w
    return narrow_ivl(rng, v, dyadic), v


def widen_box(rng, l, r, integer=True, keep_sign=False):
    """a p-box containing (l, r): lower left, higher right, re-sorted"""
    n = len(l)
    integer = {True: "int", False: "float"}.get(integer, integer)
    inc = {"int": (lambda: rng.choice(INC_I)), "dyadic": (lambda: rng.choice([0, 0, 0.125, 0.5, 1, 2.5])),
           "float": (lambda: rng.choice([0.0, 0.0, rng.uniform(0, 0.5), rng.uniform(0, 4)]))}[integer]
    mode = rng.choice(["rand", "rand", "shift", "left", "right", "support", "tail", "big", "first", "zero", "zero"])
    if integer == "float" and rng.random() < 0.3:
        mode = "thin"
    l2, r2 = list(l), list(r)
    if mode == "zero" and not (max(r) < 0 or min(l) > 0):
        mode = "rand"
    if mode == "rand":
        l2 = [a - inc() for a in l]
        r2 = [a + inc() for a in r]
    elif mode == "shift":
        c1, c2 = inc(), inc()
        l2, r2 = [a - c1 for a in l], [a + c2 for a in r]
    elif mode == "left":
        l2 = [a - inc() for a in l]
    elif mode == "right":
        r2 = [a + inc() for a in r]
    elif mode == "support":
        l2, r2 = [min(l)] * n, [max(r)] * n
    elif mode == "thin":
        # widen by a few parts in 1e9 of the magnitude: code that compares with np.isclose / allclose sees "the same" box
        e = max(max(abs(v) for v in l + r), 1e-300) * 10 ** (-rng.uniform(6, 9))
        l2 = [a - e * rng.choice([0.0, 0.5, 1.0]) for a in l]
        r2 = [a + e * rng.choice([0.0, 0.5, 1.0]) for a in r]
    elif mode == "zero":
        # widen up to zero exactly: a negative box gets hi == 0, a positive one lo == 0 (touching, not straddling)
        k = rng.choice([1, 1, 2, n // 2 + 1, n])
        k = max(1, min(k, n))
        if max(r) < 0:
            r2 = r2[: n - k] + [0] * k
            if rng.random() < 0.3:
                l2 = [a - inc() for a in l2]
        else:
            l2 = [0] * k + l2[k:]
            if rng.random() < 0.3:
                r2 = [a + inc() for a in r2]
    elif mode == "first":
        # the smallest widening: only the first left step and / or the last right step move (possibly across zero)
        c1 = rng.choice([1, 2, 30]) if integer != "float" else rng.uniform(0.1, 30)
        if rng.random() < 0.6:
            l2[0] = l2[0] - c1
        else:
            r2[-1] = r2[-1] + c1
    elif mode == "tail":
        k = rng.randrange(1, n + 1)
        c1, c2 = inc(), inc()
        l2 = [a - c1 if i < k else a for i, a in enumerate(l)]
        r2 = [a + c2 if i >= n - k else a for i, a in enumerate(r)]
    else:
        c = rng.choice([5, 20, 50]) if integer != "float" else rng.uniform(3, 40)
        if rng.random() < 0.5:
            l2 = [a - c for a in l]
        else:
            r2 = [a + c for a in r]
    l2, r2 = sorted(l2), sorted(r2)
    if keep_sign:
        if min(l) > 0 and min(l2) <= 0:
            l2 = list(l)
        if max(r) < 0 and max(r2) >= 0:
            r2 = list(r)
    return l2, r2


def narrow_box(rng, l, r, integer=True):
    """a p-box inside (l, r), down to a precise distribution"""
    n = len(l)
    integer = integer is True or integer == "int"
    mode = rng.choice(["left", "right", "mid", "select", "shrink"])
    if mode == "left":
        return list(l), list(l)
    if mode == "right":
        return list(r), list(r)
    if mode == "mid":
        m = [(a + b) // 2 if integer else (a + b) / 2 for a, b in zip(l, r)]
        m = sorted(m)
        return m, list(m)
    if mode == "select":
        s = sorted(rng.choice([a, b]) for a, b in zip(l, r))
        return s, list(s)
    l2 = sorted(rng.choice([a, a, (a + b) // 2 if integer else (a + b) / 2]) for a, b in zip(l, r))
    r2 = sorted(rng.choice([b, b, (a + b) // 2 if integer else (a + b) / 2]) for a, b in zip(l, r))
    r2 = [max(a, b) for a, b in zip(l2, r2)]
    return l2, sorted(r2)


def pick_general(rng, p_dyadic=0.22, p_float=0.08):
    """which kind of 200-step base box: integer steps (exact), library box on the 2^-10 grid, library box as is"""
    u = rng.random()
    return True if u < p_float else ("dyadic" if u < p_float + p_dyadic else False)


def grid_of(general):
    return {False: "int", "dyadic": "dyadic", True: "float"}[general]


def is_sub(x, x2):
    return all(b <= a for a, b in zip(x[0], x2[0])) and all(a <= b for a, b in zip(x[1], x2[1])) and len(x[0]) == len(x2[0])


def pair_box(rng, base, integer=True, keep_sign=False):
    """(X, X') with X within X' from a well-formed base box"""
    l, r = base
    if rng.random() < 0.65:
        x2 = widen_box(rng, l, r, integer, keep_sign)
        x = (list(l), list(r))
    else:
        x = narrow_box(rng, l, r, integer)
        x2 = (list(l), list(r))
    assert is_sub(x, x2), "generator produced a non-nested pair"
    return (list(x[0]), list(x[1])), (list(x2[0]), list(x2[1]))


def dyadic_box(l, r, bits=10):
    """round a float box to the grid 2^-bits (monotone, so sortedness and left <= right survive)"""
    s = float(2 ** bits)
    return [round(v * s) / s for v in l], [round(v * s) / s for v in r]


def shaped_box200(rng, n=STEPS):
    """lesson H: one flat bound and one varying bound (nested focal elements sharing an endpoint); step-shaped bounds
    whose steps are NOT aligned between left and right (masses like 0.3/0.3/0.4 against 0.5/0.5), flat runs in the
    interior; exactly one zero-width step"""
    def steps(k, lo, hi):
        cuts = sorted(rng.sample(range(1, n), k - 1)) if k > 1 else []
        vals = sorted(rng.randint(lo, hi) for _ in range(k))
        out, seg = [], 0
        for i in range(n):
            while seg < len(cuts) and i >= cuts[seg]:
                seg += 1
            out.append(vals[seg])
        return out
    kind = rng.choice(["flat-left", "flat-right", "unaligned", "unaligned", "one-point"])
    if kind == "flat-left":
        l = [rng.randint(-20, 5)] * n
        r = steps(rng.choice([2, 3, 5, 9]), l[0], l[0] + 25)
    elif kind == "flat-right":
        r = [rng.randint(-5, 20)] * n
        l = steps(rng.choice([2, 3, 5, 9]), r[0] - 25, r[0])
    elif kind == "unaligned":
        l = steps(rng.choice([2, 3, 4]), -20, 10)
        r = steps(rng.choice([2, 3, 5]), -15, 25)
        r = [max(a, b) for a, b in zip(l, r)]
        r = [int(v) for v in np.maximum.accumulate(r)]
    else:
        l = steps(3, -10, 10)
        r = [a + 3 for a in l]
        j = rng.randrange(n)
        r = [int(v) for v in np.maximum.accumulate([a if i == j else b for i, (a, b) in enumerate(zip(l, r))])]
        r = [max(a, b) for a, b in zip(l, r)]
    return l, r


def base_box(rng, n, sign=None, general=False):
    """general: False = integer step box, "dyadic" = library box rounded to 2^-10, True = library box as is"""
    if n == STEPS:
        if general is True and sign is None and rng.random() < 0.25:
            # theme C: a thin but not degenerate p-box (relative width 1e-9 .. 1e-5), also at a tiny magnitude
            c0 = rng.choice([rng.uniform(-8, 8), 5e-9, 1e6])
            sc = abs(c0) * 10 ** (-rng.uniform(5, 8))
            l = sorted(c0 + sc * rng.random() for _ in range(n))
            r = [a + sc * rng.choice([0.0, 0.5, 1.0]) for a in l]
            r = [float(x) for x in np.maximum.accumulate(r)]
            return l, r
        if general:
            l, r, _ = pbx.lib_box200(rng, sign)
            if general == "dyadic":
                l, r = dyadic_box(l, r)
                if sign == "pos" and min(l) <= 0:
                    l, r = [v + 0.5 for v in l], [v + 0.5 for v in r]
                if sign == "neg" and max(r) >= 0:
                    l, r = [v - 0.5 for v in l], [v - 0.5 for v in r]
            return l, r
        if rng.random() < 0.3:
            l, r = shaped_box200(rng)
            l, r = pbx.shift_sign(l, r, sign)
        else:
            l, r = pbx.int_box200(rng, sign)
        return [int(v) for v in l], [int(v) for v in r]
    l, r = pbx.rand_small_box(rng, n, sign=sign)
    return list(l), list(r)


def rand_itree(rng, depth, nvars, div=False, once=None):
    """random expression; `once`: list of variables still unused (every variable at most once)"""
    if depth == 0 or (depth < 3 and rng.random() < 0.15):
        if once is not None:
            if once and rng.random() < 0.8:
                return ["v", once.pop(rng.randrange(len(once)))]
            return ["n", rng.choice([-2, -1, 0.5, 1, 3])]
        if rng.random() < 0.8:
            return ["v", rng.randrange(nvars)]
        return ["n", rng.choice([-2, -1, 0.5, 1, 3, 3, 1e-20, 1e18])]
    if rng.random() < 0.1:
        return ["g", rand_itree(rng, depth - 1, nvars, div, once)]
    ops = ["add", "sub", "mul", "mul"] + (["div"] if div else [])
    return ["b", rng.choice(ops), rand_itree(rng, depth - 1, nvars, div, once), rand_itree(rng, depth - 1, nvars, div, once)]


def tree_extreme(t):
    """does the expression contain a constant whose products are not exact in binary64"""
    if t[0] == "n":
        return not (abs(float(t[1])) <= 64 and float(t[1]) * 8 == int(float(t[1]) * 8))
    return any(tree_extreme(c) for c in t[1:] if isinstance(c, (list, tuple)))


def tree_depth(t):
    if t[0] in ("v", "n"):
        return 0
    return 1 + max(tree_depth(c) for c in t[1:] if isinstance(c, (list, tuple)))


def tree_vars(t, acc=None):
    acc = [] if acc is None else acc
    if t[0] == "v":
        acc.append(t[1])
    else:
        for c in t[1:]:
            if isinstance(c, (list, tuple)):
                tree_vars(c, acc)
    return acc


def rand_ptree(rng, depth, nvars, exact):
    if depth == 0 or (depth < 3 and rng.random() < 0.15):
        return ["v", rng.randrange(nvars)]
    m = rng.random()
    sub = lambda: rand_ptree(rng, depth - 1, nvars, exact)
    ops = ["add", "sub", "mul"] if exact else ["add", "sub", "mul", "div"]
    if m < 0.55:
        return ["b", rng.choice(ops), rng.choice("fpofpofpoi" if depth < 3 else "fpo"), sub(), sub()]
    if m < 0.68:
        return ["r", rng.choice(["add", "sub", "mul"]), sub(), rng.choice([-2, -1, 0, 1, 3])]
    if m < 0.78:
        return ["l", rng.choice(["add", "sub", "mul"]), rng.choice([-2, -1, 0, 1, 3]), sub()]
    if m < 0.86:
        return ["g", sub()]
    if m < 0.95:
        return ["e", sub(), sub()]
    return ["m", sub(), sub()]


def monotone_tree(rng, nvars):
    """coordinate-wise monotone on positive boxes, every variable once: + and * of positive variables, minus a variable"""
    vs = list(range(nvars))
    rng.shuffle(vs)
    t = ["v", vs[0]]
    for v in vs[1:]:
        t = ["b", rng.choice(["add", "mul", "sub", "div"]), t, ["v", v]]
    return t


# =====================================================================================================
# case list
def gen_cases(ctx):
    rng = ctx.rng
    S = ctx.scale
    cases = []

    SCALES = [2.0 ** -70, 2.0 ** -40, 2.0 ** -30, 2.0 ** 36, 2.0 ** 60]
    SCALABLE = ("ivl-bin", "pb-bin", "pb-raw", "pb-agg", "stack", "cut", "pb-neg", "pb-recip", "pb-num")

    def scaled(v, sc):
        if isinstance(v, dict):
            return {k_: (scaled(x_, sc) if not k_.startswith("_") else x_) for k_, x_ in v.items()}
        if isinstance(v, (list, tuple)):
            return [scaled(x_, sc) for x_ in v]
        return v * sc

    def add(stream, spec, runs, exact, nontriv=True):
        if spec["f"] != "pb-raw" and "via" not in spec and rng.random() < 0.12:
            spec["via"] = rng.choice(["deepcopy", "deepcopy", "pickle", "copy"])
        if stream not in ("extreme-const", "int-dtype", "pb-raw-thin") and rng.random() < 0.07 and (
                spec["f"] in SCALABLE or (spec["f"] == "ivl-un" and spec.get("fn") in ("neg", "abs", "recip"))):
            # practice J: the same case at a tiny / huge power-of-two scale (exactness of integer and dyadic data is kept)
            sc = rng.choice(SCALES)
            if not (spec["f"] == "pb-num" and spec["op"] in ("mul", "div")):
                if "c" in spec:
                    spec = {**spec, "c": spec["c"] * sc}
            runs = [scaled(r_, sc) for r_ in runs]
            spec = {**spec, "scale": sc}
            stream = stream + "@scaled"
        if spec.get("bare") and spec.get("dep", "f") != "f":
            spec["ambient"] = spec["dep"]              # infix operator inside `with dependency(d)` == the named method with d
        elif "ambient" not in spec and spec["f"] in ("pb-bin", "ptree", "dss", "pb-agg", "pb-num", "pb-neg", "pb-recip", "pb-un") \
                and not spec.get("bare") and spec.get("use") != "rbin" and rng.random() < 0.25:
            # standing practice: explicit-dependency calls INSIDE a `with pba.dependency(d)` block of every code
            spec["ambient"] = rng.choice("fpoi")
        if spec["f"] != "imc" and rng.random() < 0.08:
            spec["fpmode"] = rng.choice(["raise", "warn-error"])     # kind P: same value or the escalation propagates
        if spec["f"] in ("pb-bin", "pb-num", "pb-agg", "pb-neg", "pb-recip", "cut", "ptree") and rng.random() < 0.1:
            spec["mutate"] = True                                    # kind Q: the caller overwrites its buffers after the call
            spec["rep"] = "float"
        if "rep" not in spec and spec["f"] != "pb-raw":
            # theme B: the same numbers as float arrays (keywords), int64 arrays / Python ints, Python lists, positional arguments
            spec["rep"] = rng.choice(["float"] * 11 + ["int"] * 4 + ["list"] * 2 + ["pos"] * 3 +
                                     (["f32", "longdouble"] if spec["f"] in ("pb-bin", "pb-num", "pb-agg", "pb-neg", "cut") else []))
        cases.append({"stream": stream, "spec": spec, "runs": runs, "exact": exact, "nontrivial": nontriv})

    # ---- 1. scalar / vector intervals: one operator
    for _ in range(S(500, 7000)):
        op = rng.choice(OPS4)
        form = rng.choice(["II", "II", "IN", "NI", "AA", "AI", "IA"])
        dy = rng.random() < 0.7
        exact = dy and op != "div"
        klen = rng.choice([2, 3, 5])
        def one(kind):
            if kind == "N":
                c = rng.choice([-2.5, -1, 0, 0.5, 3]) if dy else (rng.choice(EXTREME) if rng.random() < 0.3 else rng.uniform(-4, 4))
                return c, c
            if kind == "I":
                return pair_ivl(rng, None, dy)
            k = klen
            ps = [pair_ivl(rng, None, dy) for _ in range(k)]
            return [[p[0][0] for p in ps], [p[0][1] for p in ps]], [[p[1][0] for p in ps], [p[1][1] for p in ps]]
        x, x2 = one(form[0])
        y, y2 = one(form[1])
        which = rng.choice(["x", "y", "both"])
        if which == "x":
            y2 = y
        elif which == "y":
            x2 = x
        add("ivl-bin", {"f": "ivl-bin", "op": op, "form": form, "widened": which},
            [{"x": x, "y": y}, {"x": x2, "y": y2}], exact, nontriv=(x != x2 or y != y2))
    # ---- 1b. interval vectors whose elements enumerate every pair of sign classes (each mask of the vector branches
    #           of multiply / divide is exercised in every case), scalar against vector as well
    def class_ivl(cls, dy):
        m = rng.choice([0.5, 1, 2, 3.5]) if dy else rng.uniform(0.2, 4)
        w = rng.choice([0, 0.5, 1, 2]) if dy else rng.uniform(0, 3)
        if cls == "pos":
            v = [m, m + w]
        elif cls == "neg":
            v = [-m - w, -m]
        elif cls == "pos0":
            v = [0.0, m]
        elif cls == "neg0":
            v = [-m, 0.0]
        else:
            v = [-m, w + 0.5]
        if rng.random() < 0.6:
            w2 = widen_ivl(rng, v, dy)
            if cls in ("pos", "neg"):           # stay a valid divisor
                w2 = [w2[0] if w2[0] * v[0] > 0 else v[0], w2[1] if w2[1] * v[1] > 0 else v[1]]
            return v, w2
        return narrow_ivl(rng, v, dy), v
    for op in OPS4:
        ycls = ["pos", "neg"] if op == "div" else ["pos", "neg", "str", "pos0", "neg0"]
        xcls = ["pos", "neg", "str", "pos0", "neg0"]
        for form in ("AA", "AI", "IA"):
            for rep_ in range(S(2, 12)):
                dy = rng.random() < 0.6
                pairs = [(a, b) for a in xcls for b in ycls]
                if form == "AA":
                    xs = [class_ivl(a, dy) for a, _ in pairs]
                    ys = [class_ivl(b, dy) for _, b in pairs]
                elif form == "AI":
                    xs = [class_ivl(a, dy) for a in xcls]
                    ys = class_ivl(rng.choice(ycls), dy)
                else:
                    xs = class_ivl(rng.choice(xcls), dy)
                    ys = [class_ivl(b, dy) for b in ycls]
                vec = lambda ps, k: [[p_[k][0] for p_ in ps], [p_[k][1] for p_ in ps]]
                x, x2 = (vec(xs, 0), vec(xs, 1)) if form[0] == "A" else xs
                y, y2 = (vec(ys, 0), vec(ys, 1)) if form[1] == "A" else ys
                which = rng.choice(["x", "y", "both"])
                if which == "x":
                    y2 = y
                elif which == "y":
                    x2 = x
                add("ivl-vec-classes", {"f": "ivl-bin", "op": op, "form": form, "widened": which},
                    [{"x": x, "y": y}, {"x": x2, "y": y2}], exact=(dy and op != "div"), nontriv=(x != x2 or y != y2))
    # ---- 2. unary maps of an interval
    for _ in range(S(400, 6000)):
        fn = rng.choice(["exp", "log", "sqrt", "abs", "pow2", "pow3", "tanh", "neg", "recip", "sin", "cos", "tan", "powk", "powk"])
        dy = rng.random() < 0.6
        sign = "pos" if fn in ("log", "sqrt") and rng.random() < 0.8 else None
        x, x2 = pair_ivl(rng, sign, dy)
        sp = {"f": "ivl-un", "fn": fn}
        if fn == "powk":
            sp["k"] = rng.choice([-4, -3, -2, -1, 0, 1, 2, 3, 4, 5])
        add("ivl-un", sp, [{"x": x}, {"x": x2}], exact=(dy and fn in ("abs", "pow2", "pow3", "neg")),
            nontriv=(x != x2))
    # ---- 2b. lesson G: integer powers, the negative ones k in {-1,-2,-3,-4} in particular, of intervals, interval vectors
    #           and p-boxes; the contained operand is one-signed, the containing one one-signed too, or touching zero, or
    #           with zero in its interior (then the call has to raise: a pole inside); both generation orders
    def pole_pair(dy, cross):
        m = rng.choice([0.5, 1, 2]) if dy else rng.uniform(0.3, 3)
        w = rng.choice([0, 0.5, 1, 2]) if dy else rng.uniform(0, 3)
        sgn = rng.choice([1, -1])
        v = [m, m + w] if sgn > 0 else [-m - w, -m]
        if cross == "same":
            e1, e2 = (rng.choice([0, 0.25, m / 2]), rng.choice([0, 1, 3]))
            w2 = [v[0] - e1, v[1] + e2] if sgn > 0 else [v[0] - e2, v[1] + e1]
        elif cross == "touch":
            w2 = [0.0, v[1] + rng.choice([0, 1])] if sgn > 0 else [v[0] - rng.choice([0, 1]), 0.0]
        else:
            c = rng.choice([0.5, 2, 5]) if dy else rng.uniform(0.1, 5)
            w2 = [-c, v[1] + rng.choice([0, 1])] if sgn > 0 else [v[0] - rng.choice([0, 1]), c]
        if rng.random() < 0.3:
            v = [v[0], v[0]] if rng.random() < 0.5 else [v[1], v[1]]
        return v, w2
    KTYPES = ["int", "int", "int", "npint", "float", "npfloat", "npf32", "fraction"]
    for k in (-1, -2, -3, -4, 2, 3, 4, 5):
        for cross in ("same", "touch", "inside"):
            for kind in ("scalar", "vector", "pbox"):
                for rep_ in range(S(2, 20)):
                    dy = rng.random() < 0.6
                    if kind == "scalar":
                        x, x2 = pole_pair(dy, cross)
                        add("int-powers", {"f": "ivl-un", "fn": "powk", "k": k, "cross": cross, "ktype": rng.choice(KTYPES)}, [{"x": x}, {"x": x2}], False, nontriv=(x != x2))
                    elif kind == "vector":
                        ps = [pole_pair(dy, "same") for _ in range(3)] + [pole_pair(dy, cross)]
                        rng.shuffle(ps)
                        x = [[p_[0][0] for p_ in ps], [p_[0][1] for p_ in ps]]
                        x2 = [[p_[1][0] for p_ in ps], [p_[1][1] for p_ in ps]]
                        add("int-powers", {"f": "ivl-un", "fn": "powk", "k": k, "cross": cross}, [{"x": x}, {"x": x2}], False, nontriv=(x != x2))
                    else:
                        general = pick_general(rng, 0.25, 0.1)
                        grid = grid_of(general)
                        base = base_box(rng, STEPS, rng.choice(["pos", "neg"]), general)
                        if cross == "same":
                            bx, bx2 = pair_box(rng, base, grid, keep_sign=True)
                        else:
                            bx = (list(base[0]), list(base[1])) if rng.random() < 0.6 else narrow_box(rng, base[0], base[1], grid)
                            kk = rng.choice([1, 3, STEPS // 2, STEPS])
                            if min(base[0]) > 0:
                                edge = 0 if cross == "touch" else -rng.choice([1, 3])
                                bx2 = ([edge] * kk + list(base[0][kk:]), list(base[1]))
                            else:
                                edge = 0 if cross == "touch" else rng.choice([1, 3])
                                bx2 = (list(base[0]), list(base[1][: STEPS - kk]) + [edge] * kk)
                            bx, bx2 = (list(bx[0]), list(bx[1])), (sorted(bx2[0]), sorted(bx2[1]))
                            if not is_sub(bx, bx2):
                                continue
                        add("int-powers", {"f": "pb-un", "fn": "powk", "k": k, "cross": cross, "ktype": rng.choice(KTYPES)}, [{"x": bx}, {"x": bx2}], False, nontriv=(bx != bx2))
    # domain edges of sqrt / log: the wider operand starts just below the domain (lo = -1e-17, lo = 0 for log)
    for fn in ("sqrt", "log"):
        for edge in (-1e-17, -1e-300, -0.5, 0.0):
            for kind in ("scalar", "pbox"):
                hi_ = rng.choice([0.5, 1.0, 4.0])
                lo_ = rng.choice([1e-9, 0.25, hi_ / 2])
                if kind == "scalar":
                    add("domain-edge", {"f": "ivl-un", "fn": fn}, [{"x": [lo_, hi_]}, {"x": [edge, hi_]}], False)
                else:
                    l1 = [lo_] * STEPS
                    kk = rng.choice([1, 50, STEPS])
                    add("domain-edge", {"f": "pb-un", "fn": rng.choice([fn, "np" + fn])},
                        [{"x": [l1, [hi_] * STEPS]}, {"x": [[edge] * kk + l1[kk:], [hi_] * STEPS]}], False)
    # ---- 2c. practice J next to a pole: X' touches zero exactly (lo == 0 or hi == 0), X inside it has non-zero values of
    #           tiny magnitude (below machine epsilon, and just above it as a control): reciprocal, c / X, P / X under every
    #           dependency, interval reciprocal and quotient.  1 / X' raises or is unbounded; a finite value that does not
    #           contain 1 / X is a failure
    for t_ in (1e-18, 2.0 ** -60, 1e-170, 2.0 ** -30, 1e-3):
        for sgn in (1, -1):
            for kind in ("pb-recip", "pb-numL", "pb-div-f", "pb-div-p", "pb-div-o", "pb-div-i", "ivl-recip", "ivl-div"):
                kz = rng.choice([1, 20, STEPS // 2])
                rest = sorted(rng.choice([0.5, 1, 2, 3]) for _ in range(STEPS - kz))
                top = [rest[-1] + rng.choice([0, 1, 2])] * STEPS
                wl, wr = [0.0] * kz + rest, top
                nl = [t_] * kz + rest
                nr = top if rng.random() < 0.5 else [max(a, b) for a, b in zip(nl, [rest[-1]] * STEPS)]
                xn, xw = (nl, nr), (wl, wr)
                if sgn < 0:
                    xn = (sorted(-v for v in xn[1]), sorted(-v for v in xn[0]))
                    xw = (sorted(-v for v in xw[1]), sorted(-v for v in xw[0]))
                xn, xw = (list(xn[0]), list(xn[1])), (list(xw[0]), list(xw[1]))
                if kind == "pb-recip":
                    add("pole-tiny", {"f": "pb-recip"}, [{"x": xn}, {"x": xw}], False)
                elif kind == "pb-numL":
                    add("pole-tiny", {"f": "pb-num", "op": "div", "side": "L", "c": rng.choice([1, -2, 0.5])}, [{"x": xn}, {"x": xw}], False)
                elif kind.startswith("pb-div"):
                    pbx_ = base_box(rng, STEPS, rng.choice(["pos", "neg"]), False)
                    add("pole-tiny", {"f": "pb-bin", "op": "div", "dep": kind[-1], "ykind": "pbox", "bare": False},
                        [{"x": pbx_, "y": xn}, {"x": pbx_, "y": xw}], False)
                elif kind == "ivl-recip":
                    a1, a2 = ([t_, 2.0], [0.0, 2.0]) if sgn > 0 else ([-2.0, -t_], [-2.0, 0.0])
                    add("pole-tiny", {"f": "ivl-un", "fn": "recip"}, [{"x": a1}, {"x": a2}], False)
                else:
                    a1, a2 = ([t_, 2.0], [0.0, 2.0]) if sgn > 0 else ([-2.0, -t_], [-2.0, 0.0])
                    xx = rand_ivl(rng, None, True)
                    add("pole-tiny", {"f": "ivl-bin", "op": "div", "form": "II", "widened": "y"}, [{"x": xx, "y": a1}, {"x": xx, "y": a2}], False)
    # ---- 3. nested interval expressions
    for _ in range(S(500, 7000)):
        nv = rng.choice([1, 2, 3])
        div = rng.random() < 0.25
        t = rand_itree(rng, rng.choice([1, 2, 3, 3]), nv, div)
        dy = rng.random() < 0.7
        ps = [pair_ivl(rng, None, dy) for _ in range(nv)]
        keep = [rng.random() < 0.3 for _ in range(nv)]
        b1 = [p[0] for p in ps]
        b2 = [p[0] if k and nv > 1 else p[1] for p, k in zip(ps, keep)]
        add("itree", {"f": "itree", "tree": t, "depth": tree_depth(t)}, [{"box": b1}, {"box": b2}], exact=(dy and not div and not tree_extreme(t)),
            nontriv=(b1 != b2 and bool(tree_vars(t))))
    # ---- 4. raw combination rules, small n (index arithmetic exhaustively exercised)
    signs = ["pos", "neg", "str", None, "pos0", "neg0"]
    for _ in range(S(1000, 18000)):
        n = rng.choice([1, 2, 2, 3, 3, 4, 5, 6])
        rule = rng.choice(["frechet", "frechet", "perfect", "opposite", "independent", "naive"])
        op = rng.choice(["add", "mul"])
        sg = (lambda: "pos") if (rule == "frechet" and op == "mul") else (lambda: rng.choice(signs))
        x, x2 = pair_box(rng, base_box(rng, n, sg()), True, keep_sign=(rule == "frechet" and op == "mul"))
        y, y2 = pair_box(rng, base_box(rng, n, sg()), True, keep_sign=(rule == "frechet" and op == "mul"))
        which = rng.choice(["x", "y", "both"])
        if which == "x":
            y2 = y
        elif which == "y":
            x2 = x
        add("pb-raw", {"f": "pb-raw", "rule": rule, "op": op, "n": n, "widened": which},
            [{"x": x, "y": y}, {"x": x2, "y": y2}], True, nontriv=(x != x2 or y != y2))
    # ---- 5. public arithmetic at 200 steps, every dependency
    for gi in range(S(170, 3200)):
        general = pick_general(rng)
        grid = grid_of(general)
        op = rng.choice(OPS4)
        dep = "fpofpofpoi"[gi % 10] if rng.random() < 0.8 else rng.choice("fpoi")
        if general is True and dep == "i" and rng.random() < 0.7:
            dep = rng.choice("fpo")          # the exact model of the n*n rule on 53-bit rationals is slow
        ykind = "interval" if rng.random() < 0.15 else "pbox"
        sx, sy = rng.choice(signs), rng.choice(signs)
        if op == "div" and sy not in ("pos", "neg"):
            sy = rng.choice(["pos", "neg"])
        x, x2 = pair_box(rng, base_box(rng, STEPS, sx, general), grid)
        y, y2 = pair_box(rng, base_box(rng, STEPS, sy, general), grid, keep_sign=(op == "div"))
        which = rng.choice(["x", "x", "y", "both"])
        if which == "x":
            y2 = y
        elif which == "y":
            x2 = x
        bare = rng.random() < 0.25
        add("pb-bin-" + grid,
            {"f": "pb-bin", "op": op, "dep": dep, "ykind": ykind, "bare": bare, "widened": which},
            [{"x": x, "y": y}, {"x": x2, "y": y2}], exact=(general is not True and op != "div"), nontriv=(x != x2 or y != y2))
    # ---- 5b. operands that touch zero exactly (hi == 0 or lo == 0), every operation and dependency, both roles:
    #          as the contained operand (then widened across zero) and as the containing one (reached from one side)
    zi = 0
    for op in OPS4:
        for dep in "fpoi":
            for touch in ("neg0", "pos0"):
                for role in ("narrow", "wide"):
                    for pos in ("x", "y"):
                        zi += 1
                        if op == "div" and pos == "y":
                            continue                      # a divisor containing zero is outside the property
                        if dep == "i" and zi % S(4, 1) != 0:
                            continue
                        general = "dyadic" if zi % 5 == 0 else False
                        grid = grid_of(general)
                        other_sign = rng.choice(["pos", "neg", "str", "pos0", "neg0"]) if not (op == "div" and pos == "x") else rng.choice(["pos", "neg"])
                        tb = base_box(rng, STEPS, touch, general)
                        if role == "wide":
                            # X' touches zero; X strictly inside one side of it
                            strict = narrow_box(rng, tb[0], tb[1], grid)
                            c = rng.choice([1, 2])
                            if touch == "neg0":
                                hi_ = [min(v, -c) for v in strict[1]]
                                a1 = ([min(u, w) for u, w in zip(strict[0], hi_)], hi_)
                            else:
                                lo_ = [max(v, c) for v in strict[0]]
                                a1 = (lo_, [max(u, w) for u, w in zip(lo_, strict[1])])
                            t1, t2 = (sorted(a1[0]), sorted(a1[1])), (list(tb[0]), list(tb[1]))
                        else:
                            # X touches zero; X' goes on across it (or stays)
                            t1 = (list(tb[0]), list(tb[1]))
                            t2 = widen_box(rng, tb[0], tb[1], grid, keep_sign=(op == "div"))
                        if not is_sub(t1, t2):
                            continue
                        o1, o2 = pair_box(rng, base_box(rng, STEPS, other_sign, general), grid, keep_sign=(op == "div"))
                        if rng.random() < 0.6:
                            o2 = o1
                        if pos == "x":
                            runs = [{"x": t1, "y": o1}, {"x": t2, "y": o2}]
                        else:
                            runs = [{"x": o1, "y": t1}, {"x": o2, "y": t2}]
                        add("pb-zero", {"f": "pb-bin", "op": op, "dep": dep, "ykind": "pbox", "bare": False, "touch": touch,
                                        "role": role, "touching": pos},
                            runs, exact=(general is not True and op != "div"))
    # ---- 5c. lesson F: the SAME object on both sides (X op X, envelope(a, a), a.imp(a)); the operand is re-read later
    for op in OPS4:
        for dep in "fpoi":
            general = pick_general(rng, 0.2, 0.0)
            sx = rng.choice(["pos", "neg"]) if op == "div" else rng.choice(signs)
            x, x2 = pair_box(rng, base_box(rng, STEPS, sx, general), grid_of(general), keep_sign=(op == "div"))
            add("same-object", {"f": "pb-bin", "op": op, "dep": dep, "ykind": "pbox", "bare": dep == "f" and rng.random() < 0.5, "alias": True},
                [{"x": x, "y": x}, {"x": x2, "y": x2}], exact=(general is not True and op != "div"), nontriv=(x != x2))
    for agg in ("env", "imp"):
        for api in ("method", "public"):
            x, x2 = pair_box(rng, base_box(rng, STEPS, None, False), "int")
            add("same-object", {"f": "pb-agg", "agg": agg, "api": api, "kinds": ["pbox", "pbox"], "alias": True},
                [{"ops": [x, x]}, {"ops": [x2, x2]}], True, nontriv=(x != x2))
    # ---- 5d. explicit dependency INSIDE a `with pba.dependency(d)` block of every OTHER code (an ambient context must not
    #           leak into a call that names its dependency): every operation, straddling x straddling products included
    for op in OPS4:
        for dep in "fpoi":
            for amb in [a_ for a_ in "fpoi" if a_ != dep]:
                if dep != "f" and rng.random() < 0.6:
                    continue
                general = pick_general(rng, 0.2, 0.0)
                grid = grid_of(general)
                both_str = (op == "mul" and rng.random() < 0.7)
                sx = "str" if both_str else rng.choice(signs)
                sy = "str" if both_str else (rng.choice(["pos", "neg"]) if op == "div" else rng.choice(signs))
                x, x2 = pair_box(rng, base_box(rng, STEPS, sx, general), grid)
                y, y2 = pair_box(rng, base_box(rng, STEPS, sy, general), grid, keep_sign=(op == "div"))
                if rng.random() < 0.5:
                    y2 = y
                add("ambient", {"f": "pb-bin", "op": op, "dep": dep, "ykind": "pbox", "bare": False, "ambient": amb},
                    [{"x": x, "y": y}, {"x": x2, "y": y2}], exact=(general is not True and op != "div"), nontriv=(x != x2 or y != y2))
    # ---- 6. number operands, negation, reciprocal
    for _ in range(S(120, 2000)):
        general = pick_general(rng, 0.25, 0.15)
        grid = grid_of(general)
        kind = rng.choice(["num", "num", "num", "neg", "recip"])
        sx = rng.choice(signs)
        if kind == "recip":
            sx = rng.choice(["pos", "neg"])
        x, x2 = pair_box(rng, base_box(rng, STEPS, sx, general), grid, keep_sign=(kind == "recip"))
        if kind == "num":
            op, side = rng.choice(OPS4), rng.choice(["R", "L"])
            c = rng.choice([-3, -1, 0, 1, 2, 5, 5, 10 ** 18, -3 * 10 ** 15]) if general is False else rng.choice([-2.5, -1.0, 0.0, -0.0, 0.5, 3.0] + EXTREME)
            if op == "div" and side == "L":
                x, x2 = pair_box(rng, base_box(rng, STEPS, rng.choice(["pos", "neg"]), general), grid, keep_sign=True)
            spec = {"f": "pb-num", "op": op, "side": side, "c": c}
            exact = general is not True and op != "div" and abs(c) < 1e6 and c not in EXTREME
        else:
            spec = {"f": "pb-" + kind}
            exact = kind == "neg"
        add("pb-num", spec, [{"x": x}, {"x": x2}], exact, nontriv=(x != x2))
    # ---- 6b. theme D: extreme constants (below machine epsilon, above 1e15) as the number operand, every operation,
    #           both sides, intervals and p-boxes
    for c in EXTREME:
        for op in OPS4:
            for side in ("R", "L"):
                dy = rng.random() < 0.5
                x, x2 = pair_ivl(rng, rng.choice([None, "pos", "neg"]), dy)
                runs = [{"x": x, "y": c}, {"x": x2, "y": c}] if side == "R" else [{"x": c, "y": x}, {"x": c, "y": x2}]
                add("extreme-const", {"f": "ivl-bin", "op": op, "form": "IN" if side == "R" else "NI", "widened": "x"}, runs, False,
                    nontriv=(x != x2))
                general = pick_general(rng, 0.3, 0.2)
                sx = rng.choice(["pos", "neg"]) if (op == "div" and side == "L") else rng.choice(signs)
                bx, bx2 = pair_box(rng, base_box(rng, STEPS, sx, general), grid_of(general), keep_sign=(op == "div" and side == "L"))
                add("extreme-const", {"f": "pb-num", "op": op, "side": side, "c": c}, [{"x": bx}, {"x": bx2}], False, nontriv=(bx != bx2))
    # ---- 6c. theme B: integer-dtype operands (Interval(2, 5), int64 vectors, Staircase from int64 arrays / lists of
    #           ints, Python-int constants) with fractional and huge constants: an integer dtype must not survive
    def int_ivl_pair(sign=None):
        a = rng.choice([-7, -3, -1, 0, 1, 2, 5])
        w = rng.choice([0, 1, 2, 3, 8])
        lo, hi = a, a + w
        if sign == "pos" and lo <= 0:
            lo, hi = 1, 1 + w
        if sign == "neg" and hi >= 0:
            lo, hi = -1 - w, -1
        v = [lo, hi]
        if rng.random() < 0.6:
            return v, [lo - rng.choice([0, 1, 3]), hi + rng.choice([0, 1, 3])] if sign is None else v
        return [lo, lo], v
    for c in [0.5, 2, -3, 7, 0.25, 10 ** 18, -2.5]:
        for op in OPS4:
            for form in ("IN", "NI", "AN", "NA"):
                if form[0] == "N" and op == "div":
                    sgn = rng.choice(["pos", "neg"])
                else:
                    sgn = None
                if "A" in form:
                    ps = [int_ivl_pair(sgn) for _ in range(3)]
                    x, x2 = [[p_[0][0] for p_ in ps], [p_[0][1] for p_ in ps]], [[p_[1][0] for p_ in ps], [p_[1][1] for p_ in ps]]
                else:
                    x, x2 = int_ivl_pair(sgn)
                runs = [{"x": x, "y": c}, {"x": x2, "y": c}] if form[1] == "N" else [{"x": c, "y": x}, {"x": c, "y": x2}]
                add("int-dtype", {"f": "ivl-bin", "op": op, "form": form, "widened": "x", "rep": "int"}, runs,
                    exact=(op != "div" and abs(c) < 1e6), nontriv=(x != x2))
            for side in ("R", "L"):
                sx = rng.choice(["pos", "neg"]) if (op == "div" and side == "L") else rng.choice(signs)
                bx, bx2 = pair_box(rng, base_box(rng, STEPS, sx, False), "int", keep_sign=(op == "div" and side == "L"))
                add("int-dtype", {"f": "pb-num", "op": op, "side": side, "c": c, "rep": rng.choice(["int", "int", "list"])},
                    [{"x": bx}, {"x": bx2}], exact=(op != "div" and abs(c) < 1e6), nontriv=(bx != bx2))
    for _ in range(S(24, 400)):
        op = rng.choice(OPS4)
        form = rng.choice(["II", "AA", "AI", "IA"])
        def one_i(kind, sign=None):
            if kind == "I":
                return int_ivl_pair(sign)
            ps = [int_ivl_pair(sign) for _ in range(3)]
            return [[p_[0][0] for p_ in ps], [p_[0][1] for p_ in ps]], [[p_[1][0] for p_ in ps], [p_[1][1] for p_ in ps]]
        x, x2 = one_i(form[0])
        y, y2 = one_i(form[1], rng.choice(["pos", "neg"]) if op == "div" else None)
        add("int-dtype", {"f": "ivl-bin", "op": op, "form": form, "widened": "both", "rep": "int"},
            [{"x": x, "y": y}, {"x": x2, "y": y2}], exact=(op != "div"), nontriv=(x != x2 or y != y2))
    # ---- 7. unary maps of a p-box
    for _ in range(S(100, 1800)):
        general = pick_general(rng, 0.3, 0.2)
        grid = grid_of(general)
        fn = rng.choice(["exp", "log", "sqrt", "npexp", "npsqrt", "nplog", "sin", "cos", "tanh", "pow2", "pow3"])
        sx = "pos" if (fn.endswith("log") or fn.endswith("sqrt")) else rng.choice(signs)
        base = base_box(rng, STEPS, sx, general)
        if fn.endswith("exp"):
            base = ([v / 8 for v in base[0]], [v / 8 for v in base[1]])
            grid = "dyadic" if grid == "int" else grid
        x, x2 = pair_box(rng, base, grid, keep_sign=(fn.endswith("log") or fn.endswith("sqrt")))
        add("pb-un", {"f": "pb-un", "fn": fn}, [{"x": x}, {"x": x2}], False, nontriv=(x != x2))
    # ---- 8. envelope, imposition
    for _ in range(S(150, 2500)):
        general = pick_general(rng, 0.25, 0.15)
        grid = grid_of(general)
        agg = rng.choice(["env", "imp"])
        api = rng.choice(["method", "public"])
        k = rng.choice([2, 2, 3, 4]) if api == "public" else 2
        kinds = [rng.choice(["pbox", "pbox", "pbox", "interval"]) for _ in range(k)]
        if api == "method":
            kinds[0] = "pbox"
            kinds[1] = "pbox"
        if agg == "imp":
            # overlapping operands: all derived from one base box
            base = base_box(rng, STEPS, None, general)
            pairs = []
            for _i in range(k):
                w = widen_box(rng, base[0], base[1], grid)
                pairs.append(pair_box(rng, w, grid))
        else:
            pairs = [pair_box(rng, base_box(rng, STEPS, None, general), grid) for _i in range(k)]
        for i, kd in enumerate(kinds):
            if kd == "interval":
                a, b = pairs[i]
                pairs[i] = (([min(a[0])] * STEPS, [max(a[1])] * STEPS), ([min(b[0])] * STEPS, [max(b[1])] * STEPS))
        widen_which = [rng.random() < 0.6 for _ in range(k)]
        if not any(widen_which):
            widen_which[rng.randrange(k)] = True
        ops1 = [p[0] for p in pairs]
        ops2 = [p[1] if w else p[0] for p, w in zip(pairs, widen_which)]
        add("pb-agg", {"f": "pb-agg", "agg": agg, "api": api, "kinds": kinds}, [{"ops": ops1}, {"ops": ops2}], True,
            nontriv=(ops1 != ops2))
    # ---- 9. nested p-box expressions, depth <= 3
    for _ in range(S(60, 1400)):
        general = pick_general(rng, 0.15, 0.05)
        grid = grid_of(general)
        nv = rng.choice([2, 2, 3])
        t = rand_ptree(rng, rng.choice([2, 3, 3]), nv, exact=(general is False))
        ps = [pair_box(rng, base_box(rng, STEPS, rng.choice(signs), general), grid) for _ in range(nv)]
        keep = [rng.random() < 0.3 for _ in range(nv)]
        v1 = [p[0] for p in ps]
        v2 = [p[0] if k else p[1] for p, k in zip(ps, keep)]
        add("ptree", {"f": "ptree", "tree": t, "depth": tree_depth(t)}, [{"vars": v1}, {"vars": v2}], general is False,
            nontriv=(v1 != v2))
    # ---- 10. stacking
    for _ in range(S(150, 3000)):
        k = rng.choice([1, 2, 3, 5, 8, 13, 40, 2, 3, 5, 8, 13, 40, 120] + ([STEPS - 2, STEPS - 1, STEPS, STEPS + 1] if rng.random() < 0.5 else [3, 5]))
        dy = rng.random() < 0.6
        ps = [pair_ivl(rng, None, dy) for _ in range(k)]
        keep = [rng.random() < 0.3 for _ in range(k)]
        lo1, hi1 = [p[0][0] for p in ps], [p[0][1] for p in ps]
        lo2 = [p[0][0] if kk else p[1][0] for p, kk in zip(ps, keep)]
        hi2 = [p[0][1] if kk else p[1][1] for p, kk in zip(ps, keep)]
        w = None
        if rng.random() < 0.5:
            ws = [rng.choice([1, 2, 3, 5, 7]) for _ in range(k)]
            w = [v / sum(ws) for v in ws]
        form = rng.choice(["list", "vec", "objs"])
        add("stack", {"f": "stack", "weights": w, "form": form, "k": k},
            [{"lo": lo1, "hi": hi1}, {"lo": lo2, "hi": hi2}], True, nontriv=(lo1 != lo2 or hi1 != hi2))
    # ---- 10b. Dempster-Shafer operands (practice K: duplicated / nested / unordered focal elements, unequal masses):
    #            X within X' focal element by focal element; the widening makes elements coincide, nest or change order
    MASSES = [[0.5, 0.5], [0.3, 0.3, 0.4], [0.25, 0.25, 0.5], [0.1, 0.2, 0.3, 0.4], [0.2, 0.2, 0.2, 0.2, 0.2],
              [0.125, 0.125, 0.25, 0.5], [0.05, 0.15, 0.8], [1 / 3, 1 / 3, 1 / 3], [0.4, 0.35, 0.25]]
    for gi in range(S(110, 2400)):
        ms = list(rng.choice(MASSES))
        rng.shuffle(ms)
        kf = len(ms)
        mode = ["coincide", "nest", "reorder", "random", "coincide"][gi % 5]
        scale_ = rng.choice([1, 1, 1, 0.5, 2.0 ** -40, 2.0 ** 30])
        wide = []
        if mode == "coincide":
            a = rng.randint(-5, 5); b = a + rng.randint(1, 6)
            wide = [[a, b] for _ in range(rng.choice([2, 2, kf]))]
            while len(wide) < kf:
                c = rng.randint(-8, 8); wide.append([c, c + rng.randint(0, 6)])
            wide = wide[:kf]
        elif mode == "nest":
            a, b = rng.randint(-6, 0), rng.randint(6, 12)
            for j in range(kf):
                wide.append([min(a + j, b - j), b - j] if rng.random() < 0.7 else [a, b - j])
        elif mode == "reorder":
            c0 = rng.randint(-5, 5)
            wide = [[c0 - rng.randint(0, 4), c0 + rng.randint(0, 4) + j] for j in range(kf)]
        else:
            for j in range(kf):
                c = rng.randint(-8, 8); wide.append([c, c + rng.randint(0, 6)])
        rng.shuffle(wide)
        narrow = []
        for (a, b) in wide:
            if b == a:
                narrow.append([a, b]); continue
            u = rng.choice([0, 0, 0.25, 0.5]) * (b - a)
            v = rng.choice([0, 0, 0.25, 0.5]) * (b - a)
            if rng.random() < 0.2:
                pt = rng.choice([a, b, (a + b) / 2]); narrow.append([pt, pt])
            else:
                narrow.append([a + u, b - v] if a + u <= b - v else [a, b])
        lo1, hi1 = [v[0] * scale_ for v in narrow], [v[1] * scale_ for v in narrow]
        lo2, hi2 = [v[0] * scale_ for v in wide], [v[1] * scale_ for v in wide]
        use = rng.choice(["to_pbox", "to_pbox", "roundtrip", "bin", "bin", "rbin", "env", "imp"])
        spec = {"f": "dss", "use": use, "masses": ms, "mode": mode, "ctor": rng.choice(["lists", "objs", "vec"]),
                "mass_list": rng.random() < 0.5}
        r1, r2 = {"lo": lo1, "hi": hi1}, {"lo": lo2, "hi": hi2}
        if use in ("bin", "rbin", "env", "imp"):
            spec["op"] = rng.choice(["add", "sub", "mul"]) if use in ("bin", "rbin") else None
            spec["dep"] = rng.choice("fpoi") if use == "bin" else ("f" if use == "rbin" else None)
            y = base_box(rng, STEPS, None, False)
            if use == "imp":
                y = ([min(lo2)] * STEPS, [max(hi2)] * STEPS)
            else:
                y = ([v * scale_ for v in y[0]], [v * scale_ for v in y[1]])
            r1["y"], r2["y"] = y, y
        add("dss", spec, [r1, r2], exact=False, nontriv=(lo1 != lo2 or hi1 != hi2))
    # ---- 11. alpha-cuts
    for _ in range(S(150, 2000)):
        general = pick_general(rng, 0.3, 0.2)
        x, x2 = pair_box(rng, base_box(rng, STEPS, None, general), grid_of(general))
        alpha = rng.choice([0.001, 0.999, 0.5, 0.0, 1.0, 0.0035, 0.25, float(pvals()[rng.randrange(STEPS)]),
                            (pvals()[7] + pvals()[8]) / 2, rng.random()])
        add("cut", {"f": "cut", "alpha": alpha}, [{"x": x}, {"x": x2}], True, nontriv=(x != x2))
    # ---- 12. mixed propagation: slicing with a fixed number of slices
    for _ in range(S(30, 700)):
        general = pick_general(rng, 0.2, 0.1)
        grid = grid_of(general)
        d = rng.choice([2, 2, 2, 3])
        k = rng.choice([2, 3, 4, 5, 6]) if d == 2 else rng.choice([2, 3])
        strategy = rng.choice(["direct", "direct", "direct", "endpoints", "subinterval"])
        style = rng.choice(["direct", "endpoints"]) if strategy == "subinterval" else None
        kinds = [rng.choice(["pbox", "pbox", "interval"]) for _ in range(d)]
        if strategy == "direct":
            t = rand_itree(rng, rng.choice([1, 2, 3]), d)
            while not tree_vars(t):
                t = rand_itree(rng, rng.choice([1, 2, 3]), d)
            sgn = [rng.choice(signs) for _ in range(d)]
        else:
            t = monotone_tree(rng, d)
            sgn = ["pos"] * d
        ps = [pair_box(rng, base_box(rng, STEPS, s_, general), grid, keep_sign=(strategy != "direct")) for s_ in sgn]
        keep = [rng.random() < 0.3 for _ in range(d)]
        v1 = [p[0] for p in ps]
        v2 = [p[0] if kk and d > 1 else p[1] for p, kk in zip(ps, keep)]
        spec = {"f": "slice", "tree": t, "k": k, "kinds": kinds, "strategy": strategy, "style": style,
                "n_sub": rng.choice([2, 3]) if strategy == "subinterval" else None, "monotone": strategy != "direct",
                "repeated": len(set(tree_vars(t))) != len(tree_vars(t))}
        add("slice", spec, [{"vars": v1}, {"vars": v2}], exact=(general is False and strategy == "direct" and not tree_extreme(t)), nontriv=(v1 != v2))
    # ---- 12b. interval Monte Carlo: the pair (and a repetition) on ONE dependency object, default random_state,
    #            in both orders; the discretisation (the rows of levels drawn) has to be the same in every run
    for gi in range(S(28, 450)):
        general = pick_general(rng, 0.2, 0.1)
        grid = grid_of(general)
        d = rng.choice([2, 2, 2, 3])
        fam = rng.choice([None, "independence", "gaussian", "gaussian", "frank", "clayton"]) if d == 2 else rng.choice([None, "independence", "gaussian"])
        param = {"gaussian": rng.choice([0.6, -0.3, 0.9]), "frank": rng.choice([2.0, 5.0]), "clayton": rng.choice([0.5, 2.0])}.get(fam)
        strategy = rng.choice(["direct", "direct", "direct", "endpoints", "subinterval"])
        style = rng.choice(["direct", "endpoints"]) if strategy == "subinterval" else None
        kinds = [rng.choice(["pbox", "pbox", "interval"]) for _ in range(d)]
        if strategy == "direct":
            t = rand_itree(rng, rng.choice([1, 2, 3]), d)
            while not tree_vars(t):
                t = rand_itree(rng, rng.choice([1, 2, 3]), d)
            sgn = [rng.choice(signs) for _ in range(d)]
        else:
            t = monotone_tree(rng, d)
            sgn = ["pos"] * d
        ps = [pair_box(rng, base_box(rng, STEPS, s_, general), grid, keep_sign=(strategy != "direct")) for s_ in sgn]
        keep_ = [rng.random() < 0.3 for _ in range(d)]
        v1 = [p_[0] for p_ in ps]
        v2 = [p_[0] if kk and d > 1 else p_[1] for p_, kk in zip(ps, keep_)]
        spec = {"f": "imc", "tree": t, "kinds": kinds, "strategy": strategy, "style": style, "family": fam, "param": param,
                "n_sam": rng.choice([1, 2, 5, 20, 40]), "order": ["narrow-first", "wide-first"][gi % 2],
                "n_sub": rng.choice([2, 3]) if strategy == "subinterval" else None, "monotone": strategy != "direct",
                "repeated": len(set(tree_vars(t))) != len(tree_vars(t))}
        add("imc", spec, [{"vars": v1}, {"vars": v2}], exact=(general is False and strategy == "direct" and not tree_extreme(t)), nontriv=(v1 != v2))
    # ---- 4b. raw rules on thin float boxes (theme C), small n
    for _ in range(S(150, 2000)):
        n = rng.choice([2, 3, 4, 6])
        rule = rng.choice(["frechet", "perfect", "opposite", "independent", "naive"])
        op = rng.choice(["add", "mul"])
        def thin_small():
            c0 = rng.choice([rng.uniform(0.5, 8), 5e-9, 1e6]) * (1 if (rule == "frechet" and op == "mul") else rng.choice([1, -1]))
            sc = abs(c0) * 10 ** (-rng.uniform(5, 8))
            l = sorted(c0 + sc * rng.random() for _ in range(n))
            r = [float(x) for x in np.maximum.accumulate([a + sc * rng.choice([0.0, 0.5, 1.0]) for a in l])]
            return l, r
        x, x2 = pair_box(rng, thin_small(), "float", keep_sign=True)
        y, y2 = pair_box(rng, thin_small(), "float", keep_sign=True)
        if rng.random() < 0.5:
            y2 = y
        add("pb-raw-thin", {"f": "pb-raw", "rule": rule, "op": op, "n": n}, [{"x": x, "y": y}, {"x": x2, "y": y2}], False,
            nontriv=(x != x2 or y != y2))
    # ---- 13. interval propagation (b2b) with a fixed discretisation
    for gi in range(S(220, 6000)):
        d = rng.choice([2, 2, 3])
        strategy = rng.choice(["direct", "endpoints", "subinterval", "subinterval"])
        style = rng.choice(["direct", "endpoints"]) if strategy == "subinterval" else None
        dy = rng.random() < 0.7
        shape = rng.choice(["monotone", "monotone", "once", "free"])
        if shape == "monotone":
            t = monotone_tree(rng, d)
            ps = [pair_ivl(rng, "pos", dy) for _ in range(d)]
        elif shape == "once":
            t = rand_itree(rng, rng.choice([1, 2, 3]), d, False, once=list(range(d)))
            ps = [pair_ivl(rng, None, dy) for _ in range(d)]
        else:
            t = rand_itree(rng, rng.choice([1, 2, 3]), d)
            ps = [pair_ivl(rng, None, dy) for _ in range(d)]
        vs = tree_vars(t)
        keep = [rng.random() < 0.3 for _ in range(d)]
        b1 = [p[0] for p in ps]
        b2 = [p[0] if kk else p[1] for p, kk in zip(ps, keep)]
        spec = {"f": "b2b", "tree": t, "strategy": strategy, "style": style,
                "n_sub": (rng.choice([2, 3, 4, 5]) if d == 2 else rng.choice([2, 3])) if strategy == "subinterval" else None,
                "monotone": shape == "monotone", "repeated": len(set(vs)) != len(vs), "d": d}
        add("b2b", spec, [{"box": b1}, {"box": b2}], exact=False, nontriv=(b1 != b2 and bool(vs)))
    # ---- witnesses of the open findings (always present)
    for w in WITNESSES:
        add(w["stream"], w["spec"], w["runs"], w["exact"])
    return cases


# the vertex method and fixed-n subdivision are not isotone outside the functions they are exact for
WITNESSES = [
    {"stream": "b2b", "exact": False,
     "spec": {"f": "b2b", "tree": ["b", "add", ["b", "mul", ["v", 0], ["v", 0]], ["v", 1]], "strategy": "endpoints", "style": None,
              "n_sub": None, "monotone": False, "repeated": True, "d": 2},
     "runs": [{"box": [[0.0, 1.0], [0.0, 0.0]]}, {"box": [[-1.0, 1.0], [0.0, 0.0]]}]},
    {"stream": "b2b", "exact": False,
     "spec": {"f": "b2b", "tree": ["b", "add", ["b", "mul", ["v", 0], ["v", 0]], ["v", 1]], "strategy": "subinterval", "style": "direct",
              "n_sub": 2, "monotone": False, "repeated": True, "d": 2},
     "runs": [{"box": [[-1.0, 0.75], [0.0, 0.0]]}, {"box": [[-1.0, 1.0], [0.0, 0.0]]}]},
    {"stream": "b2b", "exact": False,
     "spec": {"f": "b2b", "tree": ["b", "add", ["b", "mul", ["v", 0], ["v", 0]], ["v", 1]], "strategy": "subinterval", "style": "endpoints",
              "n_sub": 2, "monotone": False, "repeated": True, "d": 2},
     "runs": [{"box": [[-0.5, 0.5], [0.0, 0.0]]}, {"box": [[-0.5, 1.5], [0.0, 0.0]]}]},
    # KF-C12-straddle-imposition-rounding: X / 3 under Frechet, X straddling zero: naive and Balch bounds touch and cross by one ulp
    {"stream": "pb-bin-int", "exact": False,
     "spec": {"f": "pb-bin", "op": "div", "dep": "f", "ykind": "pbox", "bare": False, "widened": "x", "rep": "float"},
     "runs": [{"x": [[-16.0] * 195 + [20.0] * 5, [-16.0] * 195 + [20.0] * 5], "y": [[3.0] * STEPS, [3.0] * STEPS]},
              {"x": [[-16.0] * 195 + [20.0] * 5, [20.0] * STEPS], "y": [[3.0] * STEPS, [3.0] * STEPS]}]},
    # regression cases: the interval sin/cos defects of C05 (repaired in /repo) seen through a pair of runs
    {"stream": "ivl-un", "exact": False, "spec": {"f": "ivl-un", "fn": "sin"}, "runs": [{"x": [-0.5, 0.0]}, {"x": [-1.5, 10.0]}]},
    {"stream": "pb-un", "exact": False, "spec": {"f": "pb-un", "fn": "cos"},
     "runs": [{"x": [[3.0] * STEPS, [3.0] * STEPS]}, {"x": [[0.0] * STEPS, [7.0] * STEPS]}]},
]


# =====================================================================================================
def features(spec, extra):
    keep = ("f", "op", "dep", "fn", "k", "use", "ambient", "fpmode", "ktype", "bare", "rule", "agg", "api", "strategy", "style", "monotone", "repeated", "side", "ykind", "form", "rep",
            "family", "order")
    d = {("family" if k == "f" else ("copula" if k == "family" else k)): spec[k] for k in keep if k in spec and spec[k] is not None}
    d.update(extra)
    return d


def short(v):
    """abbreviated operand for the evidence samples"""
    if isinstance(v, (int, float)):
        return v
    if isinstance(v, dict):
        return {k: short(x) for k, x in v.items()}
    if isinstance(v, (list, tuple)) and v and isinstance(v[0], (list, tuple)):
        return [short(x) for x in v]
    if isinstance(v, (list, tuple)) and len(v) > 8:
        return {"n": len(v), "head": list(v[:3]), "tail": list(v[-2:])}
    return v


def depth_of(spec):
    f = spec["f"]
    if f in ("itree", "ptree"):
        return 16 * (1 + spec.get("depth", 3)) * 4
    if f in ("slice", "b2b", "imc"):
        return 16 * 4 * 4
    return 16


def run(ctx: core.Check):
    core.stub_moments()
    ctx.rule = ("pairs of runs on nested operands X within X' (X' a random widening of X: per-step increments re-sorted, constant shifts, "
                "one-sided, the support interval, sign-crossing shifts; or X a narrowing of X' down to a point / precise distribution): "
                "interval + - * / (scalar, vector, number on either side), interval unary maps, nested interval expressions depth<=3, "
                "raw Frechet/perfect/opposite/independent/naive rules n=1..6, public p-box add/sub/mul/div under f,p,o,i at 200 steps "
                "(integer step boxes exact, library-constructor boxes), number operands, neg, reciprocal, unary maps, env/imp (methods "
                "and envelope()/imposition() with 2-4 mixed operands), nested p-box expressions depth<=3, stacking (list/vector/objects, "
                "weights), alpha_cut, slicing (fixed n_slices), interval Monte Carlo (the pair and a repetition on ONE dependency object, "
                "default random_state, both orders), b2b (direct/endpoints/subinterval with fixed n_sub). "
                "Representations: float arrays, int64 arrays / Python ints, lists, positional arguments; thin operands (relative width "
                "1e-9..1e-5), constants 1e-20..1e18; interval vectors enumerating all sign-class pairs. "
                "Operands touching zero exactly (hi == 0 / lo == 0: sign classes pos0 / neg0, widenings that stop at zero, a grid over every "
                "operation x dependency x role) are part of every p-box stream. "
                "Each run is also checked against exactly computed results of point / precise sub-boxes. "
                "Non-trivial = the two runs differ in at least one operand; distinct on (operation, both operand sets).")
    ctx.assumptions = ["binary64 rounding not modelled: integer / dyadic streams compared exactly, float streams within 4*depth ulp of the largest magnitude",
                       "transcendental unary maps are parameters of the theorems (monotone); their values are supplied by numpy on the wire",
                       "stacking cases whose cumulated binary64 weights fall within 2^-40 of a grid level are compared by the oracle only",
                       "sin/cos/tan/tanh/abs/integer powers of intervals and p-boxes, endpoints/subinterval propagation: oracle only (their models belong to C05/C13)",
                       "interval Monte Carlo: the model consumes the level rows each run reported (the copula sampler is statsmodels'); that the rows are the same in every run on one dependency object is checked by the oracle, not proved",
                       "moments (LP) are stubbed in the harness process; they are C04's concern"]
    ctx.lean_stage(["Pun.Lemmas.Iso", "Pun.Props.C12"])
    cases = gen_cases(ctx)
    global REEXEC
    REEXEC = []
    del KEPT[:]
    for c in cases:
        if c["spec"]["f"] == "imc":
            prepare_imc(c)          # the model consumes the level rows each run reported
    # model requests: one per run
    reqs, where = [], []
    for ci, c in enumerate(cases):
        for ri, inp in enumerate(c["runs"]):
            w = wire(c["spec"], inp)
            if w is not None and c["spec"]["f"] in ("stack", "dss") and cum_ambiguous(c["spec"], inp):
                w = None
                ctx.bump("stack-tie-skipped-near-grid-level")
            if w is not None:
                where.append((ci, ri))
                reqs.append(w)
    # the model driver runs in parallel with the real code (three driver processes, requests interleaved)
    import threading
    NPROC = 3
    chunks = [reqs[i::NPROC] for i in range(NPROC)]
    outs, errs = [None] * NPROC, []

    def drive(i):
        try:
            outs[i] = core.model_batch("C12", chunks[i])
        except BaseException as e:  # noqa
            errs.append(e)
    threads = [threading.Thread(target=drive, args=(i,)) for i in range(NPROC)]
    for t in threads:
        t.start()
    done = [oracle_phase(ctx, c) for c in cases]
    reexecute(ctx)
    verify_kept(ctx, final=True)
    REEXEC = None
    for t in threads:
        t.join()
    if errs:
        raise errs[0]
    replies = [None] * len(reqs)
    for i in range(NPROC):
        replies[i::NPROC] = outs[i]
    model = {}
    for (ci, ri), rep in zip(where, replies):
        model[(ci, ri)] = parse_model(rep)
    for ci, c in enumerate(cases):
        tie_phase(ctx, c, done[ci], [model.get((ci, ri)) for ri in range(len(c["runs"]))])


def check_case(ctx, c, models, verbose=False):
    impls = oracle_phase(ctx, c)
    tie_phase(ctx, c, impls, models, verbose)


def tie_phase(ctx, c, impls, models, verbose=False):
    """every run against the model; then the exact model results of the pair against each other"""
    spec, runs, exact, stream = c["spec"], c["runs"], c["exact"], c["stream"]
    dep = depth_of(spec)
    for inp, im, mo in zip(runs, impls, models):
        if mo is None:
            continue
        dom = in_domain(spec, inp)
        if im[0] == "err" and im[1] in ("Domain", "Escalated"):
            continue                # nested divisor containing zero / an escalated warning propagated: not compared
        nested_div_t = spec["f"] in ("itree", "ptree", "slice", "b2b", "imc") and tree_has(spec["tree"], ("div",))
        if (not dom or nested_div_t) and im[0] == "err" and mo[0] == "err":
            ctx.tie_ok()            # both reject; kinds may differ through Python's operator fall-back (c / P -> TypeError)
            continue
        if not dom and im[0] == "err":
            continue                # outside the domain the real code rejects what the rational model can still evaluate
        if im[0] == "err" and mo[0] == "ok" and "Imposition does not exist" in im[2] and spec.get("agg") != "imp":
            ctx.bump("tie-skipped-rounding-raise")
            continue                # naive and Balch bounds crossing by an ulp (KF-C12-straddle-imposition-rounding): oracle reports it
        if im[0] == "ok" and not finite(im):
            if not dom:
                continue            # numpy inf/nan from a zero divisor: not representable in the model
        if agree(im, mo, exact, dep, mag_hint(spec, runs)):
            ctx.tie_ok()
        else:
            ctx.tie_bad(stream, {"spec": spec, "input": short(inp)}, pbx.js(im[:3]) if im[0] == "ok" else list(im), model_js(mo))
    if verbose:
        for inp, im, mo in zip(runs, impls, models):
            print("input :", json.dumps(short(inp)))
            print("impl  :", pbx.js(im[:3]) if im[0] == "ok" else im)
            print("model :", model_js(mo) if mo is not None else "(oracle only)")
    # the exact model must be isotone as well (no rounding to hide behind)
    if all(m is not None and m[0] == "ok" for m in models) and all(im[0] == "ok" and finite(im) for im in impls) \
            and all(in_domain(spec, inp) for inp in runs):
        for i in range(len(runs) - 1):
            w = contained_model(models[i], models[i + 1])
            if w is not None:
                ctx.fail(features(spec, {"check": "containment-exact-model", "symptom": "not-contained:" + w["why"]}),
                         {"spec": spec, "runs": runs, "exact": exact, "stream": stream, "witness": w},
                         f"{stream}: in exact arithmetic the result for the contained operand is not inside the other one ({w['why']}, step {w.get('step')})")
                return
        ctx.bump("model-pairs-compared")


def oracle_phase(ctx, c):
    """runs the real code on every operand set of the case and evaluates the property on the results"""
    spec, runs, exact = c["spec"], c["runs"], c["exact"]
    stream = c["stream"]
    ctx.count((json.dumps(spec, sort_keys=True, default=str), json.dumps(runs, sort_keys=True, default=str)), c["nontrivial"], stream)
    if spec["f"] == "imc":
        if "_impls" not in c:
            prepare_imc(c)
        impls = c["_impls"]
    else:
        impls = [impl(spec, inp) for inp in runs]
    dep = depth_of(spec)
    ctx.sample({"stream": stream, "spec": spec, "runs": [short(r) for r in runs],
                "impl": [pbx.js(i[:3]) if i[0] == "ok" else list(i) for i in impls]})
    if spec["f"] == "imc" and imc_sequence_checks(ctx, c, impls):
        return impls
    _oracle(ctx, c, impls, dep)
    if REEXEC is not None and spec["f"] != "imc" and ctx.evaluations % 20 == 0 and len(REEXEC) < 600:
        REEXEC.append((spec, runs, impls, stream))
    verify_kept(ctx)
    return impls


REEXEC = None        # cases evaluated a second time at the end of the run, after all the other calls (theme A)


def reexecute(ctx):
    """the same calls again, after thousands of unrelated ones: identical results are demanded"""
    for spec, runs, impls, stream in REEXEC or []:
        again = [impl(spec, inp) for inp in runs]
        ctx.bump("cases-re-executed")
        for i, (a, b) in enumerate(zip(impls, again)):
            if a[0] != b[0] or (a[0] == "ok" and not same_canon(a, b)) or (a[0] == "err" and a[1] != b[1]):
                ctx.fail(features(spec, {"check": "repeat", "symptom": "second-evaluation-differs", "run": i}),
                         {"spec": spec, "runs": runs, "exact": False, "stream": stream,
                          "first": pbx.js(a[:3]) if a[0] == "ok" else list(a), "second": pbx.js(b[:3]) if b[0] == "ok" else list(b)},
                         f"{stream}: the same call evaluated again at the end of the run gives a different result (state carried between calls)")
                break


def prepare_imc(c):
    res, lev, again, lev_again = impl_imc(c["spec"], c["runs"])
    for inp, lv in zip(c["runs"], lev):
        inp["_levels"] = lv
    c["_impls"], c["_again"], c["_lev_again"] = res, again, lev_again


def imc_sequence_checks(ctx, c, impls):
    """fixed discretisation: every run of the sequence on ONE dependency object uses the same level rows, and the
    repeated run reproduces the first one.  True when a failure was reported."""
    spec, runs, stream = c["spec"], c["runs"], c["stream"]
    case_json = {"spec": spec, "runs": [{k: v for k, v in r.items() if k != "_levels"} for r in runs], "exact": c["exact"], "stream": stream}
    levs = [r.get("_levels") for r in runs] + [c.get("_lev_again")]
    if any(i[0] == "err" for i in impls) or c["_again"][0] == "err":
        return False
    if any(l != levs[0] for l in levs[1:]):
        k = next(i for i, l in enumerate(levs) if l != levs[0])
        ctx.fail(features(spec, {"check": "levels", "symptom": "levels-differ-between-runs"}),
                 {**case_json, "levels_first": levs[0][:3], "levels_other": (levs[k] or [])[:3]},
                 f"{stream}: consecutive interval Monte Carlo runs on one dependency object (default random_state) propagate different "
                 f"probability levels: {levs[0][:2]} vs {(levs[k] or [])[:2]}; the discretisation is not fixed")
        return True
    first = impls[0] if spec["order"] == "narrow-first" else impls[-1]
    if not same_canon(first, c["_again"]):
        ctx.fail(features(spec, {"check": "repeat", "symptom": "second-evaluation-differs"}),
                 {**case_json, "first": pbx.js(first[:3]), "again": pbx.js(c["_again"][:3])},
                 f"{stream}: the same propagation repeated on the same dependency object gives a different p-box")
        return True
    return False


def _oracle(ctx, c, impls, dep):
    spec, runs, exact, stream = c["spec"], c["runs"], c["exact"], c["stream"]
    hint = mag_hint(spec, runs)
    # ---- oracle on the real results
    case_json = {"spec": spec, "runs": runs, "exact": exact, "stream": stream}
    doms = [in_domain(spec, inp) for inp in runs]
    nested_div = spec["f"] in ("itree", "ptree", "slice", "b2b", "imc") and tree_has(spec["tree"], ("div",))
    if STATE_ISSUES:
        issues = list(STATE_ISSUES)
        del STATE_ISSUES[:]
        mine = [k_ for k_, w_ in issues if w_ is spec]
        if mine:
            ctx.fail(features(spec, {"check": "state", "symptom": mine[0]}), {**case_json, "issues": mine},
                     f"{stream}: {mine[0]} (the call left global state changed, or its result aliases an operand / the caller's buffer)")
            return
    for i, (inp, im, dom) in enumerate(zip(runs, impls, doms)):
        if im[0] == "err" and im[1] == "Escalated":
            ctx.bump("escalated-warning-or-fp-error-propagated")
            return
        if im[0] == "err" and spec.get("ktype", "int") not in ("int", "npint") and im[1] in ("Other", "Type"):
            ctx.bump("exponent-type-rejected")
            return
        if im[0] == "err":
            if not dom or im[1] == "Domain":
                ctx.bump("outside-domain")
                return
            if nested_div:
                ctx.bump("nested-division-undefined")
                return
            if spec["f"] in ("pb-agg", "ptree") and (spec.get("agg") == "imp" or tree_has(spec.get("tree", ["v", 0]), ("imp",))) and i == 0:
                ctx.bump("empty-imposition")
                return
            extra = {"error_is": "imposition-empty"} if ("Imposition does not exist" in im[2] and spec.get("agg") != "imp"
                                                          and not tree_has(spec.get("tree", ["v", 0]), ("imp",))) else {}
            ctx.fail(features(spec, {"check": "raises", "symptom": "raises:" + im[1], "run": i, **extra}),
                     {**case_json, "error": im[2]},
                     f"{stream}: run {i} raised {im[2]} on operands inside the domain of the operation")
            return
        if not finite(im):
            ctx.bump("unbounded-result")
            return
        if not dom:
            # lesson G: where F(X) returned a value, F(X') has to return a containing value OR raise.  For the maps
            # with a pole / a domain edge (negative powers, reciprocal, sqrt, log) a wider operand that leaves the
            # domain must not come back with a finite value that does not contain the narrower result
            fn = spec.get("fn", "")
            pole = (spec["f"] in ("ivl-un", "pb-un") and fn in ("powk", "recip", "log", "sqrt", "nplog", "npsqrt")) \
                or spec["f"] == "pb-recip" or (spec["f"] == "pb-num" and spec["op"] == "div" and spec["side"] == "L") \
                or (spec["f"] in ("pb-bin", "ivl-bin") and spec["op"] == "div")
            if pole and i > 0 and doms[i - 1] and impls[i - 1][0] == "ok" and finite(impls[i - 1]):
                w = contained(impls[i - 1], im, exact, dep, hint)
                if w is not None:
                    ctx.fail(features(spec, {"check": "must-raise", "symptom": "finite-non-containing-value-outside-domain", "k": spec.get("k")}),
                             {**case_json, "witness": w, "impl": [pbx.js(x_[:3]) for x_ in impls if x_[0] == "ok"]},
                             f"{stream}: the wider operand is outside the domain of {fn or spec.get('op') or 'reciprocal'}{spec.get('k', '')} (a pole / an undefined value inside): "
                             f"the call has to raise, it returned a finite value that does not contain the result for the contained operand "
                             f"({w['why']}: {w.get('narrow')} vs {w.get('wide')})")
                    return
            ctx.bump("outside-domain")
            return
    import random, zlib
    prng = random.Random(zlib.crc32(json.dumps(spec, sort_keys=True, default=str).encode()))
    for i, (inp, im) in enumerate(zip(runs, impls)):
        w = sub_result_check(spec, inp, im, exact, dep, prng, hint)
        if w is not None:
            ctx.fail(features(spec, {"check": "sub-result", "symptom": "exact-sub-result-outside:" + w["why"], "run": i}),
                     {**case_json, "witness": w, "impl": [pbx.js(x[:3]) for x in impls]},
                     f"{stream}: run {i}: the exactly computed result of a point / precise sub-box lies outside the result for the box ({json.dumps(w)[:200]})")
            return
    ctx.bump("sub-results-checked")
    for i in range(len(runs) - 1):
        w = contained(impls[i], impls[i + 1], exact, dep, hint)
        if w is not None:
            ctx.fail(features(spec, {"check": "containment", "symptom": "not-contained:" + w["why"]}),
                     {**case_json, "witness": w, "impl": [pbx.js(x[:3]) for x in impls]},
                     f"{stream}: the result for the contained operand is not inside the result for the containing one "
                     f"({w['why']} bound, step {w.get('step')}: {w.get('narrow')} vs {w.get('wide')})")
            return
    ctx.bump("pairs-compared")


def replay(obj):
    c = obj.get("case", {})
    if "spec" not in c:
        print(json.dumps(obj, indent=1))
        return 0
    core.stub_moments()
    ctx = core.Check("C12", "replay", 0)
    case = {"stream": c.get("stream", "replay"), "spec": c["spec"], "runs": c["runs"], "exact": c.get("exact", False), "nontrivial": True}
    if case["spec"]["f"] == "imc":
        prepare_imc(case)
    reqs = [wire(case["spec"], inp) for inp in case["runs"]]
    reps = core.model_batch("C12", [r for r in reqs if r is not None])
    it = iter(reps)
    models = [parse_model(next(it)) if r is not None else None for r in reqs]
    print("spec  :", json.dumps(case["spec"]))
    check_case(ctx, case, models, verbose=True)
    for f in ctx.failures:
        print("oracle:", f["what"])
    for k in ctx.known_hit.values():
        print("oracle: known finding", k["k"]["id"])
    if not ctx.failures and not ctx.known_hit:
        print("oracle: contained")
    for t in ctx.tie_disagreements:
        print("tie   : DISAGREE", json.dumps(t)[:400])
    return 1 if ctx.failures else 0
