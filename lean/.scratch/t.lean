import Mathlib.Data.List.Basic
open List
example (l : List Nat) (i : Nat) (d : Nat) (h : i < l.length) : l.getD i d = l[i] := by exact?
example (l : List Nat) (i : Nat) (d : Nat) (h : l.length ≤ i) : l.getD i d = d := by exact?
