import Pun.Lemmas.Iso
set_option linter.unusedSimpArgs false
set_option linter.unusedVariables false
namespace Pun.Iso
open Pun List Pun.PBox

theorem LE.getElem {l l' : List Rat} (h : LE l l') (i : Nat) (hi : i < l.length) (hi' : i < l'.length) :
    l[i] ≤ l'[i] := (LE_iff_get.mp h).2 i hi hi'

/-- Frechet: the raw left bound is below the raw right bound at every step (well-formed operands) -/
theorem frechet_valid (op : Rat → Rat → Rat) (hop : Mono2 op) (a b A B : List Rat) (n : Nat)
    (ha : a.length = n) (hb : b.length = n) (hA : A.length = n) (hB : B.length = n)
    (sA : A.Pairwise (· ≤ ·)) (sB : B.Pairwise (· ≤ ·)) (haA : LE a A) (hbB : LE b B) :
    LE (frechetLeftRaw op a b) (frechetRightRaw op A B) := by
  rw [LE_iff_get]
  refine ⟨by rw [frechetLeftRaw_length, frechetRightRaw_length, ha, hA], fun i hi hi' => ?_⟩
  rw [frechetLeftRaw_length] at hi
  obtain ⟨v, hv, -, j, hj, hatt⟩ := frechetLeftRaw_spec op a b (by omega) i hi
  obtain ⟨w, hw, -, t, ht, hatt'⟩ := frechetRightRaw_spec op A B n hA hB i (by omega)
  have e1 : (frechetLeftRaw op a b)[i] = v := by
    have := List.getElem?_eq_getElem (l := frechetLeftRaw op a b) (i := i) (by rw [frechetLeftRaw_length]; exact hi)
    rw [this] at hv; exact Option.some.inj hv
  have e2 : (frechetRightRaw op A B)[i] = w := by
    have := List.getElem?_eq_getElem (l := frechetRightRaw op A B) (i := i) hi'
    rw [this] at hw; exact Option.some.inj hw
  rw [e1, e2, hatt, hatt']
  apply hop
  · have h1 : a[j] ≤ A[j]'(by omega) := haA.getElem j (by omega) (by omega)
    refine le_trans h1 ?_
    rcases Nat.lt_or_ge j (i + t) with h | h
    · exact (List.pairwise_iff_getElem.mp sA) j (i + t) (by omega) (by omega) h
    · have : j = i + t := by omega
      subst this; exact le_refl _
  · have h1 : b[i - j] ≤ B[i - j]'(by omega) := hbB.getElem (i - j) (by omega) (by omega)
    refine le_trans h1 ?_
    rcases Nat.lt_or_ge (i - j) (n - 1 - t) with h | h
    · exact (List.pairwise_iff_getElem.mp sB) (i - j) (n - 1 - t) (by omega) (by omega) h
    · have : i - j = n - 1 - t := by omega
      simp [this]

end Pun.Iso
