import Pun.Lemmas.Elem
import Pun.Props.C05
set_option linter.unusedSimpArgs false
set_option linter.unusedVariables false
namespace Pun.Elem

theorem tan_sound (t : ℚ → ℚ) (P : ℚ) (hP : 0 < P)
    (per : ∀ (x : ℚ) (k : ℤ), t (x + k * P) = t x)
    (m1 : ∀ u v, 0 ≤ u → u ≤ v → v < P / 2 → t u ≤ t v)
    (m2 : ∀ u v, P / 2 < u → u ≤ v → v ≤ P → t u ≤ t v)
    (lo hi x zl zh zx : ℚ) (kl kh kx : ℤ)
    (hlo : lo = zl + kl * P) (hzl0 : 0 ≤ zl) (hzlP : zl < P)
    (hhi : hi = zh + kh * P) (hzh0 : 0 ≤ zh) (hzhP : zh < P)
    (hx : x = zx + kx * P) (hzx0 : 0 ≤ zx) (hzxP : zx < P)
    (h1 : lo ≤ x) (h2 : x ≤ hi)
    (hfin : tanInf (hi - lo) zl zh P = false) :
    zx ≠ P / 2 ∧ t zl ≤ t x ∧ t x ≤ t zh := by
  have hsx : t x = t zx := by rw [hx, per]
  rw [hsx]
  have hP0 : t P = t 0 := by have := per 0 1; simpa using this
  unfold tanInf at hfin
  simp only [decide_eq_false_iff_not, not_or] at hfin
  obtain ⟨hw, c1b, c1c, c1d⟩ := hfin
  have hr := reduced_range P hP lo hi x zl zh zx kl kh kx hlo hzl0 hzlP hhi hzh0 hzhP hx hzx0 hzxP h1 h2 (not_le.mp hw)
  rcases hr with ⟨p, q⟩ | ⟨hwr, pq⟩
  · rcases le_or_gt zl (P / 2) with a | a
    · have hzh : zh < P / 2 := by
        by_contra hc
        exact c1d ⟨⟨hzl0, a⟩, ⟨not_lt.mp hc, le_of_lt hzhP⟩⟩
      exact ⟨by intro e; linarith, m1 zl zx hzl0 p (by linarith), m1 zx zh hzx0 q hzh⟩
    · exact ⟨by intro e; linarith, m2 zl zx a p (le_of_lt hzxP), m2 zx zh (by linarith) q (le_of_lt hzhP)⟩
  · have a : P / 2 < zl := by
      by_contra hc
      have hc' := not_lt.mp hc
      exact c1b ⟨hwr, ⟨hzl0, hc'⟩, ⟨hzh0, by linarith⟩⟩
    have b : zh < P / 2 := by
      by_contra hc
      have hc' := not_lt.mp hc
      exact c1c ⟨hwr, ⟨le_of_lt a, le_of_lt hzlP⟩, ⟨hc', le_of_lt hzhP⟩⟩
    rcases pq with p | q
    · refine ⟨by intro e; linarith, m2 zl zx a p (le_of_lt hzxP), ?_⟩
      calc t zx ≤ t P := m2 zx P (by linarith) (le_of_lt hzxP) (le_refl _)
        _ = t 0 := hP0
        _ ≤ t zh := m1 0 zh (le_refl _) hzh0 b
    · refine ⟨by intro e; linarith, ?_, m1 zx zh hzx0 q b⟩
      calc t zl ≤ t P := m2 zl P a (le_of_lt hzlP) (le_refl _)
        _ = t 0 := hP0
        _ ≤ t zx := m1 0 zx (le_refl _) hzx0 (by linarith)

/-- a width of at least one period always gives the unbounded interval -/
theorem tan_wide (w zl zh P : ℚ) (h : P ≤ w) : tanInf w zl zh P = true := by
  unfold tanInf; simp [h]

end Pun.Elem
