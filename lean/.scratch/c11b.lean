import Pun.Lemmas.EnvImp
set_option linter.unusedSimpArgs false
set_option linter.unusedVariables false
namespace Pun.EnvImp
open Pun Pun.PBox

/-- well-formed p-box with `n` steps: both bounds sorted, `left ≤ right` at every step -/
structure WF (n : Nat) (p : PB) : Prop where
  llen : p.left.length = n
  rlen : p.right.length = n
  lsorted : p.left.Pairwise (· ≤ ·)
  rsorted : p.right.Pairwise (· ≤ ·)
  le : PLe p.left p.right

/-- `Sub P Q` : `Q` contains `P` (`P ⊑ Q`): `Q.left ≤ P.left` and `P.right ≤ Q.right` at every step -/
def Sub (P Q : PB) : Prop := PLe Q.left P.left ∧ PLe P.right Q.right

theorem Sub.rfl' (P : PB) : Sub P P := ⟨PLe.rfl _, PLe.rfl _⟩
theorem Sub.trans' {P Q R : PB} (h1 : Sub P Q) (h2 : Sub Q R) : Sub P R :=
  ⟨PLe.trans h2.1 h1.1, PLe.trans h1.2 h2.2⟩
theorem Sub.antisymm' {P Q : PB} (h1 : Sub P Q) (h2 : Sub Q P) : P = Q := by
  cases P; cases Q
  simp only [Sub] at h1 h2
  rw [PLe.antisymm h2.1 h1.1, PLe.antisymm h1.2 h2.2]

/-- a selection: one value per step, inside the step -/
def Sel (P : PB) (z : List Rat) : Prop := PLe P.left z ∧ PLe z P.right

/-- pointwise minimum of the left bounds, maximum of the right bounds -/
def envSpec (X Y : PB) : PB := ⟨List.zipWith min X.left Y.left, List.zipWith max X.right Y.right⟩
/-- pointwise maximum of the left bounds, minimum of the right bounds -/
def impSpec (X Y : PB) : PB := ⟨List.zipWith max X.left Y.left, List.zipWith min X.right Y.right⟩
/-- every step of `X` meets the same step of `Y` -/
def Compat (X Y : PB) : Prop := PLe (List.zipWith max X.left Y.left) (List.zipWith min X.right Y.right)

theorem envSpec_wf {n : Nat} {X Y : PB} (hX : WF n X) (hY : WF n Y) : WF n (envSpec X Y) where
  llen := by simp [envSpec, hX.llen, hY.llen]
  rlen := by simp [envSpec, hX.rlen, hY.rlen]
  lsorted := zipWith_min_sorted _ _ hX.lsorted hY.lsorted
  rsorted := zipWith_max_sorted _ _ hX.rsorted hY.rsorted
  le := PLe.trans (zipWith_min_le_left _ _ (by rw [hX.llen, hY.llen]))
    (PLe.trans hX.le (left_le_zipWith_max _ _ (by rw [hX.rlen, hY.rlen])))

theorem env_ok {n : Nat} {X Y : PB} (hX : WF n X) (hY : WF n Y) : env n X Y = .ok (envSpec X Y) := by
  have h := envSpec_wf hX hY
  exact mk_ok n false _ _ h.llen h.rlen h.lsorted h.rsorted h.le

theorem impSpec_wf {n : Nat} {X Y : PB} (hX : WF n X) (hY : WF n Y) (hc : Compat X Y) : WF n (impSpec X Y) where
  llen := by simp [impSpec, hX.llen, hY.llen]
  rlen := by simp [impSpec, hX.rlen, hY.rlen]
  lsorted := zipWith_max_sorted _ _ hX.lsorted hY.lsorted
  rsorted := zipWith_min_sorted _ _ hX.rsorted hY.rsorted
  le := hc

theorem any_gt_false_iff (u d : List Rat) (h : u.length = d.length) :
    (u.zip d).any (fun p => decide (p.1 > p.2)) = false ↔ PLe u d := by
  induction u generalizing d with
  | nil => cases d with
    | nil => simp
    | cons _ _ => simp at h
  | cons x t ih =>
    cases d with
    | nil => simp at h
    | cons y v =>
      have := ih v (by simpa using h)
      simp only [List.zip_cons_cons, List.any_cons, Bool.or_eq_false_iff, decide_eq_false_iff_not, not_lt] at this ⊢
      rw [this]
      constructor
      · rintro ⟨h1, h2⟩; exact .cons h1 h2
      · intro h; cases h with
        | cons h1 h2 => exact ⟨h1, h2⟩

theorem imp_ok {n : Nat} {X Y : PB} (hX : WF n X) (hY : WF n Y) (hc : Compat X Y) :
    imp n X Y = .ok (impSpec X Y) := by
  have h := impSpec_wf hX hY hc
  have hlen : (List.zipWith max X.left Y.left).length = (List.zipWith min X.right Y.right).length := by
    simp [hX.llen, hY.llen, hX.rlen, hY.rlen]
  have hg := (any_gt_false_iff _ _ hlen).mpr hc
  unfold imp
  simp only [hg]
  exact mk_ok n true _ _ h.llen h.rlen h.lsorted h.rsorted h.le

theorem imp_err {n : Nat} {X Y : PB} (hX : WF n X) (hY : WF n Y) (hc : ¬ Compat X Y) :
    imp n X Y = .error .Other := by
  have hlen : (List.zipWith max X.left Y.left).length = (List.zipWith min X.right Y.right).length := by
    simp [hX.llen, hY.llen, hX.rlen, hY.rlen]
  have hg : (((List.zipWith max X.left Y.left).zip (List.zipWith min X.right Y.right)).any
      (fun p => decide (p.1 > p.2))) = true := by
    by_contra hh
    exact hc ((any_gt_false_iff _ _ hlen).mp (by simpa using hh))
  unfold imp
  simp only [hg, if_true]

/-- the steps meet pairwise iff there is a common selection; then there is a sorted one -/
theorem compat_iff_common {n : Nat} {X Y : PB} (hX : WF n X) (hY : WF n Y) :
    Compat X Y ↔ ∃ z, Sel X z ∧ Sel Y z := by
  constructor
  · intro hc
    refine ⟨List.zipWith max X.left Y.left, ⟨left_le_zipWith_max _ _ (by rw [hX.llen, hY.llen]), ?_⟩,
      ⟨right_le_zipWith_max _ _ (by rw [hX.llen, hY.llen]), ?_⟩⟩
    · exact PLe.trans hc (zipWith_min_le_left _ _ (by rw [hX.rlen, hY.rlen]))
    · exact PLe.trans hc (zipWith_min_le_right _ _ (by rw [hX.rlen, hY.rlen]))
  · rintro ⟨z, ⟨h1, h2⟩, ⟨h3, h4⟩⟩
    exact PLe.trans (zipWith_max_le h1 h3) (le_zipWith_min h2 h4)

theorem sub_envSpec_left {n : Nat} {X Y : PB} (hX : WF n X) (hY : WF n Y) : Sub X (envSpec X Y) :=
  ⟨zipWith_min_le_left _ _ (by rw [hX.llen, hY.llen]), left_le_zipWith_max _ _ (by rw [hX.rlen, hY.rlen])⟩
theorem sub_envSpec_right {n : Nat} {X Y : PB} (hX : WF n X) (hY : WF n Y) : Sub Y (envSpec X Y) :=
  ⟨zipWith_min_le_right _ _ (by rw [hX.llen, hY.llen]), right_le_zipWith_max _ _ (by rw [hX.rlen, hY.rlen])⟩
theorem envSpec_sub {X Y Q : PB} (h1 : Sub X Q) (h2 : Sub Y Q) : Sub (envSpec X Y) Q :=
  ⟨le_zipWith_min h1.1 h2.1, zipWith_max_le h1.2 h2.2⟩
theorem impSpec_sub_left {n : Nat} {X Y : PB} (hX : WF n X) (hY : WF n Y) : Sub (impSpec X Y) X :=
  ⟨left_le_zipWith_max _ _ (by rw [hX.llen, hY.llen]), zipWith_min_le_left _ _ (by rw [hX.rlen, hY.rlen])⟩
theorem impSpec_sub_right {n : Nat} {X Y : PB} (hX : WF n X) (hY : WF n Y) : Sub (impSpec X Y) Y :=
  ⟨right_le_zipWith_max _ _ (by rw [hX.llen, hY.llen]), zipWith_min_le_right _ _ (by rw [hX.rlen, hY.rlen])⟩
theorem sub_impSpec {X Y Q : PB} (h1 : Sub Q X) (h2 : Sub Q Y) : Sub Q (impSpec X Y) :=
  ⟨zipWith_max_le h1.1 h2.1, le_zipWith_min h1.2 h2.2⟩

/-- a selection of a box inside both operands is a common selection -/
theorem sel_of_sub {P Q : PB} {z : List Rat} (h : Sub P Q) (hz : Sel P z) : Sel Q z :=
  ⟨PLe.trans h.1 hz.1, PLe.trans hz.2 h.2⟩

theorem sel_impSpec {X Y : PB} {z : List Rat} (h1 : Sel X z) (h2 : Sel Y z) : Sel (impSpec X Y) z :=
  ⟨zipWith_max_le h1.1 h2.1, le_zipWith_min h1.2 h2.2⟩

end Pun.EnvImp
