import Pun.Lemmas.Iso
import Pun.Lemmas.Hull
set_option linter.unusedSimpArgs false
set_option linter.unusedVariables false
namespace Pun.Iso
open Pun List Pun.PBox

theorem zip4_append (f : Rat → Rat → Rat → Rat → Rat) (a1 a2 a3 a4 b1 b2 b3 b4 : List Rat)
    (h2 : a1.length = a2.length) (h3 : a1.length = a3.length) (h4 : a1.length = a4.length) :
    zip4 f (a1 ++ b1) (a2 ++ b2) (a3 ++ b3) (a4 ++ b4) = zip4 f a1 a2 a3 a4 ++ zip4 f b1 b2 b3 b4 := by
  induction a1 generalizing a2 a3 a4 with
  | nil =>
    have e2 : a2 = [] := List.length_eq_zero_iff.mp h2.symm
    have e3 : a3 = [] := List.length_eq_zero_iff.mp h3.symm
    have e4 : a4 = [] := List.length_eq_zero_iff.mp h4.symm
    subst e2; subst e3; subst e4
    simp [zip4]
  | cons x t ih =>
    cases a2 with
    | nil => simp at h2
    | cons x2 t2 =>
    cases a3 with
    | nil => simp at h3
    | cons x3 t3 =>
    cases a4 with
    | nil => simp at h4
    | cons x4 t4 =>
      simp only [List.cons_append, zip4]
      rw [ih t2 t3 t4 (by simpa using h2) (by simpa using h3) (by simpa using h4)]

end Pun.Iso
