import Pun.Lemmas.Iso
set_option linter.unusedSimpArgs false
set_option linter.unusedVariables false
namespace Pun.Iso
section PB1
open Pun List Pun.PBox
/-- the shape of every public isotonicity statement: both runs return, results well formed and nested -/
def IsoRes (n : Nat) (r r' : Except Err PB) : Prop :=
  ∃ R R', r = .ok R ∧ r' = .ok R' ∧ PSub R R' ∧ WF n R ∧ WF n R'

theorem add_isoRes (n : Nat) (d : Dep) (hd : d ≠ .unknown) {X X' Y Y' : PB}
    (wX : WF n X) (wX' : WF n X') (wY : WF n Y) (wY' : WF n Y') (hX : PSub X X') (hY : PSub Y Y') :
    IsoRes n (add n d X Y) (add n d X' Y') := add_iso n d hd wX wX' wY wY' hX hY

/-- **`X.mul(Y, dependency)` is isotone under perfect, opposite and independent dependence**, all signs -/
theorem mul_iso_poi (n : Nat) (d : Dep) (hd : d = .p ∨ d = .o ∨ d = .i) {X X' Y Y' : PB}
    (wX : WF n X) (wX' : WF n X') (wY : WF n Y) (wY' : WF n Y') (hX : PSub X X') (hY : PSub Y Y') :
    IsoRes n (mul n d X Y) (mul n d X' Y') := by
  rcases hd with h | h | h <;> subst h
  · exact public_of_facts n n (Or.inl rfl) (perfectOp_facts _ n wX wY) (perfectOp_facts _ n wX' wY')
      (iso_perfectOp _ hull_mul wX.valid wY.valid hX hY)
  · exact public_of_facts n n (Or.inl rfl) (oppositeOp_facts _ n wX wY) (oppositeOp_facts _ n wX' wY')
      (iso_oppositeOp _ hull_mul wX.valid wY.valid hX hY)
  · exact public_of_facts n (n * n) (sq_cases n) (independentOp_facts _ n wX wY) (independentOp_facts _ n wX' wY')
      (iso_independentOp _ hull_mul wX.valid wY.valid hX hY)

/-! ### negation, subtraction -/

theorem neg_anti : ∀ x y : Rat, x ≤ y → -y ≤ -x := fun _ _ h => neg_le_neg h

theorem neg_ok (n : Nat) {X : PB} (wX : WF n X) :
    neg n X = .ok ⟨sortR (X.right.reverse.map (- ·)), sortR (X.left.reverse.map (- ·))⟩ ∧
    WF n ⟨sortR (X.right.reverse.map (- ·)), sortR (X.left.reverse.map (- ·))⟩ := by
  have hl : (sortR (X.right.reverse.map (- ·))).length = n := by simp [sortR_length, wX.rlen]
  have hr : (sortR (X.left.reverse.map (- ·))).length = n := by simp [sortR_length, wX.llen]
  have hle : LE (sortR (X.right.reverse.map (- ·))) (sortR (X.left.reverse.map (- ·))) :=
    sortR_mono (LE.map_anti neg_anti wX.valid.reverse)
  exact ⟨mk_ok n true _ _ hl hr (sortR_sorted _) (sortR_sorted _) hle, ⟨hl, hr, sortR_sorted _, sortR_sorted _, hle⟩⟩

/-- **negation is isotone** -/
theorem neg_iso (n : Nat) {X X' : PB} (wX : WF n X) (wX' : WF n X') (hX : PSub X X') :
    IsoRes n (neg n X) (neg n X') := by
  obtain ⟨e, w⟩ := neg_ok n wX
  obtain ⟨e', w'⟩ := neg_ok n wX'
  refine ⟨_, _, e, e', ⟨?_, ?_⟩, w, w'⟩
  · exact sortR_mono (LE.map_anti neg_anti hX.2.reverse)
  · exact sortR_mono (LE.map_anti neg_anti hX.1.reverse)

theorem swapPO_ne_unknown {d : Dep} (hd : d ≠ .unknown) : swapPO d ≠ .unknown := by
  cases d <;> simp [swapPO] at * 

/-- **`X.sub(Y, dependency)` is isotone** under every dependency (`-Y`, then `add` with `p ↔ o` swapped) -/
theorem sub_iso (n : Nat) (d : Dep) (hd : d ≠ .unknown) {X X' Y Y' : PB}
    (wX : WF n X) (wX' : WF n X') (wY : WF n Y) (wY' : WF n Y') (hX : PSub X X') (hY : PSub Y Y') :
    IsoRes n (sub n d X Y) (sub n d X' Y') := by
  obtain ⟨N, N', e, e', hN, wN, wN'⟩ := neg_iso n wY wY' hY
  obtain ⟨R, R', f, f', hR, wR, wR'⟩ := add_iso n (swapPO d) (swapPO_ne_unknown hd) wX wX' wN wN' hX hN
  exact ⟨R, R', by simp [sub, e, f, bind, Except.bind], by simp [sub, e', f', bind, Except.bind], hR, wR, wR'⟩

/-! ### a real number as the other operand -/

/-- `pbox_number_ops` with an increasing map of the bounds -/
theorem numberOp_iso_mono (n : Nat) (f : Rat → Rat → Rat) (c : Rat) (hf : ∀ x y, x ≤ y → f x c ≤ f y c)
    {X X' : PB} (wX : WF n X) (wX' : WF n X') (hX : PSub X X') :
    IsoRes n (numberOp n f X c) (numberOp n f X' c) := by
  have key : ∀ {P : PB}, WF n P → numberOp n f P c = .ok ⟨sortR (P.left.map (f · c)), sortR (P.right.map (f · c))⟩ ∧
      WF n ⟨sortR (P.left.map (f · c)), sortR (P.right.map (f · c))⟩ := by
    intro P wP
    have hl : (sortR (P.left.map (f · c))).length = n := by simp [sortR_length, wP.llen]
    have hr : (sortR (P.right.map (f · c))).length = n := by simp [sortR_length, wP.rlen]
    have hle : LE (sortR (P.left.map (f · c))) (sortR (P.right.map (f · c))) := sortR_mono (LE.map hf wP.valid)
    exact ⟨mk_ok n true _ _ hl hr (sortR_sorted _) (sortR_sorted _) hle, ⟨hl, hr, sortR_sorted _, sortR_sorted _, hle⟩⟩
  obtain ⟨e, w⟩ := key wX
  obtain ⟨e', w'⟩ := key wX'
  exact ⟨_, _, e, e', ⟨sortR_mono (LE.map hf hX.1), sortR_mono (LE.map hf hX.2)⟩, w, w'⟩

/-- `pbox_number_ops` with a decreasing map of the bounds: the constructor switches the two lists -/
theorem numberOp_iso_anti (n : Nat) (f : Rat → Rat → Rat) (c : Rat) (hf : ∀ x y, x ≤ y → f y c ≤ f x c)
    {X X' : PB} (wX : WF n X) (wX' : WF n X') (hX : PSub X X') :
    IsoRes n (numberOp n f X c) (numberOp n f X' c) := by
  have key : ∀ {P : PB}, WF n P → numberOp n f P c = .ok ⟨sortR (P.right.map (f · c)), sortR (P.left.map (f · c))⟩ ∧
      WF n ⟨sortR (P.right.map (f · c)), sortR (P.left.map (f · c))⟩ := by
    intro P wP
    have hl : (sortR (P.left.map (f · c))).length = n := by simp [sortR_length, wP.llen]
    have hr : (sortR (P.right.map (f · c))).length = n := by simp [sortR_length, wP.rlen]
    have hge : LE (sortR (P.right.map (f · c))) (sortR (P.left.map (f · c))) := sortR_mono (LE.map_anti hf wP.valid)
    exact ⟨mk_ok_switched n _ _ hl hr (sortR_sorted _) (sortR_sorted _) hge, ⟨hr, hl, sortR_sorted _, sortR_sorted _, hge⟩⟩
  obtain ⟨e, w⟩ := key wX
  obtain ⟨e', w'⟩ := key wX'
  exact ⟨_, _, e, e', ⟨sortR_mono (LE.map_anti hf hX.2), sortR_mono (LE.map_anti hf hX.1)⟩, w, w'⟩

/-- multiplication by a constant of either sign -/
theorem numberOp_mul_iso (n : Nat) (c : Rat) {X X' : PB} (wX : WF n X) (wX' : WF n X') (hX : PSub X X') :
    IsoRes n (numberOp n (· * ·) X c) (numberOp n (· * ·) X' c) := by
  rcases le_total 0 c with h | h
  · exact numberOp_iso_mono n _ c (fun x y hxy => mul_le_mul_of_nonneg_right hxy h) wX wX' hX
  · exact numberOp_iso_anti n _ c (fun x y hxy => mul_le_mul_of_nonpos_right hxy h) wX wX' hX

/-- **`X op c` is isotone** for `+ − ×` and for `÷` by a non-zero number -/
theorem numRight_iso (n : Nat) (o : Op) (c : Rat) (hc : o = .div → c ≠ 0) {X X' : PB}
    (wX : WF n X) (wX' : WF n X') (hX : PSub X X') : IsoRes n (numRight n o X c) (numRight n o X' c) := by
  cases o with
  | add => exact numberOp_iso_mono n _ c (fun x y h => by simpa using h) wX wX' hX
  | sub => exact numberOp_iso_mono n _ (-c) (fun x y h => by simpa using h) wX wX' hX
  | mul => exact numberOp_mul_iso n c wX wX' hX
  | div =>
    have := hc rfl
    simp only [numRight, this, if_false]
    exact numberOp_mul_iso n (1 / c) wX wX' hX

/-- **`c op X` is isotone** for `+ − ×` -/
theorem numLeft_iso (n : Nat) (o : Op) (c : Rat) (ho : o ≠ .div) {X X' : PB}
    (wX : WF n X) (wX' : WF n X') (hX : PSub X X') : IsoRes n (numLeft n o c X) (numLeft n o c X') := by
  cases o with
  | add => exact numberOp_iso_mono n _ c (fun x y h => by simpa using h) wX wX' hX
  | sub =>
    obtain ⟨N, N', e, e', hN, wN, wN'⟩ := neg_iso n wX wX' hX
    obtain ⟨R, R', f, f', hR, wR, wR'⟩ := numberOp_iso_mono n (· + ·) c (fun x y h => by simpa using h) wN wN' hN
    exact ⟨R, R', by simp [numLeft, e, f, bind, Except.bind], by simp [numLeft, e', f', bind, Except.bind], hR, wR, wR'⟩
  | mul => exact numberOp_mul_iso n c wX wX' hX
  | div => exact absurd rfl ho

/-! ### unary maps, envelope, imposition -/

/-- **`_unary_template(f)` with an increasing `f`** (exp, sqrt, log on their domains) -/
theorem unary_iso (n : Nat) (φ : Rat → Rat) (hφ : ∀ x y, x ≤ y → φ x ≤ φ y) {X X' : PB}
    (wX : WF n X) (wX' : WF n X') (hX : PSub X X') :
    IsoRes n (unaryTemplate n (X.left.map φ) (X.right.map φ)) (unaryTemplate n (X'.left.map φ) (X'.right.map φ)) := by
  have key : ∀ {P : PB}, WF n P → unaryTemplate n (P.left.map φ) (P.right.map φ) = .ok ⟨P.left.map φ, P.right.map φ⟩ ∧
      WF n ⟨P.left.map φ, P.right.map φ⟩ := by
    intro P wP
    have hl : (P.left.map φ).length = n := by simp [wP.llen]
    have hr : (P.right.map φ).length = n := by simp [wP.rlen]
    have sl : (P.left.map φ).Pairwise (· ≤ ·) := by
      rw [List.pairwise_map]; exact wP.lsorted.imp (fun h => hφ _ _ h)
    have sr : (P.right.map φ).Pairwise (· ≤ ·) := by
      rw [List.pairwise_map]; exact wP.rsorted.imp (fun h => hφ _ _ h)
    exact ⟨mk_ok n false _ _ hl hr sl sr (LE.map hφ wP.valid), ⟨hl, hr, sl, sr, LE.map hφ wP.valid⟩⟩
  obtain ⟨e, w⟩ := key wX
  obtain ⟨e', w'⟩ := key wX'
  exact ⟨_, _, e, e', ⟨LE.map hφ hX.1, LE.map hφ hX.2⟩, w, w'⟩

theorem min_mono2 : Mono2 min := fun _ _ _ _ h1 h2 => min_le_min h1 h2
theorem max_mono2 : Mono2 max := fun _ _ _ _ h1 h2 => max_le_max h1 h2

theorem zipWith_sorted (f : Rat → Rat → Rat) (hf : Mono2 f) (a b : List Rat) (sa : a.Pairwise (· ≤ ·))
    (sb : b.Pairwise (· ≤ ·)) : (List.zipWith f a b).Pairwise (· ≤ ·) := by
  rw [List.pairwise_iff_getElem]
  intro i j hi hj hij
  simp only [List.length_zipWith, lt_min_iff] at hi hj
  simp only [List.getElem_zipWith]
  exact hf _ _ _ _ ((List.pairwise_iff_getElem.mp sa) i j hi.1 hj.1 hij) ((List.pairwise_iff_getElem.mp sb) i j hi.2 hj.2 hij)

theorem zipWith_min_le_max {a A b B : List Rat} (h1 : LE a A) (h2 : LE b B) :
    LE (List.zipWith min a b) (List.zipWith max A B) := by
  induction h1 generalizing b B with
  | nil => simp
  | cons hxy _ ih =>
    cases h2 with
    | nil => simp
    | cons hcd htl =>
      simp only [List.zipWith_cons_cons]
      exact List.Forall₂.cons (le_trans (min_le_left _ _) (le_trans hxy (le_max_left _ _))) (ih htl)

/-- **envelope is isotone** -/
theorem env_iso (n : Nat) {X X' Y Y' : PB} (wX : WF n X) (wX' : WF n X') (wY : WF n Y) (wY' : WF n Y')
    (hX : PSub X X') (hY : PSub Y Y') : IsoRes n (env n X Y) (env n X' Y') := by
  have key : ∀ {P Q : PB}, WF n P → WF n Q → env n P Q = .ok ⟨List.zipWith min P.left Q.left, List.zipWith max P.right Q.right⟩ ∧
      WF n ⟨List.zipWith min P.left Q.left, List.zipWith max P.right Q.right⟩ := by
    intro P Q wP wQ
    have hl : (List.zipWith min P.left Q.left).length = n := by simp [wP.llen, wQ.llen]
    have hr : (List.zipWith max P.right Q.right).length = n := by simp [wP.rlen, wQ.rlen]
    have sl := zipWith_sorted min min_mono2 _ _ wP.lsorted wQ.lsorted
    have sr := zipWith_sorted max max_mono2 _ _ wP.rsorted wQ.rsorted
    have hle := zipWith_min_le_max wP.valid wQ.valid
    exact ⟨mk_ok n false _ _ hl hr sl sr hle, ⟨hl, hr, sl, sr, hle⟩⟩
  obtain ⟨e, w⟩ := key wX wY
  obtain ⟨e', w'⟩ := key wX' wY'
  exact ⟨_, _, e, e', ⟨LE.zipWith min_mono2 hX.1 hY.1, LE.zipWith max_mono2 hX.2 hY.2⟩, w, w'⟩

theorem anyGt_false_of_LE {u d : List Rat} (h : LE u d) : (u.zip d).any (fun p => decide (p.1 > p.2)) = false :=
  noCross_of_LE h

theorem LE_of_anyGt_false {u d : List Rat} (hlen : u.length = d.length)
    (h : (u.zip d).any (fun p => decide (p.1 > p.2)) = false) : LE u d := by
  induction u generalizing d with
  | nil => cases d with
    | nil => exact List.Forall₂.nil
    | cons _ _ => simp at hlen
  | cons a s ih =>
    cases d with
    | nil => simp at hlen
    | cons b t =>
      simp only [List.zip_cons_cons, List.any_cons, Bool.or_eq_false_iff, decide_eq_false_iff_not, not_lt] at h
      exact List.Forall₂.cons h.1 (ih (by simpa using hlen) h.2)

/-- **imposition is isotone**: when the narrower operands have an imposition, so do the wider ones, and it contains it -/
theorem imp_iso (n : Nat) {X X' Y Y' : PB} (wX : WF n X) (wX' : WF n X') (wY : WF n Y) (wY' : WF n Y')
    (hX : PSub X X') (hY : PSub Y Y') (R : PB) (h : imp n X Y = .ok R) :
    IsoRes n (imp n X Y) (imp n X' Y') := by
  have key : ∀ {P Q : PB}, WF n P → WF n Q → LE (List.zipWith max P.left Q.left) (List.zipWith min P.right Q.right) →
      imp n P Q = .ok ⟨List.zipWith max P.left Q.left, List.zipWith min P.right Q.right⟩ ∧
      WF n ⟨List.zipWith max P.left Q.left, List.zipWith min P.right Q.right⟩ := by
    intro P Q wP wQ hle
    have hl : (List.zipWith max P.left Q.left).length = n := by simp [wP.llen, wQ.llen]
    have hr : (List.zipWith min P.right Q.right).length = n := by simp [wP.rlen, wQ.rlen]
    have sl := zipWith_sorted max max_mono2 _ _ wP.lsorted wQ.lsorted
    have sr := zipWith_sorted min min_mono2 _ _ wP.rsorted wQ.rsorted
    refine ⟨?_, ⟨hl, hr, sl, sr, hle⟩⟩
    simp only [imp, anyGt_false_of_LE hle, Bool.false_eq_true, if_false]
    exact mk_ok n true _ _ hl hr sl sr hle
  -- the narrower pair is compatible because its imposition exists
  have hc : LE (List.zipWith max X.left Y.left) (List.zipWith min X.right Y.right) := by
    apply LE_of_anyGt_false (by simp [wX.llen, wY.llen, wX.rlen, wY.rlen])
    by_contra hne
    simp only [imp, Bool.not_eq_false] at h hne
    simp [hne] at h
  have hc' : LE (List.zipWith max X'.left Y'.left) (List.zipWith min X'.right Y'.right) :=
    LE.trans (LE.zipWith max_mono2 hX.1 hY.1) (LE.trans hc (LE.zipWith min_mono2 hX.2 hY.2))
  obtain ⟨e, w⟩ := key wX wY hc
  obtain ⟨e', w'⟩ := key wX' wY' hc'
  exact ⟨_, _, e, e', ⟨LE.zipWith max_mono2 hX.1 hY.1, LE.zipWith min_mono2 hX.2 hY.2⟩, w, w'⟩


theorem bind_ok' {α β : Type} {x : Except Err α} {f : α → Except Err β} {b : β}
    (h : (x >>= f) = .ok b) : ∃ a, x = .ok a ∧ f a = .ok b := by
  cases x with
  | error e => simp [bind, Except.bind] at h
  | ok a => exact ⟨a, rfl, by simpa [bind, Except.bind] using h⟩


/-! ### Frechet product of non-negative operands -/

/-- non-negative operand with a positive upper end -/
structure PosBox (P : PB) : Prop where
  lnn : ∀ v ∈ P.left, 0 ≤ v
  rnn : ∀ v ∈ P.right, 0 ≤ v
  hipos : 0 < hi P

theorem straddlesZero_false_of_nonneg {P : PB} (h : ∀ v ∈ P.left, 0 ≤ v) : straddlesZero P = false := by
  unfold straddlesZero
  have : ¬ minL 0 P.left < 0 := by
    by_cases hne : P.left = []
    · simp [hne, minL]
    · exact not_lt.mpr (h _ (minL_spec 0 P.left hne).1)
  simp [this]

theorem frechetMul_pos (n : Nat) {X Y : PB} (pX : PosBox X) (pY : PosBox Y) :
    frechetMul n X Y = mk n false (frechetOp mulPos X Y).1 (frechetOp mulPos X Y).2 := by
  have e : frechetOp (· * ·) X Y = frechetOp mulPos X Y := by
    unfold frechetOp
    rw [frechetLeftRaw_mul_eq X.left Y.left pX.lnn pY.lnn, frechetRightRaw_mul_eq X.right Y.right pX.rnn pY.rnn]
  have hx : ¬ hi X ≤ 0 := not_le.mpr pX.hipos
  have hy : ¬ hi Y ≤ 0 := not_le.mpr pY.hipos
  simp only [frechetMul, straddlesZero_false_of_nonneg pX.lnn, straddlesZero_false_of_nonneg pY.lnn, Bool.or_self,
    Bool.false_eq_true, if_false, frechetMulNoStraddle, hx, hy, decide_false, classicFrechet, e]

/-- **`X.mul(Y, 'f')` is isotone on non-negative operands** (the monotone quadrant; other sign classes go through
negation, the zero-straddling ones through the naive ∩ Balch branch: tie and oracle only) -/
theorem mul_iso_f_pos (n : Nat) {X X' Y Y' : PB}
    (wX : WF n X) (wX' : WF n X') (wY : WF n Y) (wY' : WF n Y') (pX : PosBox X) (pX' : PosBox X') (pY : PosBox Y)
    (pY' : PosBox Y') (hX : PSub X X') (hY : PSub Y Y') : IsoRes n (mul n .f X Y) (mul n .f X' Y') := by
  simp only [mul, frechetMul_pos n pX pY, frechetMul_pos n pX' pY']
  exact public_of_facts n n (Or.inl rfl) (frechetOp_facts _ mulPos_mono2 n wX wY) (frechetOp_facts _ mulPos_mono2 n wX' wY')
    (iso_frechetOp _ mulPos_mono2 hX hY)

/-! ### nested p-box expressions -/

/-- the nodes whose isotonicity is proved for ALL well-formed operands -/
def PTree.Proven : PTree → Prop
  | .var _ => True
  | .bin o d a b => (((o = .add ∨ o = .sub) ∧ d ≠ .unknown) ∨ (o = .mul ∧ (d = .p ∨ d = .o ∨ d = .i))) ∧ a.Proven ∧ b.Proven
  | .numR o a c => (o = .div → c ≠ 0) ∧ a.Proven
  | .numL o _ a => o ≠ .div ∧ a.Proven
  | .neg a => a.Proven
  | .env a b => a.Proven ∧ b.Proven
  | .imp a b => a.Proven ∧ b.Proven

theorem isoRes_pick {n : Nat} {r r' : Except Err PB} (h : IsoRes n r r') (R : PB) (e : r = .ok R) :
    ∃ R', r' = .ok R' ∧ PSub R R' ∧ WF n R ∧ WF n R' := by
  obtain ⟨R0, R0', e0, e0', hs, w, w'⟩ := h
  rw [e0] at e
  cases e
  exact ⟨R0', e0', hs, w, w'⟩

theorem vars_get {n : Nat} {vars vars' : List PB} (h : List.Forall₂ PSub vars vars') (hw : ∀ P ∈ vars, WF n P)
    (hw' : ∀ P ∈ vars', WF n P) (i : Nat) (P : PB) (hp : vars[i]? = some P) :
    ∃ P', vars'[i]? = some P' ∧ PSub P P' ∧ WF n P ∧ WF n P' := by
  induction h generalizing i with
  | nil => simp at hp
  | @cons a a' t t' hab _ ih =>
    cases i with
    | zero =>
      simp at hp; subst hp
      exact ⟨a', by simp, hab, hw a (by simp), hw' a' (by simp)⟩
    | succ j =>
      simp at hp
      obtain ⟨P', e, r⟩ := ih (fun Q hQ => hw Q (by simp [hQ])) (fun Q hQ => hw' Q (by simp [hQ])) j hp
      exact ⟨P', by simpa using e, r⟩

/-- **nested p-box expressions of any depth are isotone** over the proven nodes: `add`/`sub` under every dependency,
`mul` under perfect / opposite / independent dependence, number operands, negation, envelope, imposition.
If the run on the contained operands returns, so does the run on the containing ones, and its result contains it. -/
theorem ptree_iso_partial (n : Nat) (t : PTree) (ht : t.Proven) {vars vars' : List PB}
    (h : List.Forall₂ PSub vars vars') (hw : ∀ P ∈ vars, WF n P) (hw' : ∀ P ∈ vars', WF n P) :
    ∀ R, t.eval n vars = .ok R → ∃ R', t.eval n vars' = .ok R' ∧ PSub R R' ∧ WF n R ∧ WF n R' := by
  induction t with
  | var i =>
    intro R e
    simp only [PTree.eval] at e ⊢
    cases hp : vars[i]? with
    | none => simp [hp] at e
    | some P =>
      simp only [hp] at e
      have hPR : P = R := by injection e
      subst hPR
      obtain ⟨P', e', r⟩ := vars_get h hw hw' i P hp
      exact ⟨P', by simp [e'], r⟩
  | bin o d a b iha ihb =>
    intro R e
    simp only [PTree.eval] at e ⊢
    obtain ⟨x, ex, e2⟩ := bind_ok' e
    obtain ⟨y, ey, e3⟩ := bind_ok' e2
    obtain ⟨x', ex', sx, wx, wx'⟩ := iha ht.2.1 x ex
    obtain ⟨y', ey', sy, wy, wy'⟩ := ihb ht.2.2 y ey
    have key : IsoRes n (binop n o d x y) (binop n o d x' y') := by
      rcases ht.1 with ⟨ho, hd⟩ | ⟨ho, hd⟩
      · rcases ho with ho | ho <;> subst ho
        · exact add_iso n d hd wx wx' wy wy' sx sy
        · exact sub_iso n d hd wx wx' wy wy' sx sy
      · subst ho; exact mul_iso_poi n d hd wx wx' wy wy' sx sy
    obtain ⟨R', eR', r⟩ := isoRes_pick key R e3
    exact ⟨R', by simp [ex', ey', eR', bind, Except.bind], r⟩
  | numR o a c iha =>
    intro R e
    simp only [PTree.eval] at e ⊢
    obtain ⟨x, ex, e2⟩ := bind_ok' e
    obtain ⟨x', ex', sx, wx, wx'⟩ := iha ht.2 x ex
    obtain ⟨R', eR', r⟩ := isoRes_pick (numRight_iso n o c ht.1 wx wx' sx) R e2
    exact ⟨R', by simp [ex', eR', bind, Except.bind], r⟩
  | numL o c a iha =>
    intro R e
    simp only [PTree.eval] at e ⊢
    obtain ⟨x, ex, e2⟩ := bind_ok' e
    obtain ⟨x', ex', sx, wx, wx'⟩ := iha ht.2 x ex
    obtain ⟨R', eR', r⟩ := isoRes_pick (numLeft_iso n o c ht.1 wx wx' sx) R e2
    exact ⟨R', by simp [ex', eR', bind, Except.bind], r⟩
  | neg a iha =>
    intro R e
    simp only [PTree.eval] at e ⊢
    obtain ⟨x, ex, e2⟩ := bind_ok' e
    obtain ⟨x', ex', sx, wx, wx'⟩ := iha ht x ex
    obtain ⟨R', eR', r⟩ := isoRes_pick (neg_iso n wx wx' sx) R e2
    exact ⟨R', by simp [ex', eR', bind, Except.bind], r⟩
  | env a b iha ihb =>
    intro R e
    simp only [PTree.eval] at e ⊢
    obtain ⟨x, ex, e2⟩ := bind_ok' e
    obtain ⟨y, ey, e3⟩ := bind_ok' e2
    obtain ⟨x', ex', sx, wx, wx'⟩ := iha ht.1 x ex
    obtain ⟨y', ey', sy, wy, wy'⟩ := ihb ht.2 y ey
    obtain ⟨R', eR', r⟩ := isoRes_pick (env_iso n wx wx' wy wy' sx sy) R e3
    exact ⟨R', by simp [ex', ey', eR', bind, Except.bind], r⟩
  | imp a b iha ihb =>
    intro R e
    simp only [PTree.eval] at e ⊢
    obtain ⟨x, ex, e2⟩ := bind_ok' e
    obtain ⟨y, ey, e3⟩ := bind_ok' e2
    obtain ⟨x', ex', sx, wx, wx'⟩ := iha ht.1 x ex
    obtain ⟨y', ey', sy, wy, wy'⟩ := ihb ht.2 y ey
    obtain ⟨R', eR', r⟩ := isoRes_pick (imp_iso n wx wx' wy wy' sx sy R e3) R e3
    exact ⟨R', by simp [ex', ey', eR', bind, Except.bind], r⟩

end PB1
end Pun.Iso
