import Pun.Lemmas.Iso
set_option linter.unusedSimpArgs false
set_option linter.unusedVariables false
namespace Pun.Iso
open Pun List Pun.PBox

/-! ### lengths of the raw results -/

theorem zip4_length (f : Rat → Rat → Rat → Rat → Rat) (a b c d : List Rat) (n : Nat)
    (ha : a.length = n) (hb : b.length = n) (hc : c.length = n) (hd : d.length = n) :
    (zip4 f a b c d).length = n := by
  induction a generalizing b c d n with
  | nil => simp at ha; subst ha; simp [zip4]
  | cons x t ih =>
    cases b with
    | nil => simp at hb; subst hb; simp at ha
    | cons x2 t2 =>
    cases c with
    | nil => simp at hc; subst hc; simp at ha
    | cons x3 t3 =>
    cases d with
    | nil => simp at hd; subst hd; simp at ha
    | cons x4 t4 =>
      cases n with
      | zero => simp at ha
      | succ k =>
        simp only [zip4, List.length_cons, Nat.add_right_cancel_iff] at *
        exact ih t2 t3 t4 k ha hb hc hd

theorem cornerPair_length (op : Rat → Rat → Rat) (xl xr yl yr : List Rat) (n : Nat)
    (h1 : xl.length = n) (h2 : xr.length = n) (h3 : yl.length = n) (h4 : yr.length = n) :
    (cornerPair op xl xr yl yr).1.length = n ∧ (cornerPair op xl xr yl yr).2.length = n := by
  simp only [cornerPair]
  constructor <;> apply zip4_length <;> simp [List.length_zipWith, h1, h2, h3, h4]

theorem cartesian_length (op : Rat → Rat → Rat) (a b : List Rat) :
    (cartesian op a b).length = a.length * b.length := by
  induction a with
  | nil => simp [cartesian]
  | cons x t ih => rw [cartesian_cons, List.length_append, ih]; simp [Nat.succ_mul, Nat.add_comm]

theorem gridPair_length (op : Rat → Rat → Rat) (xl xr yl yr : List Rat) (n : Nat)
    (h1 : xl.length = n) (h2 : xr.length = n) (h3 : yl.length = n) (h4 : yr.length = n) :
    (gridPair op xl xr yl yr).1.length = n * n ∧ (gridPair op xl xr yl yr).2.length = n * n := by
  simp only [gridPair]
  constructor <;> apply zip4_length <;> simp [cartesian_length, h1, h2, h3, h4]

/-- a raw result of length `n` (or longer, then condensed) through the constructor, for a nested pair -/
theorem rule_public (n m : Nat) (hm : m = n ∨ n < m) (p p' : List Rat × List Rat) (h : PairSub p p')
    (l1 : p.1.length = m) (l2 : p.2.length = m) (l1' : p'.1.length = m) (l2' : p'.2.length = m)
    (s1 : p.1.Pairwise (· ≤ ·)) (s2 : p.2.Pairwise (· ≤ ·)) (s1' : p'.1.Pairwise (· ≤ ·)) (s2' : p'.2.Pairwise (· ≤ ·))
    (v : LE p.1 p.2) (v' : LE p'.1 p'.2) :
    ∃ R R', mk n false p.1 p.2 = .ok R ∧ mk n false p'.1 p'.2 = .ok R' ∧ PSub R R' ∧ WF n R ∧ WF n R' := by
  rcases hm with hm | hm
  · subst hm
    exact ⟨⟨p.1, p.2⟩, ⟨p'.1, p'.2⟩, mk_ok _ false _ _ l1 l2 s1 s2 v, mk_ok _ false _ _ l1' l2' s1' s2' v', h,
      ⟨l1, l2, s1, s2, v⟩, ⟨l1', l2', s1', s2', v'⟩⟩
  · obtain ⟨e, w⟩ := mk_ok_condense n m p.1 p.2 l1 l2 hm s1 s2 v
    obtain ⟨e', w'⟩ := mk_ok_condense n m p'.1 p'.2 l1' l2' hm s1' s2' v'
    exact ⟨_, _, e, e', ⟨condense_mono n h.1, condense_mono n h.2⟩, w, w'⟩

/-- facts about one raw rule on well-formed operands -/
structure RuleFacts (n m : Nat) (p : List Rat × List Rat) : Prop where
  l1 : p.1.length = m
  l2 : p.2.length = m
  s1 : p.1.Pairwise (· ≤ ·)
  s2 : p.2.Pairwise (· ≤ ·)
  v : LE p.1 p.2

theorem frechetOp_facts (op : Rat → Rat → Rat) (hop : Mono2 op) (n : Nat) {X Y : PB} (wX : WF n X) (wY : WF n Y) :
    RuleFacts n n (frechetOp op X Y) :=
  ⟨by simp [frechetOp, sortR_length, frechetLeftRaw_length, wX.llen],
   by simp [frechetOp, sortR_length, frechetRightRaw_length, wX.rlen],
   sortR_sorted _, sortR_sorted _,
   sortR_mono (frechet_valid op hop X.left Y.left X.right Y.right n wX.llen wY.llen wX.rlen wY.rlen
     wX.rsorted wY.rsorted wX.valid wY.valid)⟩

theorem perfectOp_facts (op : Rat → Rat → Rat) (n : Nat) {X Y : PB} (wX : WF n X) (wY : WF n Y) :
    RuleFacts n n (perfectOp op X Y) := by
  obtain ⟨h1, h2⟩ := cornerPair_length op X.left X.right Y.left Y.right n wX.llen wX.rlen wY.llen wY.rlen
  exact ⟨by simp [perfectOp, sortR_length, h1], by simp [perfectOp, sortR_length, h2], sortR_sorted _, sortR_sorted _,
    sortR_mono (cornerPair_valid op _ _ _ _)⟩

theorem oppositeOp_facts (op : Rat → Rat → Rat) (n : Nat) {X Y : PB} (wX : WF n X) (wY : WF n Y) :
    RuleFacts n n (oppositeOp op X Y) := by
  obtain ⟨h1, h2⟩ := cornerPair_length op X.left X.right Y.left.reverse Y.right.reverse n wX.llen wX.rlen
    (by simp [wY.llen]) (by simp [wY.rlen])
  exact ⟨by simp [oppositeOp, sortR_length, h1], by simp [oppositeOp, sortR_length, h2], sortR_sorted _, sortR_sorted _,
    sortR_mono (cornerPair_valid op _ _ _ _)⟩

theorem independentOp_facts (op : Rat → Rat → Rat) (n : Nat) {X Y : PB} (wX : WF n X) (wY : WF n Y) :
    RuleFacts n (n * n) (independentOp op X Y) := by
  obtain ⟨h1, h2⟩ := gridPair_length op X.left X.right Y.left Y.right n wX.llen wX.rlen wY.llen wY.rlen
  have hlen : Y.left.length = Y.right.length := by rw [wY.llen, wY.rlen]
  exact ⟨by simp [independentOp, cornersSorted_eq, sortR_length, h1], by simp [independentOp, cornersSorted_eq, sortR_length, h2],
    sortR_sorted _, sortR_sorted _, sortR_mono (gridPair_valid op _ _ _ _ hlen)⟩

theorem sq_cases (n : Nat) : n * n = n ∨ n < n * n := by
  match n with
  | 0 => exact Or.inl rfl
  | 1 => exact Or.inl rfl
  | k + 2 => right; nlinarith

/-- one step from a raw rule to the public method -/
theorem public_of_facts (n m : Nat) (hm : m = n ∨ n < m) {p p' : List Rat × List Rat}
    (f : RuleFacts n m p) (f' : RuleFacts n m p') (h : PairSub p p') :
    ∃ R R', mk n false p.1 p.2 = .ok R ∧ mk n false p'.1 p'.2 = .ok R' ∧ PSub R R' ∧ WF n R ∧ WF n R' :=
  rule_public n m hm p p' h f.l1 f.l2 f'.l1 f'.l2 f.s1 f.s2 f'.s1 f'.s2 f.v f'.v

/-- **`X.add(Y, dependency)` is isotone** under every dependency, for all well-formed operands of any size:
both runs return, the results are well formed and nested -/
theorem add_iso (n : Nat) (d : Dep) (hd : d ≠ .unknown) {X X' Y Y' : PB}
    (wX : WF n X) (wX' : WF n X') (wY : WF n Y) (wY' : WF n Y') (hX : PSub X X') (hY : PSub Y Y') :
    ∃ R R', add n d X Y = .ok R ∧ add n d X' Y' = .ok R' ∧ PSub R R' ∧ WF n R ∧ WF n R' := by
  cases d with
  | f =>
    exact public_of_facts n n (Or.inl rfl) (frechetOp_facts _ add_mono2 n wX wY) (frechetOp_facts _ add_mono2 n wX' wY')
      (iso_frechetOp _ add_mono2 hX hY)
  | p =>
    exact public_of_facts n n (Or.inl rfl) (perfectOp_facts _ n wX wY) (perfectOp_facts _ n wX' wY')
      (iso_perfectOp _ hull_add wX.valid wY.valid hX hY)
  | o =>
    exact public_of_facts n n (Or.inl rfl) (oppositeOp_facts _ n wX wY) (oppositeOp_facts _ n wX' wY')
      (iso_oppositeOp _ hull_add wX.valid wY.valid hX hY)
  | i =>
    exact public_of_facts n (n * n) (sq_cases n) (independentOp_facts _ n wX wY) (independentOp_facts _ n wX' wY')
      (iso_independentOp _ hull_add wX.valid wY.valid hX hY)
  | unknown => exact absurd rfl hd

end Pun.Iso
