import Pun.Lemmas.Hier
set_option linter.unusedSimpArgs false
set_option linter.unusedVariables false
namespace Pun.Hier
open Pun Pun.PBox

/-! ## the constructor on well-formed bounds -/

theorem lexGe_eq_of_le : ∀ (l r : List Rat), List.Forall₂ (· ≤ ·) l r → lexGe l r = true → l = r
  | [], [], _, _ => rfl
  | a :: s, b :: t, h, hg => by
    cases h with
    | cons hab htl =>
      simp only [lexGe] at hg
      have h1 : ¬ a > b := not_lt.mpr hab
      simp only [h1, if_false] at hg
      by_cases h2 : a < b
      · simp [h2] at hg
      · simp only [h2, if_false] at hg
        have : a = b := le_antisymm hab (not_lt.mp h2)
        rw [this, lexGe_eq_of_le s t htl hg]

theorem allGe_eq_of_le : ∀ (l r : List Rat), List.Forall₂ (· ≤ ·) l r → allGe l r = true → l = r
  | [], [], _, _ => rfl
  | a :: s, b :: t, h, hg => by
    cases h with
    | cons hab htl =>
      simp only [allGe, List.zip_cons_cons, List.all_cons, Bool.and_eq_true, decide_eq_true_eq] at hg
      have : a = b := le_antisymm hab hg.1
      rw [this, allGe_eq_of_le s t htl (by simpa [allGe] using hg.2)]

/-- well-formed bounds: `n` steps, both sorted, `left ≤ right` step by step -/
structure WF (n : Nat) (p : PB) : Prop where
  llen : p.left.length = n
  rlen : p.right.length = n
  lsorted : p.left.Pairwise (· ≤ ·)
  rsorted : p.right.Pairwise (· ≤ ·)
  le : List.Forall₂ (· ≤ ·) p.left p.right

/-- the constructor returns well-formed bounds unchanged (the `left ≥ right` switch, in either
form, can only fire when the two bounds coincide) -/
theorem mk_wf (n : Nat) (lists : Bool) (l r : List Rat) (h : WF n ⟨l, r⟩) : mk n lists l r = .ok ⟨l, r⟩ := by
  have hll : l.length = n := h.llen
  have hrl : r.length = n := h.rlen
  have hsw : ∀ (sw : Bool), (sw = true → l = r) →
      ((if sw then (r, l) else (l, r)) : List Rat × List Rat) = (l, r) := by
    intro sw hs; cases sw
    · rfl
    · rw [hs rfl]; rfl
  unfold mk
  have key : ((if (if lists then lexGe l r else (if l.length = r.length then allGe l r else false)) then (r, l) else (l, r)) :
      List Rat × List Rat) = (l, r) := by
    apply hsw
    cases lists
    · simp only [Bool.false_eq_true, if_false, hll, hrl, if_true]; exact allGe_eq_of_le l r h.le
    · simp only [if_true]; exact lexGe_eq_of_le l r h.le
  simp only [key]
  simp [boundSteps, hll, hrl, isIncreasing_of_pairwise l h.lsorted, isIncreasing_of_pairwise r h.rsorted]

theorem wf_ofIvl (n : Nat) (a b : Rat) (hab : a ≤ b) : WF n (ofIvl n a b) where
  llen := by simp [ofIvl]
  rlen := by simp [ofIvl]
  lsorted := List.pairwise_replicate.mpr (Or.inr (le_refl a))
  rsorted := List.pairwise_replicate.mpr (Or.inr (le_refl b))
  le := by
    simp only [ofIvl]
    induction n with
    | zero => exact List.Forall₂.nil
    | succ k ih => exact List.Forall₂.cons hab ih

theorem forall₂_le_refl : ∀ (q : List Rat), List.Forall₂ (· ≤ ·) q q
  | [] => List.Forall₂.nil
  | a :: t => List.Forall₂.cons (le_refl a) (forall₂_le_refl t)

theorem wf_ofDist (q : List Rat) (hs : q.Pairwise (· ≤ ·)) : WF q.length (ofDist q) :=
  ⟨rfl, rfl, hs, hs, forall₂_le_refl q⟩

end Pun.Hier
