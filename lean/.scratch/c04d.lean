import Pun.Lemmas.WellFormed
open Pun Pun.PBox Pun.WF List
example (c : Cfg) (l r : List NR) (P : PB) (h : mkCore c l r = .ok P) : True := by
  unfold mkCore at h
  obtain ⟨l2, hl2, h⟩ := bind_ok_inv h
  obtain ⟨r2, hr2, h⟩ := bind_ok_inv h
  split at h
  · cases h
  · split at h
    · cases h
    · split at h
      · trace_state
        trivial
      · cases h
