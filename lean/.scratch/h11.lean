import Pun.Props.C07
import Mathlib.Tactic.Ring
set_option linter.unusedSimpArgs false
set_option linter.unusedVariables false
namespace Pun.Hier
open Pun Pun.PBox

/-! ## independence with a constant operand on the right -/

theorem cartesian_const_right (op : Rat → Rat → Rat) (n : Nat) (a : Rat) (q : List Rat) :
    cartesian op q (List.replicate n a) = q.flatMap (fun x => List.replicate n (op x a)) := by
  unfold cartesian
  simp only [List.map_replicate]

theorem zip4_replicate_append (f : Rat → Rat → Rat → Rat → Rat) (n : Nat) (p q r s : Rat) (T1 T2 T3 T4 : List Rat) :
    zip4 f (List.replicate n p ++ T1) (List.replicate n q ++ T2) (List.replicate n r ++ T3) (List.replicate n s ++ T4) =
      List.replicate n (f p q r s) ++ zip4 f T1 T2 T3 T4 := by
  induction n with
  | zero => simp
  | succ k ih => simp only [List.replicate_succ, List.cons_append, zip4, ih]

/-- focal sums of every step of `Q` with the constant interval, `n` copies each, already in order -/
theorem corners_const_right (n : Nat) (a b : Rat) (hab : a ≤ b) : ∀ (ql qr : List Rat), List.Forall₂ (· ≤ ·) ql qr →
    zip4 min4 (ql.flatMap (fun x => List.replicate n (x + a))) (ql.flatMap (fun x => List.replicate n (x + b)))
      (qr.flatMap (fun x => List.replicate n (x + a))) (qr.flatMap (fun x => List.replicate n (x + b))) =
      ql.flatMap (fun x => List.replicate n (x + a)) ∧
    zip4 max4 (ql.flatMap (fun x => List.replicate n (x + a))) (ql.flatMap (fun x => List.replicate n (x + b)))
      (qr.flatMap (fun x => List.replicate n (x + a))) (qr.flatMap (fun x => List.replicate n (x + b))) =
      qr.flatMap (fun x => List.replicate n (x + b))
  | _, _, .nil => by simp [zip4]
  | _, _, .cons (a := x) (b := y) hxy htl => by
    obtain ⟨ih1, ih2⟩ := corners_const_right n a b hab _ _ htl
    obtain ⟨e1, e2⟩ := focal_add_exact x y a b hxy hab
    simp only [List.flatMap_cons, zip4_replicate_append, ih1, ih2]
    have m1 : min4 (x + a) (x + b) (y + a) (y + b) = x + a := by
      unfold min4
      rw [min_eq_left (by linarith : x + a ≤ x + b), min_eq_left (by linarith : x + a ≤ y + a),
        min_eq_left (by linarith : x + a ≤ y + b)]
    have m2 : max4 (x + a) (x + b) (y + a) (y + b) = y + b := by
      unfold max4
      exact max_eq_right (max_le (max_le (by linarith) (by linarith)) (by linarith))
    rw [m1, m2]; exact ⟨rfl, rfl⟩

theorem pairwise_blocks (n : Nat) (c : Rat) (q : List Rat) (hq : q.Pairwise (· ≤ ·)) :
    (q.flatMap (fun x => List.replicate n (x + c))).Pairwise (· ≤ ·) := by
  rw [List.pairwise_flatMap]
  refine ⟨fun x _ => List.pairwise_replicate.mpr (Or.inr (le_refl _)), ?_⟩
  refine hq.imp ?_
  intro x y hxy u hu v hv
  rw [List.eq_of_mem_replicate hu, List.eq_of_mem_replicate hv]; linarith

theorem forall₂_blocks (n : Nat) (a b : Rat) (hab : a ≤ b) : ∀ (ql qr : List Rat), List.Forall₂ (· ≤ ·) ql qr →
    List.Forall₂ (· ≤ ·) (ql.flatMap (fun x => List.replicate n (x + a))) (qr.flatMap (fun x => List.replicate n (x + b)))
  | _, _, .nil => List.Forall₂.nil
  | _, _, .cons (a := x) (b := y) hxy htl => by
    simp only [List.flatMap_cons]
    exact List.rel_append (forall₂_replicate n _ _ (by linarith)) (forall₂_blocks n a b hab _ _ htl)

theorem blocks_getElem? (n : Nat) (f : Rat → Rat) : ∀ (q : List Rat) (k r : Nat) (hk : k < q.length) (hr : r < n),
    (q.flatMap (fun x => List.replicate n (f x)))[k * n + r]? = some (f q[k])
  | x :: t, 0, r, _, hr => by
    simp only [List.flatMap_cons, Nat.zero_mul, Nat.zero_add, List.getElem_cons_zero]
    rw [List.getElem?_append_left (by simpa using hr)]
    simp [List.getElem?_replicate, hr]
  | x :: t, k + 1, r, hk, hr => by
    simp only [List.flatMap_cons, List.getElem_cons_succ]
    have e : (k + 1) * n + r = n + (k * n + r) := by ring
    rw [e, List.getElem?_append_right (by simp)]
    simp only [List.length_replicate, Nat.add_sub_cancel_left]
    exact blocks_getElem? n f t k r (by simpa using hk) hr

theorem blocks_length (n : Nat) (f : Rat → Rat) : ∀ (q : List Rat),
    (q.flatMap (fun x => List.replicate n (f x))).length = q.length * n
  | [] => by simp
  | x :: t => by simp [List.flatMap_cons, blocks_length n f t, Nat.succ_mul, Nat.add_comm]

theorem condenseIdx_sq (n k : Nat) (hn : 2 ≤ n) : condenseIdx (n * n) n k = k * n + k := by
  unfold condenseIdx
  have h1 : ¬ n ≤ 1 := by omega
  simp only [h1, if_false]
  have h2 : n * n - 1 = (n + 1) * (n - 1) := by
    obtain ⟨m, rfl⟩ : ∃ m, n = m + 2 := ⟨n - 2, by omega⟩
    have e1 : m + 2 - 1 = m + 1 := by omega
    have e2 : (m + 2) * (m + 2) = (m + 2 + 1) * (m + 1) + 1 := by ring
    rw [e1, e2]; omega
  rw [h2, ← Nat.mul_assoc, Nat.mul_div_cancel _ (by omega : 0 < n - 1)]
  ring

/-- condensing `n` blocks of `n` equal values back to `n` steps returns one value per block -/
theorem boundSteps_blocks (f : Rat → Rat) (q : List Rat) (hn : 0 < q.length) :
    boundSteps q.length (q.flatMap (fun x => List.replicate q.length (f x))) = .ok (q.map f) := by
  set n := q.length with hnq
  unfold boundSteps
  rw [blocks_length]
  by_cases h2 : 2 ≤ n
  · have hgt : n * n > n := by nlinarith
    simp only [← hnq, hgt, if_true]
    congr 1
    unfold condense
    apply List.ext_getElem
    · simp [hnq]
    · intro k h1 h2'
      have hk : k < n := by simpa using h1
      simp only [List.getElem_map, List.getElem_range, blocks_length, ← hnq, condenseIdx_sq n k h2]
      rw [List.getD_eq_getElem?_getD, blocks_getElem? n f q k k (by omega) hk]
      rfl
  · have h1 : n = 1 := by omega
    simp only [← hnq, h1, Nat.mul_one, gt_iff_lt, lt_irrefl, if_false]
    obtain ⟨x, hx⟩ : ∃ x, q = [x] := List.length_eq_one_iff.mp (by omega)
    subst hx; simp

/-- **anything + interval under independence**: the `n²` focal sums condense back to `Q` shifted -/
theorem add_const_right_i (Q : PB) (hn : 0 < Q.left.length) (hQ : WF Q.left.length Q) (a b : Rat) (hab : a ≤ b) :
    add Q.left.length .i Q (ofIvl Q.left.length a b) = .ok ⟨Q.left.map (a + ·), Q.right.map (b + ·)⟩ := by
  set n := Q.left.length with hnq
  have hrl : Q.right.length = n := hQ.rlen
  obtain ⟨c1, c2⟩ := corners_const_right n a b hab Q.left Q.right hQ.le
  simp only [add, independentOp, cornersSorted, ofIvl, cartesian_const_right, c1, c2]
  rw [sortR_of_sorted _ (pairwise_blocks n a Q.left hQ.lsorted), sortR_of_sorted _ (pairwise_blocks n b Q.right hQ.rsorted)]
  have hle := forall₂_blocks n a b hab Q.left Q.right hQ.le
  have hw := wf_shift n Q hQ a b hab
  have hsw : ∀ (sw : Bool) (l r : List Rat), (sw = true → l = r) →
      ((if sw then (r, l) else (l, r)) : List Rat × List Rat) = (l, r) := by
    intro sw l r hs; cases sw
    · rfl
    · rw [hs rfl]; rfl
  unfold mk
  simp only [Bool.false_eq_true, if_false]
  rw [hsw _ _ _ (by
    intro h
    split at h
    · exact allGe_eq_of_le _ _ hle h
    · cases h)]
  simp only
  have b1 := boundSteps_blocks (· + a) Q.left hn
  have b2 : boundSteps n (Q.right.flatMap (fun x => List.replicate n (x + b))) = .ok (Q.right.map (· + b)) := by
    have := boundSteps_blocks (· + b) Q.right (by omega)
    rwa [hrl] at this
  rw [← hnq] at b1
  rw [b1, ok_bind, b2, ok_bind, map_add_comm, map_add_comm]
  simp [hw.llen, hw.rlen, isIncreasing_of_pairwise _ hw.lsorted, isIncreasing_of_pairwise _ hw.rsorted, hQ.llen, hQ.rlen]

end Pun.Hier
