import Pun.Lemmas.EnvImp
/-!
# C11 — envelope and imposition are the lattice join and meet of uncertain numbers

All theorems are about the functions the model driver executes: `Pun.PBox.env`, `Pun.PBox.imp`
(`Pbox.env`, `Pbox.imp`), `Pun.EnvImp.envelope`, `Pun.EnvImp.imposition` (`aggregation.envelope`,
`aggregation.imposition` with their conversion, interval shortcut and left fold) and
`Pun.EnvImp.containsP` (`Pbox.__contains__`), for ANY number of steps `n` and families of ANY size.

Order: `Sub P Q` (`Q` contains `P`) is `Q.left ≤ P.left` and `P.right ≤ Q.right` at every step.
Inputs: `WF n P` (n steps, sorted bounds, `left ≤ right`) — what the `Staircase` constructor
guarantees; operands of the public functions: `Valid n` (proper scalar interval, number, well-formed
p-box).  Outside of that the functions raise; those branches are `envelope_empty`, `convert_other`, ….

"No common distribution" is stated on selections: `Sel P z` — one value per step inside the step
(a sorted selection is a quantile function lying between the bounds, i.e. a distribution in the box).
-/
set_option linter.unusedSimpArgs false
set_option linter.unusedVariables false
namespace Pun.EnvImp
open Pun Pun.PBox

/-! ## ★ the binary methods: least upper bound / greatest lower bound -/

/-- `X.env(Y)` is the pointwise min of the left bounds and max of the right bounds -/
theorem env_pointwise {n : Nat} {X Y : PB} (hX : WF n X) (hY : WF n Y) :
    env n X Y = .ok ⟨List.zipWith min X.left Y.left, List.zipWith max X.right Y.right⟩ := env_ok hX hY

/-- the envelope contains both operands … -/
theorem env_upper {n : Nat} {X Y E : PB} (hX : WF n X) (hY : WF n Y) (h : env n X Y = .ok E) :
    WF n E ∧ Sub X E ∧ Sub Y E := by
  rw [env_ok hX hY] at h
  cases h
  exact ⟨envSpec_wf hX hY, sub_envSpec_left hX hY, sub_envSpec_right hX hY⟩

/-- … and is contained in every p-box that contains both -/
theorem env_least {n : Nat} {X Y E Q : PB} (hX : WF n X) (hY : WF n Y) (h : env n X Y = .ok E)
    (h1 : Sub X Q) (h2 : Sub Y Q) : Sub E Q := by
  rw [env_ok hX hY] at h
  cases h
  exact envSpec_sub h1 h2

/-- `X.imp(Y)` raises exactly when the operands have no common selection, i.e. when some step of
`X` does not meet the same step of `Y`; its own exception (`Exception` → `Other`) is the only one -/
theorem imp_raises_iff {n : Nat} {X Y : PB} (hX : WF n X) (hY : WF n Y) :
    (imp n X Y = .error .Other ↔ ¬ ∃ z, Sel X z ∧ Sel Y z) ∧
    ((∃ E, imp n X Y = .ok E) ↔ ∃ z, Sel X z ∧ Sel Y z) ∧
    ((∃ z, Sel X z ∧ Sel Y z) ↔
      List.Forall₂ (· ≤ ·) (List.zipWith max X.left Y.left) (List.zipWith min X.right Y.right)) := by
  have hiff := compat_iff_common hX hY
  refine ⟨⟨fun h hc => ?_, fun h => imp_err hX hY (fun hc => h (hiff.mp hc))⟩,
    ⟨fun ⟨E, h⟩ => ?_, fun h => ⟨_, imp_ok hX hY (hiff.mpr h)⟩⟩, hiff.symm⟩
  · rw [imp_ok hX hY (hiff.mpr hc)] at h; cases h
  · by_contra hc
    rw [imp_err hX hY (fun hh => hc (hiff.mp hh))] at h; cases h

/-- when it exists the imposition is the pointwise max of the left and min of the right bounds,
it is well formed, and the left bound is a sorted common selection (a common distribution) -/
theorem imp_pointwise {n : Nat} {X Y E : PB} (hX : WF n X) (hY : WF n Y) (h : imp n X Y = .ok E) :
    E = ⟨List.zipWith max X.left Y.left, List.zipWith min X.right Y.right⟩ ∧ WF n E ∧
    E.left.Pairwise (· ≤ ·) ∧ Sel X E.left ∧ Sel Y E.left := by
  have hc : Compat X Y := by
    by_contra hc; rw [imp_err hX hY hc] at h; cases h
  rw [imp_ok hX hY hc] at h
  cases h
  have w := impSpec_wf hX hY hc
  have sE : Sel (impSpec X Y) (impSpec X Y).left := ⟨PLe.rfl _, w.le⟩
  exact ⟨rfl, w, w.lsorted, sel_of_sub (impSpec_sub_left hX hY) sE, sel_of_sub (impSpec_sub_right hX hY) sE⟩

/-- the imposition is contained in both operands … -/
theorem imp_lower {n : Nat} {X Y E : PB} (hX : WF n X) (hY : WF n Y) (h : imp n X Y = .ok E) :
    Sub E X ∧ Sub E Y := by
  obtain ⟨rfl, -⟩ := imp_pointwise hX hY h
  exact ⟨impSpec_sub_left hX hY, impSpec_sub_right hX hY⟩

/-- … and contains every p-box contained in both -/
theorem imp_greatest {n : Nat} {X Y E Q : PB} (hX : WF n X) (hY : WF n Y) (h : imp n X Y = .ok E)
    (h1 : Sub Q X) (h2 : Sub Q Y) : Sub Q E := by
  obtain ⟨rfl, -⟩ := imp_pointwise hX hY h
  exact sub_impSpec h1 h2

/-! ## ★ commutative, idempotent, associative -/

/-- holds for all inputs, well formed or not (same exception included) -/
theorem env_comm (n : Nat) (X Y : PB) : env n X Y = env n Y X := by
  unfold env
  rw [List.zipWith_comm (as := X.left), List.zipWith_comm (as := X.right)]
  simp only [min_comm, max_comm]

theorem imp_comm (n : Nat) (X Y : PB) : imp n X Y = imp n Y X := by
  unfold imp
  rw [List.zipWith_comm (as := X.left), List.zipWith_comm (as := X.right)]
  simp only [min_comm, max_comm]

theorem env_idem {n : Nat} {X : PB} (hX : WF n X) : env n X X = .ok X := by
  rw [env_ok hX hX]; simp [envSpec, zipWith_min_self, zipWith_max_self]

theorem imp_idem {n : Nat} {X : PB} (hX : WF n X) : imp n X X = .ok X := by
  have hc : Compat X X := by simp [Compat, zipWith_min_self, zipWith_max_self]; exact hX.le
  rw [imp_ok hX hX hc]; simp [impSpec, zipWith_min_self, zipWith_max_self]

theorem foldEnv_three (n : Nat) (X Y Z : PB) : foldEnv n [X, Y, Z] = (env n X Y >>= fun E => env n E Z) := by
  simp [foldEnv, reduceM, List.foldlM]

theorem foldImp_three (n : Nat) (X Y Z : PB) : foldImp n [X, Y, Z] = (imp n X Y >>= fun E => imp n E Z) := by
  simp [foldImp, reduceM, List.foldlM]

/-- `(X.env(Y)).env(Z) = X.env(Y.env(Z))` -/
theorem env_assoc {n : Nat} {X Y Z : PB} (hX : WF n X) (hY : WF n Y) (hZ : WF n Z) :
    (env n X Y >>= fun E => env n E Z) = (env n Y Z >>= fun E => env n X E) := by
  have hl : ∀ P ∈ [X, Y, Z], WF n P := by
    intro P hP; simp at hP; rcases hP with rfl | rfl | rfl <;> assumption
  have e : (env n Y Z >>= fun E => env n X E) = (env n Y Z >>= fun E => env n E X) := by
    congr 1; funext E; exact env_comm n X E
  rw [e, ← foldEnv_three, ← foldEnv_three]
  exact foldEnv_perm (by
    have : [X, Y, Z].Perm ([Y, Z] ++ [X]) := List.perm_append_comm (l₁ := [X]) (l₂ := [Y, Z])
    simpa using this) hl

/-- `(X.imp(Y)).imp(Z) = X.imp(Y.imp(Z))`: the same p-box, or both raise -/
theorem imp_assoc {n : Nat} {X Y Z : PB} (hX : WF n X) (hY : WF n Y) (hZ : WF n Z) :
    (imp n X Y >>= fun E => imp n E Z) = (imp n Y Z >>= fun E => imp n X E) := by
  have hl : ∀ P ∈ [X, Y, Z], WF n P := by
    intro P hP; simp at hP; rcases hP with rfl | rfl | rfl <;> assumption
  have e : (imp n Y Z >>= fun E => imp n X E) = (imp n Y Z >>= fun E => imp n E X) := by
    congr 1; funext E; exact imp_comm n X E
  rw [e, ← foldImp_three, ← foldImp_three]
  exact foldImp_perm (by
    have : [X, Y, Z].Perm ([Y, Z] ++ [X]) := List.perm_append_comm (l₁ := [X]) (l₂ := [Y, Z])
    simpa using this) hl

end Pun.EnvImp
