import Pun.Lemmas.Iso
set_option linter.unusedSimpArgs false
set_option linter.unusedVariables false
namespace Pun.Iso
open Pun List Pun.PBox

/-! ### condensation (`n²` values of the independent rule down to `n`) -/

theorem getD_of_lt (l : List Rat) (i : Nat) (d : Rat) (h : i < l.length) : l.getD i d = l[i] :=
  (List.getElem_eq_getD d).symm

theorem getD_of_ge (l : List Rat) (i : Nat) (d : Rat) (h : l.length ≤ i) : l.getD i d = d := by
  simp [List.getD, List.getElem?_eq_none h]

theorem condense_length (n : Nat) (b : List Rat) : (condense n b).length = n := by simp [condense]

theorem condenseIdx_lt (len n k : Nat) (hlen : 0 < len) (hk : k < n) : condenseIdx len n k < len := by
  unfold condenseIdx
  split
  · exact hlen
  · rename_i h
    have hn : 0 < n - 1 := by omega
    have : k * (len - 1) / (n - 1) ≤ len - 1 := by
      apply Nat.div_le_of_le_mul
      have : k ≤ n - 1 := by omega
      exact Nat.mul_le_mul_right _ this
    omega

theorem condenseIdx_mono (len n k k' : Nat) (h : k ≤ k') : condenseIdx len n k ≤ condenseIdx len n k' := by
  unfold condenseIdx
  split
  · exact le_refl _
  · exact Nat.div_le_div_right (Nat.mul_le_mul_right _ h)

theorem condense_mono (n : Nat) {b b' : List Rat} (h : LE b b') : LE (condense n b) (condense n b') := by
  unfold condense
  rw [← h.length_eq]
  apply LE_map_of_le
  intro k _
  rcases Nat.lt_or_ge (condenseIdx b.length n k) b.length with hi | hi
  · have hi' : condenseIdx b.length n k < b'.length := by rw [← h.length_eq]; exact hi
    rw [getD_of_lt _ _ _ hi, getD_of_lt _ _ _ hi']
    exact h.getElem _ hi hi'
  · have hi' : b'.length ≤ condenseIdx b.length n k := by rw [← h.length_eq]; exact hi
    rw [getD_of_ge _ _ _ hi, getD_of_ge _ _ _ hi']

theorem condense_sorted (n : Nat) (b : List Rat) (hb : 0 < b.length) (s : b.Pairwise (· ≤ ·)) :
    (condense n b).Pairwise (· ≤ ·) := by
  unfold condense
  rw [List.pairwise_map]
  have hr : (List.range n).Pairwise (· < ·) := List.pairwise_lt_range
  have hmem : ∀ k ∈ List.range n, k < n := fun k hk => List.mem_range.mp hk
  refine (List.Pairwise.and_mem.mp hr).imp ?_
  intro k k' ⟨hk, hk', hlt⟩
  have i1 := condenseIdx_lt b.length n k hb (hmem k hk)
  have i2 := condenseIdx_lt b.length n k' hb (hmem k' hk')
  rw [getD_of_lt _ _ _ i1, getD_of_lt _ _ _ i2]
  rcases Nat.lt_or_ge (condenseIdx b.length n k) (condenseIdx b.length n k') with h | h
  · exact (List.pairwise_iff_getElem.mp s) _ _ i1 i2 h
  · have : condenseIdx b.length n k = condenseIdx b.length n k' :=
      le_antisymm (condenseIdx_mono _ _ _ _ (le_of_lt hlt)) h
    simp [this]

/-- longer well-formed bounds are condensed by the constructor -/
theorem mk_ok_condense (n m : Nat) (l r : List Rat) (hl : l.length = m) (hr : r.length = m) (hm : n < m)
    (sl : l.Pairwise (· ≤ ·)) (sr : r.Pairwise (· ≤ ·)) (hle : LE l r) :
    mk n false l r = .ok ⟨condense n l, condense n r⟩ ∧ WF n ⟨condense n l, condense n r⟩ := by
  have hlp : 0 < l.length := by omega
  have hrp : 0 < r.length := by omega
  have il := isIncreasing_of_sorted _ (condense_sorted n l hlp sl)
  have ir := isIncreasing_of_sorted _ (condense_sorted n r hrp sr)
  have bl : boundSteps n l = .ok (condense n l) := by simp [boundSteps, hl, hm]
  have br : boundSteps n r = .ok (condense n r) := by simp [boundSteps, hr, hm]
  have hlr : l.length = r.length := by rw [hl, hr]
  refine ⟨?_, ⟨condense_length n l, condense_length n r, condense_sorted n l hlp sl, condense_sorted n r hrp sr,
    condense_mono n hle⟩⟩
  by_cases h : allGe l r = true
  · have e : l = r := allGe_eq_of_LE hle h
    subst e
    simp [mk, h, bl, il, bind, Except.bind, condense_length]
  · simp only [Bool.not_eq_true] at h
    simp [mk, h, bl, br, il, ir, bind, Except.bind, hlr, condense_length]

end Pun.Iso
