import Pun.Lemmas.Hier
set_option linter.unusedSimpArgs false
set_option linter.unusedVariables false
namespace Pun.Hier
open Pun Pun.PBox

theorem naiveOp_ofIvl (op : Rat → Rat → Rat) (n : Nat) (a b c d : Rat) :
    naiveOp op (ofIvl n a b) (ofIvl n c d) =
      (List.replicate n (min4 (op a c) (op a d) (op b c) (op b d)),
       List.replicate n (max4 (op a c) (op a d) (op b c) (op b d))) := by
  unfold naiveOp
  simp only [cornersSorted_ofIvl]
  have h1 : (ofIvl n a b).left.length = n := by simp [ofIvl]
  simp only [h1, List.take_replicate, List.drop_replicate]
  have h2 : min n (n * n) = n := by
    rcases Nat.eq_zero_or_pos n with h | h
    · subst h; simp
    · exact Nat.min_eq_left (Nat.le_mul_of_pos_left n h)
  have h3 : n * n - (n * n - n) = n := by
    rcases Nat.eq_zero_or_pos n with h | h
    · subst h; simp
    · have := Nat.le_mul_of_pos_left n h; omega
  rw [h2, h3]

/-- imposition (intersection) of two constant p-boxes that overlap -/
theorem imp_ofIvl (n : Nat) (a b c d : Rat) (hn : 0 < n) (h : max a c ≤ min b d) :
    imp n (ofIvl n a b) (ofIvl n c d) = .ok (ofIvl n (max a c) (min b d)) := by
  unfold imp
  simp only [ofIvl, List.zipWith_replicate, Nat.min_self, List.zip_replicate', List.any_replicate,
    Nat.pos_iff_ne_zero.mp hn, if_false, gt_iff_lt, not_lt.mpr h, decide_false, Bool.false_eq_true]
  exact mk_ofIvl n true _ _ hn h

/-- `x.balchprod(y)` for embedded intervals, `y` straddling zero: a constant p-box that encloses the corner hull -/
theorem balchprod_ofIvl (n : Nat) (a b c d : Rat) (hn : 0 < n) (hab : a ≤ b) (hcd : c ≤ d)
    (hy : c < 0 ∧ 0 < d) :
    ∃ L U, balchprod n (ofIvl n a b) (ofIvl n c d) = .ok (ofIvl n L U) ∧
      L ≤ min4 (a*c) (a*d) (b*c) (b*d) ∧ max4 (a*c) (a*d) (b*c) (b*d) ≤ U := by
  have hm4 : ∀ L, L ≤ a*c → L ≤ a*d → L ≤ b*c → L ≤ b*d → L ≤ min4 (a*c) (a*d) (b*c) (b*d) := by
    intro L h1 h2 h3 h4; unfold min4; exact le_min (le_min (le_min h1 h2) h3) h4
  have hM4 : ∀ U, a*c ≤ U → a*d ≤ U → b*c ≤ U → b*d ≤ U → max4 (a*c) (a*d) (b*c) (b*d) ≤ U := by
    intro U h1 h2 h3 h4; unfold max4; exact max_le (max_le (max_le h1 h2) h3) h4
  have hdc : (0:Rat) ≤ d - c := by linarith
  unfold balchprod
  simp only [straddlesZero_ofIvl n _ _ hn, lo_ofIvl n _ _ hn, hy.1, hy.2, gt_iff_lt, decide_true, Bool.and_true, Bool.true_and]
  by_cases hx : a < 0 ∧ 0 < b
  · -- both straddle
    simp only [hx.1, hx.2, decide_true, Bool.and_self, if_true]
    have hba : (0:Rat) ≤ b - a := by linarith
    have e1 : numberOp n (· - ·) (ofIvl n a b) a = .ok (ofIvl n 0 (b - a)) := by
      rw [numberOp_ofIvl n _ _ _ _ hn]; simp only [sub_self, min_eq_left hba, max_eq_right hba]
    have e2 : numberOp n (· - ·) (ofIvl n c d) c = .ok (ofIvl n 0 (d - c)) := by
      rw [numberOp_ofIvl n _ _ _ _ hn]; simp only [sub_self, min_eq_left hdc, max_eq_right hdc]
    have e3 := frechetMulNoStraddle_ofIvl n 0 (b - a) 0 (d - c) hn hba hdc (Or.inr (le_refl 0)) (Or.inr (le_refl 0))
    have e4 := numberOp_ofIvl n (· * ·) 0 (b - a) c hn
    have e5 := numberOp_ofIvl n (· * ·) 0 (d - c) a hn
    rw [e1, ok_bind, e2, ok_bind, e3, ok_bind, e4, ok_bind, e5, ok_bind, classicFrechet_ofIvl n _ _ _ _ _ hn, ok_bind,
      classicFrechet_ofIvl n _ _ _ _ _ hn, ok_bind, numberOp_ofIvl n _ _ _ _ hn]
    refine ⟨_, _, rfl, ?_, ?_⟩
    · -- lower
      set A := min4 (0 * 0) (0 * (d - c)) ((b - a) * 0) ((b - a) * (d - c)) with hA
      have A1 : A ≤ 0 * 0 := by rw [hA, min4_arith]; unfold Arith.min4; exact le_trans (min_le_left _ _) (min_le_left _ _)
      have A2 : A ≤ 0 * (d - c) := by rw [hA, min4_arith]; unfold Arith.min4; exact le_trans (min_le_left _ _) (min_le_right _ _)
      have A3 : A ≤ (b - a) * 0 := by rw [hA, min4_arith]; unfold Arith.min4; exact le_trans (min_le_right _ _) (min_le_left _ _)
      have A4 : A ≤ (b - a) * (d - c) := by rw [hA, min4_arith]; unfold Arith.min4; exact le_trans (min_le_right _ _) (min_le_right _ _)
      set p1 := min (0 * c) ((b - a) * c) with hp1
      set p2 := min (0 * a) ((d - c) * a) with hp2
      have P11 : p1 ≤ 0 * c := min_le_left _ _
      have P12 : p1 ≤ (b - a) * c := min_le_right _ _
      have P21 : p2 ≤ 0 * a := min_le_left _ _
      have P22 : p2 ≤ (d - c) * a := min_le_right _ _
      have hB : min (p1 + p2) (max (0 * c) ((b - a) * c) + max (0 * a) ((d - c) * a)) ≤ p1 + p2 := min_le_left _ _
      have hS := min_le_left (A + min (p1 + p2) (max (0 * c) ((b - a) * c) + max (0 * a) ((d - c) * a)))
        (max4 (0 * 0) (0 * (d - c)) ((b - a) * 0) ((b - a) * (d - c)) + max (p1 + p2) (max (0 * c) ((b - a) * c) + max (0 * a) ((d - c) * a)))
      apply hm4 <;> refine le_trans (min_le_left _ _) ?_ <;> nlinarith
    · set A := max4 (0 * 0) (0 * (d - c)) ((b - a) * 0) ((b - a) * (d - c)) with hA
      have A1 : 0 * 0 ≤ A := by rw [hA, max4_arith]; unfold Arith.max4; exact le_trans (le_max_left _ _) (le_max_left _ _)
      have A2 : 0 * (d - c) ≤ A := by rw [hA, max4_arith]; unfold Arith.max4; exact le_trans (le_max_right _ _) (le_max_left _ _)
      have A3 : (b - a) * 0 ≤ A := by rw [hA, max4_arith]; unfold Arith.max4; exact le_trans (le_max_left _ _) (le_max_right _ _)
      have A4 : (b - a) * (d - c) ≤ A := by rw [hA, max4_arith]; unfold Arith.max4; exact le_trans (le_max_right _ _) (le_max_right _ _)
      set p1 := max (0 * c) ((b - a) * c) with hp1
      set p2 := max (0 * a) ((d - c) * a) with hp2
      have P11 : 0 * c ≤ p1 := le_max_left _ _
      have P12 : (b - a) * c ≤ p1 := le_max_right _ _
      have P21 : 0 * a ≤ p2 := le_max_left _ _
      have P22 : (d - c) * a ≤ p2 := le_max_right _ _
      have hB : p1 + p2 ≤ max (min (0 * c) ((b - a) * c) + min (0 * a) ((d - c) * a)) (p1 + p2) := le_max_right _ _
      have hS := le_max_right (min4 (0 * 0) (0 * (d - c)) ((b - a) * 0) ((b - a) * (d - c)) + min (min (0 * c) ((b - a) * c) + min (0 * a) ((d - c) * a)) (p1 + p2))
        (A + max (min (0 * c) ((b - a) * c) + min (0 * a) ((d - c) * a)) (p1 + p2))
      apply hM4 <;> refine le_trans ?_ (le_max_right _ _) <;> nlinarith
  · -- only `y` straddles
    have hx' : b ≤ 0 ∨ 0 ≤ a := by
      by_cases h : a < 0
      · left; by_contra hb; exact hx ⟨h, not_le.mp hb⟩
      · right; exact not_lt.mp h
    have hxs : (decide (a < 0) && decide (0 < b)) = false := by
      rcases hx' with h | h
      · simp [not_lt.mpr h]
      · simp [not_lt.mpr h]
    simp only [hxs, Bool.false_eq_true, if_false, if_true]
    have e2 : numberOp n (· - ·) (ofIvl n c d) c = .ok (ofIvl n 0 (d - c)) := by
      rw [numberOp_ofIvl n _ _ _ _ hn]; simp only [sub_self, min_eq_left hdc, max_eq_right hdc]
    have e3 := frechetMulNoStraddle_ofIvl n a b 0 (d - c) hn hab hdc hx' (Or.inr (le_refl 0))
    rw [e2, ok_bind, e3, ok_bind, numberOp_ofIvl n _ _ _ _ hn, ok_bind, classicFrechet_ofIvl n _ _ _ _ _ hn]
    refine ⟨_, _, rfl, ?_, ?_⟩
    · set A := min4 (a * 0) (a * (d - c)) (b * 0) (b * (d - c)) with hA
      have A1 : A ≤ a * 0 := by rw [hA, min4_arith]; unfold Arith.min4; exact le_trans (min_le_left _ _) (min_le_left _ _)
      have A2 : A ≤ a * (d - c) := by rw [hA, min4_arith]; unfold Arith.min4; exact le_trans (min_le_left _ _) (min_le_right _ _)
      have A3 : A ≤ b * 0 := by rw [hA, min4_arith]; unfold Arith.min4; exact le_trans (min_le_right _ _) (min_le_left _ _)
      have A4 : A ≤ b * (d - c) := by rw [hA, min4_arith]; unfold Arith.min4; exact le_trans (min_le_right _ _) (min_le_right _ _)
      set p1 := min (a * c) (b * c) with hp1
      have P11 : p1 ≤ a * c := min_le_left _ _
      have P12 : p1 ≤ b * c := min_le_right _ _
      apply hm4 <;> refine le_trans (min_le_left _ _) ?_ <;> nlinarith
    · set A := max4 (a * 0) (a * (d - c)) (b * 0) (b * (d - c)) with hA
      have A1 : a * 0 ≤ A := by rw [hA, max4_arith]; unfold Arith.max4; exact le_trans (le_max_left _ _) (le_max_left _ _)
      have A2 : a * (d - c) ≤ A := by rw [hA, max4_arith]; unfold Arith.max4; exact le_trans (le_max_right _ _) (le_max_left _ _)
      have A3 : b * 0 ≤ A := by rw [hA, max4_arith]; unfold Arith.max4; exact le_trans (le_max_left _ _) (le_max_right _ _)
      have A4 : b * (d - c) ≤ A := by rw [hA, max4_arith]; unfold Arith.max4; exact le_trans (le_max_right _ _) (le_max_right _ _)
      set p1 := max (a * c) (b * c) with hp1
      have P11 : a * c ≤ p1 := le_max_left _ _
      have P12 : b * c ≤ p1 := le_max_right _ _
      apply hM4 <;> refine le_trans ?_ (le_max_right _ _) <;> nlinarith

/-- `straddle_frechet_pbox(x, y)` on embedded intervals: naive ∩ Balch = the corner hull -/
theorem straddleFrechet_ofIvl (n : Nat) (a b c d : Rat) (hn : 0 < n) (hab : a ≤ b) (hcd : c ≤ d)
    (hy : c < 0 ∧ 0 < d) :
    straddleFrechet n (ofIvl n a b) (ofIvl n c d) =
      .ok (ofIvl n (min4 (a*c) (a*d) (b*c) (b*d)) (max4 (a*c) (a*d) (b*c) (b*d))) := by
  obtain ⟨L, U, hB, hL, hU⟩ := balchprod_ofIvl n a b c d hn hab hcd hy
  unfold straddleFrechet
  simp only [naiveOp_ofIvl]
  rw [mk_ofIvl n false _ _ hn (min4_le_max4 _ _ _ _), ok_bind, hB, ok_bind]
  have h1 : max (min4 (a*c) (a*d) (b*c) (b*d)) L = min4 (a*c) (a*d) (b*c) (b*d) := max_eq_left hL
  have h2 : min (max4 (a*c) (a*d) (b*c) (b*d)) U = max4 (a*c) (a*d) (b*c) (b*d) := min_eq_left hU
  rw [imp_ofIvl n _ _ _ _ hn (by rw [h1, h2]; exact min4_le_max4 _ _ _ _), h1, h2]

theorem min4_swap (a b c d : Rat) : min4 (c*a) (c*b) (d*a) (d*b) = min4 (a*c) (a*d) (b*c) (b*d) := by
  unfold min4
  rw [mul_comm c a, mul_comm c b, mul_comm d a, mul_comm d b, min_assoc (min (a*c) (b*c)), min_assoc (min (a*c) (a*d)),
    min_assoc (a*c), min_assoc (a*c), min_left_comm (b*c)]

theorem max4_swap (a b c d : Rat) : max4 (c*a) (c*b) (d*a) (d*b) = max4 (a*c) (a*d) (b*c) (b*d) := by
  unfold max4
  rw [mul_comm c a, mul_comm c b, mul_comm d a, mul_comm d b, max_assoc (max (a*c) (b*c)), max_assoc (max (a*c) (a*d)),
    max_assoc (a*c), max_assoc (a*c), max_left_comm (b*c)]

/-- **Frechet product of two embedded intervals, every sign case**: the corner hull -/
theorem frechetMul_ofIvl (n : Nat) (a b c d : Rat) (hn : 0 < n) (hab : a ≤ b) (hcd : c ≤ d) :
    frechetMul n (ofIvl n a b) (ofIvl n c d) =
      .ok (ofIvl n (min4 (a*c) (a*d) (b*c) (b*d)) (max4 (a*c) (a*d) (b*c) (b*d))) := by
  unfold frechetMul
  simp only [straddlesZero_ofIvl n _ _ hn]
  by_cases hy : c < 0 ∧ 0 < d
  · simp only [hy.1, hy.2, gt_iff_lt, decide_true, Bool.and_self, Bool.or_true, if_true]
    exact straddleFrechet_ofIvl n a b c d hn hab hcd hy
  · have hys : (decide (c < 0) && decide (d > 0)) = false := by
      by_cases h : c < 0
      · have : ¬ 0 < d := fun h' => hy ⟨h, h'⟩
        simp [this]
      · simp [h]
    by_cases hx : a < 0 ∧ 0 < b
    · simp only [hys, hx.1, hx.2, gt_iff_lt, decide_true, Bool.and_self, Bool.true_or, if_true, Bool.false_eq_true, if_false]
      rw [straddleFrechet_ofIvl n c d a b hn hcd hab hx, min4_swap, max4_swap]
    · have hxs : (decide (a < 0) && decide (b > 0)) = false := by
        by_cases h : a < 0
        · have : ¬ 0 < b := fun h' => hx ⟨h, h'⟩
          simp [this]
        · simp [h]
      simp only [hys, hxs, Bool.or_self, Bool.false_eq_true, if_false]
      apply frechetMulNoStraddle_ofIvl n a b c d hn hab hcd
      · by_cases h : a < 0
        · left; by_contra hb; exact hx ⟨h, not_le.mp hb⟩
        · right; exact not_lt.mp h
      · by_cases h : c < 0
        · left; by_contra hb; exact hy ⟨h, not_le.mp hb⟩
        · right; exact not_lt.mp h

end Pun.Hier
