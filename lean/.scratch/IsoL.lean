import Pun.Lemmas.Iso
import Pun.Props.C01
set_option linter.unusedSimpArgs false
set_option linter.unusedVariables false
namespace Pun.Iso
section Intervals
open Pun Pun.Arith
/-! ## nested interval expressions -/

/-- exact arithmetic on reals -/
def ap : BinOp → Rat → Rat → Rat
  | .add, x, y => x + y
  | .sub, x, y => x - y
  | .mul, x, y => x * y
  | .div, x, y => x / y

/-- the set an operand stands for -/
def Mem (x : Rat) : Opd → Prop
  | .N c => x = c
  | .I a b => a ≤ x ∧ x ≤ b
  | _ => False

def Valid : Opd → Prop
  | .N _ => True
  | .I a b => a ≤ b
  | _ => False

def isN : Opd → Bool
  | .N _ => true
  | _ => false

/-- containment of values: equal numbers, nested intervals -/
def VSub : Opd → Opd → Prop
  | .N c, .N c' => c = c'
  | .I a b, .I a' b' => a' ≤ a ∧ b ≤ b'
  | _, _ => False

/-- `v` is the exact image of `x × y` under `op`: sound, and its endpoints are attained -/
structure ExactImg (op : BinOp) (x y v : Opd) : Prop where
  valid : Valid v
  kind : isN v = (isN x && isN y)
  sound : ∀ p q, Mem p x → Mem q y → Mem (ap op p q) v
  lo : ∀ a b, v = .I a b → ∃ p q, Mem p x ∧ Mem q y ∧ ap op p q = a
  hi : ∀ a b, v = .I a b → ∃ p q, Mem p x ∧ Mem q y ∧ ap op p q = b
  pt : ∀ c, v = .N c → ∃ p q, Mem p x ∧ Mem q y ∧ ap op p q = c

theorem binop_II_add (a b c d : Rat) (h1 : a ≤ b) (h2 : c ≤ d) :
    binop .add (.I a b) (.I c d) = .ok (.I (a + c) (b + d)) := by
  have : a + c ≤ b + d := by linarith
  simp [binop, opdIV, forward, bzip, bshape, bget, IV.ofI, mkIV, bind, Except.bind, this, pure, Except.pure]

theorem binop_II_sub (a b c d : Rat) (h1 : a ≤ b) (h2 : c ≤ d) :
    binop .sub (.I a b) (.I c d) = .ok (.I (a - d) (b - c)) := by
  have : a - d ≤ b - c := by linarith
  simp [binop, opdIV, forward, bzip, bshape, bget, IV.ofI, mkIV, bind, Except.bind, this, pure, Except.pure]

theorem binop_II_mul (a b c d : Rat) (h1 : a ≤ b) (h2 : c ≤ d) :
    binop .mul (.I a b) (.I c d) =
      .ok (.I (min4 (a*c) (a*d) (b*c) (b*d)) (max4 (a*c) (a*d) (b*c) (b*d))) := by
  have hv : min4 (a*c) (a*d) (b*c) (b*d) ≤ max4 (a*c) (a*d) (b*c) (b*d) := by
    have := mul_hull a b c d a c (le_refl _) h1 (le_refl _) h2
    exact le_trans this.1 this.2
  simp [binop, opdIV, forward, multiply, IV.scalar, bshape, IV.ofI, mulTable_exact a b c d h1 h2, finishTable, mkIV,
    bind, Except.bind, hv, pure, Except.pure]

theorem binop_II_div_zero (a b c d : Rat) (hz : c ≤ 0 ∧ 0 ≤ d) :
    binop .div (.I a b) (.I c d) = .error .ZeroDivision := by
  simp [binop, opdIV, forward, divide, straddles, IV.ofI, hz.1, hz.2, bind, Except.bind]

theorem binop_II_div (a b c d : Rat) (h1 : a ≤ b) (h2 : c ≤ d) (h0 : 0 < c ∨ d < 0) :
    ∃ l h, binop .div (.I a b) (.I c d) = .ok (.I l h) ∧ l ≤ h ∧
      (∀ x y, a ≤ x → x ≤ b → c ≤ y → y ≤ d → l ≤ x / y ∧ x / y ≤ h) ∧
      (∃ x y, a ≤ x ∧ x ≤ b ∧ c ≤ y ∧ y ≤ d ∧ x / y = l) ∧
      (∃ x y, a ≤ x ∧ x ≤ b ∧ c ≤ y ∧ y ≤ d ∧ x / y = h) := by
  obtain ⟨l, h, htab, hs, hl, hh⟩ := divTable_sound a b c d h1 h2 h0
  have hv : l ≤ h := by
    have := hs a c (le_refl _) h1 (le_refl _) h2
    exact le_trans this.1 this.2
  refine ⟨l, h, ?_, hv, hs, hl, hh⟩
  have hst : ¬ (c ≤ 0 ∧ 0 ≤ d) := by
    rintro ⟨p, q⟩; rcases h0 with h | h <;> linarith
  have hst' : (decide (c ≤ 0) && decide (0 ≤ d)) = false := by
    simp only [Bool.and_eq_false_iff, decide_eq_false_iff_not]
    by_cases hc : c ≤ 0
    · right; exact fun hd => hst ⟨hc, hd⟩
    · left; exact hc
  simp [binop, opdIV, forward, divide, straddles, IV.ofI, IV.scalar, bshape, hst', htab, unopt, finishTable, mkIV, hv,
    bind, Except.bind, pure, Except.pure]

/-- Interval with Interval -/
theorem spec_II (op : BinOp) (a b c d : Rat) (h1 : a ≤ b) (h2 : c ≤ d) (v : Opd)
    (h : ibin op (.I a b) (.I c d) = .ok v) : ExactImg op (.I a b) (.I c d) v := by
  have e : ibin op (.I a b) (.I c d) = binop op (.I a b) (.I c d) := rfl
  rw [e] at h
  cases op with
  | add =>
    rw [binop_II_add a b c d h1 h2] at h
    cases h
    exact ⟨by simp [Valid]; linarith, rfl,
      fun p q hp hq => by simp only [Mem, ap] at *; constructor <;> linarith,
      fun x y hxy => by cases hxy; exact ⟨a, c, ⟨le_refl _, h1⟩, ⟨le_refl _, h2⟩, rfl⟩,
      fun x y hxy => by cases hxy; exact ⟨b, d, ⟨h1, le_refl _⟩, ⟨h2, le_refl _⟩, rfl⟩,
      fun c' hc => by cases hc⟩
  | sub =>
    rw [binop_II_sub a b c d h1 h2] at h
    cases h
    exact ⟨by simp [Valid]; linarith, rfl,
      fun p q hp hq => by simp only [Mem, ap] at *; constructor <;> linarith,
      fun x y hxy => by cases hxy; exact ⟨a, d, ⟨le_refl _, h1⟩, ⟨h2, le_refl _⟩, rfl⟩,
      fun x y hxy => by cases hxy; exact ⟨b, c, ⟨h1, le_refl _⟩, ⟨le_refl _, h2⟩, rfl⟩,
      fun c' hc => by cases hc⟩
  | mul =>
    obtain ⟨l, hh, htab, hs, hlo, hhi⟩ := mul_exact_image a b c d h1 h2
    rw [mulTable_exact a b c d h1 h2] at htab
    have e1 : min4 (a*c) (a*d) (b*c) (b*d) = l := congrArg Prod.fst (Option.some.inj htab)
    have e2 : max4 (a*c) (a*d) (b*c) (b*d) = hh := congrArg Prod.snd (Option.some.inj htab)
    rw [binop_II_mul a b c d h1 h2, e1, e2] at h
    cases h
    have hv : l ≤ hh := by have := hs a c (le_refl _) h1 (le_refl _) h2; exact le_trans this.1 this.2
    exact ⟨hv, rfl, fun p q hp hq => hs p q hp.1 hp.2 hq.1 hq.2,
      fun x y hxy => by
        cases hxy; obtain ⟨p, q, k1, k2, k3, k4, k5⟩ := hlo; exact ⟨p, q, ⟨k1, k2⟩, ⟨k3, k4⟩, k5⟩,
      fun x y hxy => by
        cases hxy; obtain ⟨p, q, k1, k2, k3, k4, k5⟩ := hhi; exact ⟨p, q, ⟨k1, k2⟩, ⟨k3, k4⟩, k5⟩,
      fun c' hc => by cases hc⟩
  | div =>
    by_cases hz : c ≤ 0 ∧ 0 ≤ d
    · rw [binop_II_div_zero a b c d hz] at h; cases h
    · have h0 : 0 < c ∨ d < 0 := by
        by_contra hn
        simp only [not_or, not_lt] at hn
        exact hz hn
      obtain ⟨l, hh, e', hv, hs, hlo, hhi⟩ := binop_II_div a b c d h1 h2 h0
      rw [e'] at h
      cases h
      exact ⟨hv, rfl, fun p q hp hq => hs p q hp.1 hp.2 hq.1 hq.2,
        fun x y hxy => by
          cases hxy; obtain ⟨p, q, k1, k2, k3, k4, k5⟩ := hlo; exact ⟨p, q, ⟨k1, k2⟩, ⟨k3, k4⟩, k5⟩,
        fun x y hxy => by
          cases hxy; obtain ⟨p, q, k1, k2, k3, k4, k5⟩ := hhi; exact ⟨p, q, ⟨k1, k2⟩, ⟨k3, k4⟩, k5⟩,
        fun c' hc => by cases hc⟩

theorem exactImg_num (op : BinOp) (x y : Rat) : ExactImg op (.N x) (.N y) (.N (ap op x y)) := by
  refine ⟨trivial, rfl, ?_, ?_, ?_, ?_⟩
  · intro p q hp hq
    simp only [Mem] at *
    subst hp; subst hq; rfl
  · intro a b e; cases e
  · intro a b e; cases e
  · intro c e
    cases e
    exact ⟨x, y, rfl, rfl, rfl⟩

/-- number with number -/
theorem spec_NN (op : BinOp) (x y : Rat) (v : Opd) (h : ibin op (.N x) (.N y) = .ok v) :
    ExactImg op (.N x) (.N y) v := by
  simp only [ibin, numBin] at h
  cases op with
  | add => cases h; exact exactImg_num .add x y
  | sub => cases h; exact exactImg_num .sub x y
  | mul => cases h; exact exactImg_num .mul x y
  | div =>
    simp only at h
    split at h
    · cases h
    · cases h; exact exactImg_num .div x y



theorem binop_IN (op : BinOp) (a b c : Rat) : binop op (.I a b) (.N c) = forward op (IV.ofI a b) (.N c) := by
  simp [binop, opdIV]

theorem binop_NI (op : BinOp) (a b c : Rat) : binop op (.N c) (.I a b) = reflected op (.N c) (IV.ofI a b) := by
  simp [binop, opdIV]

/-- Interval with number -/
theorem spec_IN (op : BinOp) (a b c : Rat) (h1 : a ≤ b) (v : Opd)
    (h : ibin op (.I a b) (.N c) = .ok v) : ExactImg op (.I a b) (.N c) v := by
  have e : ibin op (.I a b) (.N c) = binop op (.I a b) (.N c) := rfl
  rw [e, binop_IN] at h
  cases op with
  | add =>
    have hv : a + c ≤ b + c := by linarith
    have : forward .add (IV.ofI a b) (.N c) = .ok (.I (a + c) (b + c)) := by simp [forward, IV.ofI, mkIV, hv]
    rw [this] at h; cases h
    refine ⟨hv, rfl, ?_, ?_, ?_, ?_⟩
    · intro p q hp hq; simp only [Mem, ap] at *; subst hq; constructor <;> linarith
    · intro x y hxy; cases hxy; exact ⟨a, c, ⟨le_refl _, h1⟩, rfl, rfl⟩
    · intro x y hxy; cases hxy; exact ⟨b, c, ⟨h1, le_refl _⟩, rfl, rfl⟩
    · intro c' hc; cases hc
  | sub =>
    have hv : a - c ≤ b - c := by linarith
    have : forward .sub (IV.ofI a b) (.N c) = .ok (.I (a - c) (b - c)) := by simp [forward, IV.ofI, mkIV, hv]
    rw [this] at h; cases h
    refine ⟨hv, rfl, ?_, ?_, ?_, ?_⟩
    · intro p q hp hq; simp only [Mem, ap] at *; subst hq; constructor <;> linarith
    · intro x y hxy; cases hxy; exact ⟨a, c, ⟨le_refl _, h1⟩, rfl, rfl⟩
    · intro x y hxy; cases hxy; exact ⟨b, c, ⟨h1, le_refl _⟩, rfl, rfl⟩
    · intro c' hc; cases hc
  | mul =>
    obtain ⟨l, hh, e', hs, hends⟩ := mulNum_exact a b c h1
    have : forward .mul (IV.ofI a b) (.N c) = mulNum (IV.ofI a b) c := rfl
    rw [this, e'] at h; cases h
    have hv : l ≤ hh := by have := hs a (le_refl _) h1; exact le_trans this.1 this.2
    refine ⟨hv, rfl, ?_, ?_, ?_, ?_⟩
    · intro p q hp hq; simp only [Mem, ap] at *; subst hq; exact hs p hp.1 hp.2
    · intro x y hxy; cases hxy
      rcases hends with ⟨e1, _⟩ | ⟨e1, _⟩
      · exact ⟨a, c, ⟨le_refl _, h1⟩, rfl, e1.symm⟩
      · exact ⟨b, c, ⟨h1, le_refl _⟩, rfl, e1.symm⟩
    · intro x y hxy; cases hxy
      rcases hends with ⟨_, e2⟩ | ⟨_, e2⟩
      · exact ⟨b, c, ⟨h1, le_refl _⟩, rfl, e2.symm⟩
      · exact ⟨a, c, ⟨le_refl _, h1⟩, rfl, e2.symm⟩
    · intro c' hc; cases hc
  | div =>
    have hd : forward .div (IV.ofI a b) (.N c) = divNum (IV.ofI a b) c := rfl
    rw [hd] at h
    by_cases hc0 : c = 0
    · subst hc0; rw [divNum_zero_raises] at h; cases h
    · obtain ⟨l, hh, e', hs, hends⟩ := divNum_exact a b c h1 hc0
      rw [e'] at h; cases h
      have hv : l ≤ hh := by have := hs a (le_refl _) h1; exact le_trans this.1 this.2
      refine ⟨hv, rfl, ?_, ?_, ?_, ?_⟩
      · intro p q hp hq; simp only [Mem, ap] at *; subst hq; exact hs p hp.1 hp.2
      · intro x y hxy; cases hxy
        rcases hends with ⟨e1, _⟩ | ⟨e1, _⟩
        · exact ⟨a, c, ⟨le_refl _, h1⟩, rfl, e1.symm⟩
        · exact ⟨b, c, ⟨h1, le_refl _⟩, rfl, e1.symm⟩
      · intro x y hxy; cases hxy
        rcases hends with ⟨_, e2⟩ | ⟨_, e2⟩
        · exact ⟨b, c, ⟨h1, le_refl _⟩, rfl, e2.symm⟩
        · exact ⟨a, c, ⟨le_refl _, h1⟩, rfl, e2.symm⟩
      · intro c' hc; cases hc

/-- number with Interval (the reflected operators) -/
theorem spec_NI (op : BinOp) (a b c : Rat) (h1 : a ≤ b) (v : Opd)
    (h : ibin op (.N c) (.I a b) = .ok v) : ExactImg op (.N c) (.I a b) v := by
  have e : ibin op (.N c) (.I a b) = binop op (.N c) (.I a b) := rfl
  rw [e, binop_NI] at h
  cases op with
  | add =>
    have hv : a + c ≤ b + c := by linarith
    have : reflected .add (.N c) (IV.ofI a b) = .ok (.I (a + c) (b + c)) := by simp [reflected, forward, IV.ofI, mkIV, hv]
    rw [this] at h; cases h
    refine ⟨hv, rfl, ?_, ?_, ?_, ?_⟩
    · intro p q hp hq; simp only [Mem, ap] at *; subst hp; constructor <;> linarith
    · intro x y hxy; cases hxy; exact ⟨c, a, rfl, ⟨le_refl _, h1⟩, by simp [ap]; ring⟩
    · intro x y hxy; cases hxy; exact ⟨c, b, rfl, ⟨h1, le_refl _⟩, by simp [ap]; ring⟩
    · intro c' hc; cases hc
  | sub =>
    obtain ⟨e', hs⟩ := rsub_exact a b c h1
    rw [e'] at h; cases h
    have hv : c - b ≤ c - a := by linarith
    refine ⟨hv, rfl, ?_, ?_, ?_, ?_⟩
    · intro p q hp hq; simp only [Mem, ap] at *; subst hp; exact hs q hq.1 hq.2
    · intro x y hxy; cases hxy; exact ⟨c, b, rfl, ⟨h1, le_refl _⟩, rfl⟩
    · intro x y hxy; cases hxy; exact ⟨c, a, rfl, ⟨le_refl _, h1⟩, rfl⟩
    · intro c' hc; cases hc
  | mul =>
    obtain ⟨l, hh, e', hs, hends⟩ := mulNum_exact a b c h1
    have : reflected .mul (.N c) (IV.ofI a b) = mulNum (IV.ofI a b) c := rfl
    rw [this, e'] at h; cases h
    have hv : l ≤ hh := by have := hs a (le_refl _) h1; exact le_trans this.1 this.2
    refine ⟨hv, rfl, ?_, ?_, ?_, ?_⟩
    · intro p q hp hq; simp only [Mem, ap] at *; subst hp; rw [mul_comm]; exact hs q hq.1 hq.2
    · intro x y hxy; cases hxy
      rcases hends with ⟨e1, _⟩ | ⟨e1, _⟩
      · exact ⟨c, a, rfl, ⟨le_refl _, h1⟩, by simp only [ap]; rw [mul_comm]; exact e1.symm⟩
      · exact ⟨c, b, rfl, ⟨h1, le_refl _⟩, by simp only [ap]; rw [mul_comm]; exact e1.symm⟩
    · intro x y hxy; cases hxy
      rcases hends with ⟨_, e2⟩ | ⟨_, e2⟩
      · exact ⟨c, b, rfl, ⟨h1, le_refl _⟩, by simp only [ap]; rw [mul_comm]; exact e2.symm⟩
      · exact ⟨c, a, rfl, ⟨le_refl _, h1⟩, by simp only [ap]; rw [mul_comm]; exact e2.symm⟩
    · intro c' hc; cases hc
  | div =>
    by_cases hz : a ≤ 0 ∧ 0 ≤ b
    · rw [rdiv_straddle_raises a b c hz] at h; cases h
    · have h0 : 0 < a ∨ b < 0 := by
        by_contra hn
        simp only [not_or, not_lt] at hn
        exact hz hn
      obtain ⟨l, hh, e', hs, hends⟩ := rdiv_exact a b c h1 h0
      rw [e'] at h; cases h
      have hv : l ≤ hh := by have := hs a (le_refl _) h1; exact le_trans this.1 this.2
      refine ⟨hv, rfl, ?_, ?_, ?_, ?_⟩
      · intro p q hp hq; simp only [Mem, ap] at *; subst hp; exact hs q hq.1 hq.2
      · intro x y hxy; cases hxy
        rcases hends with ⟨e1, _⟩ | ⟨e1, _⟩
        · exact ⟨c, b, rfl, ⟨h1, le_refl _⟩, e1.symm⟩
        · exact ⟨c, a, rfl, ⟨le_refl _, h1⟩, e1.symm⟩
      · intro x y hxy; cases hxy
        rcases hends with ⟨_, e2⟩ | ⟨_, e2⟩
        · exact ⟨c, a, rfl, ⟨le_refl _, h1⟩, e2.symm⟩
        · exact ⟨c, b, rfl, ⟨h1, le_refl _⟩, e2.symm⟩
      · intro c' hc; cases hc



theorem ibin_spec (op : BinOp) (x y v : Opd) (vx : Valid x) (vy : Valid y) (h : ibin op x y = .ok v) :
    ExactImg op x y v := by
  cases x with
  | N c =>
    cases y with
    | N d => exact spec_NN op c d v h
    | I a b => exact spec_NI op a b c vy v h
    | _ => exact absurd vy (by simp [Valid])
  | I a b =>
    cases y with
    | N d => exact spec_IN op a b d vx v h
    | I c d => exact spec_II op a b c d vx vy v h
    | _ => exact absurd vy (by simp [Valid])
  | _ => exact absurd vx (by simp [Valid])

theorem Mem_of_VSub {x x' : Opd} (h : VSub x x') (p : Rat) (hp : Mem p x) : Mem p x' := by
  cases x with
  | N c =>
    cases x' with
    | N c' => simp only [VSub, Mem] at *; rw [hp, h]
    | _ => simp [VSub] at h
  | I a b =>
    cases x' with
    | I a' b' => simp only [VSub, Mem] at *; exact ⟨le_trans h.1 hp.1, le_trans hp.2 h.2⟩
    | _ => simp [VSub] at h
  | _ => simp [Mem] at hp

theorem isN_of_VSub {x x' : Opd} (h : VSub x x') : isN x = isN x' := by
  cases x <;> cases x' <;> simp [VSub, isN] at *

/-- **one interval operation is inclusion isotone** (when both runs are defined): exact image ⇒ isotone -/
theorem ibin_iso (op : BinOp) {x x' y y' v v' : Opd} (vx : Valid x) (vx' : Valid x') (vy : Valid y) (vy' : Valid y')
    (hx : VSub x x') (hy : VSub y y') (h : ibin op x y = .ok v) (h' : ibin op x' y' = .ok v') :
    VSub v v' ∧ Valid v ∧ Valid v' := by
  have S := ibin_spec op x y v vx vy h
  have S' := ibin_spec op x' y' v' vx' vy' h'
  refine ⟨?_, S.valid, S'.valid⟩
  have hk : isN v = isN v' := by rw [S.kind, S'.kind, isN_of_VSub hx, isN_of_VSub hy]
  cases v with
  | N c =>
    cases v' with
    | N c' =>
      obtain ⟨p, q, hp, hq, e⟩ := S.pt c rfl
      have := S'.sound p q (Mem_of_VSub hx p hp) (Mem_of_VSub hy q hq)
      simp only [Mem] at this
      simp only [VSub]; rw [← e, this]
    | I a' b' => simp [isN] at hk
    | _ => exact absurd S'.valid (by simp [Valid])
  | I a b =>
    cases v' with
    | N c' => simp [isN] at hk
    | I a' b' =>
      obtain ⟨p, q, hp, hq, e⟩ := S.lo a b rfl
      obtain ⟨p2, q2, hp2, hq2, e2⟩ := S.hi a b rfl
      have k1 := S'.sound p q (Mem_of_VSub hx p hp) (Mem_of_VSub hy q hq)
      have k2 := S'.sound p2 q2 (Mem_of_VSub hx p2 hp2) (Mem_of_VSub hy q2 hq2)
      simp only [Mem] at k1 k2
      simp only [VSub]
      rw [e] at k1; rw [e2] at k2
      exact ⟨k1.1, k2.2⟩
    | _ => exact absurd S'.valid (by simp [Valid])
  | _ => exact absurd S.valid (by simp [Valid])

theorem ineg_iso {x x' v v' : Opd} (vx : Valid x) (vx' : Valid x') (hx : VSub x x')
    (h : ineg x = .ok v) (h' : ineg x' = .ok v') : VSub v v' ∧ Valid v ∧ Valid v' := by
  cases x with
  | N c =>
    cases x' with
    | N c' =>
      simp only [ineg] at h h'
      cases h; cases h'
      simp only [VSub] at hx ⊢
      exact ⟨by rw [hx], trivial, trivial⟩
    | _ => simp [VSub] at hx
  | I a b =>
    cases x' with
    | I a' b' =>
      simp only [Valid] at vx vx'
      simp only [VSub] at hx
      have e1 : ineg (.I a b) = .ok (.I (-b) (-a)) := by
        have : -b ≤ -a := by linarith
        simp [ineg, Arith.neg, mkIV, this]
      have e2 : ineg (.I a' b') = .ok (.I (-b') (-a')) := by
        have : -b' ≤ -a' := by linarith
        simp [ineg, Arith.neg, mkIV, this]
      rw [e1] at h; rw [e2] at h'
      cases h; cases h'
      simp only [VSub, Valid]
      exact ⟨⟨by linarith [hx.2], by linarith [hx.1]⟩, by linarith, by linarith⟩
    | _ => simp [VSub] at hx
  | _ => exact absurd vx (by simp [Valid])

/-- boxes: nested side by side, every side valid -/
def BoxSub (box box' : List (Rat × Rat)) : Prop :=
  List.Forall₂ (fun p p' => p'.1 ≤ p.1 ∧ p.2 ≤ p'.2) box box'

def BoxValid (box : List (Rat × Rat)) : Prop := ∀ p ∈ box, p.1 ≤ p.2

theorem bind_ok {α β : Type} {x : Except Err α} {f : α → Except Err β} {b : β}
    (h : (x >>= f) = .ok b) : ∃ a, x = .ok a ∧ f a = .ok b := by
  cases x with
  | error e => simp [bind, Except.bind] at h
  | ok a => exact ⟨a, rfl, by simpa [bind, Except.bind] using h⟩

theorem boxSub_get {box box' : List (Rat × Rat)} (h : BoxSub box box') (i : Nat) (p p' : Rat × Rat)
    (hp : box[i]? = some p) (hp' : box'[i]? = some p') : p'.1 ≤ p.1 ∧ p.2 ≤ p'.2 := by
  induction h generalizing i with
  | nil => simp at hp
  | cons hab _ ih =>
    cases i with
    | zero => simp at hp hp'; subst hp; subst hp'; exact hab
    | succ j => simp at hp hp'; exact ih j hp hp'

/-- **a nested interval expression of any depth is inclusion isotone** (`iso_expr` of the design):
whenever both evaluations return, the value for the sub-box is contained in the value for the box -/
theorem itree_iso (t : ITree) {box box' : List (Rat × Rat)} (hv : BoxValid box) (hv' : BoxValid box')
    (hb : BoxSub box box') : ∀ v v', t.eval box = .ok v → t.eval box' = .ok v' → VSub v v' ∧ Valid v ∧ Valid v' := by
  induction t with
  | var i =>
    intro v v' h h'
    simp only [ITree.eval] at h h'
    cases hp : box[i]? with
    | none => simp [hp] at h
    | some p =>
      cases hp' : box'[i]? with
      | none => simp [hp'] at h'
      | some p' =>
        simp only [hp] at h; simp only [hp'] at h'
        cases h; cases h'
        have := boxSub_get hb i p p' hp hp'
        exact ⟨this, hv p (List.mem_of_getElem? hp), hv' p' (List.mem_of_getElem? hp')⟩
  | num c =>
    intro v v' h h'
    simp only [ITree.eval] at h h'
    cases h; cases h'
    exact ⟨rfl, trivial, trivial⟩
  | bin op a b iha ihb =>
    intro v v' h h'
    simp only [ITree.eval] at h h'
    obtain ⟨x, ex, h2⟩ := bind_ok h
    obtain ⟨y, ey, h3⟩ := bind_ok h2
    obtain ⟨x', ex', h2'⟩ := bind_ok h'
    obtain ⟨y', ey', h3'⟩ := bind_ok h2'
    obtain ⟨sx, vx, vx'⟩ := iha x x' ex ex'
    obtain ⟨sy, vy, vy'⟩ := ihb y y' ey ey'
    exact ibin_iso op vx vx' vy vy' sx sy h3 h3'
  | neg a iha =>
    intro v v' h h'
    simp only [ITree.eval] at h h'
    obtain ⟨x, ex, h2⟩ := bind_ok h
    obtain ⟨x', ex', h2'⟩ := bind_ok h'
    obtain ⟨sx, vx, vx'⟩ := iha x x' ex ex'
    exact ineg_iso vx vx' sx h2 h2'



end Intervals

section Mixed
open Pun Pun.PBox

/-! ## alpha-cuts, stacking, slicing -/

theorem mapM_forall₂ {α β : Type} (f f' : α → Except Err β) (S : α → α → Prop) (R : β → β → Prop)
    {l l' : List α} (hl : List.Forall₂ S l l')
    (h : ∀ a a', S a a' → ∀ b b', f a = .ok b → f' a' = .ok b' → R b b') :
    ∀ bs bs', l.mapM f = .ok bs → l'.mapM f' = .ok bs' → List.Forall₂ R bs bs' := by
  induction hl with
  | nil =>
    intro bs bs' e e'
    simp only [List.mapM_nil, pure, Except.pure] at e e'
    cases e; cases e'; exact List.Forall₂.nil
  | @cons a a' t t' hS _ ih =>
    intro bs bs' e e'
    rw [List.mapM_cons] at e e'
    obtain ⟨b, eb, e2⟩ := bind_ok e
    obtain ⟨r, er, e3⟩ := bind_ok e2
    obtain ⟨b', eb', e2'⟩ := bind_ok e'
    obtain ⟨r', er', e3'⟩ := bind_ok e2'
    simp only [pure, Except.pure] at e3 e3'
    cases e3; cases e3'
    exact List.Forall₂.cons (h a a' hS b b' eb eb') (ih r r' er er')

/-- **the cut index depends on the level and the grid only**; the cut of a wider p-box at the same level is wider -/
theorem alphaCut_iso (pv : List Rat) (a : Rat) {P P' : PB} (hP : PSub P P') (c c' : Rat × Rat)
    (e : alphaCut pv P a = .ok c) (e' : alphaCut pv P' a = .ok c') :
    (c'.1 ≤ c.1 ∧ c.2 ≤ c'.2) ∧ c.1 ≤ c.2 ∧ c'.1 ≤ c'.2 := by
  unfold alphaCut at e e'
  simp only at e e'
  cases hl : P.left[nearestIdx pv a]? with
  | none => simp [hl] at e
  | some l =>
  cases hr : P.right[nearestIdx pv a]? with
  | none => simp [hl, hr] at e
  | some r =>
  cases hl' : P'.left[nearestIdx pv a]? with
  | none => simp [hl'] at e'
  | some l' =>
  cases hr' : P'.right[nearestIdx pv a]? with
  | none => simp [hl', hr'] at e'
  | some r' =>
    simp only [hl, hr] at e
    simp only [hl', hr'] at e'
    split at e
    · rename_i hv
      split at e'
      · rename_i hv'
        cases e; cases e'
        obtain ⟨i1, h1⟩ := List.getElem?_eq_some_iff.mp hl
        obtain ⟨i2, h2⟩ := List.getElem?_eq_some_iff.mp hr
        obtain ⟨i3, h3⟩ := List.getElem?_eq_some_iff.mp hl'
        obtain ⟨i4, h4⟩ := List.getElem?_eq_some_iff.mp hr'
        have k1 := hP.1.getElem _ i3 i1
        have k2 := hP.2.getElem _ i2 i4
        rw [h1, h3] at k1; rw [h2, h4] at k2
        exact ⟨⟨k1, k2⟩, hv, hv'⟩
      · cases e'
    · cases e

theorem zip_forall₂ {vars vars' : List PB} (h : List.Forall₂ PSub vars vars') (row : List Rat) :
    List.Forall₂ (fun (x x' : PB × Rat) => PSub x.1 x'.1 ∧ x.2 = x'.2) (vars.zip row) (vars'.zip row) := by
  induction h generalizing row with
  | nil => simp
  | cons hab _ ih =>
    cases row with
    | nil => simp
    | cons a r => simp only [List.zip_cons_cons]; exact List.Forall₂.cons ⟨hab, rfl⟩ (ih r)

theorem forall₂_and_valid {box box' : List (Rat × Rat)}
    (h : List.Forall₂ (fun c c' => (c'.1 ≤ c.1 ∧ c.2 ≤ c'.2) ∧ c.1 ≤ c.2 ∧ c'.1 ≤ c'.2) box box') :
    BoxSub box box' ∧ BoxValid box ∧ BoxValid box' := by
  induction h with
  | nil => exact ⟨List.Forall₂.nil, fun _ h => by simp at h, fun _ h => by simp at h⟩
  | @cons c c' t t' hc _ ih =>
    obtain ⟨i1, i2, i3⟩ := ih
    refine ⟨List.Forall₂.cons hc.1 i1, ?_, ?_⟩
    · intro p hp
      rcases List.mem_cons.mp hp with e | hp'
      · subst e; exact hc.2.1
      · exact i2 p hp'
    · intro p hp
      rcases List.mem_cons.mp hp with e | hp'
      · subst e; exact hc.2.2
      · exact i3 p hp'

theorem cutBox_iso (pv : List Rat) {vars vars' : List PB} (h : List.Forall₂ PSub vars vars') (row : List Rat)
    (box box' : List (Rat × Rat)) (e : cutBox pv vars row = .ok box) (e' : cutBox pv vars' row = .ok box') :
    BoxSub box box' ∧ BoxValid box ∧ BoxValid box' := by
  unfold cutBox at e e'
  apply forall₂_and_valid
  refine mapM_forall₂ _ _ _ _ (zip_forall₂ h row) ?_ box box' e e'
  intro x x' hx c c' hc hc'
  rw [← hx.2] at hc'
  exact alphaCut_iso pv x.2 hx.1 c c' hc hc'

theorem asIvl_iso {v v' : Arith.Opd} (h : VSub v v') (hv : Valid v) (hv' : Valid v') (c c' : Rat × Rat)
    (e : asIvl v = .ok c) (e' : asIvl v' = .ok c') : (c'.1 ≤ c.1 ∧ c.2 ≤ c'.2) ∧ c.1 ≤ c.2 ∧ c'.1 ≤ c'.2 := by
  cases v with
  | N x =>
    cases v' with
    | N x' =>
      simp only [asIvl] at e e'; cases e; cases e'
      simp only [VSub] at h; subst h
      exact ⟨⟨le_refl _, le_refl _⟩, le_refl _, le_refl _⟩
    | _ => simp [VSub] at h
  | I a b =>
    cases v' with
    | I a' b' =>
      simp only [asIvl] at e e'; cases e; cases e'
      exact ⟨h, hv, hv'⟩
    | _ => simp [VSub] at h
  | _ => exact absurd hv (by simp [Valid])

theorem forall₂_eq_self {α : Type} (l : List α) : List.Forall₂ (· = ·) l l := List.forall₂_refl l

/-- the focal intervals handed to `stacking` are nested, row by row -/
theorem sliceImages_iso (pv levels : List Rat) (t : ITree) {vars vars' : List PB} (h : List.Forall₂ PSub vars vars')
    (im im' : List (Rat × Rat)) (e : sliceImages pv levels t vars = .ok im) (e' : sliceImages pv levels t vars' = .ok im') :
    List.Forall₂ (fun c c' => (c'.1 ≤ c.1 ∧ c.2 ≤ c'.2) ∧ c.1 ≤ c.2 ∧ c'.1 ≤ c'.2) im im' := by
  unfold sliceImages at e e'
  rw [← h.length_eq] at e'
  refine mapM_forall₂ _ _ (· = ·) _ (forall₂_eq_self _) ?_ im im' e e'
  intro row row' hrow c c' hc hc'
  subst hrow
  obtain ⟨box, eb, h2⟩ := bind_ok hc
  obtain ⟨v, ev, h3⟩ := bind_ok h2
  obtain ⟨box', eb', h2'⟩ := bind_ok hc'
  obtain ⟨v', ev', h3'⟩ := bind_ok h2'
  obtain ⟨bs, bv, bv'⟩ := cutBox_iso pv h row box box' eb eb'
  obtain ⟨sv, vv, vv'⟩ := itree_iso t bv bv' bs v v' ev ev'
  exact asIvl_iso sv vv vv' c c' h3 h3'

theorem split_images {im im' : List (Rat × Rat)}
    (h : List.Forall₂ (fun c c' => (c'.1 ≤ c.1 ∧ c.2 ≤ c'.2) ∧ c.1 ≤ c.2 ∧ c'.1 ≤ c'.2) im im') :
    LE (im'.map Prod.fst) (im.map Prod.fst) ∧ LE (im.map Prod.snd) (im'.map Prod.snd) ∧
    LE (im.map Prod.fst) (im.map Prod.snd) ∧ LE (im'.map Prod.fst) (im'.map Prod.snd) := by
  induction h with
  | nil => simp
  | cons hc _ ih =>
    obtain ⟨i1, i2, i3, i4⟩ := ih
    simp only [List.map_cons]
    exact ⟨List.Forall₂.cons hc.1.1 i1, List.Forall₂.cons hc.1.2 i2, List.Forall₂.cons hc.2.1 i3, List.Forall₂.cons hc.2.2 i4⟩

/-- **stacking is isotone**: same weights `≥ 0`, grid levels `> 0`; wider focal intervals give a wider p-box -/
theorem stacking_iso (g lo hi lo' hi' wts : List Rat) (hw : ∀ w ∈ wts, 0 ≤ w) (hg : ∀ p ∈ g, 0 < p)
    (hl : LE lo' lo) (hh : LE hi hi') (hv : LE lo hi) (hv' : LE lo' hi') (R R' : PB)
    (e : stacking g lo hi wts = .ok R) (e' : stacking g lo' hi' wts = .ok R') : PSub R R' := by
  have key : ∀ {a b : List Rat} {Q : PB}, LE a b → stacking g a b wts = .ok Q →
      Q = ⟨stackBound g a wts, stackBound g b wts⟩ := by
    intro a b Q hab hq
    have hle := stackBound_mono (g := g) hab hw hg
    unfold stacking at hq
    split at hq
    · cases hq
    · split at hq
      · cases hq
      · split at hq
        · cases hq
        · split at hq
          · cases hq
          · simp only at hq
            split at hq
            · rename_i hge
              have := allGe_eq_of_LE hle hge
              cases hq
              simp only [PB.mk.injEq]
              exact ⟨this.symm, this⟩
            · cases hq; rfl
  rw [key hv e, key hv' e']
  exact ⟨stackBound_mono hl hw hg, stackBound_mono hh hw hg⟩

/-- **mixed propagation (`slicing`, direct interval strategy) with a fixed number of slices is isotone**:
the level grid does not depend on the operands, every cut of a wider p-box is wider, the response
expression is inclusion isotone, and stacking is monotone in the focal intervals -/
theorem slicing_iso (pv levels : List Rat) (t : ITree) (w : Rat) (hw : 0 ≤ w) (hg : ∀ p ∈ pv, 0 < p)
    {vars vars' : List PB} (h : List.Forall₂ PSub vars vars') (R R' : PB)
    (e : slicing pv levels t vars w = .ok R) (e' : slicing pv levels t vars' w = .ok R') : PSub R R' := by
  unfold slicing at e e'
  obtain ⟨im, ei, h2⟩ := bind_ok e
  obtain ⟨im', ei', h2'⟩ := bind_ok e'
  have hf := sliceImages_iso pv levels t h im im' ei ei'
  obtain ⟨s1, s2, s3, s4⟩ := split_images hf
  have hlen : im'.length = im.length := hf.length_eq.symm
  rw [hlen] at h2'
  exact stacking_iso pv _ _ _ _ _ (fun x hx => by rw [List.eq_of_mem_replicate hx]; exact hw) hg s1 s2 s3 s4 R R' h2 h2'

end Mixed
end Pun.Iso
