import Pun.Lemmas.Elem
import Mathlib.Algebra.Order.Ring.Abs
import Mathlib.Algebra.Order.Monoid.Unbundled.Pow
import Mathlib.Tactic.Positivity
set_option linter.unusedSimpArgs false
set_option linter.unusedVariables false
namespace Pun.Elem

theorem absR_eq (x : ℚ) : absR x = |x| := by
  unfold absR
  split_ifs with h
  · exact (abs_of_neg h).symm
  · exact (abs_of_nonneg (not_lt.mp h)).symm

/-- `abs` returns exactly `[min |x|, max |x|]` over `x ∈ [lo,hi]` -/
theorem abs_exact (lo hi : ℚ) (h : lo ≤ hi) :
    (absI lo hi).1 ≤ (absI lo hi).2 ∧
    (∀ x, lo ≤ x → x ≤ hi → (absI lo hi).1 ≤ |x| ∧ |x| ≤ (absI lo hi).2) ∧
    (∃ x, lo ≤ x ∧ x ≤ hi ∧ |x| = (absI lo hi).1) ∧
    (∃ x, lo ≤ x ∧ x ≤ hi ∧ |x| = (absI lo hi).2) := by
  unfold absI
  simp only [absR_eq, ge_iff_le]
  have hsound : ∀ x, lo ≤ x → x ≤ hi → (if lo ≤ 0 ∧ 0 ≤ hi then 0 else min |lo| |hi|) ≤ |x| ∧ |x| ≤ max |lo| |hi| := by
    intro x h1 h2
    refine ⟨?_, abs_le_max_abs_abs h1 h2⟩
    split_ifs with hz
    · exact abs_nonneg x
    · rcases not_and_or.mp hz with hz | hz
      · have : 0 < lo := not_le.mp hz
        rw [abs_of_pos this, abs_of_pos (by linarith : 0 < x)]
        exact le_trans (min_le_left _ _) h1
      · have : hi < 0 := not_le.mp hz
        rw [abs_of_neg this, abs_of_neg (by linarith : x < 0)]
        exact le_trans (min_le_right _ _) (by linarith)
  refine ⟨le_trans (hsound lo (le_refl _) h).1 (hsound lo (le_refl _) h).2, hsound, ?_, ?_⟩
  · split_ifs with hz
    · exact ⟨0, hz.1, hz.2, abs_zero⟩
    · rcases min_choice |lo| |hi| with e | e <;> rw [e]
      · exact ⟨lo, le_refl _, h, rfl⟩
      · exact ⟨hi, h, le_refl _, rfl⟩
  · rcases max_choice |lo| |hi| with e | e <;> rw [e]
    · exact ⟨lo, le_refl _, h, rfl⟩
    · exact ⟨hi, h, le_refl _, rfl⟩

/-- endpoint evaluation of a function monotone on `[lo,hi]` (exp) is the exact range -/
theorem mono_exact (f : ℚ → ℚ) (lo hi : ℚ) (h : lo ≤ hi)
    (hf : ∀ u v, lo ≤ u → u ≤ v → v ≤ hi → f u ≤ f v) :
    expI (f lo) (f hi) = .ok (f lo, f hi) ∧
    (∀ x, lo ≤ x → x ≤ hi → f lo ≤ f x ∧ f x ≤ f hi) ∧
    (∃ x, lo ≤ x ∧ x ≤ hi ∧ f x = f lo) ∧ (∃ x, lo ≤ x ∧ x ≤ hi ∧ f x = f hi) := by
  refine ⟨?_, ?_, ⟨lo, le_refl _, h, rfl⟩, ⟨hi, h, le_refl _, rfl⟩⟩
  · unfold expI mkI; rw [if_pos (hf lo hi (le_refl _) h (le_refl _))]
  · intro x h1 h2; exact ⟨hf lo x (le_refl _) h1 h2, hf x hi h1 h2 (le_refl _)⟩

/-- sqrt on its domain: exact range of any function monotone on `[lo,hi]`, `0 ≤ lo` -/
theorem sqrt_exact (f : ℚ → ℚ) (lo hi : ℚ) (h0 : 0 ≤ lo) (h : lo ≤ hi)
    (hf : ∀ u v, lo ≤ u → u ≤ v → v ≤ hi → f u ≤ f v) :
    sqrtI lo hi (f lo) (f hi) = .ok (f lo, f hi) ∧
    (∀ x, lo ≤ x → x ≤ hi → f lo ≤ f x ∧ f x ≤ f hi) := by
  constructor
  · unfold sqrtI
    rw [if_neg (not_lt.mpr h0), if_neg (not_lt.mpr (le_trans h0 h))]
    show mkI (f lo) (f hi) = _
    unfold mkI; rw [if_pos (hf lo hi (le_refl _) h (le_refl _))]
  · intro x h1 h2; exact ⟨hf lo x (le_refl _) h1 h2, hf x hi h1 h2 (le_refl _)⟩

/-- an interval reaching below 0 is outside the domain of sqrt: the call raises -/
theorem sqrt_domain (lo hi a b : ℚ) (h : lo < 0) : sqrtI lo hi a b = .error .Assertion := by
  unfold sqrtI; rw [if_pos h]; split_ifs <;> rfl

theorem log_exact (f : ℚ → ℚ) (lo hi : ℚ) (h0 : 0 < lo) (h : lo ≤ hi)
    (hf : ∀ u v, lo ≤ u → u ≤ v → v ≤ hi → f u ≤ f v) :
    logI lo (f lo) (f hi) = .ok (f lo, f hi) ∧
    (∀ x, lo ≤ x → x ≤ hi → f lo ≤ f x ∧ f x ≤ f hi) := by
  constructor
  · unfold logI mkI; rw [if_pos h0, if_pos (hf lo hi (le_refl _) h (le_refl _))]
  · intro x h1 h2; exact ⟨hf lo x (le_refl _) h1 h2, hf x hi h1 h2 (le_refl _)⟩

/-- an interval containing a non-positive number is outside the domain of log: the call raises -/
theorem log_domain (lo a b : ℚ) (h : lo ≤ 0) : logI lo a b = .error .Assertion := by
  unfold logI; rw [if_neg (not_lt.mpr h)]

/-- the array forms raise as soon as one element is outside the domain -/
theorem logA_domain (los a b : List ℚ) (x : ℚ) (hx : x ∈ los) (h : x ≤ 0) : logA los a b = .error .Assertion := by
  unfold logA
  rw [if_neg]
  intro hall
  have := List.all_eq_true.mp hall x hx
  simp only [gt_iff_lt, decide_eq_true_eq] at this
  exact absurd this (not_lt.mpr h)

end Pun.Elem
