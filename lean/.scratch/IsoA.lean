import Pun.Lemmas.Iso
import Pun.Lemmas.PBoxFrechet
import Mathlib.Data.List.Forall2
set_option linter.unusedSimpArgs false
set_option linter.unusedVariables false
namespace Pun.Iso
open Pun List

/-- pointwise `≤` of two lists (same length) -/
abbrev LE (l l' : List Rat) : Prop := List.Forall₂ (· ≤ ·) l l'

theorem LE.refl (l : List Rat) : LE l l := List.forall₂_refl l

theorem LE.trans {a b c : List Rat} (h1 : LE a b) (h2 : LE b c) : LE a c := by
  induction h1 generalizing c with
  | nil => cases h2; exact List.Forall₂.nil
  | cons hab _ ih =>
    cases h2 with
    | cons hbc htl => exact List.Forall₂.cons (le_trans hab hbc) (ih htl)

theorem LE_iff_get {l l' : List Rat} :
    LE l l' ↔ l.length = l'.length ∧ ∀ i (h : i < l.length) (h' : i < l'.length), l[i] ≤ l'[i] := by
  unfold LE
  rw [List.forall₂_iff_get]
  simp

theorem leL_iff (l l' : List Rat) : leL l l' = true ↔ LE l l' := by
  induction l generalizing l' with
  | nil => cases l' <;> simp [leL, LE]
  | cons a s ih =>
    cases l' with
    | nil => simp [leL, LE]
    | cons b t => simp [leL, LE, ih t]

theorem sortR_perm (l : List Rat) : (sortR l).Perm l := List.mergeSort_perm l _

theorem sortR_sorted (l : List Rat) : (sortR l).Pairwise (· ≤ ·) := by
  have := List.pairwise_mergeSort (le := fun a b : Rat => decide (a ≤ b))
    (fun a b c h1 h2 => by simp at h1 h2 ⊢; exact le_trans h1 h2)
    (fun a b => by simp; exact le_total a b) l
  exact this.imp (fun h => by simpa using h)

theorem sortR_length (l : List Rat) : (sortR l).length = l.length := (sortR_perm l).length_eq

/-- **sorting is monotone**: pointwise-smaller list has pointwise-smaller sort -/
theorem sortR_mono {l l' : List Rat} (h : LE l l') : LE (sortR l) (sortR l') := by
  rw [LE_iff_get] at h ⊢
  obtain ⟨hlen, hle⟩ := h
  refine ⟨by rw [sortR_length, sortR_length, hlen], fun i hi hi' => ?_⟩
  exact sort_mono l l' (sortR l) (sortR l') hlen (fun j hj => hle j hj (hlen ▸ hj))
    (sortR_perm l) (sortR_perm l') (sortR_sorted l) (sortR_sorted l') i hi hi'

theorem LE.map {f : Rat → Rat} (hf : ∀ x y, x ≤ y → f x ≤ f y) {l l' : List Rat} (h : LE l l') :
    LE (l.map f) (l'.map f) := by
  induction h with
  | nil => exact List.Forall₂.nil
  | cons hab _ ih => exact List.Forall₂.cons (hf _ _ hab) ih

theorem LE.map_anti {f : Rat → Rat} (hf : ∀ x y, x ≤ y → f y ≤ f x) {l l' : List Rat} (h : LE l l') :
    LE (l'.map f) (l.map f) := by
  induction h with
  | nil => exact List.Forall₂.nil
  | cons hab _ ih => exact List.Forall₂.cons (hf _ _ hab) ih

theorem LE.reverse {l l' : List Rat} (h : LE l l') : LE l.reverse l'.reverse :=
  List.forall₂_reverse_iff.mpr h

theorem LE.take {l l' : List Rat} (h : LE l l') (n : Nat) : LE (l.take n) (l'.take n) := List.forall₂_take n h
theorem LE.drop {l l' : List Rat} (h : LE l l') (n : Nat) : LE (l.drop n) (l'.drop n) := List.forall₂_drop n h

theorem LE.zipWith {f : Rat → Rat → Rat} (hf : ∀ p p' q q', p ≤ p' → q ≤ q' → f p q ≤ f p' q')
    {a a' b b' : List Rat} (ha : LE a a') (hb : LE b b') : LE (List.zipWith f a b) (List.zipWith f a' b') := by
  induction ha generalizing b b' with
  | nil => simp
  | cons hxy _ ih =>
    cases hb with
    | nil => simp
    | cons hcd htl => simp only [List.zipWith_cons_cons]; exact List.Forall₂.cons (hf _ _ _ _ hxy hcd) (ih htl)

theorem foldl_max_mono {l l' : List Rat} (h : LE l l') (x x' : Rat) (hx : x ≤ x') :
    l.foldl max x ≤ l'.foldl max x' := by
  induction h generalizing x x' with
  | nil => simpa using hx
  | cons hab _ ih => simp only [List.foldl_cons]; exact ih _ _ (max_le_max hx hab)

theorem foldl_min_mono {l l' : List Rat} (h : LE l l') (x x' : Rat) (hx : x ≤ x') :
    l.foldl min x ≤ l'.foldl min x' := by
  induction h generalizing x x' with
  | nil => simpa using hx
  | cons hab _ ih => simp only [List.foldl_cons]; exact ih _ _ (min_le_min hx hab)

theorem maxL_mono {l l' : List Rat} (h : LE l l') (d : Rat) : maxL d l ≤ maxL d l' := by
  cases h with
  | nil => simp [maxL]
  | cons hab htl => exact foldl_max_mono htl _ _ hab

theorem minL_mono {l l' : List Rat} (h : LE l l') (d : Rat) : minL d l ≤ minL d l' := by
  cases h with
  | nil => simp [minL]
  | cons hab htl => exact foldl_min_mono htl _ _ hab

end Pun.Iso
