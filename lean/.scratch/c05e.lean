import Pun.Lemmas.Elem
import Mathlib.Algebra.Order.Ring.Abs
import Mathlib.Algebra.Order.Ring.Basic
import Mathlib.Algebra.Order.Field.Basic
import Mathlib.Algebra.Order.GroupWithZero.Basic
import Mathlib.Tactic.Positivity
set_option linter.unusedSimpArgs false
set_option linter.unusedVariables false
namespace Pun.Elem

theorem even_pow_le_max (n : ℕ) (hev : Even n) (lo hi x : ℚ) (h1 : lo ≤ x) (h2 : x ≤ hi) :
    x ^ n ≤ max (lo ^ n) (hi ^ n) := by
  have hx : |x| ≤ max |lo| |hi| := abs_le_max_abs_abs h1 h2
  rcases le_max_iff.mp hx with h | h
  · refine le_trans ?_ (le_max_left _ _)
    calc x ^ n = |x| ^ n := (hev.pow_abs x).symm
      _ ≤ |lo| ^ n := pow_le_pow_left₀ (abs_nonneg x) h n
      _ = lo ^ n := hev.pow_abs lo
  · refine le_trans ?_ (le_max_right _ _)
    calc x ^ n = |x| ^ n := (hev.pow_abs x).symm
      _ ≤ |hi| ^ n := pow_le_pow_left₀ (abs_nonneg x) h n
      _ = hi ^ n := hev.pow_abs hi

/-- non-negative integer power: the parity logic encloses `x^n` for every `x ∈ [lo,hi]` -/
theorem pow_sound (n : ℕ) (lo hi x : ℚ) (h1 : lo ≤ x) (h2 : x ≤ hi) :
    (powNat n lo hi).1 ≤ x ^ n ∧ x ^ n ≤ (powNat n lo hi).2 := by
  unfold powNat
  simp only
  split_ifs with he h0 hneg
  · have hev : Even n := Nat.even_iff.mpr he
    exact ⟨pow_le_pow_left₀ (le_of_lt h0) h1 n, even_pow_le_max n hev lo hi x h1 h2⟩
  · have hev : Even n := Nat.even_iff.mpr he
    refine ⟨?_, even_pow_le_max n hev lo hi x h1 h2⟩
    calc hi ^ n = |hi| ^ n := (hev.pow_abs hi).symm
      _ ≤ |x| ^ n := by
          apply pow_le_pow_left₀ (abs_nonneg hi)
          rw [abs_of_neg hneg, abs_of_neg (by linarith : x < 0)]; linarith
      _ = x ^ n := hev.pow_abs x
  · have hev : Even n := Nat.even_iff.mpr he
    exact ⟨hev.pow_nonneg x, even_pow_le_max n hev lo hi x h1 h2⟩
  · have hodd : Odd n := Nat.odd_iff.mpr (by omega)
    have hm := (hodd.strictMono_pow (R := ℚ)).monotone
    exact ⟨le_trans (min_le_left _ _) (hm h1), le_trans (hm h2) (le_max_right _ _)⟩

/-- the bounds are ordered, so the constructor's assertion never fires for `k ≥ 0` -/
theorem powI_nonneg (k : ℤ) (hk : 0 ≤ k) (lo hi : ℚ) (h : lo ≤ hi) :
    powI k lo hi = .ok (powNat k.natAbs lo hi) := by
  unfold powI
  rw [if_neg (not_lt.mpr hk)]
  have := pow_sound k.natAbs lo hi lo (le_refl _) h
  simp only [mkI]
  rw [if_pos (le_trans this.1 this.2)]

/-- even powers (n ≥ 1) and odd powers return the exact range: both bounds are attained -/
theorem pow_exact (n : ℕ) (hn : n ≠ 0) (lo hi : ℚ) (h : lo ≤ hi) :
    (∃ x, lo ≤ x ∧ x ≤ hi ∧ x ^ n = (powNat n lo hi).1) ∧
    (∃ x, lo ≤ x ∧ x ≤ hi ∧ x ^ n = (powNat n lo hi).2) := by
  unfold powNat
  simp only
  have hmax : ∃ x, lo ≤ x ∧ x ≤ hi ∧ x ^ n = max (lo ^ n) (hi ^ n) := by
    rcases max_choice (lo ^ n) (hi ^ n) with e | e <;> rw [e]
    · exact ⟨lo, le_refl _, h, rfl⟩
    · exact ⟨hi, h, le_refl _, rfl⟩
  split_ifs with he h0 hneg
  · exact ⟨⟨lo, le_refl _, h, rfl⟩, hmax⟩
  · exact ⟨⟨hi, h, le_refl _, rfl⟩, hmax⟩
  · exact ⟨⟨0, not_lt.mp h0, not_lt.mp hneg, zero_pow hn⟩, hmax⟩
  · refine ⟨?_, hmax⟩
    rcases min_choice (lo ^ n) (hi ^ n) with e | e <;> rw [e]
    · exact ⟨lo, le_refl _, h, rfl⟩
    · exact ⟨hi, h, le_refl _, rfl⟩

theorem recipI_sound (a b : ℚ) (hab : a ≤ b) (h0 : ¬ (a ≤ 0 ∧ 0 ≤ b)) :
    recipI a b = .ok (1 / b, 1 / a) ∧ ∀ y, a ≤ y → y ≤ b → 1 / b ≤ 1 / y ∧ 1 / y ≤ 1 / a := by
  have hsign : 0 < a ∨ b < 0 := by
    rcases lt_or_ge 0 a with h | h
    · exact Or.inl h
    · exact Or.inr (not_le.mp (fun hb => h0 ⟨h, hb⟩))
  have key : ∀ y, a ≤ y → y ≤ b → 1 / b ≤ 1 / y ∧ 1 / y ≤ 1 / a := by
    intro y h1 h2
    rcases hsign with h | h
    · exact ⟨one_div_le_one_div_of_le (by linarith) h2, one_div_le_one_div_of_le h h1⟩
    · exact ⟨one_div_le_one_div_of_neg_of_le h h2 |>.trans_eq' rfl |> fun t => by simpa using t,
        by simpa using one_div_le_one_div_of_neg_of_le (by linarith : y < 0) h1⟩
  refine ⟨?_, key⟩
  unfold recipI mkI
  rw [if_neg (by simpa [ge_iff_le] using h0)]
  have := key a (le_refl _) hab
  rw [if_pos (le_trans this.1 this.2)]

/-- negative exponent on an interval not containing 0: the reciprocal of the positive power encloses
`(x^n)⁻¹` for every `x ∈ [lo,hi]` -/
theorem pow_neg_sound (k : ℤ) (hk : k < 0) (lo hi : ℚ) (h : lo ≤ hi) (h0 : ¬ (lo ≤ 0 ∧ 0 ≤ hi)) :
    ∃ a b, powI k lo hi = .ok (a, b) ∧ ∀ x, lo ≤ x → x ≤ hi → a ≤ 1 / x ^ k.natAbs ∧ 1 / x ^ k.natAbs ≤ b := by
  have hn : k.natAbs ≠ 0 := by omega
  set n := k.natAbs with hn'
  have hs := pow_sound n lo hi
  have hord := le_trans (hs lo (le_refl _) h).1 (hs lo (le_refl _) h).2
  -- 0 is not in the positive power
  have hz : ¬ ((powNat n lo hi).1 ≤ 0 ∧ 0 ≤ (powNat n lo hi).2) := by
    obtain ⟨⟨xl, xl1, xl2, exl⟩, ⟨xh, xh1, xh2, exh⟩⟩ := pow_exact n hn lo hi h
    rintro ⟨p, q⟩
    have hsign : 0 < lo ∨ hi < 0 := by
      rcases lt_or_ge 0 lo with h' | h'
      · exact Or.inl h'
      · exact Or.inr (not_le.mp (fun hb => h0 ⟨h', hb⟩))
    rcases hsign with hpos | hneg
    · have : 0 < xl ^ n := pow_pos (by linarith) n
      linarith
    · rcases Nat.even_or_odd n with hev | hodd
      · have : 0 < xl ^ n := hev.pow_pos (by intro e; rw [e] at xl2; linarith)
        linarith
      · have : xh ^ n < 0 := hodd.pow_neg (by linarith)
        linarith
  obtain ⟨hr, hkey⟩ := recipI_sound _ _ hord hz
  refine ⟨1 / (powNat n lo hi).2, 1 / (powNat n lo hi).1, ?_, ?_⟩
  · unfold powI
    rw [if_pos hk]
    simp only [mkI, ← hn']
    rw [if_pos hord]
    exact hr
  · intro x h1 h2
    exact hkey (x ^ n) (hs x h1 h2).1 (hs x h1 h2).2

/-- negative exponent with the pole 0 inside the interval: the call raises `ZeroDivisionError` -/
theorem pow_neg_pole_raises (k : ℤ) (hk : k < 0) (lo hi : ℚ) (h : lo ≤ hi) (h0 : lo ≤ 0 ∧ 0 ≤ hi) :
    powI k lo hi = .error .ZeroDivision := by
  have hn : k.natAbs ≠ 0 := by omega
  have hs := pow_sound k.natAbs lo hi
  have hord := le_trans (hs lo (le_refl _) h).1 (hs lo (le_refl _) h).2
  have hz := hs 0 h0.1 h0.2
  rw [zero_pow hn] at hz
  unfold powI
  rw [if_pos hk]
  simp only [mkI]
  rw [if_pos hord]
  dsimp only [recipI]
  rw [if_pos ⟨hz.1, hz.2⟩]

end Pun.Elem
