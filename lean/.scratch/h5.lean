import Pun.Lemmas.Hier
set_option linter.unusedSimpArgs false
set_option linter.unusedVariables false
namespace Pun.Hier
open Pun Pun.PBox

/-! ## a constant operand combined with sorted bounds: shift / scale -/

theorem sorted_get_le (q : List Rat) (hq : q.Pairwise (· ≤ ·)) (i j : Nat) (hij : i ≤ j) (hj : j < q.length) :
    q[i]'(by omega) ≤ q[j] := by
  rcases Nat.lt_or_ge i j with h | h
  · exact (List.pairwise_iff_getElem.mp hq) i j (by omega) hj h
  · have : i = j := by omega
    subst this; exact le_refl _

theorem frechetLeftRaw_constL (op : Rat → Rat → Rat) (a : Rat) (q : List Rat) (hq : q.Pairwise (· ≤ ·))
    (hm : ∀ x y, x ≤ y → op a x ≤ op a y) :
    frechetLeftRaw op (List.replicate q.length a) q = q.map (op a) := by
  apply List.ext_getElem
  · simp [frechetLeftRaw_length]
  · intro i h1 h2
    have hi : i < q.length := by simpa using h2
    obtain ⟨v, hv, hub, j, hj, hatt⟩ := frechetLeftRaw_spec op (List.replicate q.length a) q (by simp) i (by simpa using hi)
    rw [List.getElem?_eq_getElem h1] at hv
    rw [Option.some.inj hv, List.getElem_map]
    apply le_antisymm
    · rw [hatt]; simp only [List.getElem_replicate]
      exact hm _ _ (sorted_get_le q hq (i - j) i (by omega) hi)
    · have := hub 0 (Nat.zero_le i)
      simpa using this

theorem frechetLeftRaw_constR (op : Rat → Rat → Rat) (a : Rat) (q : List Rat) (hq : q.Pairwise (· ≤ ·))
    (hm : ∀ x y, x ≤ y → op x a ≤ op y a) :
    frechetLeftRaw op q (List.replicate q.length a) = q.map (op · a) := by
  apply List.ext_getElem
  · simp [frechetLeftRaw_length]
  · intro i h1 h2
    have hi : i < q.length := by simpa using h2
    obtain ⟨v, hv, hub, j, hj, hatt⟩ := frechetLeftRaw_spec op q (List.replicate q.length a) (by simp) i hi
    rw [List.getElem?_eq_getElem h1] at hv
    rw [Option.some.inj hv, List.getElem_map]
    apply le_antisymm
    · rw [hatt]; simp only [List.getElem_replicate]
      exact hm _ _ (sorted_get_le q hq j i hj hi)
    · have := hub i (le_refl i)
      simpa using this

theorem frechetRightRaw_constL (op : Rat → Rat → Rat) (b : Rat) (q : List Rat) (hq : q.Pairwise (· ≤ ·))
    (hm : ∀ x y, x ≤ y → op b x ≤ op b y) :
    frechetRightRaw op (List.replicate q.length b) q = q.map (op b) := by
  apply List.ext_getElem
  · simp [frechetRightRaw_length]
  · intro i h1 h2
    have hi : i < q.length := by simpa using h2
    obtain ⟨v, hv, hlb, t, ht, hatt⟩ := frechetRightRaw_spec op (List.replicate q.length b) q q.length (by simp) rfl i hi
    rw [List.getElem?_eq_getElem h1] at hv
    rw [Option.some.inj hv, List.getElem_map]
    apply le_antisymm
    · have := hlb (q.length - 1 - i) (by omega)
      simp only [List.getElem_replicate] at this
      have e : q.length - 1 - (q.length - 1 - i) = i := by omega
      simpa [e] using this
    · rw [hatt]; simp only [List.getElem_replicate]
      exact hm _ _ (sorted_get_le q hq i (q.length - 1 - t) (by omega) (by omega))

theorem frechetRightRaw_constR (op : Rat → Rat → Rat) (b : Rat) (q : List Rat) (hq : q.Pairwise (· ≤ ·))
    (hm : ∀ x y, x ≤ y → op x b ≤ op y b) :
    frechetRightRaw op q (List.replicate q.length b) = q.map (op · b) := by
  apply List.ext_getElem
  · simp [frechetRightRaw_length]
  · intro i h1 h2
    have hi : i < q.length := by simpa using h2
    obtain ⟨v, hv, hlb, t, ht, hatt⟩ := frechetRightRaw_spec op q (List.replicate q.length b) q.length rfl (by simp) i hi
    rw [List.getElem?_eq_getElem h1] at hv
    rw [Option.some.inj hv, List.getElem_map]
    apply le_antisymm
    · have := hlb 0 (by omega)
      simpa using this
    · rw [hatt]; simp only [List.getElem_replicate]
      exact hm _ _ (sorted_get_le q hq i (i + t) (by omega) (by omega))

end Pun.Hier
