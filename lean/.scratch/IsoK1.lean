import Pun.Lemmas.Iso
import Pun.Props.C01
set_option linter.unusedSimpArgs false
set_option linter.unusedVariables false
namespace Pun.Iso
open Pun Pun.Arith

theorem binop_II_div_zero (a b c d : Rat) (hz : c ≤ 0 ∧ 0 ≤ d) :
    binop .div (.I a b) (.I c d) = .error .ZeroDivision := by
  simp [binop, opdIV, forward, divide, straddles, IV.ofI, hz.1, hz.2, bind, Except.bind]

theorem binop_II_div (a b c d : Rat) (h1 : a ≤ b) (h2 : c ≤ d) (h0 : 0 < c ∨ d < 0) :
    ∃ l h, binop .div (.I a b) (.I c d) = .ok (.I l h) ∧ l ≤ h ∧
      (∀ x y, a ≤ x → x ≤ b → c ≤ y → y ≤ d → l ≤ x / y ∧ x / y ≤ h) ∧
      (∃ x y, a ≤ x ∧ x ≤ b ∧ c ≤ y ∧ y ≤ d ∧ x / y = l) ∧
      (∃ x y, a ≤ x ∧ x ≤ b ∧ c ≤ y ∧ y ≤ d ∧ x / y = h) := by
  obtain ⟨l, h, htab, hs, hl, hh⟩ := divTable_sound a b c d h1 h2 h0
  have hv : l ≤ h := by
    have := hs a c (le_refl _) h1 (le_refl _) h2
    exact le_trans this.1 this.2
  refine ⟨l, h, ?_, hv, hs, hl, hh⟩
  have hst : ¬ (c ≤ 0 ∧ 0 ≤ d) := by
    rintro ⟨p, q⟩; rcases h0 with h | h <;> linarith
  have hst' : (decide (c ≤ 0) && decide (0 ≤ d)) = false := by
    simp only [Bool.and_eq_false_iff, decide_eq_false_iff_not]
    by_cases hc : c ≤ 0
    · right; exact fun hd => hst ⟨hc, hd⟩
    · left; exact hc
  simp [binop, opdIV, forward, divide, straddles, IV.ofI, IV.scalar, bshape, hst', htab, unopt, finishTable, mkIV, hv,
    bind, Except.bind, pure, Except.pure]

end Pun.Iso
