import Pun.Lemmas.Elem
set_option linter.unusedSimpArgs false
set_option linter.unusedVariables false
namespace Pun.Elem

theorem cos_total (w yl yh T : ℚ) (hT : 0 < T) (hyl0 : 0 ≤ yl) (hylT : yl ≤ T) (hyh0 : 0 ≤ yh) (hyhT : yh ≤ T) :
    (cosShape w yl yh T).isSome = true := by
  unfold cosShape
  simp only
  split_ifs with c0 c1 c2 c3 c4 c5
  all_goals first
    | rfl
    | (exfalso
       rcases le_total yl (T / 2) with a | a <;> rcases le_total yh (T / 2) with b | b <;>
         rcases le_or_gt yl yh with c | c
       · exact c5 ⟨c, ⟨hyl0, a⟩, ⟨hyh0, b⟩⟩
       · exact c1 (Or.inl ⟨c, ⟨hyl0, a⟩, ⟨hyh0, b⟩⟩)
       · exact c4 ⟨⟨hyl0, a⟩, ⟨b, hyhT⟩⟩
       · exact c4 ⟨⟨hyl0, a⟩, ⟨b, hyhT⟩⟩
       · exact c3 ⟨⟨a, hylT⟩, ⟨hyh0, b⟩⟩
       · exact c3 ⟨⟨a, hylT⟩, ⟨hyh0, b⟩⟩
       · exact c2 ⟨c, ⟨a, hylT⟩, ⟨b, hyhT⟩⟩
       · exact c1 (Or.inr ⟨c, ⟨a, hylT⟩, ⟨b, hyhT⟩⟩))

theorem cosVec_eq_scalar (w yl yh T : ℚ) (hT : 0 < T) (hyl0 : 0 ≤ yl) (hylT : yl ≤ T) (hyh0 : 0 ≤ yh) (hyhT : yh ≤ T) :
    cosShape w yl yh T = some (cosVecShape w yl yh T) := by
  have ht := cos_total w yl yh T hT hyl0 hylT hyh0 hyhT
  unfold cosShape at ht ⊢
  unfold cosVecShape ov
  simp only at ht ⊢
  by_cases c0 : T ≤ w
  · simp only [c0, if_true, true_or]
  · by_cases c1 : (yh < yl ∧ (0 ≤ yl ∧ yl ≤ T / 2) ∧ (0 ≤ yh ∧ yh ≤ T / 2)) ∨ (yh < yl ∧ (T / 2 ≤ yl ∧ yl ≤ T) ∧ (T / 2 ≤ yh ∧ yh ≤ T))
    · simp only [c0, c1, if_true, if_false, or_true]
    · have c1' : ¬ (T ≤ w ∨ (yh < yl ∧ (0 ≤ yl ∧ yl ≤ T / 2) ∧ (0 ≤ yh ∧ yh ≤ T / 2)) ∨ (yh < yl ∧ (T / 2 ≤ yl ∧ yl ≤ T) ∧ (T / 2 ≤ yh ∧ yh ≤ T))) := by
        rintro (h | h); exact c0 h; exact c1 h
      simp only [c0, c1, c1', if_false, false_or, or_false] at ht ⊢
      split_ifs at ht ⊢ <;> first | rfl | (exact absurd ht (by simp))

end Pun.Elem
