import Pun.Lemmas.Elem
import Mathlib.Tactic.Tauto
set_option linter.unusedSimpArgs false
set_option linter.unusedVariables false
namespace Pun.Elem

/-- array form = scalar form, sine -/
theorem sinVec_eq_scalar (w yl yh T : ℚ) (hT : 0 < T) (hyl0 : 0 ≤ yl) (hylT : yl ≤ T) (hyh0 : 0 ≤ yh) (hyhT : yh ≤ T) :
    sinShape w yl yh T = some (sinVecShape w yl yh T) := by
  unfold sinShape sinVecShape ov
  simp only
  have he1 : ((0 ≤ yl ∧ yh ≤ T / 4) ∧ yl ≤ yh) ↔ ((0 ≤ yl ∧ yl ≤ T / 4) ∧ (0 ≤ yh ∧ yh ≤ T / 4) ∧ yl ≤ yh) := by
    constructor
    · rintro ⟨⟨a, b⟩, c⟩; exact ⟨⟨a, by linarith⟩, ⟨by linarith, b⟩, c⟩
    · rintro ⟨⟨a, _⟩, ⟨_, b⟩, c⟩; exact ⟨⟨a, b⟩, c⟩
  have he2 : ((T / 4 ≤ yl ∧ yh ≤ 3 * (T / 4)) ∧ yl ≤ yh) ↔ ((T / 4 ≤ yl ∧ yl ≤ 3 * (T / 4)) ∧ (T / 4 ≤ yh ∧ yh ≤ 3 * (T / 4)) ∧ yl ≤ yh) := by
    constructor
    · rintro ⟨⟨a, b⟩, c⟩; exact ⟨⟨a, by linarith⟩, ⟨by linarith, b⟩, c⟩
    · rintro ⟨⟨a, _⟩, ⟨_, b⟩, c⟩; exact ⟨⟨a, b⟩, c⟩
  have he3 : ((3 * (T / 4) ≤ yl ∧ yh ≤ T) ∧ yl ≤ yh) ↔ ((3 * (T / 4) ≤ yl ∧ yl ≤ T) ∧ (3 * (T / 4) ≤ yh ∧ yh ≤ T) ∧ yl ≤ yh) := by
    constructor
    · rintro ⟨⟨a, b⟩, c⟩; exact ⟨⟨a, by linarith⟩, ⟨by linarith, b⟩, c⟩
    · rintro ⟨⟨a, _⟩, ⟨_, b⟩, c⟩; exact ⟨⟨a, b⟩, c⟩
  have hlt : yh < yl ↔ ¬ yl ≤ yh := not_le.symm
  simp only [he1, he2, he3, hlt]
  by_cases c0 : T ≤ w
  · simp only [c0, if_true]
  simp only [c0, if_false]
  by_cases m1 : (0 ≤ yl ∧ yl ≤ T / 4) ∧ (0 ≤ yh ∧ yh ≤ T / 4) ∧ yl ≤ yh
  · rw [if_pos m1, if_pos m1]
  simp only [m1, if_false, false_or]
  by_cases m2 : (T / 4 ≤ yl ∧ yl ≤ 3 * (T / 4)) ∧ (T / 4 ≤ yh ∧ yh ≤ 3 * (T / 4)) ∧ yl ≤ yh
  · rw [if_pos m2, if_pos m2]
  simp only [m2, if_false]
  by_cases m3 : (3 * (T / 4) ≤ yl ∧ yl ≤ T) ∧ (3 * (T / 4) ≤ yh ∧ yh ≤ T) ∧ yl ≤ yh
  · rw [if_pos m3, if_pos m3]
  simp only [m3, if_false, or_false]
  split_ifs with k1 k2 k3 k4
  · rfl
  · rfl
  · rfl
  · rfl
  · exfalso
    have hl : (0 ≤ yl ∧ yl ≤ T / 4) ∨ (T / 4 ≤ yl ∧ yl ≤ 3 * (T / 4)) ∨ (3 * (T / 4) ≤ yl ∧ yl ≤ T) := by
      rcases le_total yl (T / 4) with a | a
      · exact Or.inl ⟨hyl0, a⟩
      · rcases le_total yl (3 * (T / 4)) with a' | a'
        · exact Or.inr (Or.inl ⟨a, a'⟩)
        · exact Or.inr (Or.inr ⟨a', hylT⟩)
    have hh : (0 ≤ yh ∧ yh ≤ T / 4) ∨ (T / 4 ≤ yh ∧ yh ≤ 3 * (T / 4)) ∨ (3 * (T / 4) ≤ yh ∧ yh ≤ T) := by
      rcases le_total yh (T / 4) with a | a
      · exact Or.inl ⟨hyh0, a⟩
      · rcases le_total yh (3 * (T / 4)) with a' | a'
        · exact Or.inr (Or.inl ⟨a, a'⟩)
        · exact Or.inr (Or.inr ⟨a', hyhT⟩)
    rcases hl with l | l | l <;> rcases hh with h | h | h
    · by_cases c : yl ≤ yh
      · exact m1 ⟨l, h, c⟩
      · exact k1 (Or.inl ⟨l, h, c⟩)
    · exact k3 (Or.inl ⟨l, h⟩)
    · exact k1 (Or.inr (Or.inl ⟨l, h⟩))
    · exact k4 (Or.inl ⟨l, h⟩)
    · by_cases c : yl ≤ yh
      · exact m2 ⟨l, h, c⟩
      · exact k1 (Or.inr (Or.inr (Or.inl ⟨l, h, c⟩)))
    · exact k4 (Or.inr ⟨l, h⟩)
    · exact k2 ⟨l, h⟩
    · exact k3 (Or.inr ⟨l, h⟩)
    · by_cases c : yl ≤ yh
      · exact m3 ⟨l, h, c⟩
      · exact k1 (Or.inr (Or.inr (Or.inr ⟨l, h, c⟩)))

end Pun.Elem
