import Pun.Props.C07
set_option linter.unusedSimpArgs false
set_option linter.unusedVariables false
namespace Pun.Hier
open Pun Pun.PBox

/-! ## ★ point-valued operands -/

theorem min4_self (x : Rat) : min4 x x x x = x := by simp [min4]
theorem max4_self (x : Rat) : max4 x x x x = x := by simp [max4]

/-- **Point-valued operands give the real-number result**: numbers embedded as p-boxes
(`operation.convert`) combined under any dependency give the embedding of the Python result -/
theorem embed_real (n : Nat) (hn : 0 < n) (dep : Dep) (hd : dep ≠ .unknown) (o : Op) (x y z : Rat)
    (h : native o x y = .ok (.num z)) :
    binop n o dep (ofReal n x) (ofReal n y) = .ok (ofReal n z) := by
  unfold ofReal
  cases o with
  | add =>
    simp only [native] at h; injection h with h; injection h with h; subst h
    exact add_ofIvl n dep hd x x y y hn (le_refl x) (le_refl y)
  | sub =>
    simp only [native] at h; injection h with h; injection h with h; subst h
    exact sub_ofIvl n dep hd x x y y hn (le_refl x) (le_refl y)
  | mul =>
    simp only [native] at h; injection h with h; injection h with h; subst h
    have := mul_ofIvl n dep hd x x y y hn (le_refl x) (le_refl y)
    rwa [min4_self, max4_self] at this
  | div =>
    simp only [native] at h
    by_cases hy : y = 0
    · simp [hy] at h
    · simp only [hy, if_false] at h; injection h with h; injection h with h; subst h
      have h0 : 0 < y ∨ y < 0 := by
        rcases lt_trichotomy y 0 with h | h | h
        · exact Or.inr h
        · exact absurd h hy
        · exact Or.inl h
      have := div_ofIvl n dep hd x x y y hn (le_refl x) (le_refl y) h0
      rwa [min4_self, max4_self, ← div_eq_mul_one_div] at this

/-- the Python expression on two numbers and the converted-first expression -/
theorem real_expr_embeds (n : Nat) (hn : 0 < n) (dep : Dep) (hd : dep ≠ .unknown) (o : Op) (x y z : Rat)
    (h : evalOp n dep o (.num x) (.num y) = .ok (.num z)) :
    spec n dep o (.num x) (.num y) = .ok (ofReal n z) := by
  simp only [evalOp, opdArith, lowOp] at h
  simp only [spec, convert]
  rw [ivlToPbox_eq n x x hn (le_refl x), ok_bind, ivlToPbox_eq n y y hn (le_refl y), ok_bind]
  exact embed_real n hn dep hd o x y z h

example : binop 4 .div .i (ofReal 4 3) (ofReal 4 (-2)) = .ok (ofReal 4 (-3/2)) :=
  embed_real 4 (by decide) .i (by decide) .div 3 (-2) (-3/2) (by norm_num [native])

/-- division of a number by zero raises, as in Python -/
theorem real_div_zero (n : Nat) (dep : Dep) (x : Rat) :
    evalOp n dep .div (.num x) (.num 0) = .error .ZeroDivision := by
  simp [evalOp, opdArith, lowOp, native]

/-! ## ★ interval with a precise distribution: shifted / scaled quantiles -/

/-- **Interval + precise distribution** (constant on the left: the converted-first expression), under
Frechet, perfect or opposite dependence: the quantile list shifted by the interval -/
theorem ivl_dist_shift (q : List Rat) (hq : q.Pairwise (· ≤ ·)) (a b : Rat) (hab : a ≤ b) (dep : Dep)
    (hd : dep = .f ∨ dep = .p ∨ dep = .o) :
    add q.length dep (ofIvl q.length a b) (ofDist q) = .ok ⟨q.map (a + ·), q.map (b + ·)⟩ :=
  add_const_left q.length dep hd a b hab (ofDist q) (wf_ofDist q hq)

/-- the same with the distribution on the left (what `Interval + Distribution` executes through the
reflected operator, and `Distribution + Interval` directly) -/
theorem dist_ivl_shift (q : List Rat) (hq : q.Pairwise (· ≤ ·)) (a b : Rat) (hab : a ≤ b) (dep : Dep)
    (hd : dep = .f ∨ dep = .p ∨ dep = .o) :
    add q.length dep (ofDist q) (ofIvl q.length a b) = .ok ⟨q.map (a + ·), q.map (b + ·)⟩ :=
  add_const_right q.length dep hd a b hab (ofDist q) (wf_ofDist q hq)

/-- the Python expressions `Interval + Distribution` and `Distribution + Interval` -/
theorem ivl_plus_dist_expr (q : List Rat) (hq : q.Pairwise (· ≤ ·)) (hn : 0 < q.length) (a b : Rat) (hab : a ≤ b)
    (dep : Dep) (hd : dep = .f ∨ dep = .p ∨ dep = .o) :
    evalOp q.length dep .add (.ivl a b) (.dist q) = .ok (.pbox ⟨q.map (a + ·), q.map (b + ·)⟩) ∧
    evalOp q.length dep .add (.dist q) (.ivl a b) = .ok (.pbox ⟨q.map (a + ·), q.map (b + ·)⟩) := by
  constructor
  · simp only [evalOp, opdArith, convertPbox, ok_bind, reflected, pboxAdd]
    rw [ivlToPbox_eq _ a b hn hab, ok_bind, dist_ivl_shift q hq a b hab dep hd]; rfl
  · simp only [evalOp, opdArith, convertPbox, ok_bind, method, pboxAdd]
    rw [ivlToPbox_eq _ a b hn hab, ok_bind, dist_ivl_shift q hq a b hab dep hd]; rfl

/-- `Distribution - Interval`: shifted by `[-b,-a]` -/
theorem dist_minus_ivl_expr (q : List Rat) (hq : q.Pairwise (· ≤ ·)) (hn : 0 < q.length) (a b : Rat) (hab : a ≤ b)
    (dep : Dep) (hd : dep = .f ∨ dep = .p ∨ dep = .o) :
    evalOp q.length dep .sub (.dist q) (.ivl a b) = .ok (.pbox ⟨q.map (-b + ·), q.map (-a + ·)⟩) := by
  have hd' : swapPO dep = .f ∨ swapPO dep = .p ∨ swapPO dep = .o := by
    rcases hd with h | h | h <;> subst h <;> simp [swapPO]
  simp only [evalOp, opdArith, convertPbox, ok_bind, method, pboxSub, negOpd, pboxAdd]
  rw [ivlToPbox_eq _ (-b) (-a) hn (by linarith), ok_bind, dist_ivl_shift q hq (-b) (-a) (by linarith) _ hd']; rfl

example : add 3 .f (ofIvl 3 1 2) (ofDist [0, 5, 7]) = .ok ⟨[1, 6, 8], [2, 7, 9]⟩ := by
  have := ivl_dist_shift [0, 5, 7] (by decide) 1 2 (by norm_num) .f (Or.inl rfl)
  norm_num at this; exact this

theorem zip4_map (f : Rat → Rat → Rat → Rat → Rat) (g1 g2 g3 g4 : Rat → Rat) : ∀ (q : List Rat),
    zip4 f (q.map g1) (q.map g2) (q.map g3) (q.map g4) = q.map (fun v => f (g1 v) (g2 v) (g3 v) (g4 v))
  | [] => rfl
  | x :: t => by simp [zip4, zip4_map f g1 g2 g3 g4 t]

theorem wf_scale (q : List Rat) (hq : q.Pairwise (· ≤ ·)) (hpos : ∀ v ∈ q, 0 < v) (a b : Rat) (ha : 0 ≤ a) (hab : a ≤ b) :
    WF q.length ⟨q.map (a * ·), q.map (b * ·)⟩ where
  llen := by simp
  rlen := by simp
  lsorted := List.Pairwise.map _ (fun x y hxy => mul_le_mul_of_nonneg_left hxy ha) hq
  rsorted := List.Pairwise.map _ (fun x y hxy => mul_le_mul_of_nonneg_left hxy (le_trans ha hab)) hq
  le := by
    rw [List.forall₂_map_left_iff, List.forall₂_map_right_iff]
    have : ∀ (l : List Rat), (∀ v ∈ l, 0 < v) → List.Forall₂ (fun c d => a * c ≤ b * d) l l := by
      intro l
      induction l with
      | nil => intro _; exact List.Forall₂.nil
      | cons x t ih =>
        intro h
        exact List.Forall₂.cons (mul_le_mul_of_nonneg_right hab (le_of_lt (h x (by simp))))
          (ih (fun v hv => h v (by simp [hv])))
    exact this q hpos

/-- **Interval × precise positive distribution** (`0 ≤ a`), Frechet or perfect dependence: the quantile
list scaled by the interval -/
theorem ivl_dist_scale (q : List Rat) (hq : q.Pairwise (· ≤ ·)) (hpos : ∀ v ∈ q, 0 < v) (hne : q ≠ [])
    (a b : Rat) (ha : 0 ≤ a) (hab : a ≤ b) (hb : 0 < b) (dep : Dep) (hd : dep = .f ∨ dep = .p) :
    mul q.length dep (ofIvl q.length a b) (ofDist q) = .ok ⟨q.map (a * ·), q.map (b * ·)⟩ := by
  have hn : 0 < q.length := List.length_pos_of_ne_nil hne
  have hw := wf_scale q hq hpos a b ha hab
  rcases hd with h | h <;> subst h
  · have s1 : straddlesZero (ofIvl q.length a b) = false := by
      rw [straddlesZero_ofIvl _ _ _ hn]; simp [not_lt.mpr ha]
    have s2 : straddlesZero (ofDist q) = false := by
      have := (minL_spec 0 q hne).1
      simp [straddlesZero, ofDist, not_lt.mpr (le_of_lt (hpos _ this))]
    have s3 : ¬ hi (ofDist q) ≤ 0 := by
      have : q.getLastD 0 ∈ q := by
        rw [List.getLastD_eq_getLast?, List.getLast?_eq_some_getLast hne]; exact List.getLast_mem hne
      exact not_le.mpr (hpos _ this)
    simp only [mul, frechetMul, s1, s2, Bool.or_self, Bool.false_eq_true, if_false, frechetMulNoStraddle,
      hi_ofIvl _ _ _ hn, not_le.mpr hb, s3, decide_false, classicFrechet, frechetOp]
    simp only [ofIvl, ofDist]
    rw [frechetLeftRaw_constL (· * ·) a q hq (fun x y h => mul_le_mul_of_nonneg_left h ha),
      frechetRightRaw_constL (· * ·) b q hq (fun x y h => mul_le_mul_of_nonneg_left h (le_trans ha hab)),
      sortR_of_sorted _ hw.lsorted, sortR_of_sorted _ hw.rsorted]
    exact mk_wf _ false _ _ hw
  · simp only [mul, perfectOp, cornerPair, ofIvl, ofDist, zipWith_replicate_left]
    rw [zip4_map, zip4_map]
    have e1 : q.map (fun v => min4 (a * v) (a * v) (b * v) (b * v)) = q.map (a * ·) := by
      apply List.map_congr_left
      intro v hv
      have : a * v ≤ b * v := mul_le_mul_of_nonneg_right hab (le_of_lt (hpos v hv))
      simp [min4, this]
    have e2 : q.map (fun v => max4 (a * v) (a * v) (b * v) (b * v)) = q.map (b * ·) := by
      apply List.map_congr_left
      intro v hv
      have : a * v ≤ b * v := mul_le_mul_of_nonneg_right hab (le_of_lt (hpos v hv))
      simp [max4, this]
    simp only [e1, e2]
    rw [sortR_of_sorted _ hw.lsorted, sortR_of_sorted _ hw.rsorted]
    exact mk_wf _ false _ _ hw

example : mul 3 .f (ofIvl 3 1 2) (ofDist [1, 5, 7]) = .ok ⟨[1, 5, 7], [2, 10, 14]⟩ := by
  have := ivl_dist_scale [1, 5, 7] (by decide) (by decide) (by decide) 1 2 (by norm_num) (by norm_num) (by norm_num) .f (Or.inl rfl)
  norm_num at this; exact this

end Pun.Hier
