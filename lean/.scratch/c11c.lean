import Pun.Lemmas.EnvImp
import Mathlib.Data.List.Perm.Basic
set_option linter.unusedSimpArgs false
set_option linter.unusedVariables false
namespace Pun.EnvImp
open Pun Pun.PBox

/-! ## folds -/

theorem foldlM_env_eq {n : Nat} (ps : List PB) (p : PB) (hp : WF n p) (hps : ∀ P ∈ ps, WF n P) :
    ps.foldlM (env n) p = .ok (ps.foldl envSpec p) ∧ WF n (ps.foldl envSpec p) := by
  induction ps generalizing p with
  | nil => exact ⟨rfl, hp⟩
  | cons q qs ih =>
    have hq := hps q (by simp)
    have h := ih (envSpec p q) (envSpec_wf hp hq) (fun P hP => hps P (by simp [hP]))
    simp only [List.foldlM_cons, List.foldl_cons, env_ok hp hq]
    exact h

/-- the fold of `env` over a non-empty family of well-formed boxes is their least upper bound -/
theorem foldl_envSpec_lub {n : Nat} (ps : List PB) (p : PB) (hp : WF n p) (hps : ∀ P ∈ ps, WF n P) :
    (∀ P ∈ p :: ps, Sub P (ps.foldl envSpec p)) ∧
    (∀ Q, (∀ P ∈ p :: ps, Sub P Q) → Sub (ps.foldl envSpec p) Q) := by
  induction ps generalizing p with
  | nil =>
    refine ⟨fun P hP => ?_, fun Q hQ => hQ p (by simp)⟩
    simp at hP; subst hP; exact Sub.rfl _
  | cons q qs ih =>
    have hq := hps q (by simp)
    obtain ⟨h1, h2⟩ := ih (envSpec p q) (envSpec_wf hp hq) (fun P hP => hps P (by simp [hP]))
    simp only [List.foldl_cons]
    constructor
    · intro P hP
      rcases List.mem_cons.mp hP with rfl | hP
      · exact Sub.trans (sub_envSpec_left hp hq) (h1 _ (by simp))
      · rcases List.mem_cons.mp hP with rfl | hP
        · exact Sub.trans (sub_envSpec_right hp hq) (h1 _ (by simp))
        · exact h1 _ (by simp [hP])
    · intro Q hQ
      apply h2
      intro P hP
      rcases List.mem_cons.mp hP with rfl | hP
      · exact envSpec_sub (hQ _ (by simp)) (hQ _ (by simp))
      · exact hQ _ (by simp [hP])

/-- common selection of a family -/
def CommonSel (l : List PB) (z : List Rat) : Prop := ∀ P ∈ l, Sel P z

theorem foldlM_imp_ok {n : Nat} (ps : List PB) (p : PB) (hp : WF n p) (hps : ∀ P ∈ ps, WF n P)
    (z : List Rat) (hz : CommonSel (p :: ps) z) :
    ∃ E, ps.foldlM (imp n) p = .ok E ∧ WF n E ∧ Sel E z ∧ (∀ P ∈ p :: ps, Sub E P) ∧
      (∀ Q, (∀ P ∈ p :: ps, Sub Q P) → Sub Q E) := by
  induction ps generalizing p with
  | nil =>
    refine ⟨p, rfl, hp, hz p (by simp), fun P hP => ?_, fun Q hQ => hQ p (by simp)⟩
    simp at hP; subst hP; exact Sub.rfl _
  | cons q qs ih =>
    have hq := hps q (by simp)
    have hzp := hz p (by simp)
    have hzq := hz q (by simp)
    have hc : Compat p q := (compat_iff_common hp hq).mpr ⟨z, hzp, hzq⟩
    have hw := impSpec_wf hp hq hc
    obtain ⟨E, hE, hwE, hsel, h1, h2⟩ := ih (impSpec p q) hw (fun P hP => hps P (by simp [hP]))
      (by
        intro P hP
        rcases List.mem_cons.mp hP with rfl | hP
        · exact sel_impSpec hzp hzq
        · exact hz P (by simp [hP]))
    refine ⟨E, ?_, hwE, hsel, ?_, ?_⟩
    · simp only [List.foldlM_cons, imp_ok hp hq hc]
      exact hE
    · intro P hP
      rcases List.mem_cons.mp hP with rfl | hP
      · exact Sub.trans (h1 _ (by simp)) (impSpec_sub_left hp hq)
      · rcases List.mem_cons.mp hP with rfl | hP
        · exact Sub.trans (h1 _ (by simp)) (impSpec_sub_right hp hq)
        · exact h1 _ (by simp [hP])
    · intro Q hQ
      apply h2
      intro P hP
      rcases List.mem_cons.mp hP with rfl | hP
      · exact sub_impSpec (hQ _ (by simp)) (hQ _ (by simp))
      · exact hQ _ (by simp [hP])

theorem foldlM_imp_err {n : Nat} (ps : List PB) (p : PB) (hp : WF n p) (hps : ∀ P ∈ ps, WF n P)
    (hno : ¬ ∃ z, CommonSel (p :: ps) z) :
    ps.foldlM (imp n) p = .error .Other := by
  induction ps generalizing p with
  | nil =>
    exfalso; apply hno
    refine ⟨p.left, fun P hP => ?_⟩
    simp at hP; subst hP; exact ⟨PLe.rfl _, hp.le⟩
  | cons q qs ih =>
    have hq := hps q (by simp)
    by_cases hc : Compat p q
    · have hw := impSpec_wf hp hq hc
      simp only [List.foldlM_cons, imp_ok hp hq hc]
      apply ih (impSpec p q) hw (fun P hP => hps P (by simp [hP]))
      rintro ⟨z, hz⟩
      apply hno
      refine ⟨z, fun P hP => ?_⟩
      rcases List.mem_cons.mp hP with rfl | hP
      · exact sel_of_sub (impSpec_sub_left hp hq) (hz _ (by simp))
      · rcases List.mem_cons.mp hP with rfl | hP
        · exact sel_of_sub (impSpec_sub_right hp hq) (hz _ (by simp))
        · exact hz P (by simp [hP])
    · simp only [List.foldlM_cons, imp_err hp hq hc]
      rfl

end Pun.EnvImp
