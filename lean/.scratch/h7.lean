import Pun.Lemmas.Hier
import Pun.Props.C01
set_option linter.unusedSimpArgs false
set_option linter.unusedVariables false
namespace Pun.Hier
open Pun Pun.PBox

/-! ## the C01 interval model on two scalar intervals -/

theorem arith_add (a b c d : Rat) (hab : a ≤ b) (hcd : c ≤ d) :
    Arith.binop .add (.I a b) (.I c d) = .ok (.I (a + c) (b + d)) := by
  have h : a + c ≤ b + d := by linarith
  simp [Arith.binop, Arith.opdIV, Arith.forward, Arith.IV.ofI, Arith.bzip, Arith.bshape, Arith.bget, Arith.mkIV, h,
    bind, Except.bind, pure, Except.pure]

theorem arith_sub (a b c d : Rat) (hab : a ≤ b) (hcd : c ≤ d) :
    Arith.binop .sub (.I a b) (.I c d) = .ok (.I (a - d) (b - c)) := by
  have h : a - d ≤ b - c := by linarith
  simp [Arith.binop, Arith.opdIV, Arith.forward, Arith.IV.ofI, Arith.bzip, Arith.bshape, Arith.bget, Arith.mkIV, h,
    bind, Except.bind, pure, Except.pure]

theorem arith_mul (a b c d : Rat) (hab : a ≤ b) (hcd : c ≤ d) :
    Arith.binop .mul (.I a b) (.I c d) =
      .ok (.I (min4 (a*c) (a*d) (b*c) (b*d)) (max4 (a*c) (a*d) (b*c) (b*d))) := by
  have h := min4_le_max4 (a*c) (a*d) (b*c) (b*d)
  rw [min4_arith, max4_arith] at h ⊢
  simp [Arith.binop, Arith.opdIV, Arith.forward, Arith.IV.ofI, Arith.multiply, Arith.IV.scalar, Arith.bshape,
    Arith.finishTable, Arith.mulTable_exact a b c d hab hcd, Arith.mkIV, h, bind, Except.bind, pure, Except.pure]

theorem arith_div_zero (a b c d : Rat) (h0 : c ≤ 0 ∧ 0 ≤ d) :
    Arith.binop .div (.I a b) (.I c d) = .error .ZeroDivision := by
  simp [Arith.binop, Arith.opdIV, Arith.forward, Arith.IV.ofI, Arith.divide, Arith.straddles, h0.1, h0.2,
    bind, Except.bind]

theorem arith_div (a b c d : Rat) (hab : a ≤ b) (hcd : c ≤ d) (h0 : 0 < c ∨ d < 0) :
    Arith.binop .div (.I a b) (.I c d) =
      .ok (.I (min4 (a*(1/d)) (a*(1/c)) (b*(1/d)) (b*(1/c))) (max4 (a*(1/d)) (a*(1/c)) (b*(1/d)) (b*(1/c)))) := by
  obtain ⟨l, h, htab, hs, ⟨x, y, hx1, hx2, hy1, hy2, hlo⟩, ⟨x', y', hx1', hx2', hy1', hy2', hhi⟩⟩ :=
    Arith.divTable_sound a b c d hab hcd h0
  have hy0 : ∀ y, c ≤ y → y ≤ d → (1 / d ≤ 1 / y ∧ 1 / y ≤ 1 / c) := by
    intro y h1 h2
    constructor
    · apply one_div_anti y d h2
      rcases h0 with h | h
      · left; linarith
      · right; exact h
    · apply one_div_anti c y h1
      rcases h0 with h | h
      · left; exact h
      · right; linarith
  have el : l = min4 (a*(1/d)) (a*(1/c)) (b*(1/d)) (b*(1/c)) := by
    rw [min4_arith]
    apply le_antisymm
    · unfold Arith.min4
      have c1 := (hs a d (le_refl a) hab hcd (le_refl d)).1
      have c2 := (hs a c (le_refl a) hab (le_refl c) hcd).1
      have c3 := (hs b d hab (le_refl b) hcd (le_refl d)).1
      have c4 := (hs b c hab (le_refl b) (le_refl c) hcd).1
      rw [div_eq_mul_one_div] at c1 c2 c3 c4
      exact le_min (le_min c1 c2) (le_min c3 c4)
    · rw [← hlo, div_eq_mul_one_div x y]
      exact (Arith.mul_hull a b (1/d) (1/c) x (1/y) hx1 hx2 (hy0 y hy1 hy2).1 (hy0 y hy1 hy2).2).1
  have eh : h = max4 (a*(1/d)) (a*(1/c)) (b*(1/d)) (b*(1/c)) := by
    rw [max4_arith]
    apply le_antisymm
    · rw [← hhi, div_eq_mul_one_div x' y']
      exact (Arith.mul_hull a b (1/d) (1/c) x' (1/y') hx1' hx2' (hy0 y' hy1' hy2').1 (hy0 y' hy1' hy2').2).2
    · unfold Arith.max4
      have c1 := (hs a d (le_refl a) hab hcd (le_refl d)).2
      have c2 := (hs a c (le_refl a) hab (le_refl c) hcd).2
      have c3 := (hs b d hab (le_refl b) hcd (le_refl d)).2
      have c4 := (hs b c hab (le_refl b) (le_refl c) hcd).2
      rw [div_eq_mul_one_div] at c1 c2 c3 c4
      exact max_le (max_le c1 c2) (max_le c3 c4)
  have hlh : l ≤ h := le_trans (hs a c (le_refl a) hab (le_refl c) hcd).1 (hs a c (le_refl a) hab (le_refl c) hcd).2
  have hstr : ¬ (c ≤ 0 ∧ 0 ≤ d) := by
    rintro ⟨h1, h2⟩; rcases h0 with h | h <;> linarith
  rw [← el, ← eh]
  simp [Arith.binop, Arith.opdIV, Arith.forward, Arith.IV.ofI, Arith.divide, Arith.straddles, hstr, Arith.IV.scalar,
    Arith.bshape, Arith.finishTable, htab, Arith.unopt, Arith.mkIV, hlh, bind, Except.bind, pure, Except.pure]

end Pun.Hier
