import Pun.Model.WellFormed
import Mathlib.Data.List.Sort
open Pun Pun.PBox List
example {steps : Nat} {lists : Bool} {l r : List Rat} {P : PB} (h : mk steps lists l r = .ok P) : True := by
  unfold mk at h
  simp only [bind, Except.bind] at h
  trace_state
  trivial
example (b : List Rat) (k : Nat) (hk : k < b.length) : b.getD k 0 = b[k] := by
  simp [hk]
example (b : List Rat) (k : Nat) (hk : ¬ k < b.length) : b.getD k 0 = 0 := by
  simp [hk]
