import Pun.Lemmas.Hier
import Pun.Lemmas.Hull
set_option linter.unusedSimpArgs false
set_option linter.unusedVariables false
namespace Pun.Hier
open Pun Pun.PBox

theorem hi_ofIvl (n : Nat) (a b : Rat) (hn : 0 < n) : hi (ofIvl n a b) = b := by
  obtain ⟨k, rfl⟩ : ∃ k, n = k + 1 := ⟨n - 1, by omega⟩
  simp [hi, ofIvl, List.replicate_succ', List.getLastD_eq_getLast?]

theorem lo_ofIvl (n : Nat) (a b : Rat) (hn : 0 < n) : lo (ofIvl n a b) = a := by
  obtain ⟨k, rfl⟩ : ∃ k, n = k + 1 := ⟨n - 1, by omega⟩
  simp [lo, ofIvl, List.replicate_succ]

theorem straddlesZero_ofIvl (n : Nat) (a b : Rat) (hn : 0 < n) :
    straddlesZero (ofIvl n a b) = (decide (a < 0) && decide (b > 0)) := by
  simp [straddlesZero, ofIvl, minL_replicate 0 n a hn, maxL_replicate 0 n b hn]

theorem classicFrechet_ofIvl (n : Nat) (op : Rat → Rat → Rat) (a b c d : Rat) (hn : 0 < n) :
    classicFrechet n op (ofIvl n a b) (ofIvl n c d) =
      .ok (ofIvl n (min (op a c) (op b d)) (max (op a c) (op b d))) := by
  simp only [classicFrechet, frechetOp_ofIvl]
  exact mk_replicate n n false _ _ hn (le_refl n)

/-- a constant p-box `[L,U]` whose endpoints are the extreme corner products is the corner hull -/
theorem ofIvl_hull (n : Nat) (p q r s L U : Rat)
    (hL : L = p ∨ L = q ∨ L = r ∨ L = s) (hU : U = p ∨ U = q ∨ U = r ∨ U = s)
    (l1 : L ≤ p) (l2 : L ≤ q) (l3 : L ≤ r) (l4 : L ≤ s)
    (u1 : p ≤ U) (u2 : q ≤ U) (u3 : r ≤ U) (u4 : s ≤ U) :
    ofIvl n L U = ofIvl n (min4 p q r s) (max4 p q r s) := by
  rw [min4_arith, max4_arith, Arith.min4_eq hL l1 l2 l3 l4, Arith.max4_eq hU u1 u2 u3 u4]

/-- Frechet product of two embedded intervals neither of which straddles zero -/
theorem frechetMulNoStraddle_ofIvl (n : Nat) (a b c d : Rat) (hn : 0 < n) (hab : a ≤ b) (hcd : c ≤ d)
    (hx : b ≤ 0 ∨ 0 ≤ a) (hy : d ≤ 0 ∨ 0 ≤ c) :
    frechetMulNoStraddle n (ofIvl n a b) (ofIvl n c d) =
      .ok (ofIvl n (min4 (a*c) (a*d) (b*c) (b*d)) (max4 (a*c) (a*d) (b*c) (b*d))) := by
  unfold frechetMulNoStraddle negativeFrechet
  simp only [hi_ofIvl n _ _ hn]
  by_cases hb : b ≤ 0 <;> by_cases hd : d ≤ 0
  · -- both non-positive
    simp only [hb, hd, decide_true, Bool.or_self, if_true, Bool.xor_self, Bool.false_eq_true, if_false]
    show (neg n (ofIvl n a b) >>= fun x => neg n (ofIvl n c d) >>= fun y => classicFrechet n (· * ·) x y >>= fun r => pure r) = _
    rw [neg_ofIvl n a b hn hab, ok_bind, neg_ofIvl n c d hn hcd, ok_bind, classicFrechet_ofIvl n _ _ _ _ _ hn, ok_bind]
    have h1 : -b * -d ≤ -a * -c := by nlinarith
    rw [min_eq_left h1, max_eq_right h1]
    show Except.ok (ofIvl n _ _) = _
    congr 1
    apply ofIvl_hull
    · right; right; right; ring
    · left; ring
    all_goals nlinarith
  · -- x non-positive, y non-negative
    have hc : 0 ≤ c := by rcases hy with h | h; exact absurd h hd; exact h
    have hd' : 0 < d := not_le.mp hd
    simp only [hb, hd, decide_true, decide_false, Bool.true_or, if_true, Bool.false_eq_true, if_false, Bool.true_xor, Bool.not_false]
    show (neg n (ofIvl n a b) >>= fun x => pure (ofIvl n c d) >>= fun y => classicFrechet n (· * ·) x y >>= fun r => neg n r) = _
    rw [neg_ofIvl n a b hn hab, ok_bind]
    show (classicFrechet n (· * ·) (ofIvl n (-b) (-a)) (ofIvl n c d) >>= fun r => neg n r) = _
    rw [classicFrechet_ofIvl n _ _ _ _ _ hn, ok_bind]
    have h1 : -b * c ≤ -a * d := by nlinarith
    rw [min_eq_left h1, max_eq_right h1, neg_ofIvl n _ _ hn h1]
    congr 1
    apply ofIvl_hull
    · right; left; ring
    · right; right; left; ring
    all_goals nlinarith
  · -- x non-negative, y non-positive
    have ha : 0 ≤ a := by rcases hx with h | h; exact absurd h hb; exact h
    have hb' : 0 < b := not_le.mp hb
    simp only [hb, hd, decide_true, decide_false, Bool.or_true, if_true, Bool.false_eq_true, if_false, Bool.false_xor]
    show (pure (ofIvl n a b) >>= fun x => neg n (ofIvl n c d) >>= fun y => classicFrechet n (· * ·) x y >>= fun r => neg n r) = _
    show (neg n (ofIvl n c d) >>= fun y => classicFrechet n (· * ·) (ofIvl n a b) y >>= fun r => neg n r) = _
    rw [neg_ofIvl n c d hn hcd, ok_bind, classicFrechet_ofIvl n _ _ _ _ _ hn, ok_bind]
    have h1 : a * -d ≤ b * -c := by nlinarith
    rw [min_eq_left h1, max_eq_right h1, neg_ofIvl n _ _ hn h1]
    congr 1
    apply ofIvl_hull
    · right; right; left; ring
    · right; left; ring
    all_goals nlinarith
  · -- both non-negative
    have ha : 0 ≤ a := by rcases hx with h | h; exact absurd h hb; exact h
    have hc : 0 ≤ c := by rcases hy with h | h; exact absurd h hd; exact h
    simp only [hb, hd, decide_false, Bool.or_self, Bool.false_eq_true, if_false]
    rw [classicFrechet_ofIvl n _ _ _ _ _ hn]
    have h1 : a * c ≤ b * d := by nlinarith
    rw [min_eq_left h1, max_eq_right h1]
    congr 1
    apply ofIvl_hull
    · left; rfl
    · right; right; right; rfl
    all_goals nlinarith

end Pun.Hier
