
/-- every operand of `envelope` is `in` the result (p-box result; objects by their `lo`/`hi`) -/
theorem operand_in_envelope {n : Nat} (l : List Opnd) (hv : ∀ x ∈ l, Valid n x) (E : PB)
    (h : envelope n l = .ok (.pb E)) : ∀ x ∈ l, containsP E (itemOf (conv n x)) = .ok true := by
  have hmix : l.all Opnd.isIvl = false := by
    by_contra hh
    have hall : l.all Opnd.isIvl = true := by simpa using hh
    simp only [envelope, hall, if_true, bind, Except.bind] at h
    cases hr : reduceM hull2 (ivlEnds l) with
    | error e => rw [hr] at h; cases h
    | ok v => rw [hr] at h; cases h
  obtain ⟨E', e, -, u, -⟩ := envelope_lub l hv hmix
  rw [e] at h
  cases h
  exact fun x hx => contains_sound (u x hx)

/-- … a number operand also through the `Number` branch of `__contains__` -/
theorem number_in_envelope {n : Nat} (hn : 0 < n) (l : List Opnd) (hv : ∀ x ∈ l, Valid n x) (E : PB)
    (h : envelope n l = .ok (.pb E)) (c : Rat) (hc : Opnd.num c ∈ l) : containsP E (.num c) = .ok true := by
  have hmix : l.all Opnd.isIvl = false := by
    rw [Bool.eq_false_iff]; intro hall
    have := (List.all_eq_true.mp hall) _ hc
    simp [Opnd.isIvl] at this
  obtain ⟨E', e, -, u, -⟩ := envelope_lub l hv hmix
  rw [e] at h
  cases h
  exact contains_num_sound hn (u _ hc)

/-- the imposition is `in` every operand (as a p-box) -/
theorem imposition_in_operand {n : Nat} (l : List Opnd) (hne : l ≠ []) (hv : ∀ x ∈ l, Valid n x) (E : PB)
    (h : imposition n l = .ok E) : ∀ x ∈ l, containsP (conv n x) (itemOf E) = .ok true := by
  by_cases hc : ∃ z, ∀ x ∈ l, Sel (conv n x) z
  · obtain ⟨z, hz⟩ := hc
    obtain ⟨E', e, -, -, u, -⟩ := imposition_glb l hne hv z hz
    rw [e] at h
    cases h
    exact fun x hx => contains_sound (u x hx)
  · rw [imposition_raises l hne hv hc] at h; cases h

/-- `Interval.__contains__` is exact on reals and on scalar intervals -/
theorem interval_contains_exact (lo hi c l h : Rat) :
    (containsINum lo hi c = true ↔ (lo ≤ c ∧ c ≤ hi)) ∧
    (containsIIvl lo hi l h = true ↔ (lo ≤ l ∧ h ≤ hi)) := by
  simp [containsINum, containsIIvl]

/-- every interval of a family is `in` the hull returned by the shortcut -/
theorem interval_in_hull {n : Nat} (l : List Opnd) (hne : l ≠ []) (hv : ∀ x ∈ l, Valid n x)
    (hall : l.all Opnd.isIvl = true) (a b : Rat) (h : envelope n l = .ok (.ivl a b)) :
    ∀ lo hi, Opnd.ivl lo hi ∈ l → containsIIvl a b lo hi = true := by
  obtain ⟨a', b', e, -, u, -⟩ := hull_is_env l hne hv hall
  rw [e] at h
  cases h
  intro lo hi hm
  have := u lo hi hm
  simp [containsIIvl, this.1, this.2]

/-! ## non-vacuity: concrete instances of the hypotheses, and the functions computed on them -/

def exX : PB := ⟨[1, 2, 3], [2, 3, 4]⟩
def exY : PB := ⟨[0, 5/2, 3], [1, 3, 5]⟩
def exZ : PB := ⟨[3, 4, 5], [3, 4, 6]⟩

theorem exX_wf : WF 3 exX :=
  ⟨rfl, rfl, by decide, by decide, .cons (by decide) (.cons (by decide) (.cons (by decide) .nil))⟩
theorem exY_wf : WF 3 exY :=
  ⟨rfl, rfl, by decide, by decide, .cons (by decide) (.cons (by decide) (.cons (by decide) .nil))⟩
theorem exZ_wf : WF 3 exZ :=
  ⟨rfl, rfl, by decide, by decide, .cons (by decide) (.cons (by decide) (.cons (by decide) .nil))⟩

example : env 3 exX exY = .ok ⟨[0, 2, 3], [2, 3, 5]⟩ := by decide +kernel
/-- the steps touch (step 0 in the single point 1): the imposition exists -/
example : imp 3 exX exY = .ok ⟨[1, 5/2, 3], [1, 3, 4]⟩ := by decide +kernel
/-- no common selection: step 0 of `exX` is `[1,2]`, of `exZ` is `[3,3]` -/
example : imp 3 exX exZ = .error .Other := by decide +kernel
example : ∃ z, Sel exX z ∧ Sel exY z := ((imp_raises_iff exX_wf exY_wf).2.1).mp ⟨_, by decide +kernel⟩
example : ¬ ∃ z, Sel exX z ∧ Sel exZ z := ((imp_raises_iff exX_wf exZ_wf).1).mp (by decide +kernel)
example : Sub exX ⟨[0, 2, 3], [2, 3, 5]⟩ := (env_upper exX_wf exY_wf (by decide +kernel)).2.1
example : (env 3 exX exY >>= fun E => env 3 E exZ) = .ok ⟨[0, 2, 3], [3, 4, 6]⟩ := by decide +kernel

/-- a mixed family: interval, number, p-box -/
def exFam : List Opnd := [.ivl 1 2, .num 3, .box exX]
theorem exFam_valid : ∀ x ∈ exFam, Valid 3 x := by
  intro x hx
  simp [exFam] at hx
  rcases hx with rfl | rfl | rfl
  · show (1 : Rat) ≤ 2; decide
  · trivial
  · exact exX_wf
example : exFam.all Opnd.isIvl = false := by decide
example : envelope 3 exFam = .ok (.pb ⟨[1, 1, 1], [3, 3, 4]⟩) := by decide +kernel
example : envelope 3 [.box exX, .ivl 1 2, .num 3] = envelope 3 exFam :=
  envelope_perm (by decide) (by
    intro x hx; exact exFam_valid x (by simp [exFam] at hx ⊢; tauto))
example : imposition 3 exFam = .error .Other := by decide +kernel
example : imposition 3 [.ivl 1 3, .num 2, .box exX] = .error .Other := by decide +kernel
example : imposition 3 [.ivl 1 3, .box exX, .box exY] = .ok ⟨[1, 5/2, 3], [1, 3, 3]⟩ := by decide +kernel
example : envelope 3 [.ivl 1 2, .ivl 0 1, .ivl 3/2 5] = .ok (.ivl 0 5) := by decide +kernel
example : ([Opnd.ivl 1 2, .ivl 0 1, .ivl 3/2 5]).all Opnd.isIvl = true := by decide
example : containsP ⟨[0, 2, 3], [2, 3, 5]⟩ (itemOf exX) = .ok true := by decide +kernel
example : containsP exX (.obj 0 3) = .ok false := by decide +kernel
example : containsP exX .noattr = .error .Attribute := rfl

end Pun.EnvImp
