import Pun.Lemmas.Iso
set_option linter.unusedSimpArgs false
set_option linter.unusedVariables false
namespace Pun.Iso
open Pun List Pun.PBox

/-- the shape of every public isotonicity statement: both runs return, results well formed and nested -/
def IsoRes (n : Nat) (r r' : Except Err PB) : Prop :=
  ∃ R R', r = .ok R ∧ r' = .ok R' ∧ PSub R R' ∧ WF n R ∧ WF n R'

theorem add_isoRes (n : Nat) (d : Dep) (hd : d ≠ .unknown) {X X' Y Y' : PB}
    (wX : WF n X) (wX' : WF n X') (wY : WF n Y) (wY' : WF n Y') (hX : PSub X X') (hY : PSub Y Y') :
    IsoRes n (add n d X Y) (add n d X' Y') := add_iso n d hd wX wX' wY wY' hX hY

/-- **`X.mul(Y, dependency)` is isotone under perfect, opposite and independent dependence**, all signs -/
theorem mul_iso_poi (n : Nat) (d : Dep) (hd : d = .p ∨ d = .o ∨ d = .i) {X X' Y Y' : PB}
    (wX : WF n X) (wX' : WF n X') (wY : WF n Y) (wY' : WF n Y') (hX : PSub X X') (hY : PSub Y Y') :
    IsoRes n (mul n d X Y) (mul n d X' Y') := by
  rcases hd with h | h | h <;> subst h
  · exact public_of_facts n n (Or.inl rfl) (perfectOp_facts _ n wX wY) (perfectOp_facts _ n wX' wY')
      (iso_perfectOp _ hull_mul wX.valid wY.valid hX hY)
  · exact public_of_facts n n (Or.inl rfl) (oppositeOp_facts _ n wX wY) (oppositeOp_facts _ n wX' wY')
      (iso_oppositeOp _ hull_mul wX.valid wY.valid hX hY)
  · exact public_of_facts n (n * n) (sq_cases n) (independentOp_facts _ n wX wY) (independentOp_facts _ n wX' wY')
      (iso_independentOp _ hull_mul wX.valid wY.valid hX hY)

/-! ### negation, subtraction -/

theorem neg_anti : ∀ x y : Rat, x ≤ y → -y ≤ -x := fun _ _ h => neg_le_neg h

theorem neg_ok (n : Nat) {X : PB} (wX : WF n X) :
    neg n X = .ok ⟨sortR (X.right.reverse.map (- ·)), sortR (X.left.reverse.map (- ·))⟩ ∧
    WF n ⟨sortR (X.right.reverse.map (- ·)), sortR (X.left.reverse.map (- ·))⟩ := by
  have hl : (sortR (X.right.reverse.map (- ·))).length = n := by simp [sortR_length, wX.rlen]
  have hr : (sortR (X.left.reverse.map (- ·))).length = n := by simp [sortR_length, wX.llen]
  have hle : LE (sortR (X.right.reverse.map (- ·))) (sortR (X.left.reverse.map (- ·))) :=
    sortR_mono (LE.map_anti neg_anti wX.valid.reverse)
  exact ⟨mk_ok n true _ _ hl hr (sortR_sorted _) (sortR_sorted _) hle, ⟨hl, hr, sortR_sorted _, sortR_sorted _, hle⟩⟩

/-- **negation is isotone** -/
theorem neg_iso (n : Nat) {X X' : PB} (wX : WF n X) (wX' : WF n X') (hX : PSub X X') :
    IsoRes n (neg n X) (neg n X') := by
  obtain ⟨e, w⟩ := neg_ok n wX
  obtain ⟨e', w'⟩ := neg_ok n wX'
  refine ⟨_, _, e, e', ⟨?_, ?_⟩, w, w'⟩
  · exact sortR_mono (LE.map_anti neg_anti hX.2.reverse)
  · exact sortR_mono (LE.map_anti neg_anti hX.1.reverse)

theorem swapPO_ne_unknown {d : Dep} (hd : d ≠ .unknown) : swapPO d ≠ .unknown := by
  cases d <;> simp [swapPO] at * 

/-- **`X.sub(Y, dependency)` is isotone** under every dependency (`-Y`, then `add` with `p ↔ o` swapped) -/
theorem sub_iso (n : Nat) (d : Dep) (hd : d ≠ .unknown) {X X' Y Y' : PB}
    (wX : WF n X) (wX' : WF n X') (wY : WF n Y) (wY' : WF n Y') (hX : PSub X X') (hY : PSub Y Y') :
    IsoRes n (sub n d X Y) (sub n d X' Y') := by
  obtain ⟨N, N', e, e', hN, wN, wN'⟩ := neg_iso n wY wY' hY
  obtain ⟨R, R', f, f', hR, wR, wR'⟩ := add_iso n (swapPO d) (swapPO_ne_unknown hd) wX wX' wN wN' hX hN
  exact ⟨R, R', by simp [sub, e, f, bind, Except.bind], by simp [sub, e', f', bind, Except.bind], hR, wR, wR'⟩

/-! ### a real number as the other operand -/

/-- `pbox_number_ops` with an increasing map of the bounds -/
theorem numberOp_iso_mono (n : Nat) (f : Rat → Rat → Rat) (c : Rat) (hf : ∀ x y, x ≤ y → f x c ≤ f y c)
    {X X' : PB} (wX : WF n X) (wX' : WF n X') (hX : PSub X X') :
    IsoRes n (numberOp n f X c) (numberOp n f X' c) := by
  have key : ∀ {P : PB}, WF n P → numberOp n f P c = .ok ⟨sortR (P.left.map (f · c)), sortR (P.right.map (f · c))⟩ ∧
      WF n ⟨sortR (P.left.map (f · c)), sortR (P.right.map (f · c))⟩ := by
    intro P wP
    have hl : (sortR (P.left.map (f · c))).length = n := by simp [sortR_length, wP.llen]
    have hr : (sortR (P.right.map (f · c))).length = n := by simp [sortR_length, wP.rlen]
    have hle : LE (sortR (P.left.map (f · c))) (sortR (P.right.map (f · c))) := sortR_mono (LE.map hf wP.valid)
    exact ⟨mk_ok n true _ _ hl hr (sortR_sorted _) (sortR_sorted _) hle, ⟨hl, hr, sortR_sorted _, sortR_sorted _, hle⟩⟩
  obtain ⟨e, w⟩ := key wX
  obtain ⟨e', w'⟩ := key wX'
  exact ⟨_, _, e, e', ⟨sortR_mono (LE.map hf hX.1), sortR_mono (LE.map hf hX.2)⟩, w, w'⟩

/-- `pbox_number_ops` with a decreasing map of the bounds: the constructor switches the two lists -/
theorem numberOp_iso_anti (n : Nat) (f : Rat → Rat → Rat) (c : Rat) (hf : ∀ x y, x ≤ y → f y c ≤ f x c)
    {X X' : PB} (wX : WF n X) (wX' : WF n X') (hX : PSub X X') :
    IsoRes n (numberOp n f X c) (numberOp n f X' c) := by
  have key : ∀ {P : PB}, WF n P → numberOp n f P c = .ok ⟨sortR (P.right.map (f · c)), sortR (P.left.map (f · c))⟩ ∧
      WF n ⟨sortR (P.right.map (f · c)), sortR (P.left.map (f · c))⟩ := by
    intro P wP
    have hl : (sortR (P.left.map (f · c))).length = n := by simp [sortR_length, wP.llen]
    have hr : (sortR (P.right.map (f · c))).length = n := by simp [sortR_length, wP.rlen]
    have hge : LE (sortR (P.right.map (f · c))) (sortR (P.left.map (f · c))) := sortR_mono (LE.map_anti hf wP.valid)
    exact ⟨mk_ok_switched n _ _ hl hr (sortR_sorted _) (sortR_sorted _) hge, ⟨hr, hl, sortR_sorted _, sortR_sorted _, hge⟩⟩
  obtain ⟨e, w⟩ := key wX
  obtain ⟨e', w'⟩ := key wX'
  exact ⟨_, _, e, e', ⟨sortR_mono (LE.map_anti hf hX.2), sortR_mono (LE.map_anti hf hX.1)⟩, w, w'⟩

/-- multiplication by a constant of either sign -/
theorem numberOp_mul_iso (n : Nat) (c : Rat) {X X' : PB} (wX : WF n X) (wX' : WF n X') (hX : PSub X X') :
    IsoRes n (numberOp n (· * ·) X c) (numberOp n (· * ·) X' c) := by
  rcases le_total 0 c with h | h
  · exact numberOp_iso_mono n _ c (fun x y hxy => mul_le_mul_of_nonneg_right hxy h) wX wX' hX
  · exact numberOp_iso_anti n _ c (fun x y hxy => mul_le_mul_of_nonpos_right hxy h) wX wX' hX

/-- **`X op c` is isotone** for `+ − ×` and for `÷` by a non-zero number -/
theorem numRight_iso (n : Nat) (o : Op) (c : Rat) (hc : o = .div → c ≠ 0) {X X' : PB}
    (wX : WF n X) (wX' : WF n X') (hX : PSub X X') : IsoRes n (numRight n o X c) (numRight n o X' c) := by
  cases o with
  | add => exact numberOp_iso_mono n _ c (fun x y h => by simpa using h) wX wX' hX
  | sub => exact numberOp_iso_mono n _ (-c) (fun x y h => by simpa using h) wX wX' hX
  | mul => exact numberOp_mul_iso n c wX wX' hX
  | div =>
    have := hc rfl
    simp only [numRight, this, if_false]
    exact numberOp_mul_iso n (1 / c) wX wX' hX

/-- **`c op X` is isotone** for `+ − ×` -/
theorem numLeft_iso (n : Nat) (o : Op) (c : Rat) (ho : o ≠ .div) {X X' : PB}
    (wX : WF n X) (wX' : WF n X') (hX : PSub X X') : IsoRes n (numLeft n o c X) (numLeft n o c X') := by
  cases o with
  | add => exact numberOp_iso_mono n _ c (fun x y h => by simpa using h) wX wX' hX
  | sub =>
    obtain ⟨N, N', e, e', hN, wN, wN'⟩ := neg_iso n wX wX' hX
    obtain ⟨R, R', f, f', hR, wR, wR'⟩ := numberOp_iso_mono n (· + ·) c (fun x y h => by simpa using h) wN wN' hN
    exact ⟨R, R', by simp [numLeft, e, f, bind, Except.bind], by simp [numLeft, e', f', bind, Except.bind], hR, wR, wR'⟩
  | mul => exact numberOp_mul_iso n c wX wX' hX
  | div => exact absurd rfl ho

/-! ### unary maps, envelope, imposition -/

/-- **`_unary_template(f)` with an increasing `f`** (exp, sqrt, log on their domains) -/
theorem unary_iso (n : Nat) (φ : Rat → Rat) (hφ : ∀ x y, x ≤ y → φ x ≤ φ y) {X X' : PB}
    (wX : WF n X) (wX' : WF n X') (hX : PSub X X') :
    IsoRes n (unaryTemplate n (X.left.map φ) (X.right.map φ)) (unaryTemplate n (X'.left.map φ) (X'.right.map φ)) := by
  have key : ∀ {P : PB}, WF n P → unaryTemplate n (P.left.map φ) (P.right.map φ) = .ok ⟨P.left.map φ, P.right.map φ⟩ ∧
      WF n ⟨P.left.map φ, P.right.map φ⟩ := by
    intro P wP
    have hl : (P.left.map φ).length = n := by simp [wP.llen]
    have hr : (P.right.map φ).length = n := by simp [wP.rlen]
    have sl : (P.left.map φ).Pairwise (· ≤ ·) := by
      rw [List.pairwise_map]; exact wP.lsorted.imp (fun h => hφ _ _ h)
    have sr : (P.right.map φ).Pairwise (· ≤ ·) := by
      rw [List.pairwise_map]; exact wP.rsorted.imp (fun h => hφ _ _ h)
    exact ⟨mk_ok n false _ _ hl hr sl sr (LE.map hφ wP.valid), ⟨hl, hr, sl, sr, LE.map hφ wP.valid⟩⟩
  obtain ⟨e, w⟩ := key wX
  obtain ⟨e', w'⟩ := key wX'
  exact ⟨_, _, e, e', ⟨LE.map hφ hX.1, LE.map hφ hX.2⟩, w, w'⟩

theorem min_mono2 : Mono2 min := fun _ _ _ _ h1 h2 => min_le_min h1 h2
theorem max_mono2 : Mono2 max := fun _ _ _ _ h1 h2 => max_le_max h1 h2

theorem zipWith_sorted (f : Rat → Rat → Rat) (hf : Mono2 f) (a b : List Rat) (sa : a.Pairwise (· ≤ ·))
    (sb : b.Pairwise (· ≤ ·)) : (List.zipWith f a b).Pairwise (· ≤ ·) := by
  rw [List.pairwise_iff_getElem]
  intro i j hi hj hij
  simp only [List.length_zipWith, lt_min_iff] at hi hj
  simp only [List.getElem_zipWith]
  exact hf _ _ _ _ ((List.pairwise_iff_getElem.mp sa) i j hi.1 hj.1 hij) ((List.pairwise_iff_getElem.mp sb) i j hi.2 hj.2 hij)

theorem zipWith_min_le_max {a A b B : List Rat} (h1 : LE a A) (h2 : LE b B) :
    LE (List.zipWith min a b) (List.zipWith max A B) := by
  induction h1 generalizing b B with
  | nil => simp
  | cons hxy _ ih =>
    cases h2 with
    | nil => simp
    | cons hcd htl =>
      simp only [List.zipWith_cons_cons]
      exact List.Forall₂.cons (le_trans (min_le_left _ _) (le_trans hxy (le_max_left _ _))) (ih htl)

/-- **envelope is isotone** -/
theorem env_iso (n : Nat) {X X' Y Y' : PB} (wX : WF n X) (wX' : WF n X') (wY : WF n Y) (wY' : WF n Y')
    (hX : PSub X X') (hY : PSub Y Y') : IsoRes n (env n X Y) (env n X' Y') := by
  have key : ∀ {P Q : PB}, WF n P → WF n Q → env n P Q = .ok ⟨List.zipWith min P.left Q.left, List.zipWith max P.right Q.right⟩ ∧
      WF n ⟨List.zipWith min P.left Q.left, List.zipWith max P.right Q.right⟩ := by
    intro P Q wP wQ
    have hl : (List.zipWith min P.left Q.left).length = n := by simp [wP.llen, wQ.llen]
    have hr : (List.zipWith max P.right Q.right).length = n := by simp [wP.rlen, wQ.rlen]
    have sl := zipWith_sorted min min_mono2 _ _ wP.lsorted wQ.lsorted
    have sr := zipWith_sorted max max_mono2 _ _ wP.rsorted wQ.rsorted
    have hle := zipWith_min_le_max wP.valid wQ.valid
    exact ⟨mk_ok n false _ _ hl hr sl sr hle, ⟨hl, hr, sl, sr, hle⟩⟩
  obtain ⟨e, w⟩ := key wX wY
  obtain ⟨e', w'⟩ := key wX' wY'
  exact ⟨_, _, e, e', ⟨LE.zipWith min_mono2 hX.1 hY.1, LE.zipWith max_mono2 hX.2 hY.2⟩, w, w'⟩

theorem anyGt_false_of_LE {u d : List Rat} (h : LE u d) : (u.zip d).any (fun p => decide (p.1 > p.2)) = false :=
  noCross_of_LE h

theorem LE_of_anyGt_false {u d : List Rat} (hlen : u.length = d.length)
    (h : (u.zip d).any (fun p => decide (p.1 > p.2)) = false) : LE u d := by
  induction u generalizing d with
  | nil => cases d with
    | nil => exact List.Forall₂.nil
    | cons _ _ => simp at hlen
  | cons a s ih =>
    cases d with
    | nil => simp at hlen
    | cons b t =>
      simp only [List.zip_cons_cons, List.any_cons, Bool.or_eq_false_iff, decide_eq_false_iff_not, not_lt] at h
      exact List.Forall₂.cons h.1 (ih (by simpa using hlen) h.2)

/-- **imposition is isotone**: when the narrower operands have an imposition, so do the wider ones, and it contains it -/
theorem imp_iso (n : Nat) {X X' Y Y' : PB} (wX : WF n X) (wX' : WF n X') (wY : WF n Y) (wY' : WF n Y')
    (hX : PSub X X') (hY : PSub Y Y') (R : PB) (h : imp n X Y = .ok R) :
    IsoRes n (imp n X Y) (imp n X' Y') := by
  have key : ∀ {P Q : PB}, WF n P → WF n Q → LE (List.zipWith max P.left Q.left) (List.zipWith min P.right Q.right) →
      imp n P Q = .ok ⟨List.zipWith max P.left Q.left, List.zipWith min P.right Q.right⟩ ∧
      WF n ⟨List.zipWith max P.left Q.left, List.zipWith min P.right Q.right⟩ := by
    intro P Q wP wQ hle
    have hl : (List.zipWith max P.left Q.left).length = n := by simp [wP.llen, wQ.llen]
    have hr : (List.zipWith min P.right Q.right).length = n := by simp [wP.rlen, wQ.rlen]
    have sl := zipWith_sorted max max_mono2 _ _ wP.lsorted wQ.lsorted
    have sr := zipWith_sorted min min_mono2 _ _ wP.rsorted wQ.rsorted
    refine ⟨?_, ⟨hl, hr, sl, sr, hle⟩⟩
    simp only [imp, anyGt_false_of_LE hle, Bool.false_eq_true, if_false]
    exact mk_ok n true _ _ hl hr sl sr hle
  -- the narrower pair is compatible because its imposition exists
  have hc : LE (List.zipWith max X.left Y.left) (List.zipWith min X.right Y.right) := by
    apply LE_of_anyGt_false (by simp [wX.llen, wY.llen, wX.rlen, wY.rlen])
    by_contra hne
    simp only [imp, Bool.not_eq_false] at h hne
    simp [hne] at h
  have hc' : LE (List.zipWith max X'.left Y'.left) (List.zipWith min X'.right Y'.right) :=
    LE.trans (LE.zipWith max_mono2 hX.1 hY.1) (LE.trans hc (LE.zipWith min_mono2 hX.2 hY.2))
  obtain ⟨e, w⟩ := key wX wY hc
  obtain ⟨e', w'⟩ := key wX' wY' hc'
  exact ⟨_, _, e, e', ⟨LE.zipWith max_mono2 hX.1 hY.1, LE.zipWith min_mono2 hX.2 hY.2⟩, w, w'⟩

#print axioms imp_iso
#print axioms numLeft_iso
end Pun.Iso
