import Pun.Lemmas.EnvImp
set_option linter.unusedSimpArgs false
set_option linter.unusedVariables false
namespace Pun.EnvImp
open Pun Pun.PBox

theorem foldEnv_spec {n : Nat} (l : List PB) (hne : l ≠ []) (hl : ∀ P ∈ l, WF n P) :
    ∃ E, foldEnv n l = .ok E ∧ WF n E ∧ (∀ P ∈ l, Sub P E) ∧ (∀ Q, (∀ P ∈ l, Sub P Q) → Sub E Q) := by
  cases l with
  | nil => exact absurd rfl hne
  | cons p ps =>
    have hp := hl p (by simp)
    have hps : ∀ P ∈ ps, WF n P := fun P hP => hl P (by simp [hP])
    obtain ⟨h1, h2⟩ := foldlM_env_eq ps p hp hps
    obtain ⟨h3, h4⟩ := foldl_envSpec_lub ps p hp hps
    exact ⟨_, h1, h2, h3, h4⟩

theorem foldEnv_perm {n : Nat} {l₁ l₂ : List PB} (hp : l₁.Perm l₂) (hl : ∀ P ∈ l₁, WF n P) :
    foldEnv n l₁ = foldEnv n l₂ := by
  by_cases hne : l₁ = []
  · subst hne; rw [List.nil_perm.mp hp]
  · have hne2 : l₂ ≠ [] := fun h => hne (by subst h; exact List.perm_nil.mp hp)
    have hl2 : ∀ P ∈ l₂, WF n P := fun P hP => hl P (hp.mem_iff.mpr hP)
    obtain ⟨E₁, e1, -, u1, m1⟩ := foldEnv_spec l₁ hne hl
    obtain ⟨E₂, e2, -, u2, m2⟩ := foldEnv_spec l₂ hne2 hl2
    have : E₁ = E₂ := Sub.antisymm (m1 E₂ (fun P hP => u2 P (hp.mem_iff.mp hP)))
      (m2 E₁ (fun P hP => u1 P (hp.mem_iff.mpr hP)))
    rw [e1, e2, this]

theorem foldImp_ok {n : Nat} (l : List PB) (hne : l ≠ []) (hl : ∀ P ∈ l, WF n P)
    (z : List Rat) (hz : CommonSel l z) :
    ∃ E, foldImp n l = .ok E ∧ WF n E ∧ Sel E z ∧ (∀ P ∈ l, Sub E P) ∧
      (∀ Q, (∀ P ∈ l, Sub Q P) → Sub Q E) := by
  cases l with
  | nil => exact absurd rfl hne
  | cons p ps => exact foldlM_imp_ok ps p (hl p (by simp)) (fun P hP => hl P (by simp [hP])) z hz

theorem foldImp_err {n : Nat} (l : List PB) (hne : l ≠ []) (hl : ∀ P ∈ l, WF n P)
    (hno : ¬ ∃ z, CommonSel l z) : foldImp n l = .error .Other := by
  cases l with
  | nil => exact absurd rfl hne
  | cons p ps => exact foldlM_imp_err ps p (hl p (by simp)) (fun P hP => hl P (by simp [hP])) hno

theorem foldImp_perm {n : Nat} {l₁ l₂ : List PB} (hp : l₁.Perm l₂) (hl : ∀ P ∈ l₁, WF n P) :
    foldImp n l₁ = foldImp n l₂ := by
  by_cases hne : l₁ = []
  · subst hne; rw [List.nil_perm.mp hp]
  · have hne2 : l₂ ≠ [] := fun h => hne (by subst h; exact List.perm_nil.mp hp)
    have hl2 : ∀ P ∈ l₂, WF n P := fun P hP => hl P (hp.mem_iff.mpr hP)
    by_cases hc : ∃ z, CommonSel l₁ z
    · obtain ⟨z, hz⟩ := hc
      have hz2 : CommonSel l₂ z := fun P hP => hz P (hp.mem_iff.mpr hP)
      obtain ⟨E₁, e1, -, -, u1, m1⟩ := foldImp_ok l₁ hne hl z hz
      obtain ⟨E₂, e2, -, -, u2, m2⟩ := foldImp_ok l₂ hne2 hl2 z hz2
      have : E₁ = E₂ := Sub.antisymm (m2 E₁ (fun P hP => u1 P (hp.mem_iff.mpr hP)))
        (m1 E₂ (fun P hP => u2 P (hp.mem_iff.mp hP)))
      rw [e1, e2, this]
    · have hc2 : ¬ ∃ z, CommonSel l₂ z := by
        rintro ⟨z, hz⟩; exact hc ⟨z, fun P hP => hz P (hp.mem_iff.mp hP)⟩
      rw [foldImp_err l₁ hne hl hc, foldImp_err l₂ hne2 hl2 hc2]

/-! ## interval hull -/

theorem hull2_ok (x y : Rat × Rat) (hx : x.1 ≤ x.2) :
    hull2 x y = .ok (min x.1 y.1, max x.2 y.2) := by
  unfold hull2
  have : min x.1 y.1 ≤ max x.2 y.2 := le_trans (min_le_left _ _) (le_trans hx (le_max_left _ _))
  simp [this]

theorem foldlM_hull_spec (xs : List (Rat × Rat)) (x : Rat × Rat) (hx : x.1 ≤ x.2) :
    ∃ a b, xs.foldlM hull2 x = .ok (a, b) ∧ a ≤ b ∧ (∀ y ∈ x :: xs, a ≤ y.1 ∧ y.2 ≤ b) ∧
      (∃ y ∈ x :: xs, y.1 = a) ∧ (∃ y ∈ x :: xs, y.2 = b) := by
  induction xs generalizing x with
  | nil => exact ⟨x.1, x.2, rfl, hx, by simp, ⟨x, by simp, rfl⟩, ⟨x, by simp, rfl⟩⟩
  | cons q qs ih =>
    have hx' : (min x.1 q.1, max x.2 q.2).1 ≤ (min x.1 q.1, max x.2 q.2).2 :=
      le_trans (min_le_left _ _) (le_trans hx (le_max_left _ _))
    obtain ⟨a, b, e, hab, hall, ⟨ya, hya, ea⟩, ⟨yb, hyb, eb⟩⟩ := ih _ hx'
    refine ⟨a, b, ?_, hab, ?_, ?_, ?_⟩
    · simp only [List.foldlM_cons, hull2_ok x q hx]; exact e
    · intro y hy
      have h0 := hall _ (List.mem_cons_self)
      simp only at h0
      rcases List.mem_cons.mp hy with rfl | hy
      · exact ⟨le_trans h0.1 (min_le_left _ _), le_trans (le_max_left _ _) h0.2⟩
      · rcases List.mem_cons.mp hy with rfl | hy
        · exact ⟨le_trans h0.1 (min_le_right _ _), le_trans (le_max_right _ _) h0.2⟩
        · exact hall y (by simp [hy])
    · rcases List.mem_cons.mp hya with rfl | h
      · simp only at ea
        rcases min_choice x.1 q.1 with hc | hc
        · exact ⟨x, by simp, by rw [← ea, hc]⟩
        · exact ⟨q, by simp, by rw [← ea, hc]⟩
      · exact ⟨ya, by simp [h], ea⟩
    · rcases List.mem_cons.mp hyb with rfl | h
      · simp only at eb
        rcases max_choice x.2 q.2 with hc | hc
        · exact ⟨x, by simp, by rw [← eb, hc]⟩
        · exact ⟨q, by simp, by rw [← eb, hc]⟩
      · exact ⟨yb, by simp [h], eb⟩

/-- the hull of a non-empty family of proper intervals: least lower end, greatest upper end, both attained -/
theorem hull_spec (l : List (Rat × Rat)) (hne : l ≠ []) (hl : ∀ y ∈ l, y.1 ≤ y.2) :
    ∃ a b, reduceM hull2 l = .ok (a, b) ∧ a ≤ b ∧ (∀ y ∈ l, a ≤ y.1 ∧ y.2 ≤ b) ∧
      (∃ y ∈ l, y.1 = a) ∧ (∃ y ∈ l, y.2 = b) := by
  cases l with
  | nil => exact absurd rfl hne
  | cons x xs => exact foldlM_hull_spec xs x (hl x (by simp))

theorem hull_perm {l₁ l₂ : List (Rat × Rat)} (hp : l₁.Perm l₂) (hl : ∀ y ∈ l₁, y.1 ≤ y.2) :
    reduceM hull2 l₁ = reduceM hull2 l₂ := by
  by_cases hne : l₁ = []
  · subst hne; rw [List.nil_perm.mp hp]
  · have hne2 : l₂ ≠ [] := fun h => hne (by subst h; exact List.perm_nil.mp hp)
    have hl2 : ∀ y ∈ l₂, y.1 ≤ y.2 := fun y hy => hl y (hp.mem_iff.mpr hy)
    obtain ⟨a₁, b₁, e1, -, u1, ⟨ya1, hya1, ea1⟩, ⟨yb1, hyb1, eb1⟩⟩ := hull_spec l₁ hne hl
    obtain ⟨a₂, b₂, e2, -, u2, ⟨ya2, hya2, ea2⟩, ⟨yb2, hyb2, eb2⟩⟩ := hull_spec l₂ hne2 hl2
    have ha : a₁ = a₂ := le_antisymm
      (by rw [← ea2]; exact (u1 ya2 (hp.mem_iff.mpr hya2)).1)
      (by rw [← ea1]; exact (u2 ya1 (hp.mem_iff.mp hya1)).1)
    have hb : b₁ = b₂ := le_antisymm
      (by rw [← eb1]; exact (u2 yb1 (hp.mem_iff.mp hyb1)).2)
      (by rw [← eb2]; exact (u1 yb2 (hp.mem_iff.mpr hyb2)).2)
    rw [e1, e2, ha, hb]

/-! ## conversion -/

/-- operands inside the quantifier of the property -/
def Valid (n : Nat) : Opnd → Prop
  | .ivl lo hi => lo ≤ hi
  | .num _ => True
  | .box p => WF n p
  | .nonfinite => False
  | .other => False

/-- the p-box a valid operand stands for (`lo` / `hi` repeated for an interval, the value repeated
for a number); only used under `Valid` -/
def conv (n : Nat) : Opnd → PB
  | .ivl lo hi => ⟨List.replicate n lo, List.replicate n hi⟩
  | .num c => ⟨List.replicate n c, List.replicate n c⟩
  | .box p => p
  | .nonfinite => ⟨[], []⟩
  | .other => ⟨[], []⟩

theorem ple_replicate (n : Nat) {a b : Rat} (h : a ≤ b) : PLe (List.replicate n a) (List.replicate n b) := by
  induction n with
  | zero => exact .nil
  | succ k ih => exact .cons h ih

theorem replicate_sorted (n : Nat) (a : Rat) : (List.replicate n a).Pairwise (· ≤ ·) := by
  rw [List.pairwise_replicate]; exact Or.inr (le_refl a)

theorem const_wf (n : Nat) {a b : Rat} (h : a ≤ b) : WF n ⟨List.replicate n a, List.replicate n b⟩ :=
  ⟨by simp, by simp, replicate_sorted n a, replicate_sorted n b, ple_replicate n h⟩

theorem ivlToPbox_ok (n : Nat) {a b : Rat} (h : a ≤ b) :
    ivlToPbox n a b = .ok ⟨List.replicate n a, List.replicate n b⟩ := by
  have w := const_wf n h
  exact mk_ok n false _ _ w.llen w.rlen w.lsorted w.rsorted w.le

theorem convert_ok {n : Nat} {x : Opnd} (hv : Valid n x) : convert n x = .ok (conv n x) ∧ WF n (conv n x) := by
  cases x with
  | ivl lo hi => exact ⟨ivlToPbox_ok n hv, const_wf n hv⟩
  | num c => exact ⟨ivlToPbox_ok n (le_refl c), const_wf n (le_refl c)⟩
  | box p => exact ⟨rfl, hv⟩
  | nonfinite => exact absurd hv id
  | other => exact absurd hv id

theorem convertAll_ok {n : Nat} (l : List Opnd) (hv : ∀ x ∈ l, Valid n x) :
    convertAll n l = .ok (l.map (conv n)) := by
  induction l with
  | nil => rfl
  | cons x xs ih =>
    have h1 := (convert_ok (hv x (by simp))).1
    have h2 := ih (fun y hy => hv y (by simp [hy]))
    simp only [convertAll, h1, h2, List.map_cons, bind, Except.bind]

theorem conv_wf {n : Nat} (l : List Opnd) (hv : ∀ x ∈ l, Valid n x) : ∀ P ∈ l.map (conv n), WF n P := by
  intro P hP
  obtain ⟨x, hx, rfl⟩ := List.mem_map.mp hP
  exact (convert_ok (hv x hx)).2

end Pun.EnvImp
