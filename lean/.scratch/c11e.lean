import Pun.Lemmas.EnvImp
set_option linter.unusedSimpArgs false
set_option linter.unusedVariables false
namespace Pun.EnvImp
open Pun Pun.PBox

theorem all_isIvl_perm {l₁ l₂ : List Opnd} (hp : l₁.Perm l₂) : l₁.all Opnd.isIvl = l₂.all Opnd.isIvl := by
  rw [Bool.eq_iff_iff, List.all_eq_true, List.all_eq_true]
  exact ⟨fun h x hx => h x (hp.mem_iff.mpr hx), fun h x hx => h x (hp.mem_iff.mp hx)⟩

theorem mem_ivlEnds {l : List Opnd} {y : Rat × Rat} : y ∈ ivlEnds l ↔ Opnd.ivl y.1 y.2 ∈ l := by
  unfold ivlEnds
  rw [List.mem_filterMap]
  constructor
  · rintro ⟨x, hx, e⟩
    cases x <;> simp [Opnd.ends?] at e
    subst e; exact hx
  · intro h; exact ⟨_, h, rfl⟩

theorem ivlEnds_valid {n : Nat} {l : List Opnd} (hv : ∀ x ∈ l, Valid n x) : ∀ y ∈ ivlEnds l, y.1 ≤ y.2 :=
  fun y hy => hv _ (mem_ivlEnds.mp hy)

theorem ivlEnds_ne_nil {l : List Opnd} (hne : l ≠ []) (hall : l.all Opnd.isIvl = true) : ivlEnds l ≠ [] := by
  cases l with
  | nil => exact absurd rfl hne
  | cons x xs =>
    rw [List.all_eq_true] at hall
    have hx := hall x (by simp)
    cases x <;> simp [Opnd.isIvl] at hx
    simp [ivlEnds, Opnd.ends?]

end Pun.EnvImp
