import Pun.Props.C07
set_option linter.unusedSimpArgs false
set_option linter.unusedVariables false
namespace Pun.Hier
open Pun Pun.PBox

/-! ## ○ a Python number with a p-box-like operand: sum and difference -/

/-- `pbox_number_ops(P, c, add)` on well-formed bounds: every step shifted by `c` -/
theorem numberOp_add_wf (n : Nat) (P : PB) (hP : WF n P) (c : Rat) :
    numberOp n (· + ·) P c = .ok ⟨P.left.map (c + ·), P.right.map (c + ·)⟩ := by
  have hw := wf_shift n P hP c c (le_refl c)
  unfold numberOp
  rw [map_add_comm, map_add_comm, sortR_of_sorted _ hw.lsorted, sortR_of_sorted _ hw.rsorted]
  exact mk_wf n true _ _ hw

/-- **number ± X, X ± number** for a p-box-like `X` under Frechet / perfect / opposite: the number route
(`pbox_number_ops`, which ignores the dependency) gives the p-box of the converted-first expression -/
theorem num_add_sub_agrees (n : Nat) (hn : 0 < n) (d : Dep) (hd : d = .f ∨ d = .p ∨ d = .o) (c : Rat)
    (r : Opd) (hr : isHigh r = true) (hv : ValidOpd n r) :
    (∃ z, evalOp n d .add (.num c) r = .ok (.pbox z) ∧ spec n d .add (.num c) r = .ok z) ∧
    (∃ z, evalOp n d .add r (.num c) = .ok (.pbox z) ∧ spec n d .add r (.num c) = .ok z) ∧
    (∃ z, evalOp n d .sub (.num c) r = .ok (.pbox z) ∧ spec n d .sub (.num c) r = .ok z) ∧
    (∃ z, evalOp n d .sub r (.num c) = .ok (.pbox z) ∧ spec n d .sub r (.num c) = .ok z) := by
  obtain ⟨Q, hQ1, hQ2, hw⟩ := convert_high_wf n r hr hv
  obtain ⟨hneg, hwn⟩ := neg_wf n Q hw
  have hd' : swapPO d = .f ∨ swapPO d = .p ∨ swapPO d = .o := by
    rcases hd with h | h | h <;> subst h <;> simp [swapPO]
  have e1 : convert n (.num c) = .ok (ofIvl n c c) := ivlToPbox_eq n c c hn (le_refl c)
  have refl_ : ∀ o, evalOp n d o (.num c) r = (convertPbox n r >>= fun p => reflected n o d (.num c) p >>= fun t => pure (.pbox t)) := by
    intro o; cases r <;> first | rfl | (simp [isHigh] at hr)
  have fwd_ : ∀ o, evalOp n d o r (.num c) = (convertPbox n r >>= fun p => method n o d p (.num c) >>= fun t => pure (.pbox t)) := by
    intro o; cases r <;> first | rfl | (simp [isHigh] at hr)
  refine ⟨⟨⟨Q.left.map (c + ·), Q.right.map (c + ·)⟩, ?_, ?_⟩, ⟨⟨Q.left.map (c + ·), Q.right.map (c + ·)⟩, ?_, ?_⟩,
    ⟨⟨((Q.right.map (- ·)).reverse).map (c + ·), ((Q.left.map (- ·)).reverse).map (c + ·)⟩, ?_, ?_⟩,
    ⟨⟨Q.left.map (-c + ·), Q.right.map (-c + ·)⟩, ?_, ?_⟩⟩
  · rw [refl_, hQ1, ok_bind]; simp only [reflected, pboxAdd, numberOp_add_wf n Q hw c, ok_bind]; rfl
  · simp only [spec, e1, hQ2, ok_bind, binop]; exact add_const_left n d hd c c (le_refl c) Q hw
  · rw [fwd_, hQ1, ok_bind]; simp only [method, pboxAdd, numberOp_add_wf n Q hw c, ok_bind]; rfl
  · simp only [spec, e1, hQ2, ok_bind, binop]; exact add_const_right n d hd c c (le_refl c) Q hw
  · rw [refl_, hQ1, ok_bind]; simp only [reflected, hneg, ok_bind, pboxAdd, numberOp_add_wf n _ hwn c]; rfl
  · simp only [spec, e1, hQ2, ok_bind, binop, PBox.sub, hneg]; exact add_const_left n (swapPO d) hd' c c (le_refl c) _ hwn
  · rw [fwd_, hQ1, ok_bind]; simp only [method, pboxSub, negOpd, ok_bind, pboxAdd, numberOp_add_wf n Q hw (-c)]; rfl
  · simp only [spec, e1, hQ2, ok_bind, binop, PBox.sub, neg_ofIvl n c c hn (le_refl c)]
    exact add_const_right n (swapPO d) hd' (-c) (-c) (le_refl _) Q hw

end Pun.Hier
