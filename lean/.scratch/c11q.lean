import Pun.Lemmas.EnvImp
set_option linter.unusedSimpArgs false
set_option linter.unusedVariables false
namespace Pun.EnvImp
open Pun Pun.PBox

/-! ## ★ the public functions: fold over 1..k operands of mixed kinds, any listing order -/

/-- a family that is not made of intervals only: `envelope` returns the least p-box containing the
(converted) operands -/
theorem envelope_lub {n : Nat} (l : List Opnd) (hv : ∀ x ∈ l, Valid n x) (hmix : l.all Opnd.isIvl = false) :
    ∃ E, envelope n l = .ok (.pb E) ∧ WF n E ∧ (∀ x ∈ l, Sub (conv n x) E) ∧
      (∀ Q, (∀ x ∈ l, Sub (conv n x) Q) → Sub E Q) := by
  have hne : l.map (conv n) ≠ [] := by
    intro h; rw [List.map_eq_nil_iff] at h; subst h; simp at hmix
  obtain ⟨E, e, w, u, m⟩ := foldEnv_spec (l.map (conv n)) hne (conv_wf l hv)
  refine ⟨E, ?_, w, fun x hx => u _ (List.mem_map.mpr ⟨x, hx, rfl⟩), fun Q hQ => m Q ?_⟩
  · simp only [envelope, hmix, convertAll_ok l hv, e, bind, Except.bind]; rfl
  · intro P hP
    obtain ⟨x, hx, rfl⟩ := List.mem_map.mp hP
    exact hQ x hx

/-- a non-empty family of intervals only: the shortcut returns the interval hull `[a, b]` — the
least lower end and the greatest upper end, both attained — and the hull, converted to a p-box, IS
the p-box envelope of the converted intervals -/
theorem hull_is_env {n : Nat} (l : List Opnd) (hne : l ≠ []) (hv : ∀ x ∈ l, Valid n x)
    (hall : l.all Opnd.isIvl = true) :
    ∃ a b, envelope n l = .ok (.ivl a b) ∧ a ≤ b ∧
      (∀ lo hi, Opnd.ivl lo hi ∈ l → a ≤ lo ∧ hi ≤ b) ∧
      (∃ lo hi, Opnd.ivl lo hi ∈ l ∧ lo = a) ∧ (∃ lo hi, Opnd.ivl lo hi ∈ l ∧ hi = b) ∧
      (ivlToPbox n a b >>= fun H => pure (Res.pb H)) =
        (convertAll n l >>= fun xs => foldEnv n xs >>= fun E => pure (Res.pb E)) := by
  obtain ⟨a, b, e, hab, u, ⟨ya, hya, ea⟩, ⟨yb, hyb, eb⟩⟩ :=
    hull_spec (ivlEnds l) (ivlEnds_ne_nil hne hall) (ivlEnds_valid hv)
  have hU : ∀ lo hi, Opnd.ivl lo hi ∈ l → a ≤ lo ∧ hi ≤ b := fun lo hi h => u (lo, hi) (mem_ivlEnds.mpr h)
  refine ⟨a, b, ?_, hab, hU, ⟨ya.1, ya.2, mem_ivlEnds.mp hya, ea⟩, ⟨yb.1, yb.2, mem_ivlEnds.mp hyb, eb⟩, ?_⟩
  · simp only [envelope, hall, e, if_true, bind, Except.bind]
  · -- the constant box on the hull is the least upper bound of the converted operands
    have hne' : l.map (conv n) ≠ [] := by
      intro h; rw [List.map_eq_nil_iff] at h; exact hne h
    obtain ⟨E, eE, -, uE, mE⟩ := foldEnv_spec (l.map (conv n)) hne' (conv_wf l hv)
    have hform : ∀ x ∈ l, ∃ lo hi, x = Opnd.ivl lo hi := by
      intro x hx
      have := (List.all_eq_true.mp hall) x hx
      cases x <;> simp [Opnd.isIvl] at this
      exact ⟨_, _, rfl⟩
    let H : PB := ⟨List.replicate n a, List.replicate n b⟩
    have h1 : Sub E H := by
      apply mE
      intro P hP
      obtain ⟨x, hx, rfl⟩ := List.mem_map.mp hP
      obtain ⟨lo, hi, rfl⟩ := hform x hx
      obtain ⟨h1, h2⟩ := hU lo hi hx
      exact ⟨ple_replicate n h1, ple_replicate n h2⟩
    have h2 : Sub H E := by
      have ha := uE _ (List.mem_map.mpr ⟨_, mem_ivlEnds.mp hya, rfl⟩)
      have hb := uE _ (List.mem_map.mpr ⟨_, mem_ivlEnds.mp hyb, rfl⟩)
      simp only [conv, Sub, ea, eb] at ha hb
      exact ⟨ha.1, hb.2⟩
    have : E = H := Sub.antisymm h1 h2
    simp only [ivlToPbox_ok n hab, convertAll_ok l hv, eE, this, bind, Except.bind, pure, Except.pure, H]

/-- ★ `fold_perm_invariant` for `envelope`: any listing order of the same operands gives the same
result (an `Interval` for intervals only, else the same p-box) -/
theorem envelope_perm {n : Nat} {l₁ l₂ : List Opnd} (hp : l₁.Perm l₂) (hv : ∀ x ∈ l₁, Valid n x) :
    envelope n l₁ = envelope n l₂ := by
  have hv2 : ∀ x ∈ l₂, Valid n x := fun x hx => hv x (hp.mem_iff.mpr hx)
  unfold envelope
  rw [← all_isIvl_perm hp]
  by_cases hall : l₁.all Opnd.isIvl = true
  · simp only [hall, if_true]
    have : reduceM hull2 (ivlEnds l₁) = reduceM hull2 (ivlEnds l₂) :=
      hull_perm (hp.filterMap _) (ivlEnds_valid hv)
    rw [this]
  · have hall' : l₁.all Opnd.isIvl = false := by simpa using hall
    simp only [hall']
    rw [convertAll_ok l₁ hv, convertAll_ok l₂ hv2]
    simp only [bind, Except.bind]
    rw [foldEnv_perm (hp.map _) (conv_wf l₁ hv)]
    rfl

/-- `imposition` of a non-empty valid family with a common selection: the greatest p-box contained
in every (converted) operand; the common selection is a selection of it -/
theorem imposition_glb {n : Nat} (l : List Opnd) (hne : l ≠ []) (hv : ∀ x ∈ l, Valid n x)
    (z : List Rat) (hz : ∀ x ∈ l, Sel (conv n x) z) :
    ∃ E, imposition n l = .ok E ∧ WF n E ∧ Sel E z ∧ (∀ x ∈ l, Sub E (conv n x)) ∧
      (∀ Q, (∀ x ∈ l, Sub Q (conv n x)) → Sub Q E) := by
  have hne' : l.map (conv n) ≠ [] := by
    intro h; rw [List.map_eq_nil_iff] at h; exact hne h
  have hz' : CommonSel (l.map (conv n)) z := by
    intro P hP
    obtain ⟨x, hx, rfl⟩ := List.mem_map.mp hP
    exact hz x hx
  obtain ⟨E, e, w, s, u, m⟩ := foldImp_ok (l.map (conv n)) hne' (conv_wf l hv) z hz'
  refine ⟨E, ?_, w, s, fun x hx => u _ (List.mem_map.mpr ⟨x, hx, rfl⟩), fun Q hQ => m Q ?_⟩
  · simp only [imposition, convertAll_ok l hv, e, bind, Except.bind]
  · intro P hP
    obtain ⟨x, hx, rfl⟩ := List.mem_map.mp hP
    exact hQ x hx

/-- … and it raises (its own exception) when the operands have no common selection -/
theorem imposition_raises {n : Nat} (l : List Opnd) (hne : l ≠ []) (hv : ∀ x ∈ l, Valid n x)
    (hno : ¬ ∃ z, ∀ x ∈ l, Sel (conv n x) z) : imposition n l = .error .Other := by
  have hne' : l.map (conv n) ≠ [] := by
    intro h; rw [List.map_eq_nil_iff] at h; exact hne h
  have hno' : ¬ ∃ z, CommonSel (l.map (conv n)) z := by
    rintro ⟨z, hz⟩
    exact hno ⟨z, fun x hx => hz _ (List.mem_map.mpr ⟨x, hx, rfl⟩)⟩
  simp only [imposition, convertAll_ok l hv, foldImp_err _ hne' (conv_wf l hv) hno', bind, Except.bind]

/-- ★ `fold_perm_invariant` for `imposition` (same p-box, or every order raises) -/
theorem imposition_perm {n : Nat} {l₁ l₂ : List Opnd} (hp : l₁.Perm l₂) (hv : ∀ x ∈ l₁, Valid n x) :
    imposition n l₁ = imposition n l₂ := by
  have hv2 : ∀ x ∈ l₂, Valid n x := fun x hx => hv x (hp.mem_iff.mpr hx)
  unfold imposition
  rw [convertAll_ok l₁ hv, convertAll_ok l₂ hv2]
  simp only [bind, Except.bind]
  exact foldImp_perm (hp.map _) (conv_wf l₁ hv)

/-! ## rejected inputs -/

theorem envelope_empty (n : Nat) : envelope n [] = .error .Type := rfl
theorem imposition_empty (n : Nat) : imposition n [] = .error .Type := rfl
/-- an operand that `convert` does not know makes both functions raise `TypeError` whatever the
other (valid) operands are -/
theorem envelope_other {n : Nat} (l₁ l₂ : List Opnd) (hv : ∀ x ∈ l₁, Valid n x) :
    envelope n (l₁ ++ .other :: l₂) = .error .Type ∧ imposition n (l₁ ++ .other :: l₂) = .error .Type := by
  have hc : convertAll n (l₁ ++ .other :: l₂) = .error .Type := by
    induction l₁ with
    | nil => simp [convertAll, convert, bind, Except.bind]
    | cons x xs ih =>
      have h1 := (convert_ok (hv x (by simp))).1
      have h2 := ih (fun y hy => hv y (by simp [hy]))
      simp only [List.cons_append, convertAll, h1, h2, bind, Except.bind]
  have hall : (l₁ ++ .other :: l₂).all Opnd.isIvl = false := by
    simp [Opnd.isIvl]
  constructor
  · simp only [envelope, hall, hc, bind, Except.bind]; rfl
  · simp only [imposition, hc, bind, Except.bind]

/-! ## ★ containment test -/

theorem getLastD_le {a b : List Rat} (h : PLe a b) (d e : Rat) (hde : d ≤ e) : a.getLastD d ≤ b.getLastD e := by
  induction h generalizing d e with
  | nil => simpa using hde
  | cons hab _ ih => simp only [List.getLastD_cons]; exact ih _ _ hab

theorem headD_le {a b : List Rat} (h : PLe a b) (d e : Rat) (hde : d ≤ e) : a.headD d ≤ b.headD e := by
  cases h with
  | nil => simpa using hde
  | cons hab _ => simpa using hab

/-- `Pbox.__contains__` on an object is exactly the support test -/
theorem contains_iff_support (P : PB) (l h : Rat) :
    containsP P (.obj l h) = .ok true ↔ (PBox.lo P ≤ l ∧ h ≤ PBox.hi P) := by
  simp [containsP]

theorem contains_num_iff (P : PB) (c : Rat) :
    containsP P (.num c) = .ok true ↔ (PBox.lo P ≤ c ∧ c ≤ PBox.hi P) := by
  simp [containsP]

/-- ★ `contains_sound`: the ordering implies `in` -/
theorem contains_sound {X P : PB} (h : Sub X P) : containsP P (itemOf X) = .ok true := by
  rw [itemOf, contains_iff_support]
  exact ⟨headD_le h.1 0 0 (le_refl _), getLastD_le h.2 0 0 (le_refl _)⟩

theorem getLastD_replicate (k : Nat) (c : Rat) : (List.replicate k c).getLastD c = c := by
  induction k with
  | zero => rfl
  | succ m ih => rw [List.replicate_succ, List.getLastD_cons, ih]

/-- a real number lying in every step is `in` the p-box -/
theorem contains_num_sound {n : Nat} {P : PB} {c : Rat} (hn : 0 < n)
    (h : Sub ⟨List.replicate n c, List.replicate n c⟩ P) : containsP P (.num c) = .ok true := by
  have := contains_sound h
  rw [itemOf, contains_iff_support] at this
  rw [contains_num_iff]
  obtain ⟨k, rfl⟩ : ∃ k, n = k + 1 := ⟨n - 1, by omega⟩
  have e1 : PBox.lo ⟨List.replicate (k+1) c, List.replicate (k+1) c⟩ = c := by simp [PBox.lo, List.replicate_succ]
  have e2 : PBox.hi ⟨List.replicate (k+1) c, List.replicate (k+1) c⟩ = c := by
    simp only [PBox.hi]; rw [List.replicate_succ, List.getLastD_cons, getLastD_replicate]
  rw [e1, e2] at this
  exact this

/-- `in` is never true for an item whose range leaves the range of the p-box -/
theorem contains_excludes_outside (P : PB) (l h : Rat) (hout : l < PBox.lo P ∨ PBox.hi P < h) :
    containsP P (.obj l h) = .ok false := by
  rcases hout with h1 | h1
  · simp [containsP, not_le.mpr h1]
  · simp [containsP, not_le.mpr h1]

/-- every operand is `in` the envelope, the imposition is `in` every operand -/
theorem operand_in_env {n : Nat} {X Y E : PB} (hX : WF n X) (hY : WF n Y) (h : env n X Y = .ok E) :
    containsP E (itemOf X) = .ok true ∧ containsP E (itemOf Y) = .ok true := by
  obtain ⟨-, h1, h2⟩ := env_upper hX hY h
  exact ⟨contains_sound h1, contains_sound h2⟩

end Pun.EnvImp
