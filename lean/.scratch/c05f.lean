import Pun.Lemmas.Elem
import Mathlib.Algebra.Order.Field.Basic
import Mathlib.Tactic.Positivity
set_option linter.unusedSimpArgs false
set_option linter.unusedVariables false
namespace Pun.Elem

/-- the logistic function `1/(1+exp(-x))`, for ANY positive monotone `E` in place of `exp`:
no assertion fires and the result is the exact range (every variable occurs once) -/
theorem sigmoid_exact (E : ℚ → ℚ) (hpos : ∀ x, 0 < E x) (hmono : ∀ u v, u ≤ v → E u ≤ E v)
    (lo hi : ℚ) (h : lo ≤ hi) :
    sigmoidI (E (-hi)) (E (-lo)) = .ok (1 / (1 + E (-lo)), 1 / (1 + E (-hi))) ∧
    ∀ x, lo ≤ x → x ≤ hi →
      1 / (1 + E (-lo)) ≤ 1 / (1 + E (-x)) ∧ 1 / (1 + E (-x)) ≤ 1 / (1 + E (-hi)) := by
  have h1 : E (-hi) ≤ E (-lo) := hmono _ _ (by linarith)
  constructor
  · unfold sigmoidI mkI
    rw [if_pos h1]; dsimp only
    rw [if_pos (by linarith : 1 + E (-hi) ≤ 1 + E (-lo))]; dsimp only
    unfold recipI mkI
    rw [if_neg (by intro hc; have := hpos (-hi); linarith [hc.1])]
    rw [if_pos (one_div_le_one_div_of_le (by have := hpos (-hi); linarith) (by linarith))]
  · intro x hx1 hx2
    have a1 : E (-hi) ≤ E (-x) := hmono _ _ (by linarith)
    have a2 : E (-x) ≤ E (-lo) := hmono _ _ (by linarith)
    have p1 := hpos (-hi); have p2 := hpos (-x)
    exact ⟨one_div_le_one_div_of_le (by linarith) (by linarith),
           one_div_le_one_div_of_le (by linarith) (by linarith)⟩

/-- `methods.tanh` = `1 - 2/(1+exp(2x))`, for any positive monotone `E`: exact range -/
theorem tanh_exact (E : ℚ → ℚ) (hpos : ∀ x, 0 < E x) (hmono : ∀ u v, u ≤ v → E u ≤ E v)
    (lo hi : ℚ) (h : lo ≤ hi) :
    tanhI (E (2 * lo)) (E (2 * hi)) = .ok (1 - 2 / (1 + E (2 * lo)), 1 - 2 / (1 + E (2 * hi))) ∧
    ∀ x, lo ≤ x → x ≤ hi →
      1 - 2 / (1 + E (2 * lo)) ≤ 1 - 2 / (1 + E (2 * x)) ∧ 1 - 2 / (1 + E (2 * x)) ≤ 1 - 2 / (1 + E (2 * hi)) := by
  have key : ∀ u v, u ≤ v → 2 / (1 + E (2 * v)) ≤ 2 / (1 + E (2 * u)) := by
    intro u v huv
    have := hmono (2 * u) (2 * v) (by linarith)
    have p := hpos (2 * u)
    exact div_le_div_of_nonneg_left (by norm_num) (by linarith) (by linarith)
  have h1 : E (2 * lo) ≤ E (2 * hi) := hmono _ _ (by linarith)
  constructor
  · unfold tanhI mkI
    rw [if_pos h1]; dsimp only
    rw [if_pos (by linarith : 1 + E (2 * lo) ≤ 1 + E (2 * hi))]; dsimp only
    rw [if_neg (by intro hc; have := hpos (2 * lo); linarith [hc.1])]
    rw [if_pos (key lo hi h)]; dsimp only
    rw [if_pos (by have := key lo hi h; linarith)]
  · intro x hx1 hx2
    have := key lo x hx1; have := key x hi hx2
    constructor <;> linarith

end Pun.Elem
