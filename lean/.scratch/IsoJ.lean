import Pun.Lemmas.Iso
import Mathlib.Tactic.Ring
set_option linter.unusedSimpArgs false
set_option linter.unusedVariables false
namespace Pun.Iso
open Pun List Pun.PBox

/-! ## stacking: the generalised inverse of the cumulated mass is monotone in the focal endpoints -/

/-- mass of the rows whose value is `≤ c` -/
def massLE : List (Rat × Rat) → Rat → Rat
  | [], _ => 0
  | (v, w) :: r, c => (if v ≤ c then w else 0) + massLE r c

def total : List (Rat × Rat) → Rat
  | [] => 0
  | (_, w) :: r => w + total r

def NonNegW (l : List (Rat × Rat)) : Prop := ∀ x ∈ l, 0 ≤ x.2

theorem massLE_nonneg {l : List (Rat × Rat)} (h : NonNegW l) (c : Rat) : 0 ≤ massLE l c := by
  induction l with
  | nil => simp [massLE]
  | cons x r ih =>
    obtain ⟨v, w⟩ := x
    have hw : 0 ≤ w := h (v, w) (by simp)
    have := ih (fun y hy => h y (by simp [hy]))
    simp only [massLE]
    split <;> linarith

theorem massLE_le_total {l : List (Rat × Rat)} (h : NonNegW l) (c : Rat) : massLE l c ≤ total l := by
  induction l with
  | nil => simp [massLE, total]
  | cons x r ih =>
    obtain ⟨v, w⟩ := x
    have hw : 0 ≤ w := h (v, w) (by simp)
    have := ih (fun y hy => h y (by simp [hy]))
    simp only [massLE, total]
    split <;> linarith

theorem massLE_perm {l l' : List (Rat × Rat)} (h : l.Perm l') (c : Rat) : massLE l c = massLE l' c := by
  induction h with
  | nil => rfl
  | cons x _ ih => obtain ⟨v, w⟩ := x; simp only [massLE, ih]
  | swap x y l => obtain ⟨v, w⟩ := x; obtain ⟨v2, w2⟩ := y; simp only [massLE]; ring
  | trans _ _ ih1 ih2 => rw [ih1, ih2]

theorem total_perm {l l' : List (Rat × Rat)} (h : l.Perm l') : total l = total l' := by
  induction h with
  | nil => rfl
  | cons x _ ih => obtain ⟨v, w⟩ := x; simp only [total, ih]
  | swap x y l => obtain ⟨v, w⟩ := x; obtain ⟨v2, w2⟩ := y; simp only [total]; ring
  | trans _ _ ih1 ih2 => rw [ih1, ih2]

/-- rows sorted by value -/
def SortedV (l : List (Rat × Rat)) : Prop := l.Pairwise (fun a b => a.1 ≤ b.1)

theorem sortPairs_perm (l : List (Rat × Rat)) : (sortPairs l).Perm l := List.mergeSort_perm l _

theorem sortPairs_sorted (l : List (Rat × Rat)) : SortedV (sortPairs l) := by
  have := List.pairwise_mergeSort (le := fun a b : Rat × Rat => decide (a.1 ≤ b.1))
    (fun a b c h1 h2 => by simp at h1 h2 ⊢; exact le_trans h1 h2)
    (fun a b => by simp; exact le_total a.1 b.1) l
  exact this.imp (fun h => by simpa using h)

theorem firstReach_mem (l : List (Rat × Rat)) (acc p v : Rat) (h : firstReach (cumul l acc) p = some v) :
    ∃ x ∈ l, x.1 = v := by
  induction l generalizing acc with
  | nil => simp [cumul, firstReach] at h
  | cons x r ih =>
    obtain ⟨v0, w0⟩ := x
    simp only [cumul, firstReach] at h
    split at h
    · exact ⟨(v0, w0), by simp, by simpa using h⟩
    · obtain ⟨y, hy, e⟩ := ih _ h
      exact ⟨y, by simp [hy], e⟩

/-- (A) the mass up to the returned value reaches the level -/
theorem firstReach_reaches {l : List (Rat × Rat)} (hs : SortedV l) (hw : NonNegW l) (acc p v : Rat)
    (h : firstReach (cumul l acc) p = some v) : p ≤ acc + massLE l v := by
  induction l generalizing acc with
  | nil => simp [cumul, firstReach] at h
  | cons x r ih =>
    obtain ⟨v0, w0⟩ := x
    have hw0 : 0 ≤ w0 := hw (v0, w0) (by simp)
    have hwr : NonNegW r := fun y hy => hw y (by simp [hy])
    rw [SortedV, List.pairwise_cons] at hs
    simp only [cumul, firstReach] at h
    split at h
    · rename_i hp
      have e : v0 = v := by simpa using h
      subst e
      have := massLE_nonneg hwr v0
      simp only [massLE, le_refl, if_true]
      linarith
    · have := ih hs.2 hwr _ h
      obtain ⟨y, hy, e⟩ := firstReach_mem r _ p v h
      have hv : v0 ≤ v := by rw [← e]; exact hs.1 y hy
      simp only [massLE, hv, if_true]
      linarith

theorem massLE_zero_of_lt {l : List (Rat × Rat)} (c : Rat) (h : ∀ x ∈ l, c < x.1) : massLE l c = 0 := by
  induction l with
  | nil => rfl
  | cons x r ih =>
    obtain ⟨v, w⟩ := x
    have hv : ¬ v ≤ c := not_le.mpr (h (v, w) (by simp))
    simp only [massLE, hv, if_false, zero_add]
    exact ih (fun y hy => h y (by simp [hy]))

/-- (B) below the returned value the mass stays under the level -/
theorem firstReach_minimal {l : List (Rat × Rat)} (hs : SortedV l) (hw : NonNegW l) (acc p v : Rat)
    (hacc : acc < p) (h : firstReach (cumul l acc) p = some v) (c : Rat) (hc : c < v) : acc + massLE l c < p := by
  induction l generalizing acc with
  | nil => simp [cumul, firstReach] at h
  | cons x r ih =>
    obtain ⟨v0, w0⟩ := x
    have hw0 : 0 ≤ w0 := hw (v0, w0) (by simp)
    have hwr : NonNegW r := fun y hy => hw y (by simp [hy])
    rw [SortedV, List.pairwise_cons] at hs
    simp only [cumul, firstReach] at h
    split at h
    · have e : v0 = v := by simpa using h
      subst e
      have hz : massLE ((v0, w0) :: r) c = 0 := by
        apply massLE_zero_of_lt
        intro y hy
        rcases List.mem_cons.mp hy with e | hy'
        · subst e; exact hc
        · exact lt_of_lt_of_le hc (hs.1 y hy')
      rw [hz]; linarith
    · rename_i hp
      have := ih hs.2 hwr (acc + w0) (not_le.mp hp) h
      simp only [massLE]
      split <;> linarith

/-- (C) no row reaches the level only if the whole mass stays below it, and conversely -/
theorem firstReach_none {l : List (Rat × Rat)} (acc p : Rat) (h : firstReach (cumul l acc) p = none) :
    acc + total l < p ∨ l = [] := by
  induction l generalizing acc with
  | nil => exact Or.inr rfl
  | cons x r ih =>
    obtain ⟨v0, w0⟩ := x
    simp only [cumul, firstReach] at h
    split at h
    · simp at h
    · rename_i hp
      left
      rcases ih _ h with h' | h'
      · simp only [total]; linarith
      · subst h'; simp only [total]; linarith [not_le.mp hp]

theorem firstReach_none_of_total {l : List (Rat × Rat)} (hw : NonNegW l) (acc p : Rat) (h : acc + total l < p) :
    firstReach (cumul l acc) p = none := by
  induction l generalizing acc with
  | nil => simp [cumul, firstReach]
  | cons x r ih =>
    obtain ⟨v0, w0⟩ := x
    have hw0 : 0 ≤ w0 := hw (v0, w0) (by simp)
    have hwr : NonNegW r := fun y hy => hw y (by simp [hy])
    simp only [total] at h
    have ht : 0 ≤ total r := by
      have := massLE_le_total hwr 0; have := massLE_nonneg hwr 0; linarith
    have hp : ¬ p ≤ acc + w0 := by linarith
    simp only [cumul, firstReach, hp, if_false]
    exact ih hwr _ (by linarith)

/-! ### the rows `(value, weight)` of two nested lists of values with the same weights -/

theorem massLE_zip_mono {vals vals' wts : List Rat} (h : LE vals vals') (hw : ∀ w ∈ wts, 0 ≤ w) (c : Rat) :
    massLE (vals'.zip wts) c ≤ massLE (vals.zip wts) c := by
  induction h generalizing wts with
  | nil => simp [massLE]
  | @cons a b s t hab _ ih =>
    cases wts with
    | nil => simp [massLE]
    | cons w ws =>
      have hw0 : 0 ≤ w := hw w (by simp)
      have := ih (wts := ws) (fun x hx => hw x (List.mem_cons_of_mem _ hx))
      simp only [List.zip_cons_cons, massLE]
      by_cases hb : b ≤ c
      · have ha : a ≤ c := le_trans hab hb
        simp only [ha, hb, if_true]; linarith
      · simp only [hb, if_false]
        split <;> linarith

theorem total_zip_eq {vals vals' wts : List Rat} (h : LE vals vals') : total (vals'.zip wts) = total (vals.zip wts) := by
  induction h generalizing wts with
  | nil => simp [total]
  | cons _ _ ih =>
    cases wts with
    | nil => simp [total]
    | cons w ws => simp only [List.zip_cons_cons, total, ih]

theorem nonNegW_zip {vals wts : List Rat} (hw : ∀ w ∈ wts, 0 ≤ w) : NonNegW (vals.zip wts) := by
  intro x hx
  exact hw x.2 (List.of_mem_zip hx).2

theorem lastVal_cumul (l : List (Rat × Rat)) (acc : Rat) : lastVal (cumul l acc) = lastVal l := by
  induction l generalizing acc with
  | nil => rfl
  | cons x r ih =>
    obtain ⟨v0, w0⟩ := x
    cases r with
    | nil => simp [cumul, lastVal]
    | cons y r' =>
      obtain ⟨v1, w1⟩ := y
      have := ih (acc + w0)
      simp only [cumul, lastVal] at this ⊢
      exact this

theorem lastVal_ge {l : List (Rat × Rat)} (hs : SortedV l) : ∀ x ∈ l, x.1 ≤ lastVal l := by
  induction l with
  | nil => simp
  | cons x r ih =>
    rw [SortedV, List.pairwise_cons] at hs
    cases r with
    | nil => intro y hy; simp at hy; subst hy; simp [lastVal]
    | cons z r' =>
      intro y hy
      have hz := ih hs.2
      simp only [lastVal]
      rcases List.mem_cons.mp hy with e | hy'
      · subst e; exact le_trans (hs.1 z (by simp)) (hz z (by simp))
      · exact hz y hy'

theorem lastVal_mem {l : List (Rat × Rat)} (hne : l ≠ []) : ∃ x ∈ l, x.1 = lastVal l := by
  induction l with
  | nil => exact absurd rfl hne
  | cons x r ih =>
    cases r with
    | nil => exact ⟨x, by simp, by simp [lastVal]⟩
    | cons z r' =>
      obtain ⟨y, hy, e⟩ := ih (by simp)
      exact ⟨y, by simp [hy], by simpa [lastVal] using e⟩

/-- every row of the narrower list has a row of the wider list with a value at least as large -/
theorem zip_value_dominated {vals vals' wts : List Rat} (h : LE vals vals') :
    ∀ x ∈ vals.zip wts, ∃ y ∈ vals'.zip wts, x.1 ≤ y.1 := by
  induction h generalizing wts with
  | nil => simp
  | @cons a b s t hab _ ih =>
    cases wts with
    | nil => simp
    | cons w ws =>
      intro x hx
      simp only [List.zip_cons_cons, List.mem_cons] at hx
      rcases hx with e | hx
      · subst e; exact ⟨(b, w), by simp, hab⟩
      · obtain ⟨y, hy, hle⟩ := ih x hx
        exact ⟨y, by simp [hy], hle⟩

/-- one level of `stacking` -/
def levelValue (vals wts : List Rat) (p : Rat) : Rat :=
  let sc := cumul (sortPairs (vals.zip wts)) 0
  match firstReach sc p with | some v => v | none => lastVal sc

theorem stackBound_eq (g vals wts : List Rat) : stackBound g vals wts = g.map (levelValue vals wts) := rfl

/-- **the generalised inverse is monotone in the values** (`geninv_antitone` of the design): same weights `≥ 0`,
pointwise larger values, any level `p > 0` -/
theorem levelValue_mono {vals vals' wts : List Rat} (h : LE vals vals') (hw : ∀ w ∈ wts, 0 ≤ w) (p : Rat) (hp : 0 < p) :
    levelValue vals wts p ≤ levelValue vals' wts p := by
  have hs := sortPairs_sorted (vals.zip wts)
  have hs' := sortPairs_sorted (vals'.zip wts)
  have hpm := sortPairs_perm (vals.zip wts)
  have hpm' := sortPairs_perm (vals'.zip wts)
  have nn : NonNegW (sortPairs (vals.zip wts)) := fun x hx => nonNegW_zip hw x (hpm.mem_iff.mp hx)
  have nn' : NonNegW (sortPairs (vals'.zip wts)) := fun x hx => nonNegW_zip hw x (hpm'.mem_iff.mp hx)
  have htot : total (sortPairs (vals'.zip wts)) = total (sortPairs (vals.zip wts)) := by
    rw [total_perm hpm', total_perm hpm, total_zip_eq h]
  unfold levelValue
  simp only
  cases h' : firstReach (cumul (sortPairs (vals'.zip wts)) 0) p with
  | some v' =>
    have hA := firstReach_reaches hs' nn' 0 p v' h'
    rw [massLE_perm hpm'] at hA
    have hA2 : p ≤ massLE (sortPairs (vals.zip wts)) v' := by
      rw [massLE_perm hpm]; have := massLE_zip_mono h hw v'; linarith
    cases h0 : firstReach (cumul (sortPairs (vals.zip wts)) 0) p with
    | some v =>
      simp only
      by_contra hlt
      have := firstReach_minimal hs nn 0 p v hp h0 v' (not_le.mp hlt)
      linarith
    | none =>
      exfalso
      rcases firstReach_none 0 p h0 with hn | hn
      · have := massLE_le_total nn v'; linarith
      · rw [hn] at hA2; simp [massLE] at hA2; linarith
  | none =>
    have h0 : firstReach (cumul (sortPairs (vals.zip wts)) 0) p = none := by
      rcases firstReach_none 0 p h' with hn | hn
      · exact firstReach_none_of_total nn 0 p (by rw [← htot]; exact hn)
      · have : total (sortPairs (vals.zip wts)) = 0 := by rw [← htot, hn]; rfl
        exact firstReach_none_of_total nn 0 p (by rw [this]; simpa using hp)
    simp only [h0, lastVal_cumul]
    by_cases hne : sortPairs (vals.zip wts) = []
    · have e1 : vals.zip wts = [] := by
        have := hpm.length_eq; rw [hne] at this; exact List.length_eq_zero_iff.mp this.symm
      have e2 : vals'.zip wts = [] := by
        have hl : (vals'.zip wts).length = (vals.zip wts).length := by
          simp [List.length_zip, h.length_eq]
        rw [e1] at hl; exact List.length_eq_zero_iff.mp hl
      have e3 : sortPairs (vals'.zip wts) = [] := by
        have hl' : (sortPairs (vals'.zip wts)).length = 0 := by rw [hpm'.length_eq, e2]; rfl
        exact List.length_eq_zero_iff.mp hl'
      rw [hne, e3]
    · obtain ⟨x, hx, ex⟩ := lastVal_mem hne
      obtain ⟨y, hy, hle⟩ := zip_value_dominated (wts := wts) h x (hpm.mem_iff.mp hx)
      rw [← ex]
      exact le_trans hle (lastVal_ge hs' y (hpm'.mem_iff.mpr hy))

theorem stackBound_mono {g vals vals' wts : List Rat} (h : LE vals vals') (hw : ∀ w ∈ wts, 0 ≤ w)
    (hg : ∀ p ∈ g, 0 < p) : LE (stackBound g vals wts) (stackBound g vals' wts) := by
  rw [stackBound_eq, stackBound_eq]
  exact LE_map_of_le g _ _ (fun p hp => levelValue_mono h hw p (hg p hp))

end Pun.Iso
