import Mathlib.Data.List.Sort
import Mathlib.Algebra.Order.Field.Rat
open List
#check @List.getLastD_eq_getLast?
#check @List.getLast?_eq_getElem?
#check @List.getLastD_cons
#check @List.getLast_eq_getElem
#check @List.getLast?_eq_some_getLast
#check @List.headD_eq_head?_getD
#check @List.head?_eq_getElem?
#check @List.rel_reverse
#check @List.Forall₂.flip
example (L : List Rat) (h : L ≠ []) : L.getLastD 0 = L[L.length - 1]'(by have := List.length_pos_iff.mpr h; omega) := by
  rw [List.getLastD_eq_getLast?, List.getLast?_eq_some_getLast h, Option.getD_some, List.getLast_eq_getElem]
