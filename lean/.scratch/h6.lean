import Pun.Lemmas.Hier
import Mathlib.Data.List.Forall2
set_option linter.unusedSimpArgs false
set_option linter.unusedVariables false
namespace Pun.Hier
open Pun Pun.PBox

theorem sortR_perm (l : List Rat) : (sortR l).Perm l := List.mergeSort_perm l _

theorem sortR_sorted (l : List Rat) : (sortR l).Pairwise (· ≤ ·) := by
  have := List.pairwise_mergeSort (le := fun a b : Rat => decide (a ≤ b))
    (fun a b c h1 h2 => by simp at h1 h2 ⊢; exact le_trans h1 h2)
    (fun a b => by simp; exact le_total a b) l
  exact this.imp (fun h => by simpa using h)

/-- sorting any rearrangement of a sorted list gives that list -/
theorem sortR_eq_of_perm (X L : List Rat) (hp : X.Perm L) (hs : L.Pairwise (· ≤ ·)) : sortR X = L :=
  List.Perm.eq_of_pairwise (fun a b _ _ h1 h2 => le_antisymm h1 h2) (sortR_sorted X) hs ((sortR_perm X).trans hp)

theorem focal_add_exact (a b c d : Rat) (hab : a ≤ b) (hcd : c ≤ d) :
    min4 (a+c) (a+d) (b+c) (b+d) = a + c ∧ max4 (a+c) (a+d) (b+c) (b+d) = b + d := by
  unfold min4 max4
  constructor
  · rw [min_eq_left (by linarith : a + c ≤ a + d), min_eq_left (by linarith : a + c ≤ b + c),
      min_eq_left (by linarith : a + c ≤ b + d)]
  · exact max_eq_right (max_le (max_le (by linarith) (by linarith)) (by linarith))

/-- focal sums: with `left ≤ right` step by step the four-corner rule is `left+left`, `right+right` -/
theorem cornerPair_add (xl xr yl yr : List Rat) (hx : List.Forall₂ (· ≤ ·) xl xr)
    (hy : List.Forall₂ (· ≤ ·) yl yr) :
    cornerPair (· + ·) xl xr yl yr = (List.zipWith (· + ·) xl yl, List.zipWith (· + ·) xr yr) := by
  induction hx generalizing yl yr with
  | nil => simp [cornerPair, zip4]
  | @cons a b ta tb hab _ ih =>
    cases hy with
    | nil => simp [cornerPair, zip4]
    | @cons c d tc td hcd htl =>
      have := ih tc td htl
      simp only [cornerPair, List.zipWith_cons_cons, zip4, Prod.mk.injEq] at this ⊢
      obtain ⟨e1, e2⟩ := focal_add_exact a b c d hab hcd
      rw [e1, e2, this.1, this.2]
      exact ⟨rfl, rfl⟩

theorem zipWith_replicate_left (f : Rat → Rat → Rat) (a : Rat) : ∀ (q : List Rat),
    List.zipWith f (List.replicate q.length a) q = q.map (f a)
  | [] => rfl
  | x :: t => by simp [List.replicate_succ, zipWith_replicate_left f a t]

theorem zipWith_replicate_right (f : Rat → Rat → Rat) (a : Rat) : ∀ (q : List Rat),
    List.zipWith f q (List.replicate q.length a) = q.map (f · a)
  | [] => rfl
  | x :: t => by simp [List.replicate_succ, zipWith_replicate_right f a t]

theorem forall₂_replicate (n : Nat) (a b : Rat) (hab : a ≤ b) :
    List.Forall₂ (· ≤ ·) (List.replicate n a) (List.replicate n b) := by
  induction n with
  | zero => exact List.Forall₂.nil
  | succ k ih => exact List.Forall₂.cons hab ih

theorem forall₂_map_add (a b : Rat) (hab : a ≤ b) : ∀ (l r : List Rat), List.Forall₂ (· ≤ ·) l r →
    List.Forall₂ (· ≤ ·) (l.map (a + ·)) (r.map (b + ·))
  | _, _, .nil => List.Forall₂.nil
  | _, _, .cons h t => List.Forall₂.cons (by show a + _ ≤ b + _; linarith) (forall₂_map_add a b hab _ _ t)

theorem pairwise_map_add (a : Rat) (l : List Rat) (h : l.Pairwise (· ≤ ·)) : (l.map (a + ·)).Pairwise (· ≤ ·) :=
  List.Pairwise.map _ (fun x y hxy => by show a + x ≤ a + y; linarith) h

/-- the shifted box is well formed -/
theorem wf_shift (n : Nat) (Q : PB) (hQ : WF n Q) (a b : Rat) (hab : a ≤ b) :
    WF n ⟨Q.left.map (a + ·), Q.right.map (b + ·)⟩ where
  llen := by simp [hQ.llen]
  rlen := by simp [hQ.rlen]
  lsorted := pairwise_map_add a _ hQ.lsorted
  rsorted := pairwise_map_add b _ hQ.rsorted
  le := forall₂_map_add a b hab _ _ hQ.le

/-- **interval + anything (constant on the left)** under Frechet / perfect / opposite: every step of
`Q` is shifted by the interval -/
theorem add_const_left (n : Nat) (dep : Dep) (hd : dep = .f ∨ dep = .p ∨ dep = .o) (a b : Rat) (hab : a ≤ b)
    (Q : PB) (hQ : WF n Q) :
    add n dep (ofIvl n a b) Q = .ok ⟨Q.left.map (a + ·), Q.right.map (b + ·)⟩ := by
  have hw := wf_shift n Q hQ a b hab
  have hl : List.replicate n a = List.replicate Q.left.length a := by rw [hQ.llen]
  have hr : List.replicate n b = List.replicate Q.right.length b := by rw [hQ.rlen]
  rcases hd with h | h | h <;> subst h
  · -- Frechet
    simp only [add, frechetOp, ofIvl]
    rw [hl, hr, frechetLeftRaw_constL (· + ·) a Q.left hQ.lsorted (fun x y h => by linarith),
      frechetRightRaw_constL (· + ·) b Q.right hQ.rsorted (fun x y h => by linarith),
      sortR_of_sorted _ hw.lsorted, sortR_of_sorted _ hw.rsorted]
    exact mk_wf n false _ _ hw
  · -- perfect
    simp only [add, perfectOp, ofIvl]
    rw [cornerPair_add _ _ _ _ (forall₂_replicate n a b hab) hQ.le]
    simp only
    rw [hl, hr, zipWith_replicate_left, zipWith_replicate_left, sortR_of_sorted _ hw.lsorted, sortR_of_sorted _ hw.rsorted]
    exact mk_wf n false _ _ hw
  · -- opposite
    simp only [add, oppositeOp, ofIvl]
    rw [cornerPair_add _ _ _ _ (forall₂_replicate n a b hab) (List.forall₂_reverse_iff.mpr hQ.le)]
    simp only
    have hl' : List.replicate n a = List.replicate Q.left.reverse.length a := by simp [hQ.llen]
    have hr' : List.replicate n b = List.replicate Q.right.reverse.length b := by simp [hQ.rlen]
    rw [hl', hr', zipWith_replicate_left, zipWith_replicate_left,
      sortR_eq_of_perm _ (Q.left.map (a + ·)) ((List.reverse_perm _).map _) hw.lsorted,
      sortR_eq_of_perm _ (Q.right.map (b + ·)) ((List.reverse_perm _).map _) hw.rsorted]
    exact mk_wf n false _ _ hw

theorem map_add_comm (a : Rat) (l : List Rat) : l.map (· + a) = l.map (a + ·) :=
  List.map_congr_left (fun x _ => add_comm x a)

/-- **anything + interval (constant on the right)** under Frechet / perfect / opposite -/
theorem add_const_right (n : Nat) (dep : Dep) (hd : dep = .f ∨ dep = .p ∨ dep = .o) (a b : Rat) (hab : a ≤ b)
    (Q : PB) (hQ : WF n Q) :
    add n dep Q (ofIvl n a b) = .ok ⟨Q.left.map (a + ·), Q.right.map (b + ·)⟩ := by
  have hw := wf_shift n Q hQ a b hab
  have hl : List.replicate n a = List.replicate Q.left.length a := by rw [hQ.llen]
  have hr : List.replicate n b = List.replicate Q.right.length b := by rw [hQ.rlen]
  rcases hd with h | h | h <;> subst h
  · simp only [add, frechetOp, ofIvl]
    rw [hl, hr, frechetLeftRaw_constR (· + ·) a Q.left hQ.lsorted (fun x y h => by linarith),
      frechetRightRaw_constR (· + ·) b Q.right hQ.rsorted (fun x y h => by linarith),
      map_add_comm, map_add_comm, sortR_of_sorted _ hw.lsorted, sortR_of_sorted _ hw.rsorted]
    exact mk_wf n false _ _ hw
  · simp only [add, perfectOp, ofIvl]
    rw [cornerPair_add _ _ _ _ hQ.le (forall₂_replicate n a b hab)]
    simp only
    rw [hl, hr, zipWith_replicate_right, zipWith_replicate_right, map_add_comm, map_add_comm,
      sortR_of_sorted _ hw.lsorted, sortR_of_sorted _ hw.rsorted]
    exact mk_wf n false _ _ hw
  · simp only [add, oppositeOp, ofIvl, List.reverse_replicate]
    rw [cornerPair_add _ _ _ _ hQ.le (forall₂_replicate n a b hab)]
    simp only
    rw [hl, hr, zipWith_replicate_right, zipWith_replicate_right, map_add_comm, map_add_comm,
      sortR_of_sorted _ hw.lsorted, sortR_of_sorted _ hw.rsorted]
    exact mk_wf n false _ _ hw

/-- negation of a well-formed box: bounds exchanged, negated and reversed -/
theorem neg_wf (n : Nat) (Q : PB) (hQ : WF n Q) :
    neg n Q = .ok ⟨(Q.right.map (- ·)).reverse, (Q.left.map (- ·)).reverse⟩ ∧
    WF n ⟨(Q.right.map (- ·)).reverse, (Q.left.map (- ·)).reverse⟩ := by
  have hs : ∀ l : List Rat, l.Pairwise (· ≤ ·) → ((l.map (- ·)).reverse).Pairwise (· ≤ ·) := by
    intro l hl
    rw [List.pairwise_reverse]
    exact List.Pairwise.map _ (fun x y hxy => by show -y ≤ -x; linarith) hl
  have hle : List.Forall₂ (· ≤ ·) ((Q.right.map (- ·)).reverse) ((Q.left.map (- ·)).reverse) := by
    rw [List.forall₂_reverse_iff, List.forall₂_map_left_iff, List.forall₂_map_right_iff]
    exact (List.Forall₂.flip hQ.le).imp (fun x y h => by show -x ≤ -y; linarith)
  have hw : WF n ⟨(Q.right.map (- ·)).reverse, (Q.left.map (- ·)).reverse⟩ :=
    ⟨by simp [hQ.rlen], by simp [hQ.llen], hs _ hQ.rsorted, hs _ hQ.lsorted, hle⟩
  refine ⟨?_, hw⟩
  unfold neg
  rw [← List.map_reverse, ← List.map_reverse] at hw ⊢
  rw [sortR_of_sorted _ hw.lsorted, sortR_of_sorted _ hw.rsorted]
  exact mk_wf n true _ _ hw

end Pun.Hier
