import Pun.Model.EnvImp
import Mathlib.Data.List.Sort
import Mathlib.Data.List.Forall2
import Mathlib.Algebra.Order.Field.Rat
set_option linter.unusedSimpArgs false
set_option linter.unusedVariables false
namespace Pun.EnvImp
open Pun Pun.PBox

/-- pointwise order on bound lists (same length, entry by entry) -/
abbrev PLe (a b : List Rat) : Prop := List.Forall₂ (· ≤ ·) a b

theorem PLe.rfl (a : List Rat) : PLe a a := by
  induction a with
  | nil => exact .nil
  | cons x t ih => exact .cons (le_refl x) ih

theorem PLe.trans {a b c : List Rat} (h1 : PLe a b) (h2 : PLe b c) : PLe a c := by
  induction h1 generalizing c with
  | nil => cases h2; exact .nil
  | cons hab _ ih =>
    cases h2 with
    | cons hbc htl => exact .cons (le_trans hab hbc) (ih htl)

theorem PLe.antisymm {a b : List Rat} (h1 : PLe a b) (h2 : PLe b a) : a = b := by
  induction h1 with
  | nil => rfl
  | cons hab _ ih =>
    cases h2 with
    | cons hba htl => rw [le_antisymm hab hba, ih htl]

theorem zipWith_min_le_left (a b : List Rat) (h : a.length = b.length) : PLe (List.zipWith min a b) a := by
  induction a generalizing b with
  | nil => simp
  | cons x t ih =>
    cases b with
    | nil => simp at h
    | cons y u => exact .cons (min_le_left x y) (ih u (by simpa using h))

theorem zipWith_min_le_right (a b : List Rat) (h : a.length = b.length) : PLe (List.zipWith min a b) b := by
  induction a generalizing b with
  | nil => cases b with
    | nil => simp
    | cons _ _ => simp at h
  | cons x t ih =>
    cases b with
    | nil => simp at h
    | cons y u => exact .cons (min_le_right x y) (ih u (by simpa using h))

theorem le_zipWith_min {c a b : List Rat} (h1 : PLe c a) (h2 : PLe c b) : PLe c (List.zipWith min a b) := by
  induction h1 generalizing b with
  | nil => cases h2; exact .nil
  | cons hca _ ih =>
    cases h2 with
    | cons hcb htl => exact .cons (le_min hca hcb) (ih htl)

theorem left_le_zipWith_max (a b : List Rat) (h : a.length = b.length) : PLe a (List.zipWith max a b) := by
  induction a generalizing b with
  | nil => simp
  | cons x t ih =>
    cases b with
    | nil => simp at h
    | cons y u => exact .cons (le_max_left x y) (ih u (by simpa using h))

theorem right_le_zipWith_max (a b : List Rat) (h : a.length = b.length) : PLe b (List.zipWith max a b) := by
  induction a generalizing b with
  | nil => cases b with
    | nil => simp
    | cons _ _ => simp at h
  | cons x t ih =>
    cases b with
    | nil => simp at h
    | cons y u => exact .cons (le_max_right x y) (ih u (by simpa using h))

theorem zipWith_max_le {a b c : List Rat} (h1 : PLe a c) (h2 : PLe b c) : PLe (List.zipWith max a b) c := by
  induction h1 generalizing b with
  | nil => cases h2; exact .nil
  | cons hac _ ih =>
    cases h2 with
    | cons hbc htl => exact .cons (max_le hac hbc) (ih htl)

theorem zipWith_min_sorted (a b : List Rat) (sa : a.Pairwise (· ≤ ·)) (sb : b.Pairwise (· ≤ ·)) :
    (List.zipWith min a b).Pairwise (· ≤ ·) := by
  rw [List.pairwise_iff_getElem]
  intro i j hi hj hij
  simp only [List.length_zipWith, lt_min_iff] at hi hj
  simp only [List.getElem_zipWith]
  exact min_le_min ((List.pairwise_iff_getElem.mp sa) i j hi.1 hj.1 hij)
    ((List.pairwise_iff_getElem.mp sb) i j hi.2 hj.2 hij)

theorem zipWith_max_sorted (a b : List Rat) (sa : a.Pairwise (· ≤ ·)) (sb : b.Pairwise (· ≤ ·)) :
    (List.zipWith max a b).Pairwise (· ≤ ·) := by
  rw [List.pairwise_iff_getElem]
  intro i j hi hj hij
  simp only [List.length_zipWith, lt_min_iff] at hi hj
  simp only [List.getElem_zipWith]
  exact max_le_max ((List.pairwise_iff_getElem.mp sa) i j hi.1 hj.1 hij)
    ((List.pairwise_iff_getElem.mp sb) i j hi.2 hj.2 hij)

theorem zipWith_min_self (a : List Rat) : List.zipWith min a a = a := by
  induction a with
  | nil => rfl
  | cons x t ih => simp [ih]

theorem zipWith_max_self (a : List Rat) : List.zipWith max a a = a := by
  induction a with
  | nil => rfl
  | cons x t ih => simp [ih]

/-! ## the constructor accepts well-formed bounds unchanged -/

theorem isIncreasing_of_sorted (l : List Rat) (h : l.Pairwise (· ≤ ·)) : isIncreasing l = true := by
  induction l with
  | nil => rfl
  | cons a t ih =>
    cases t with
    | nil => rfl
    | cons b u =>
      rw [List.pairwise_cons] at h
      simp only [isIncreasing, Bool.and_eq_true, decide_eq_true_eq]
      exact ⟨h.1 b (by simp), ih h.2⟩

theorem allGe_eq {l r : List Rat} (hle : PLe l r) (hge : allGe l r = true) : l = r := by
  induction hle with
  | nil => rfl
  | @cons a b ta tb hab _ ih =>
    simp only [allGe, List.zip_cons_cons, List.all_cons, Bool.and_eq_true, decide_eq_true_eq] at hge
    rw [le_antisymm hab hge.1, ih (by simpa [allGe] using hge.2)]

theorem lexGe_eq {l r : List Rat} (hle : PLe l r) (hge : lexGe l r = true) : l = r := by
  induction hle with
  | nil => rfl
  | @cons a b ta tb hab _ ih =>
    unfold lexGe at hge
    have h1 : ¬ a > b := not_lt.mpr hab
    simp only [h1, if_false] at hge
    by_cases h2 : a < b
    · simp [h2] at hge
    · simp only [h2, if_false] at hge
      rw [le_antisymm hab (not_lt.mp h2), ih hge]

theorem mk_ok (n : Nat) (lists : Bool) (l r : List Rat) (hl : l.length = n) (hr : r.length = n)
    (sl : l.Pairwise (· ≤ ·)) (sr : r.Pairwise (· ≤ ·)) (hle : PLe l r) :
    mk n lists l r = .ok ⟨l, r⟩ := by
  have hlen : l.length = r.length := by omega
  have il := isIncreasing_of_sorted l sl
  have ir := isIncreasing_of_sorted r sr
  cases lists with
  | true =>
    by_cases hge : lexGe l r = true
    · have e := lexGe_eq hle hge
      subst e
      simp [mk, hge, boundSteps, hl, il, bind, Except.bind]
    · simp [mk, hge, boundSteps, hl, hr, il, ir, bind, Except.bind]
  | false =>
    by_cases hge : allGe l r = true
    · have e := allGe_eq hle hge
      subst e
      simp [mk, hge, boundSteps, hl, il, bind, Except.bind]
    · simp [mk, hlen, hge, boundSteps, hl, hr, il, ir, bind, Except.bind]

end Pun.EnvImp
