import Pun.Lemmas.Iso
import Pun.Props.C01
set_option linter.unusedSimpArgs false
set_option linter.unusedVariables false
namespace Pun.Iso
open Pun Pun.Arith

/-! ## nested interval expressions -/

/-- exact arithmetic on reals -/
def ap : BinOp → Rat → Rat → Rat
  | .add, x, y => x + y
  | .sub, x, y => x - y
  | .mul, x, y => x * y
  | .div, x, y => x / y

/-- the set an operand stands for -/
def Mem (x : Rat) : Opd → Prop
  | .N c => x = c
  | .I a b => a ≤ x ∧ x ≤ b
  | _ => False

def Valid : Opd → Prop
  | .N _ => True
  | .I a b => a ≤ b
  | _ => False

def isN : Opd → Bool
  | .N _ => true
  | _ => false

/-- containment of values: equal numbers, nested intervals -/
def VSub : Opd → Opd → Prop
  | .N c, .N c' => c = c'
  | .I a b, .I a' b' => a' ≤ a ∧ b ≤ b'
  | _, _ => False

/-- `v` is the exact image of `x × y` under `op`: sound, and its endpoints are attained -/
structure ExactImg (op : BinOp) (x y v : Opd) : Prop where
  valid : Valid v
  kind : isN v = (isN x && isN y)
  sound : ∀ p q, Mem p x → Mem q y → Mem (ap op p q) v
  lo : ∀ a b, v = .I a b → ∃ p q, Mem p x ∧ Mem q y ∧ ap op p q = a
  hi : ∀ a b, v = .I a b → ∃ p q, Mem p x ∧ Mem q y ∧ ap op p q = b
  pt : ∀ c, v = .N c → ∃ p q, Mem p x ∧ Mem q y ∧ ap op p q = c

theorem binop_II_add (a b c d : Rat) (h1 : a ≤ b) (h2 : c ≤ d) :
    binop .add (.I a b) (.I c d) = .ok (.I (a + c) (b + d)) := by
  have : a + c ≤ b + d := by linarith
  simp [binop, opdIV, forward, bzip, bshape, bget, IV.ofI, mkIV, bind, Except.bind, this, pure, Except.pure]

theorem binop_II_sub (a b c d : Rat) (h1 : a ≤ b) (h2 : c ≤ d) :
    binop .sub (.I a b) (.I c d) = .ok (.I (a - d) (b - c)) := by
  have : a - d ≤ b - c := by linarith
  simp [binop, opdIV, forward, bzip, bshape, bget, IV.ofI, mkIV, bind, Except.bind, this, pure, Except.pure]

theorem binop_II_mul (a b c d : Rat) (h1 : a ≤ b) (h2 : c ≤ d) :
    binop .mul (.I a b) (.I c d) =
      .ok (.I (min4 (a*c) (a*d) (b*c) (b*d)) (max4 (a*c) (a*d) (b*c) (b*d))) := by
  have hv : min4 (a*c) (a*d) (b*c) (b*d) ≤ max4 (a*c) (a*d) (b*c) (b*d) := by
    have := mul_hull a b c d a c (le_refl _) h1 (le_refl _) h2
    exact le_trans this.1 this.2
  simp [binop, opdIV, forward, multiply, IV.scalar, bshape, IV.ofI, mulTable_exact a b c d h1 h2, finishTable, mkIV,
    bind, Except.bind, hv, pure, Except.pure]

theorem binop_II_div_zero (a b c d : Rat) (hz : c ≤ 0 ∧ 0 ≤ d) :
    binop .div (.I a b) (.I c d) = .error .ZeroDivision := by
  simp [binop, opdIV, forward, divide, straddles, IV.ofI, hz.1, hz.2, bind, Except.bind]

theorem binop_II_div (a b c d : Rat) (h1 : a ≤ b) (h2 : c ≤ d) (h0 : 0 < c ∨ d < 0) :
    ∃ l h, binop .div (.I a b) (.I c d) = .ok (.I l h) ∧ l ≤ h ∧
      (∀ x y, a ≤ x → x ≤ b → c ≤ y → y ≤ d → l ≤ x / y ∧ x / y ≤ h) ∧
      (∃ x y, a ≤ x ∧ x ≤ b ∧ c ≤ y ∧ y ≤ d ∧ x / y = l) ∧
      (∃ x y, a ≤ x ∧ x ≤ b ∧ c ≤ y ∧ y ≤ d ∧ x / y = h) := by
  obtain ⟨l, h, htab, hs, hl, hh⟩ := divTable_sound a b c d h1 h2 h0
  have hv : l ≤ h := by
    have := hs a c (le_refl _) h1 (le_refl _) h2
    exact le_trans this.1 this.2
  refine ⟨l, h, ?_, hv, hs, hl, hh⟩
  have hst : ¬ (c ≤ 0 ∧ 0 ≤ d) := by
    rintro ⟨p, q⟩; rcases h0 with h | h <;> linarith
  have hst' : (decide (c ≤ 0) && decide (0 ≤ d)) = false := by
    simp only [Bool.and_eq_false_iff, decide_eq_false_iff_not]
    by_cases hc : c ≤ 0
    · right; exact fun hd => hst ⟨hc, hd⟩
    · left; exact hc
  simp [binop, opdIV, forward, divide, straddles, IV.ofI, IV.scalar, bshape, hst', htab, unopt, finishTable, mkIV, hv,
    bind, Except.bind, pure, Except.pure]

/-- Interval with Interval -/
theorem spec_II (op : BinOp) (a b c d : Rat) (h1 : a ≤ b) (h2 : c ≤ d) (v : Opd)
    (h : ibin op (.I a b) (.I c d) = .ok v) : ExactImg op (.I a b) (.I c d) v := by
  have e : ibin op (.I a b) (.I c d) = binop op (.I a b) (.I c d) := rfl
  rw [e] at h
  cases op with
  | add =>
    rw [binop_II_add a b c d h1 h2] at h
    cases h
    exact ⟨by simp [Valid]; linarith, rfl,
      fun p q hp hq => by simp only [Mem, ap] at *; constructor <;> linarith,
      fun x y hxy => by cases hxy; exact ⟨a, c, ⟨le_refl _, h1⟩, ⟨le_refl _, h2⟩, rfl⟩,
      fun x y hxy => by cases hxy; exact ⟨b, d, ⟨h1, le_refl _⟩, ⟨h2, le_refl _⟩, rfl⟩,
      fun c' hc => by cases hc⟩
  | sub =>
    rw [binop_II_sub a b c d h1 h2] at h
    cases h
    exact ⟨by simp [Valid]; linarith, rfl,
      fun p q hp hq => by simp only [Mem, ap] at *; constructor <;> linarith,
      fun x y hxy => by cases hxy; exact ⟨a, d, ⟨le_refl _, h1⟩, ⟨h2, le_refl _⟩, rfl⟩,
      fun x y hxy => by cases hxy; exact ⟨b, c, ⟨h1, le_refl _⟩, ⟨le_refl _, h2⟩, rfl⟩,
      fun c' hc => by cases hc⟩
  | mul =>
    obtain ⟨l, hh, htab, hs, hlo, hhi⟩ := mul_exact_image a b c d h1 h2
    rw [mulTable_exact a b c d h1 h2] at htab
    have e1 : min4 (a*c) (a*d) (b*c) (b*d) = l := congrArg Prod.fst (Option.some.inj htab)
    have e2 : max4 (a*c) (a*d) (b*c) (b*d) = hh := congrArg Prod.snd (Option.some.inj htab)
    rw [binop_II_mul a b c d h1 h2, e1, e2] at h
    cases h
    have hv : l ≤ hh := by have := hs a c (le_refl _) h1 (le_refl _) h2; exact le_trans this.1 this.2
    exact ⟨hv, rfl, fun p q hp hq => hs p q hp.1 hp.2 hq.1 hq.2,
      fun x y hxy => by
        cases hxy; obtain ⟨p, q, k1, k2, k3, k4, k5⟩ := hlo; exact ⟨p, q, ⟨k1, k2⟩, ⟨k3, k4⟩, k5⟩,
      fun x y hxy => by
        cases hxy; obtain ⟨p, q, k1, k2, k3, k4, k5⟩ := hhi; exact ⟨p, q, ⟨k1, k2⟩, ⟨k3, k4⟩, k5⟩,
      fun c' hc => by cases hc⟩
  | div =>
    by_cases hz : c ≤ 0 ∧ 0 ≤ d
    · rw [binop_II_div_zero a b c d hz] at h; cases h
    · have h0 : 0 < c ∨ d < 0 := by
        by_contra hn
        simp only [not_or, not_lt] at hn
        exact hz hn
      obtain ⟨l, hh, e', hv, hs, hlo, hhi⟩ := binop_II_div a b c d h1 h2 h0
      rw [e'] at h
      cases h
      exact ⟨hv, rfl, fun p q hp hq => hs p q hp.1 hp.2 hq.1 hq.2,
        fun x y hxy => by
          cases hxy; obtain ⟨p, q, k1, k2, k3, k4, k5⟩ := hlo; exact ⟨p, q, ⟨k1, k2⟩, ⟨k3, k4⟩, k5⟩,
        fun x y hxy => by
          cases hxy; obtain ⟨p, q, k1, k2, k3, k4, k5⟩ := hhi; exact ⟨p, q, ⟨k1, k2⟩, ⟨k3, k4⟩, k5⟩,
        fun c' hc => by cases hc⟩

theorem exactImg_num (op : BinOp) (x y : Rat) : ExactImg op (.N x) (.N y) (.N (ap op x y)) := by
  refine ⟨trivial, rfl, ?_, ?_, ?_, ?_⟩
  · intro p q hp hq
    simp only [Mem] at *
    subst hp; subst hq; rfl
  · intro a b e; cases e
  · intro a b e; cases e
  · intro c e
    cases e
    exact ⟨x, y, rfl, rfl, rfl⟩

/-- number with number -/
theorem spec_NN (op : BinOp) (x y : Rat) (v : Opd) (h : ibin op (.N x) (.N y) = .ok v) :
    ExactImg op (.N x) (.N y) v := by
  simp only [ibin, numBin] at h
  cases op with
  | add => cases h; exact exactImg_num .add x y
  | sub => cases h; exact exactImg_num .sub x y
  | mul => cases h; exact exactImg_num .mul x y
  | div =>
    simp only at h
    split at h
    · cases h
    · cases h; exact exactImg_num .div x y

end Pun.Iso
