import Pun.Model.WellFormed
open Pun Pun.PBox List
example (n : Nat) (x y P : PB) (h : negativeFrechet n x y = .ok P) : True := by
  unfold negativeFrechet at h
  split at h
  · by_cases hx0 : PBox.hi x ≤ 0
    · by_cases hy0 : PBox.hi y ≤ 0
      · simp only [hx0, hy0, if_true, decide_true, Bool.xor_self, Bool.false_eq_true, if_false] at h
        trace_state
        trivial
      · simp only [hx0, hy0, if_true, if_false, decide_true, decide_false, Bool.xor_false, pure_bind] at h
        trace_state
        trivial
    · trivial
  · trivial
