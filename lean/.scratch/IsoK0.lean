import Pun.Lemmas.Iso
import Pun.Props.C01
set_option linter.unusedSimpArgs false
set_option linter.unusedVariables false
namespace Pun.Iso
open Pun Pun.Arith

theorem binop_II_add (a b c d : Rat) (h1 : a ≤ b) (h2 : c ≤ d) :
    binop .add (.I a b) (.I c d) = .ok (.I (a + c) (b + d)) := by
  have : a + c ≤ b + d := by linarith
  simp [binop, opdIV, forward, bzip, bshape, bget, IV.ofI, mkIV, bind, Except.bind, this, pure, Except.pure]

theorem binop_II_sub (a b c d : Rat) (h1 : a ≤ b) (h2 : c ≤ d) :
    binop .sub (.I a b) (.I c d) = .ok (.I (a - d) (b - c)) := by
  have : a - d ≤ b - c := by linarith
  simp [binop, opdIV, forward, bzip, bshape, bget, IV.ofI, mkIV, bind, Except.bind, this, pure, Except.pure]

theorem binop_II_mul (a b c d : Rat) (h1 : a ≤ b) (h2 : c ≤ d) :
    binop .mul (.I a b) (.I c d) =
      .ok (.I (min4 (a*c) (a*d) (b*c) (b*d)) (max4 (a*c) (a*d) (b*c) (b*d))) := by
  have hv : min4 (a*c) (a*d) (b*c) (b*d) ≤ max4 (a*c) (a*d) (b*c) (b*d) := by
    have := mul_hull a b c d a c (le_refl _) h1 (le_refl _) h2
    exact le_trans this.1 this.2
  simp [binop, opdIV, forward, multiply, IV.scalar, bshape, IV.ofI, mulTable_exact a b c d h1 h2, finishTable, mkIV,
    bind, Except.bind, hv, pure, Except.pure]

theorem binop_II_div (a b c d : Rat) (h1 : a ≤ b) (h2 : c ≤ d) :
    binop .div (.I a b) (.I c d) =
      if c ≤ 0 ∧ 0 ≤ d then .error .ZeroDivision else
      match divTable a b c d with
      | some (some (l, h)) => if l ≤ h then .ok (.I l h) else .error .Assertion
      | _ => .error .Other := by
  by_cases hz : c ≤ 0 ∧ 0 ≤ d
  · simp [binop, opdIV, forward, divide, straddles, IV.ofI, hz.1, hz.2, bind, Except.bind]
  · have hz' : ¬ (c ≤ 0 ∧ d ≥ 0) := hz
    simp only [hz, if_false]
    simp only [binop, opdIV, forward, divide, straddles, IV.ofI, List.zip_cons_cons, List.zip_nil_right, List.any_cons,
      List.any_nil, Bool.or_false, Bool.and_eq_true, decide_eq_true_eq, ge_iff_le, hz, if_false, bind, Except.bind]
    sorry

end Pun.Iso
