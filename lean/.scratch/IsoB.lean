import Pun.Lemmas.Iso
import Pun.Lemmas.Hull
set_option linter.unusedSimpArgs false
set_option linter.unusedVariables false
namespace Pun.Iso
open Pun List Pun.PBox

/-- `P ⊑ Q`: `Q` contains `P` (lower left bound, higher right bound, step by step) -/
def PSub (P Q : PB) : Prop := LE Q.left P.left ∧ LE P.right Q.right

theorem pbSub_iff (P Q : PB) : pbSub P Q = true ↔ PSub P Q := by
  simp [pbSub, PSub, leL_iff]

theorem PSub.refl (P : PB) : PSub P P := ⟨LE.refl _, LE.refl _⟩
theorem PSub.trans {P Q R : PB} (h1 : PSub P Q) (h2 : PSub Q R) : PSub P R :=
  ⟨LE.trans h2.1 h1.1, LE.trans h1.2 h2.2⟩

/-- the same for the raw `(left, right)` pairs returned by the combination rules -/
def PairSub (p q : List Rat × List Rat) : Prop := LE q.1 p.1 ∧ LE p.2 q.2

theorem LE_map_of_le {α : Type} (l : List α) (f g : α → Rat) (h : ∀ x ∈ l, f x ≤ g x) :
    LE (l.map f) (l.map g) := by
  induction l with
  | nil => exact List.Forall₂.nil
  | cons a t ih =>
    exact List.Forall₂.cons (h a (by simp)) (ih (fun x hx => h x (by simp [hx])))

/-- an operation monotone in both arguments -/
def Mono2 (op : Rat → Rat → Rat) : Prop := ∀ p p' q q', p ≤ p' → q ≤ q' → op p q ≤ op p' q'

theorem frechetLeftRaw_mono (op : Rat → Rat → Rat) (hop : Mono2 op) {a a' b b' : List Rat}
    (ha : LE a a') (hb : LE b b') : LE (frechetLeftRaw op a b) (frechetLeftRaw op a' b') := by
  unfold frechetLeftRaw
  rw [← ha.length_eq]
  apply LE_map_of_le
  intro i _
  exact maxL_mono (LE.zipWith hop (ha.take _) (hb.take _).reverse) 0

theorem frechetRightRaw_mono (op : Rat → Rat → Rat) (hop : Mono2 op) {a a' b b' : List Rat}
    (ha : LE a a') (hb : LE b b') : LE (frechetRightRaw op a b) (frechetRightRaw op a' b') := by
  unfold frechetRightRaw
  rw [← ha.length_eq]
  apply LE_map_of_le
  intro i _
  exact minL_mono (LE.zipWith hop (ha.drop _) (hb.drop _).reverse) 0

/-- **Frechet rule is isotone** for every operation monotone in both arguments (no well-formedness needed) -/
theorem iso_frechetOp (op : Rat → Rat → Rat) (hop : Mono2 op) {X X' Y Y' : PB}
    (hX : PSub X X') (hY : PSub Y Y') : PairSub (frechetOp op X Y) (frechetOp op X' Y') :=
  ⟨sortR_mono (frechetLeftRaw_mono op hop hX.1 hY.1), sortR_mono (frechetRightRaw_mono op hop hX.2 hY.2)⟩

/-! ### four-corner rules -/

/-- the corner hull of `op` on two intervals encloses every pointwise value: the property of an interval operation -/
def Hull (op : Rat → Rat → Rat) : Prop :=
  ∀ a b c d x y, a ≤ x → x ≤ b → c ≤ y → y ≤ d →
    min4 (op a c) (op a d) (op b c) (op b d) ≤ op x y ∧ op x y ≤ max4 (op a c) (op a d) (op b c) (op b d)

theorem min4_eq_arith (a b c d : Rat) : min4 a b c d = Arith.min4 a b c d := by
  unfold min4 Arith.min4; rw [min_assoc (min a b) c d]

theorem max4_eq_arith (a b c d : Rat) : max4 a b c d = Arith.max4 a b c d := by
  unfold max4 Arith.max4; rw [max_assoc (max a b) c d]

theorem hull_mul : Hull (· * ·) := by
  intro a b c d x y h1 h2 h3 h4
  rw [min4_eq_arith, max4_eq_arith]
  exact Arith.mul_hull a b c d x y h1 h2 h3 h4

theorem hull_add : Hull (· + ·) := by
  intro a b c d x y h1 h2 h3 h4
  simp only [min4, max4, min_le_iff, le_max_iff]
  exact ⟨Or.inl (Or.inl (Or.inl (by linarith))), Or.inr (by linarith)⟩

theorem hull_sub : Hull (· - ·) := by
  intro a b c d x y h1 h2 h3 h4
  simp only [min4, max4, min_le_iff, le_max_iff]
  exact ⟨Or.inl (Or.inl (Or.inr (by linarith))), Or.inl (Or.inr (by linarith))⟩

/-- one focal pair: the corner hull of nested operands is nested -/
theorem corner_iso (op : Rat → Rat → Rat) (hop : Hull op) (a b c d a' b' c' d' : Rat)
    (hab : a ≤ b) (hcd : c ≤ d) (ha : a' ≤ a) (hb : b ≤ b') (hc : c' ≤ c) (hd : d ≤ d') :
    min4 (op a' c') (op a' d') (op b' c') (op b' d') ≤ min4 (op a c) (op a d) (op b c) (op b d) ∧
    max4 (op a c) (op a d) (op b c) (op b d) ≤ max4 (op a' c') (op a' d') (op b' c') (op b' d') := by
  have k : ∀ x y, a ≤ x → x ≤ b → c ≤ y → y ≤ d → _ := fun x y h1 h2 h3 h4 =>
    hop a' b' c' d' x y (le_trans ha h1) (le_trans h2 hb) (le_trans hc h3) (le_trans h4 hd)
  have ll := k a c (le_refl _) hab (le_refl _) hcd
  have lh := k a d (le_refl _) hab hcd (le_refl _)
  have hl := k b c hab (le_refl _) (le_refl _) hcd
  have hh := k b d hab (le_refl _) hcd (le_refl _)
  constructor
  · simp only [min4, le_min_iff] at *; exact ⟨⟨⟨ll.1, lh.1⟩, hl.1⟩, hh.1⟩
  · simp only [max4, max_le_iff] at *; exact ⟨⟨⟨ll.2, lh.2⟩, hl.2⟩, hh.2⟩

theorem corner_valid (op : Rat → Rat → Rat) (a b c d : Rat) :
    min4 (op a c) (op a d) (op b c) (op b d) ≤ max4 (op a c) (op a d) (op b c) (op b d) := by
  simp only [min4, max4]
  exact le_trans (min_le_left _ _) (le_trans (min_le_left _ _) (le_trans (min_le_left _ _)
    (le_trans (le_max_left _ _) (le_trans (le_max_left _ _) (le_max_left _ _)))))

/-- `cornerPair` on nested operands (the inner ones valid: `left ≤ right` step by step) -/
theorem cornerPair_iso (op : Rat → Rat → Rat) (hop : Hull op)
    {xl xr yl yr xl' xr' yl' yr' : List Rat}
    (hx : LE xl xr) (hy : LE yl yr) (hxl : LE xl' xl) (hxr : LE xr xr') (hyl : LE yl' yl) (hyr : LE yr yr') :
    PairSub (cornerPair op xl xr yl yr) (cornerPair op xl' xr' yl' yr') := by
  induction hx generalizing yl yr xl' xr' yl' yr' with
  | nil =>
    cases hxl; cases hxr
    simp [cornerPair, zip4, PairSub]
  | @cons a b ta tb hab _ ih =>
    cases hxl with
    | @cons a' _ ta' _ haa hta =>
    cases hxr with
    | @cons _ b' _ tb' hbb htb =>
    cases hy with
    | nil =>
      cases hyl; cases hyr
      simp [cornerPair, zip4, PairSub]
    | @cons c d tc td hcd htcd =>
      cases hyl with
      | @cons c' _ tc' _ hcc htc =>
      cases hyr with
      | @cons _ d' _ td' hdd htd =>
      have := ih htcd hta htb htc htd
      obtain ⟨k1, k2⟩ := corner_iso op hop a b c d a' b' c' d' hab hcd haa hbb hcc hdd
      simp only [cornerPair, PairSub, List.zipWith_cons_cons, zip4] at this ⊢
      exact ⟨List.Forall₂.cons k1 this.1, List.Forall₂.cons k2 this.2⟩

/-- the two lists of `cornerPair` are ordered step by step -/
theorem cornerPair_valid (op : Rat → Rat → Rat) (xl xr yl yr : List Rat) :
    LE (cornerPair op xl xr yl yr).1 (cornerPair op xl xr yl yr).2 := by
  induction xl generalizing xr yl yr with
  | nil => simp [cornerPair, zip4]
  | cons a ta ih =>
    cases xr with
    | nil => simp [cornerPair, zip4]
    | cons b tb =>
      cases yl with
      | nil => simp [cornerPair, zip4]
      | cons c tc =>
        cases yr with
        | nil => simp [cornerPair, zip4]
        | cons d td =>
          have := ih tb tc td
          simp only [cornerPair, List.zipWith_cons_cons, zip4] at this ⊢
          exact List.Forall₂.cons (corner_valid op a b c d) this

/-- **perfect rule is isotone** -/
theorem iso_perfectOp (op : Rat → Rat → Rat) (hop : Hull op) {X X' Y Y' : PB}
    (vX : LE X.left X.right) (vY : LE Y.left Y.right) (hX : PSub X X') (hY : PSub Y Y') :
    PairSub (perfectOp op X Y) (perfectOp op X' Y') := by
  have := cornerPair_iso op hop vX vY hX.1 hX.2 hY.1 hY.2
  exact ⟨sortR_mono this.1, sortR_mono this.2⟩

/-- **opposite rule is isotone** -/
theorem iso_oppositeOp (op : Rat → Rat → Rat) (hop : Hull op) {X X' Y Y' : PB}
    (vX : LE X.left X.right) (vY : LE Y.left Y.right) (hX : PSub X X') (hY : PSub Y Y') :
    PairSub (oppositeOp op X Y) (oppositeOp op X' Y') := by
  have := cornerPair_iso op hop vX vY.reverse hX.1 hX.2 hY.1.reverse hY.2.reverse
  exact ⟨sortR_mono this.1, sortR_mono this.2⟩

end Pun.Iso
