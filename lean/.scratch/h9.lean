import Pun.Props.C07
set_option linter.unusedSimpArgs false
set_option linter.unusedVariables false
namespace Pun.Hier
open Pun Pun.PBox

/-! ## ★ the dispatch graph and "convert every operand first" -/

/-- the dispatch of `l op r` by operand kinds is the finite table `route` -/
theorem evalOp_route (n : Nat) (d : Dep) (o : Op) (l r : Opd) :
    evalOp n d o l r =
      match route l.kind o r.kind with
      | .native => lowOp o l r
      | .interval => lowOp o l r
      | .pboxRefl => (convertPbox n r >>= fun p => reflected n o d l p >>= fun z => pure (.pbox z))
      | .pboxFwd => (convertPbox n l >>= fun p => method n o d p r >>= fun z => pure (.pbox z)) := by
  cases l <;> cases r <;> rfl

/-- every pair with at least one p-box-like operand is routed through a p-box method; only
number / interval pairs stay in the simpler calculus -/
theorem route_total (l r : Kind) (o : Op) :
    (route l o r = .pboxFwd ↔ isLow l = false) ∧
    (route l o r = .pboxRefl ↔ (isLow l = true ∧ isLow r = false)) ∧
    (route l o r = .native ↔ (l = .num ∧ r = .num)) := by
  cases l <;> cases r <;> cases o <;> decide

/-- operands the library can build: ordered interval, well-formed bounds, sorted quantile list -/
def ValidOpd (n : Nat) : Opd → Prop
  | .num _ => True
  | .ivl a b => a ≤ b
  | .pbox p => WF n p
  | .dist q => q.length = n ∧ q.Pairwise (· ≤ ·)
  | .dss p => WF n p

def isHigh : Opd → Bool
  | .pbox _ => true | .dist _ => true | .dss _ => true | _ => false

theorem convert_high (n : Nat) (l : Opd) (hl : isHigh l = true) :
    ∃ P, convertPbox n l = .ok P ∧ convert n l = .ok P := by
  cases l with
  | num c => simp [isHigh] at hl
  | ivl a b => simp [isHigh] at hl
  | pbox p => exact ⟨p, rfl, rfl⟩
  | dist q => exact ⟨ofDist q, rfl, rfl⟩
  | dss p => exact ⟨p, rfl, rfl⟩

theorem convert_high_wf (n : Nat) (l : Opd) (hl : isHigh l = true) (hv : ValidOpd n l) :
    ∃ P, convertPbox n l = .ok P ∧ convert n l = .ok P ∧ WF n P := by
  cases l with
  | num c => simp [isHigh] at hl
  | ivl a b => simp [isHigh] at hl
  | pbox p => exact ⟨p, rfl, rfl, hv⟩
  | dist q => exact ⟨ofDist q, rfl, rfl, by obtain ⟨h1, h2⟩ := hv; subst h1; exact wf_ofDist q h2⟩
  | dss p => exact ⟨p, rfl, rfl, hv⟩

/-- `P.<op>(Y)` for a p-box-like `Y` is the p-box operation on the converted `Y` -/
theorem method_high (n : Nat) (d : Dep) (o : Op) (P : PB) (r : Opd) (hr : isHigh r = true) (Y z : PB)
    (hY : convertPbox n r = .ok Y) (h : binop n o d P Y = .ok z) : method n o d P r = .ok z := by
  have hnn : ∀ c, r ≠ .num c := by intro c e; subst e; simp [isHigh] at hr
  have hneg : negOpd n r = (neg n Y >>= fun t => pure (.pbox t)) := by
    cases r with
    | num c => simp [isHigh] at hr
    | ivl a b => simp [isHigh] at hr
    | pbox p => simp only [convertPbox] at hY; injection hY with hY; subst hY; rfl
    | dist q => simp only [convertPbox] at hY; injection hY with hY; subst hY; rfl
    | dss p => simp only [convertPbox] at hY; injection hY with hY; subst hY; rfl
  have hone : oneOver n r = (oneOverPB n Y >>= fun t => pure (.pbox t)) := by
    cases r with
    | num c => simp [isHigh] at hr
    | ivl a b => simp [isHigh] at hr
    | pbox p => simp only [convertPbox] at hY; injection hY with hY; subst hY; rfl
    | dist q => simp only [convertPbox] at hY; injection hY with hY; subst hY; rfl
    | dss p => simp only [convertPbox] at hY; injection hY with hY; subst hY; rfl
  have hadd : ∀ dd, pboxAdd n dd P r = add n dd P Y := by
    intro dd
    cases r with
    | num c => simp [isHigh] at hr
    | ivl a b => simp [isHigh] at hr
    | pbox p => simp only [pboxAdd, hY, ok_bind]
    | dist q => simp only [pboxAdd, hY, ok_bind]
    | dss p => simp only [pboxAdd, hY, ok_bind]
  have hmul : ∀ dd, pboxMul n dd P r = mul n dd P Y := by
    intro dd
    cases r with
    | num c => simp [isHigh] at hr
    | ivl a b => simp [isHigh] at hr
    | pbox p => simp only [pboxMul, hY, ok_bind]
    | dist q => simp only [pboxMul, hY, ok_bind]
    | dss p => simp only [pboxMul, hY, ok_bind]
  cases o with
  | add => simp only [method, hadd]; exact h
  | mul => simp only [method, hmul]; exact h
  | sub =>
    simp only [binop, PBox.sub] at h
    simp only [method, pboxSub, hneg]
    cases hn : neg n Y with
    | error e => rw [hn] at h; cases h
    | ok ny =>
      rw [hn, ok_bind] at h
      simp only [ok_bind, pure, Except.pure, pboxAdd, convertPbox]
      exact h
  | div =>
    simp only [binop, PBox.div] at h
    simp only [method, pboxDiv, hone, oneOverPB]
    cases hr1 : recip n Y with
    | error e => rw [hr1] at h; cases h
    | ok r1 =>
      rw [hr1, ok_bind] at h
      cases hr2 : numberOp n (· * ·) r1 1 with
      | error e => rw [hr2] at h; cases h
      | ok r2 =>
        rw [hr2, ok_bind] at h
        simp only [ok_bind, hr2, tryType, pure, Except.pure, pboxMul, convertPbox]
        exact h

/-- `P.<op>(Interval)`: the interval is negated / inverted by INTERVAL arithmetic before it is
converted; the result is the p-box operation on the converted interval -/
theorem method_ivl (n : Nat) (hn : 0 < n) (d : Dep) (o : Op) (P : PB) (a b : Rat) (hab : a ≤ b)
    (h0 : o = .div → (0 < a ∨ b < 0)) :
    method n o d P (.ivl a b) = binop n o d P (ofIvl n a b) := by
  cases o with
  | add => simp only [method, pboxAdd, convertPbox, ivlToPbox_eq n a b hn hab, ok_bind, binop]
  | mul => simp only [method, pboxMul, convertPbox, ivlToPbox_eq n a b hn hab, ok_bind, binop]
  | sub =>
    simp only [method, pboxSub, negOpd, ok_bind, pboxAdd, convertPbox, binop, PBox.sub,
      ivlToPbox_eq n (-b) (-a) hn (by linarith), neg_ofIvl n a b hn hab]
  | div =>
    have h0' := h0 rfl
    have hz : ¬ (a ≤ 0 ∧ b ≥ 0) := by rintro ⟨h1, h2⟩; rcases h0' with h | h <;> linarith
    have hle := one_div_anti a b hab h0'
    simp only [method, pboxDiv, oneOver, hz, if_false, ok_bind, pboxMul, convertPbox, binop, PBox.div,
      ivlToPbox_eq n (1/b) (1/a) hn hle, recip_ofIvl n a b hn hab h0', numberOp_ofIvl n _ _ _ _ hn, mul_one,
      min_eq_left hle, max_eq_right hle]

/-- `P / Interval` with zero in the interval raises `ZeroDivisionError` (interval arithmetic rejects it
before any p-box is built) -/
theorem method_div_zero (n : Nat) (d : Dep) (P : PB) (a b : Rat) (hz : a ≤ 0 ∧ 0 ≤ b) :
    method n .div d P (.ivl a b) = .error .ZeroDivision := by
  simp [method, pboxDiv, oneOver, hz.1, hz.2]

/-- **Mixed expression = converted-first expression, left operand p-box-like** (`Pbox op Interval`,
`Pbox op Distribution`, `DSS op Pbox`, `Distribution op DSS`, …, all four operations, any dependency
code): whenever the converted-first expression returns `z`, so does the mixed expression. -/
theorem fwd_agrees (n : Nat) (hn : 0 < n) (d : Dep) (o : Op) (l r : Opd) (hl : isHigh l = true)
    (hr : match r with
      | .num _ => False
      | .ivl a b => a ≤ b ∧ (o = .div → (0 < a ∨ b < 0))
      | _ => True)
    (z : PB) (h : spec n d o l r = .ok z) : evalOp n d o l r = .ok (.pbox z) := by
  obtain ⟨P, hP1, hP2⟩ := convert_high n l hl
  have hev : evalOp n d o l r = (method n o d P r >>= fun t => pure (.pbox t)) := by
    cases l with
    | num c => simp [isHigh] at hl
    | ivl a b => simp [isHigh] at hl
    | pbox p => simp only [convertPbox] at hP1; injection hP1 with e; subst e; cases r <;> rfl
    | dist q => simp only [convertPbox] at hP1; injection hP1 with e; subst e; cases r <;> rfl
    | dss p => simp only [convertPbox] at hP1; injection hP1 with e; subst e; cases r <;> rfl
  rw [hev]
  simp only [spec, hP2, ok_bind] at h
  cases r with
  | num c => exact absurd hr id
  | ivl a b =>
    simp only [convert, convertPbox, ivlToPbox_eq n a b hn hr.1, ok_bind] at h
    rw [method_ivl n hn d o P a b hr.1 hr.2, h]; rfl
  | pbox p =>
    simp only [convert, convertPbox, ok_bind] at h
    rw [method_high n d o P (.pbox p) rfl p z rfl h]; rfl
  | dist q =>
    simp only [convert, convertPbox, ok_bind] at h
    rw [method_high n d o P (.dist q) rfl (ofDist q) z rfl h]; rfl
  | dss p =>
    simp only [convert, convertPbox, ok_bind] at h
    rw [method_high n d o P (.dss p) rfl p z rfl h]; rfl

/-- **`Interval + X`** (reflected operator `X.__radd__`) for a p-box-like `X`, Frechet / perfect /
opposite: equal to the converted-first sum, and both are `X` shifted by the interval -/
theorem refl_add_agrees (n : Nat) (hn : 0 < n) (d : Dep) (hd : d = .f ∨ d = .p ∨ d = .o) (a b : Rat) (hab : a ≤ b)
    (r : Opd) (hr : isHigh r = true) (hv : ValidOpd n r) :
    ∃ Q, convertPbox n r = .ok Q ∧
      evalOp n d .add (.ivl a b) r = .ok (.pbox ⟨Q.left.map (a + ·), Q.right.map (b + ·)⟩) ∧
      spec n d .add (.ivl a b) r = .ok ⟨Q.left.map (a + ·), Q.right.map (b + ·)⟩ := by
  obtain ⟨Q, hQ1, hQ2, hw⟩ := convert_high_wf n r hr hv
  refine ⟨Q, hQ1, ?_, ?_⟩
  · have : evalOp n d .add (.ivl a b) r = (convertPbox n r >>= fun p => reflected n .add d (.ivl a b) p >>= fun t => pure (.pbox t)) := by
      cases r <;> first | rfl | (simp [isHigh] at hr)
    rw [this, hQ1, ok_bind]
    simp only [reflected, pboxAdd, convertPbox, ivlToPbox_eq n a b hn hab, ok_bind, add_const_right n d hd a b hab Q hw]
    rfl
  · have e1 : convert n (.ivl a b) = .ok (ofIvl n a b) := ivlToPbox_eq n a b hn hab
    simp only [spec, e1, hQ2, ok_bind, binop]
    exact add_const_left n d hd a b hab Q hw

/-- **`Interval - X`** (reflected operator: `(-X).add(Interval)` with the dependency NOT exchanged)
against the converted-first difference (`Interval.add(-X)` with `p ↔ o` exchanged): equal, because a
constant operand makes perfect and opposite pairing coincide -/
theorem refl_sub_agrees (n : Nat) (hn : 0 < n) (d : Dep) (hd : d = .f ∨ d = .p ∨ d = .o) (a b : Rat) (hab : a ≤ b)
    (r : Opd) (hr : isHigh r = true) (hv : ValidOpd n r) :
    ∃ z, evalOp n d .sub (.ivl a b) r = .ok (.pbox z) ∧ spec n d .sub (.ivl a b) r = .ok z := by
  obtain ⟨Q, hQ1, hQ2, hw⟩ := convert_high_wf n r hr hv
  obtain ⟨hneg, hwn⟩ := neg_wf n Q hw
  have hd' : swapPO d = .f ∨ swapPO d = .p ∨ swapPO d = .o := by
    rcases hd with h | h | h <;> subst h <;> simp [swapPO]
  refine ⟨⟨((Q.right.map (- ·)).reverse).map (a + ·), ((Q.left.map (- ·)).reverse).map (b + ·)⟩, ?_, ?_⟩
  · have : evalOp n d .sub (.ivl a b) r = (convertPbox n r >>= fun p => reflected n .sub d (.ivl a b) p >>= fun t => pure (.pbox t)) := by
      cases r <;> first | rfl | (simp [isHigh] at hr)
    rw [this, hQ1, ok_bind]
    simp only [reflected, hneg, ok_bind, pboxAdd, convertPbox, ivlToPbox_eq n a b hn hab,
      add_const_right n d hd a b hab _ hwn]
    rfl
  · have e1 : convert n (.ivl a b) = .ok (ofIvl n a b) := ivlToPbox_eq n a b hn hab
    simp only [spec, e1, hQ2, ok_bind, binop, PBox.sub, hneg]
    exact add_const_left n (swapPO d) hd' a b hab _ hwn

/-! ## the full statement and what is proved of it -/

/-- divisor operands that the property covers: no zero inside -/
def DivisorOk (o : Op) : Opd → Prop
  | .num c => o = .div → c ≠ 0
  | .ivl a b => o = .div → (0 < a ∨ b < 0)
  | .pbox p => o = .div → ((∀ v ∈ p.left, 0 < v) ∨ (∀ v ∈ p.right, v < 0))
  | .dist q => o = .div → ((∀ v ∈ q, 0 < v) ∨ (∀ v ∈ q, v < 0))
  | .dss p => o = .div → ((∀ v ∈ p.left, 0 < v) ∨ (∀ v ∈ p.right, v < 0))

/-- **C07, dispatch part, full strength**: for every pair of valid operands of which at least one is
p-box-like, every operation and dependency, the mixed expression returns exactly the p-box of the
expression with every operand converted first. -/
def C07RouteStatement : Prop :=
  ∀ (n : Nat) (_ : 0 < n) (d : Dep) (_ : d ≠ .unknown) (o : Op) (l r : Opd),
    ValidOpd n l → ValidOpd n r → (isHigh l = true ∨ isHigh r = true) → DivisorOk o r →
    ∃ z, spec n d o l r = .ok z ∧ evalOp n d o l r = .ok (.pbox z)

/-- what is proved of `C07RouteStatement`: (1) left operand p-box-like and right operand an interval or
p-box-like — all operations, all dependencies (conditional on the converted-first expression
answering); (2) `Interval + X`, `Interval - X` for p-box-like `X` under f / p / o.
Missing: `Interval * X`, `Interval / X`, number operands on either side, dependency `i` in (2), and
totality (`spec` answers on all valid operands). -/
theorem route_agrees_partial :
    (∀ (n : Nat) (_ : 0 < n) (d : Dep) (o : Op) (l r : Opd), isHigh l = true →
      (match r with
        | .num _ => False
        | .ivl a b => a ≤ b ∧ (o = .div → (0 < a ∨ b < 0))
        | _ => True) →
      ∀ z, spec n d o l r = .ok z → evalOp n d o l r = .ok (.pbox z)) ∧
    (∀ (n : Nat) (_ : 0 < n) (d : Dep) (_ : d = .f ∨ d = .p ∨ d = .o) (o : Op) (_ : o = .add ∨ o = .sub)
      (a b : Rat) (_ : a ≤ b) (r : Opd), isHigh r = true → ValidOpd n r →
      ∃ z, evalOp n d o (.ivl a b) r = .ok (.pbox z) ∧ spec n d o (.ivl a b) r = .ok z) := by
  refine ⟨fun n hn d o l r hl hr z h => fwd_agrees n hn d o l r hl hr z h, ?_⟩
  intro n hn d hd o ho a b hab r hr hv
  rcases ho with h | h <;> subst h
  · obtain ⟨Q, _, h1, h2⟩ := refl_add_agrees n hn d hd a b hab r hr hv
    exact ⟨_, h1, h2⟩
  · exact refl_sub_agrees n hn d hd a b hab r hr hv

/-- non-vacuity: a concrete mixed expression meets the hypotheses -/
example : ∃ z, evalOp 2 .p .sub (.ivl 1 2) (.dist [0, 5]) = .ok (.pbox z) ∧
    spec 2 .p .sub (.ivl 1 2) (.dist [0, 5]) = .ok z :=
  refl_sub_agrees 2 (by decide) .p (Or.inr (Or.inl rfl)) 1 2 (by norm_num) (.dist [0, 5]) rfl ⟨rfl, by decide⟩

example : ValidOpd 2 (.dist [0, 5]) := ⟨rfl, by decide⟩

end Pun.Hier
