import Pun.Lemmas.Iso
set_option linter.unusedSimpArgs false
set_option linter.unusedVariables false
namespace Pun.Iso
open Pun List Pun.PBox

/-! ## the constructor on well-formed bounds -/

/-- well-formed p-box with `n` steps: lengths, both bounds sorted, `left ≤ right` step by step -/
structure WF (n : Nat) (P : PB) : Prop where
  llen : P.left.length = n
  rlen : P.right.length = n
  lsorted : P.left.Pairwise (· ≤ ·)
  rsorted : P.right.Pairwise (· ≤ ·)
  valid : LE P.left P.right

theorem isIncreasing_of_sorted (l : List Rat) (h : l.Pairwise (· ≤ ·)) : isIncreasing l = true := by
  induction l with
  | nil => rfl
  | cons a t ih =>
    cases t with
    | nil => rfl
    | cons b u =>
      rw [List.pairwise_cons] at h
      simp only [isIncreasing, Bool.and_eq_true, decide_eq_true_eq]
      exact ⟨h.1 b (by simp), ih h.2⟩

theorem allGe_eq_of_LE {l r : List Rat} (h : LE l r) (hg : allGe l r = true) : l = r := by
  induction h with
  | nil => rfl
  | @cons a b s t hab _ ih =>
    simp only [allGe, List.zip_cons_cons, List.all_cons, Bool.and_eq_true, decide_eq_true_eq, ge_iff_le] at hg
    have e : a = b := le_antisymm hab hg.1
    subst e
    rw [ih (by simpa [allGe] using hg.2)]

theorem lexGe_eq_of_LE {l r : List Rat} (h : LE l r) (hg : lexGe l r = true) : l = r := by
  induction h with
  | nil => rfl
  | @cons a b s t hab _ ih =>
    unfold lexGe at hg
    have h1 : ¬ a > b := not_lt.mpr hab
    simp only [h1, if_false] at hg
    by_cases h2 : a < b
    · simp [h2] at hg
    · simp only [h2, if_false] at hg
      have e : a = b := le_antisymm hab (not_lt.mp h2)
      subst e
      rw [ih hg]

theorem lexGe_of_LE {l r : List Rat} (h : LE r l) : lexGe l r = true := by
  induction h with
  | nil => rfl
  | @cons b a t s hba _ ih =>
    unfold lexGe
    by_cases h1 : a > b
    · simp [h1]
    · have h2 : ¬ a < b := not_lt.mpr hba
      simp [h1, h2, ih]

theorem boundSteps_eq (n : Nat) (b : List Rat) (h : b.length = n) : boundSteps n b = .ok b := by
  simp [boundSteps, h]

/-- on well-formed bounds the constructor stores them unchanged (arrays or lists) -/
theorem mk_ok (n : Nat) (lists : Bool) (l r : List Rat) (hl : l.length = n) (hr : r.length = n)
    (sl : l.Pairwise (· ≤ ·)) (sr : r.Pairwise (· ≤ ·)) (hle : LE l r) : mk n lists l r = .ok ⟨l, r⟩ := by
  have il := isIncreasing_of_sorted l sl
  have ir := isIncreasing_of_sorted r sr
  have bl := boundSteps_eq n l hl
  have br := boundSteps_eq n r hr
  have hlr : l.length = r.length := by rw [hl, hr]
  cases lists with
  | true =>
    by_cases h : lexGe l r = true
    · have e : l = r := lexGe_eq_of_LE hle h
      subst e
      simp [mk, h, bl, il, bind, Except.bind]
    · simp only [Bool.not_eq_true] at h
      simp [mk, h, bl, br, il, ir, bind, Except.bind, hlr]
  | false =>
    by_cases h : allGe l r = true
    · have e : l = r := allGe_eq_of_LE hle h
      subst e
      simp [mk, h, bl, il, bind, Except.bind]
    · simp only [Bool.not_eq_true] at h
      simp [mk, h, bl, br, il, ir, bind, Except.bind, hlr]

/-- bounds handed over in the wrong order as Python lists (`left ≥ right` step by step) are switched -/
theorem mk_ok_switched (n : Nat) (l r : List Rat) (hl : l.length = n) (hr : r.length = n)
    (sl : l.Pairwise (· ≤ ·)) (sr : r.Pairwise (· ≤ ·)) (hge : LE r l) : mk n true l r = .ok ⟨r, l⟩ := by
  unfold mk
  simp [lexGe_of_LE hge, boundSteps_eq n l hl, boundSteps_eq n r hr, isIncreasing_of_sorted l sl,
    isIncreasing_of_sorted r sr, bind, Except.bind, hl, hr]

theorem WF.of_mk {n : Nat} {l r : List Rat} (hl : l.length = n) (hr : r.length = n)
    (sl : l.Pairwise (· ≤ ·)) (sr : r.Pairwise (· ≤ ·)) (hle : LE l r) : WF n ⟨l, r⟩ :=
  ⟨hl, hr, sl, sr, hle⟩

end Pun.Iso
