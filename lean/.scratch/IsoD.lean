import Pun.Lemmas.Iso
set_option linter.unusedSimpArgs false
set_option linter.unusedVariables false
namespace Pun.Iso
open Pun List Pun.PBox

/-- one row of the `n × n` grid: the focal interval `[a,b]` of `x` against every focal interval of `y` -/
theorem row_iso (op : Rat → Rat → Rat) (hop : Hull op) (a b a' b' : Rat) (hab : a ≤ b) (ha : a' ≤ a) (hb : b ≤ b')
    {yl yr yl' yr' : List Rat} (hy : LE yl yr) (hyl : LE yl' yl) (hyr : LE yr yr') :
    LE (zip4 min4 (yl'.map (op a')) (yr'.map (op a')) (yl'.map (op b')) (yr'.map (op b')))
       (zip4 min4 (yl.map (op a)) (yr.map (op a)) (yl.map (op b)) (yr.map (op b))) ∧
    LE (zip4 max4 (yl.map (op a)) (yr.map (op a)) (yl.map (op b)) (yr.map (op b)))
       (zip4 max4 (yl'.map (op a')) (yr'.map (op a')) (yl'.map (op b')) (yr'.map (op b'))) := by
  induction hy generalizing yl' yr' with
  | nil =>
    cases hyl; cases hyr
    simp [zip4]
  | @cons c d tc td hcd _ ih =>
    cases hyl with
    | @cons c' _ tc' _ hcc htc =>
    cases hyr with
    | @cons _ d' _ td' hdd htd =>
      obtain ⟨i1, i2⟩ := ih htc htd
      obtain ⟨k1, k2⟩ := corner_iso op hop a b c d a' b' c' d' hab hcd ha hb hcc hdd
      simp only [List.map_cons, zip4]
      exact ⟨List.Forall₂.cons k1 i1, List.Forall₂.cons k2 i2⟩

theorem row_valid (op : Rat → Rat → Rat) (a b : Rat) (yl yr : List Rat) :
    LE (zip4 min4 (yl.map (op a)) (yr.map (op a)) (yl.map (op b)) (yr.map (op b)))
       (zip4 max4 (yl.map (op a)) (yr.map (op a)) (yl.map (op b)) (yr.map (op b))) := by
  induction yl generalizing yr with
  | nil => simp [zip4]
  | cons c tc ih =>
    cases yr with
    | nil => simp [zip4]
    | cons d td =>
      simp only [List.map_cons, zip4]
      exact List.Forall₂.cons (corner_valid op a b c d) (ih td)

/-- unsorted corner minima / maxima over the `n²` grid -/
def gridPair (op : Rat → Rat → Rat) (xl xr yl yr : List Rat) : List Rat × List Rat :=
  (zip4 min4 (cartesian op xl yl) (cartesian op xl yr) (cartesian op xr yl) (cartesian op xr yr),
   zip4 max4 (cartesian op xl yl) (cartesian op xl yr) (cartesian op xr yl) (cartesian op xr yr))

theorem cartesian_cons (op : Rat → Rat → Rat) (a : Rat) (t b : List Rat) :
    cartesian op (a :: t) b = b.map (op a) ++ cartesian op t b := by
  simp [cartesian]

theorem gridPair_cons (op : Rat → Rat → Rat) (a b : Rat) (ta tb yl yr : List Rat) (hlen : yl.length = yr.length) :
    gridPair op (a :: ta) (b :: tb) yl yr =
      ((zip4 min4 (yl.map (op a)) (yr.map (op a)) (yl.map (op b)) (yr.map (op b))) ++ (gridPair op ta tb yl yr).1,
       (zip4 max4 (yl.map (op a)) (yr.map (op a)) (yl.map (op b)) (yr.map (op b))) ++ (gridPair op ta tb yl yr).2) := by
  simp only [gridPair, cartesian_cons]
  rw [zip4_append _ _ _ _ _ _ _ _ _ (by simp [hlen]) (by simp) (by simp [hlen]),
      zip4_append _ _ _ _ _ _ _ _ _ (by simp [hlen]) (by simp) (by simp [hlen])]

theorem LE.append {a a' b b' : List Rat} (h1 : LE a a') (h2 : LE b b') : LE (a ++ b) (a' ++ b') := by
  induction h1 with
  | nil => simpa using h2
  | cons h _ ih => exact List.Forall₂.cons h ih

theorem gridPair_iso (op : Rat → Rat → Rat) (hop : Hull op)
    {xl xr yl yr xl' xr' yl' yr' : List Rat}
    (hx : LE xl xr) (hy : LE yl yr) (hxl : LE xl' xl) (hxr : LE xr xr') (hyl : LE yl' yl) (hyr : LE yr yr') :
    PairSub (gridPair op xl xr yl yr) (gridPair op xl' xr' yl' yr') := by
  have hlen : yl.length = yr.length := hy.length_eq
  have hlen' : yl'.length = yr'.length := by rw [hyl.length_eq, hlen, hyr.length_eq]
  induction hx generalizing xl' xr' with
  | nil =>
    cases hxl; cases hxr
    simp [gridPair, cartesian, zip4, PairSub]
  | @cons a b ta tb hab _ ih =>
    cases hxl with
    | @cons a' _ ta' _ haa hta =>
    cases hxr with
    | @cons _ b' _ tb' hbb htb =>
      obtain ⟨i1, i2⟩ := ih hta htb
      obtain ⟨r1, r2⟩ := row_iso op hop a b a' b' hab haa hbb hy hyl hyr
      rw [gridPair_cons op a b ta tb yl yr hlen, gridPair_cons op a' b' ta' tb' yl' yr' hlen']
      exact ⟨LE.append r1 i1, LE.append r2 i2⟩

theorem gridPair_valid (op : Rat → Rat → Rat) (xl xr yl yr : List Rat) (hlen : yl.length = yr.length) :
    LE (gridPair op xl xr yl yr).1 (gridPair op xl xr yl yr).2 := by
  induction xl generalizing xr with
  | nil => simp [gridPair, cartesian, zip4]
  | cons a ta ih =>
    cases xr with
    | nil => simp [gridPair, cartesian, zip4]
    | cons b tb =>
      rw [gridPair_cons op a b ta tb yl yr hlen]
      exact LE.append (row_valid op a b yl yr) (ih tb)

theorem cornersSorted_eq (op : Rat → Rat → Rat) (x y : PB) :
    cornersSorted op x y = (sortR (gridPair op x.left x.right y.left y.right).1,
                            sortR (gridPair op x.left x.right y.left y.right).2) := rfl

/-- **independent rule is isotone** (the `n²` sorted endpoints) -/
theorem iso_independentOp (op : Rat → Rat → Rat) (hop : Hull op) {X X' Y Y' : PB}
    (vX : LE X.left X.right) (vY : LE Y.left Y.right) (hX : PSub X X') (hY : PSub Y Y') :
    PairSub (independentOp op X Y) (independentOp op X' Y') := by
  have := gridPair_iso op hop vX vY hX.1 hX.2 hY.1 hY.2
  exact ⟨sortR_mono this.1, sortR_mono this.2⟩

/-- **naive rule is isotone**: first `n` sorted minima, last `n` sorted maxima -/
theorem iso_naiveOp (op : Rat → Rat → Rat) (hop : Hull op) {X X' Y Y' : PB}
    (vX : LE X.left X.right) (vY : LE Y.left Y.right) (hX : PSub X X') (hY : PSub Y Y') :
    PairSub (naiveOp op X Y) (naiveOp op X' Y') := by
  obtain ⟨h1, h2⟩ := iso_independentOp op hop vX vY hX hY
  have hn : X'.left.length = X.left.length := hX.1.length_eq
  simp only [naiveOp, independentOp, PairSub] at *
  rw [hn]
  exact ⟨h1.take _, h2.drop _⟩

end Pun.Iso
