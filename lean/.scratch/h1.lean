import Pun.Model.Hier
import Pun.Lemmas.PBoxFrechet
import Mathlib.Tactic.Linarith
open Pun Pun.PBox Pun.Hier
#check @List.Perm.eq_of_sorted
#check @List.eq_of_perm_of_sorted
#check @List.Perm.eq_of_pairwise
#check @List.pairwise_replicate
#check @List.take_replicate
#check @List.reverse_replicate
#check @List.zipWith_replicate
#check @List.map_replicate
#check @List.flatMap_replicate
#check @List.getLastD_replicate
#check @List.getLast?_replicate
#check @List.foldl_replicate
#check @List.Pairwise.eq_of_perm
#check @Except.bind_ok
#check @Except.bind
example (a : Rat) (f : Rat → Except Err Rat) : ((Except.ok a : Except Err Rat) >>= f) = f a := rfl
example (a : Rat) (f : Rat → Except Err Rat) : (do let x ← (Except.ok a : Except Err Rat); f x) = f a := by simp
