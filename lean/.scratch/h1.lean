import Pun.Lemmas.Hier
import Mathlib.Data.List.Forall2
open List
#check @List.forall₂_reverse_iff
#check @List.Forall₂.reverse
#check @List.rel_reverse
example (a x y : Rat) (h : x ≤ y) : (fun v => a + v) x ≤ (fun v => a + v) y := by show a + x ≤ a + y; linarith
