import Pun.Drv.All
/-! Line protocol: `<case-id> <Cxx> <op> <arg>…` → `<case-id> <reply>`; one line in, one line out. -/

partial def loop (hin : IO.FS.Stream) (hout : IO.FS.Stream) : IO Unit := do
  let line ← hin.getLine
  if line.isEmpty then return ()
  let toks := (line.trimAscii.toString.splitOn " ").filter (· ≠ "")
  match toks with
  | id :: prop :: args =>
    hout.putStrLn (id ++ " " ++ Pun.Drv.dispatch prop args)
  | _ => hout.putStrLn "? bad-op"
  if toks.head? == some "flush" then hout.flush
  loop hin hout

def main : IO Unit := do
  let hin ← IO.getStdin
  let hout ← IO.getStdout
  loop hin hout
  hout.flush
