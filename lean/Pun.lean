-- root of the library: models, driver handlers, audit command and property theorems
import Pun.Drv.All
import Pun.Audit
import Pun.Props.C01
import Pun.Props.C01Gen
