import Pun.Props.C13
set_option linter.unusedSimpArgs false
set_option linter.unusedVariables false
namespace Pun.B2B
open Pun Pun.Arith Pun.Expr

/-! ## inclusion isotonicity of direct evaluation -/

/-- `u ⊆ u'` -/
def Incl (u u' : Val) : Prop := u'.lo ≤ u.lo ∧ u.hi ≤ u'.hi
def Valid (u : Val) : Prop := u.lo ≤ u.hi
def _root_.Pun.Expr.Val.isNum : Val → Bool | .num _ => true | .ivl _ _ => false

theorem mem_of_incl {u u' : Val} {x : Rat} (h : Incl u u') (hx : Mem x u) : Mem x u' :=
  ⟨le_trans h.1 hx.1, le_trans hx.2 h.2⟩

/-- a single operator application attains both ends of its result at operand values -/
theorem binVal_attained (op : BinOp) (l r V : Val) (hl : Valid l) (hr : Valid r) (h : binVal op l r = .ok V) :
    (∃ x y, Mem x l ∧ Mem y r ∧ binPt op x y = .ok V.lo) ∧ (∃ x y, Mem x l ∧ Mem y r ∧ binPt op x y = .ok V.hi) := by
  cases l with
  | num p =>
    cases r with
    | num s =>
      have hm : Mem p (.num p) := ⟨le_refl _, le_refl _⟩
      have hs : Mem s (.num s) := ⟨le_refl _, le_refl _⟩
      simp only [binVal] at h
      cases hb : binPt op p s with
      | error e => rw [hb] at h; cases h
      | ok z => rw [hb] at h; cases h; exact ⟨⟨p, s, hm, hs, hb⟩, ⟨p, s, hm, hs, hb⟩⟩
    | ivl c d =>
      have hcd : c ≤ d := hr
      have hm : Mem p (.num p) := ⟨le_refl _, le_refl _⟩
      have mc : Mem c (.ivl c d) := ⟨le_refl _, hcd⟩
      have md : Mem d (.ivl c d) := ⟨hcd, le_refl _⟩
      cases op <;> simp only [binVal] at h
      · obtain ⟨rfl, _⟩ := mk_ok h
        exact ⟨⟨p, c, hm, mc, by simp [binPt, Val.lo, add_comm]⟩, ⟨p, d, hm, md, by simp [binPt, Val.hi, add_comm]⟩⟩
      · obtain ⟨rfl, _⟩ := mk_ok h
        exact ⟨⟨p, d, hm, md, rfl⟩, ⟨p, c, hm, mc, rfl⟩⟩
      · split at h
        · obtain ⟨rfl, _⟩ := mk_ok h
          exact ⟨⟨p, c, hm, mc, by simp [binPt, Val.lo, mul_comm]⟩, ⟨p, d, hm, md, by simp [binPt, Val.hi, mul_comm]⟩⟩
        · obtain ⟨rfl, _⟩ := mk_ok h
          exact ⟨⟨p, d, hm, md, by simp [binPt, Val.lo, mul_comm]⟩, ⟨p, c, hm, mc, by simp [binPt, Val.hi, mul_comm]⟩⟩
      · split at h
        · cases h
        · rename_i hz
          have hc0 : c ≠ 0 := by
            intro hc; subst hc; exact hz ⟨le_refl _, hcd⟩
          have hd0 : d ≠ 0 := by
            intro hd; subst hd; exact hz ⟨hcd, le_refl _⟩
          split at h
          · obtain ⟨rfl, _⟩ := mk_ok h
            exact ⟨⟨p, d, hm, md, by simp [binPt, Val.lo, hd0]⟩, ⟨p, c, hm, mc, by simp [binPt, Val.hi, hc0]⟩⟩
          · obtain ⟨rfl, _⟩ := mk_ok h
            exact ⟨⟨p, c, hm, mc, by simp [binPt, Val.lo, hc0]⟩, ⟨p, d, hm, md, by simp [binPt, Val.hi, hd0]⟩⟩
  | ivl a b =>
    have hab : a ≤ b := hl
    have ma : Mem a (.ivl a b) := ⟨le_refl _, hab⟩
    have mb : Mem b (.ivl a b) := ⟨hab, le_refl _⟩
    cases r with
    | num s =>
      have hs : Mem s (.num s) := ⟨le_refl _, le_refl _⟩
      cases op <;> simp only [binVal] at h
      · obtain ⟨rfl, _⟩ := mk_ok h; exact ⟨⟨a, s, ma, hs, rfl⟩, ⟨b, s, mb, hs, rfl⟩⟩
      · obtain ⟨rfl, _⟩ := mk_ok h; exact ⟨⟨a, s, ma, hs, rfl⟩, ⟨b, s, mb, hs, rfl⟩⟩
      · split at h
        · obtain ⟨rfl, _⟩ := mk_ok h; exact ⟨⟨a, s, ma, hs, rfl⟩, ⟨b, s, mb, hs, rfl⟩⟩
        · obtain ⟨rfl, _⟩ := mk_ok h; exact ⟨⟨b, s, mb, hs, rfl⟩, ⟨a, s, ma, hs, rfl⟩⟩
      · split at h
        · cases h
        · rename_i hs0
          split at h
          · obtain ⟨rfl, _⟩ := mk_ok h
            exact ⟨⟨a, s, ma, hs, by simp [binPt, Val.lo, hs0]⟩, ⟨b, s, mb, hs, by simp [binPt, Val.hi, hs0]⟩⟩
          · obtain ⟨rfl, _⟩ := mk_ok h
            exact ⟨⟨b, s, mb, hs, by simp [binPt, Val.lo, hs0]⟩, ⟨a, s, ma, hs, by simp [binPt, Val.hi, hs0]⟩⟩
    | ivl c d =>
      have hcd : c ≤ d := hr
      have mc : Mem c (.ivl c d) := ⟨le_refl _, hcd⟩
      have md : Mem d (.ivl c d) := ⟨hcd, le_refl _⟩
      cases op <;> simp only [binVal] at h
      · obtain ⟨rfl, _⟩ := mk_ok h; exact ⟨⟨a, c, ma, mc, rfl⟩, ⟨b, d, mb, md, rfl⟩⟩
      · obtain ⟨rfl, _⟩ := mk_ok h; exact ⟨⟨a, d, ma, md, rfl⟩, ⟨b, c, mb, mc, rfl⟩⟩
      · obtain ⟨l, hh, ht, _, ⟨x1, y1, p1, p2, p3, p4, e1⟩, ⟨x2, y2, q1, q2, q3, q4, e2⟩⟩ := mul_exact_image a b c d hab hcd
        rw [ht] at h
        obtain ⟨rfl, _⟩ := mk_ok h
        exact ⟨⟨x1, y1, ⟨p1, p2⟩, ⟨p3, p4⟩, by simp [binPt, Val.lo, e1]⟩, ⟨x2, y2, ⟨q1, q2⟩, ⟨q3, q4⟩, by simp [binPt, Val.hi, e2]⟩⟩
      · have h0 : 0 < c ∨ d < 0 := by
          by_contra hc
          rw [not_or, not_lt, not_lt] at hc
          rw [div_straddle_raises a b c d ⟨hc.1, hc.2⟩] at h
          cases h
        obtain ⟨l, hh, ht, _, ⟨x1, y1, p1, p2, p3, p4, e1⟩, ⟨x2, y2, q1, q2, q3, q4, e2⟩⟩ := divTable_sound a b c d hab hcd h0
        rw [ht] at h
        obtain ⟨rfl, _⟩ := mk_ok h
        have ny : ∀ y, c ≤ y → y ≤ d → y ≠ 0 := by
          intro y h1 h2
          rcases h0 with h0 | h0
          · exact ne_of_gt (lt_of_lt_of_le h0 h1)
          · exact ne_of_lt (lt_of_le_of_lt h2 h0)
        exact ⟨⟨x1, y1, ⟨p1, p2⟩, ⟨p3, p4⟩, by simp [binPt, Val.lo, e1, ny y1 p3 p4]⟩,
               ⟨x2, y2, ⟨q1, q2⟩, ⟨q3, q4⟩, by simp [binPt, Val.hi, e2, ny y2 q3 q4]⟩⟩

theorem valid_lo {u : Val} (h : Valid u) : Mem u.lo u := ⟨le_refl _, h⟩

/-- one operator application is inclusion isotone (and its result is a valid interval) -/
theorem binVal_incl (op : BinOp) (l r l' r' V V' : Val) (hl : Valid l) (hr : Valid r) (il : Incl l l') (ir : Incl r r')
    (h : binVal op l r = .ok V) (h' : binVal op l' r' = .ok V') : Incl V V' ∧ Valid V := by
  obtain ⟨⟨x1, y1, a1, b1, e1⟩, ⟨x2, y2, a2, b2, e2⟩⟩ := binVal_attained op l r V hl hr h
  obtain ⟨z1, hz1, m1⟩ := binVal_sound op l' r' V' x1 y1 (mem_of_incl il a1) (mem_of_incl ir b1) h'
  obtain ⟨z2, hz2, m2⟩ := binVal_sound op l' r' V' x2 y2 (mem_of_incl il a2) (mem_of_incl ir b2) h'
  obtain ⟨z3, hz3, m3⟩ := binVal_sound op l r V x1 y1 a1 b1 h
  rw [e1] at hz1 hz3; rw [e2] at hz2
  cases hz1; cases hz2; cases hz3
  exact ⟨⟨m1.1, m2.2⟩, m3.2⟩

theorem powVal_incl (v v' V V' : Val) (k : Nat) (hv : Valid v) (iv : Incl v v')
    (hk : v.isNum = v'.isNum)
    (h : powVal v k = .ok V) (h' : powVal v' k = .ok V') : Incl V V' ∧ Valid V := by
  have hval : Valid V := by
    have := powVal_sound v V k v.lo (valid_lo hv) h
    exact le_trans this.1 this.2
  refine ⟨?_, hval⟩
  cases v with
  | num c =>
    cases v' with
    | ivl _ _ => simp [Val.isNum] at hk
    | num c' =>
      have : c = c' := le_antisymm (le_trans (le_refl _) iv.2) iv.1
      subst this
      rw [h] at h'; cases h'; exact ⟨le_refl _, le_refl _⟩
  | ivl a b =>
    cases v' with
    | num c' => simp [Val.isNum] at hk
    | ivl a' b' =>
      obtain ⟨ia, ib⟩ := iv
      simp only [Val.lo, Val.hi] at ia ib
      have hab : a ≤ b := hv
      -- ends of V are values x^k at points of [a,b] unless k = 0
      have ma : Mem a (.ivl a' b') := ⟨ia, le_trans hab ib⟩
      have mb : Mem b (.ivl a' b') := ⟨le_trans ia hab, ib⟩
      have sa := powVal_sound _ V' k a ma h'
      have sb := powVal_sound _ V' k b mb h'
      simp only [powVal] at h
      split at h
      · rename_i hev
        obtain ⟨rfl, _⟩ := mk_ok h
        show V'.lo ≤ (if a > 0 then a ^ k else if b < 0 then b ^ k else 0) ∧ max (a ^ k) (b ^ k) ≤ V'.hi
        refine ⟨?_, max_le sa.2 sb.2⟩
        by_cases ha : a > 0
        · rw [if_pos ha]; exact sa.1
        · rw [if_neg ha]
          by_cases hb : b < 0
          · rw [if_pos hb]; exact sb.1
          · rw [if_neg hb]
            rcases Nat.eq_zero_or_pos k with hk0 | hk0
            · subst hk0
              simp only [powVal, Nat.zero_mod, if_true, pow_zero] at h'
              obtain ⟨rfl, _⟩ := mk_ok h'
              have na' : ¬ a' > 0 := fun hh => ha (lt_of_lt_of_le hh ia)
              have nb' : ¬ b' < 0 := fun hh => hb (lt_of_le_of_lt ib hh)
              simp [Val.lo, na', nb']
            · have m0 : Mem 0 (.ivl a' b') := ⟨le_trans ia (not_lt.mp ha), le_trans (not_lt.mp hb) ib⟩
              have s0 := powVal_sound _ V' k 0 m0 h'
              rw [zero_pow (by omega)] at s0
              exact s0.1
      · obtain ⟨rfl, _⟩ := mk_ok h
        show V'.lo ≤ min (a ^ k) (b ^ k) ∧ max (a ^ k) (b ^ k) ≤ V'.hi
        exact ⟨le_min sa.1 sb.1, max_le sa.2 sb.2⟩

theorem unVal_incl (φ : UFun → Rat → Rat) (hφ : Mono φ) (f : UFun) (v v' V V' : Val) (hv : Valid v) (iv : Incl v v')
    (hk : v.isNum = v'.isNum)
    (h : unVal φ f v = .ok V) (h' : unVal φ f v' = .ok V') : Incl V V' ∧ Valid V := by
  cases v with
  | num c =>
    cases v' with
    | ivl _ _ => simp [Val.isNum] at hk
    | num c' =>
    have : c = c' := le_antisymm (le_trans (le_refl _) iv.2) iv.1
    subst this
    rw [h] at h'; cases h'
    have := unVal_sound φ hφ f (.num c) V c ⟨le_refl _, le_refl _⟩ h
    obtain ⟨z, _, mz⟩ := this
    exact ⟨⟨le_refl _, le_refl _⟩, le_trans mz.1 mz.2⟩
  | ivl a b =>
    obtain ⟨ia, ib⟩ := iv
    have hab : a ≤ b := hv
    have ma : Mem a v' := ⟨ia, le_trans hab ib⟩
    have mb : Mem b v' := ⟨le_trans ia hab, ib⟩
    obtain ⟨za, hza, sa⟩ := unVal_sound φ hφ f v' V' a ma h'
    obtain ⟨zb, hzb, sb⟩ := unVal_sound φ hφ f v' V' b mb h'
    simp only [unVal] at h
    split at h
    · rename_i hd
      obtain ⟨rfl, hle⟩ := mk_ok h
      simp only [unPt, if_pos hd.1] at hza
      simp only [unPt, if_pos hd.2] at hzb
      cases hza; cases hzb
      exact ⟨⟨sa.1, sb.2⟩, hle⟩
    · cases h

theorem getElem_sub {t box : Box} (hs : SubBox t box) (i : Nat) (q p : Rat × Rat) (hq : t[i]? = some q) (hp : box[i]? = some p) :
    p.1 ≤ q.1 ∧ q.1 ≤ q.2 ∧ q.2 ≤ p.2 := by
  induction hs generalizing i with
  | nil => simp at hq
  | cons hab _ ih =>
    cases i with
    | zero => simp at hq hp; subst hq; subst hp; exact hab
    | succ j => simp at hq hp; exact ih j hq hp


theorem mk_kind {l h : Rat} {V : Val} (hm : mk l h = .ok V) : V.isNum = false := by
  obtain ⟨rfl, _⟩ := mk_ok hm; rfl

theorem binVal_kind (op : BinOp) (l r V : Val) (h : binVal op l r = .ok V) : V.isNum = (l.isNum && r.isNum) := by
  cases l <;> cases r <;> cases op <;> simp only [binVal] at h <;> simp only [Val.isNum, Bool.and_true, Bool.and_false, Bool.false_and] <;>
    first
    | (cases hb : binPt _ _ _ <;> rw [hb] at h <;> cases h <;> rfl)
    | exact mk_kind h
    | (split at h <;> first | exact mk_kind h | cases h | (split at h <;> first | exact mk_kind h | cases h))

theorem powVal_kind (v V : Val) (k : Nat) (h : powVal v k = .ok V) : V.isNum = v.isNum := by
  cases v <;> simp only [powVal] at h
  · cases h; rfl
  · split at h <;> exact mk_kind h

theorem unVal_kind (φ : UFun → Rat → Rat) (f : UFun) (v V : Val) (h : unVal φ f v = .ok V) : V.isNum = v.isNum := by
  cases v <;> simp only [unVal] at h
  · cases hb : unPt φ f _ <;> rw [hb] at h <;> cases h; rfl
  · split at h
    · exact mk_kind h
    · cases h

/-- ★ inclusion isotonicity of direct evaluation (proved for the case that both evaluations return a value):
a sub-box gives a contained result.  Any dimension, any depth, repeated variables. -/
theorem direct_isotone_partial (φ : UFun → Rat → Rat) (hφ : Mono φ) (e : Expr) (t box : Box) (hs : SubBox t box)
    (V V' : Val) (h : evalIvl φ t e = .ok V) (h' : evalIvl φ box e = .ok V') :
    Incl V V' ∧ Valid V ∧ V.isNum = V'.isNum := by
  induction e generalizing V V' with
  | var i =>
    simp only [evalIvl] at h h'
    split at h
    · rename_i q hq
      split at h'
      · rename_i p hp
        cases h; cases h'
        obtain ⟨h1, h2, h3⟩ := getElem_sub hs i q p hq hp
        exact ⟨⟨h1, h3⟩, h2, rfl⟩
      · cases h'
    · cases h
  | const c => simp only [evalIvl] at h h'; cases h; cases h'; exact ⟨⟨le_refl _, le_refl _⟩, le_refl _, rfl⟩
  | add a b iha ihb | sub a b iha ihb | mul a b iha ihb | div a b iha ihb =>
    simp only [evalIvl, bind, Except.bind] at h h'
    split at h
    · cases h
    · rename_i u hu
      split at h
      · cases h
      · rename_i v hv
        split at h'
        · cases h'
        · rename_i u' hu'
          split at h'
          · cases h'
          · rename_i v' hv'
            obtain ⟨i1, v1, k1⟩ := iha u u' hu hu'
            obtain ⟨i2, v2, k2⟩ := ihb v v' hv hv'
            obtain ⟨r1, r2⟩ := binVal_incl _ u v u' v' V V' v1 v2 i1 i2 h h'
            exact ⟨r1, r2, by rw [binVal_kind _ _ _ _ h, binVal_kind _ _ _ _ h', k1, k2]⟩
  | pow a k iha =>
    simp only [evalIvl, bind, Except.bind] at h h'
    split at h
    · cases h
    · rename_i u hu
      split at h'
      · cases h'
      · rename_i u' hu'
        obtain ⟨i1, v1, k1⟩ := iha u u' hu hu'
        obtain ⟨r1, r2⟩ := powVal_incl u u' V V' k v1 i1 k1 h h'
        exact ⟨r1, r2, by rw [powVal_kind _ _ _ h, powVal_kind _ _ _ h', k1]⟩
  | un f a iha =>
    simp only [evalIvl, bind, Except.bind] at h h'
    split at h
    · cases h
    · rename_i u hu
      split at h'
      · cases h'
      · rename_i u' hu'
        obtain ⟨i1, v1, k1⟩ := iha u u' hu hu'
        obtain ⟨r1, r2⟩ := unVal_incl φ hφ f u u' V V' v1 i1 k1 h h'
        exact ⟨r1, r2, by rw [unVal_kind _ _ _ _ h, unVal_kind _ _ _ _ h', k1]⟩

/-- the full isotonicity statement also asserts that evaluation over the sub-box succeeds -/
def DirectIsotoneStatement : Prop :=
  ∀ (φ : UFun → Rat → Rat), Mono φ → ∀ (e : Expr) (t box : Box), SubBox t box → ∀ V', evalIvl φ box e = .ok V' →
    ∃ V, evalIvl φ t e = .ok V ∧ Incl V V'

/-- ★ subinterval reconstitution with direct evaluation is contained in the un-subdivided direct result -/
theorem subdirect_within_direct (φ : UFun → Rat → Rat) (hφ : Mono φ) (e : Expr) (box : Box) (hv : ValidBox box) (n : Nat)
    (V D : Val) (h : subinterval φ e box (some .direct) (some n) = .ok V) (hD : direct φ e box = .ok D) :
    D.lo ≤ V.lo ∧ V.hi ≤ D.hi := by
  simp only [subinterval, bind, Except.bind] at h
  split at h
  · cases h
  · rename_i rs hrs
    have hall := mapM_ok _ _ _ hrs
    obtain ⟨_, ⟨r1, hr1, e1⟩, ⟨r2, hr2, e2⟩⟩ := reconstitute_spec h
    obtain ⟨t1, ht1, het1⟩ := forall₂_right hall r1 hr1
    obtain ⟨t2, ht2, het2⟩ := forall₂_right hall r2 hr2
    obtain ⟨i1, _, _⟩ := direct_isotone_partial φ hφ e t1 box (tiles_within box n hv t1 ht1) r1 D het1 hD
    obtain ⟨i2, _, _⟩ := direct_isotone_partial φ hφ e t2 box (tiles_within box n hv t2 ht2) r2 D het2 hD
    exact ⟨by rw [← e1]; exact i1.1, by rw [← e2]; exact i2.2⟩

example : subinterval (fun _ x => x) (.sub (.mul (.var 0) (.var 1)) (.var 0)) [(-1, 2), (3, 5)] (some .direct) (some 2)
    = .ok (.ivl (-11/2) (19/2)) := by decide +kernel

/-! ## tiles do not overlap -/

/-- ★ (one side, proved) along one side the tiles are ordered and meet only at knots: tile `i` ends
no later than tile `j` starts, for `i < j` -/
theorem tiles1_disjoint_partial (p : Rat × Rat) (n : Nat) (hp : p.1 ≤ p.2) (i j : Nat) (hij : i < j) (hj : j < n) :
    ∃ s t, (tiles1 p n)[i]? = some s ∧ (tiles1 p n)[j]? = some t ∧ s.2 ≤ t.1 := by
  have hn : ¬ n ≤ 1 := by omega
  refine ⟨(knot p.1 p.2 n i, knot p.1 p.2 n (i + 1)), (knot p.1 p.2 n j, knot p.1 p.2 n (j + 1)), ?_, ?_, ?_⟩
  · simp [tiles1, hn, List.getElem?_map, List.getElem?_range (by omega : i < n)]
  · simp [tiles1, hn, List.getElem?_map, List.getElem?_range hj]
  · exact knot_mono _ _ _ hp _ _ (by omega)

/-- the full non-overlap statement in dimension `d`: two tiles at different positions of the tiling are
separated along some coordinate (their interiors are disjoint).  Proved above for one side; the
`d`-dimensional step (two distinct index tuples differ in a coordinate) is checked by the harness on the
tiles captured from the real code, not proved. -/
def TilesInteriorDisjointStatement : Prop :=
  ∀ (box : Box) (n : Nat), ValidBox box → ∀ (i j : Nat), i < j → ∀ (s t : Box), (tiles box n)[i]? = some s → (tiles box n)[j]? = some t →
    ∃ (k : Nat) (q q' : Rat × Rat), s[k]? = some q ∧ t[k]? = some q' ∧ (q.2 ≤ q'.1 ∨ q'.2 ≤ q.1)

example : ∃ s t, (tiles1 (0, 3) 3)[0]? = some s ∧ (tiles1 (0, 3) 3)[2]? = some t ∧ s.2 ≤ t.1 :=
  tiles1_disjoint_partial (0, 3) 3 (by norm_num) 0 2 (by omega) (by omega)

end Pun.B2B
