import Lean
/-!
`#audit_module M` prints, for every theorem declared in module `M`, one line
`AUDIT <name> :: <axiom> <axiom> …` (the output of `Lean.collectAxioms`).
The harness counts these lines (obligations) and accepts a theorem only if
its axioms ⊆ {propext, Classical.choice, Quot.sound} (discharged).
-/
open Lean Elab Command

elab "#audit_module " m:ident : command => do
  let env ← getEnv
  let some idx := env.getModuleIdx? m.getId
    | throwError "module {m.getId} is not imported"
  let names := env.header.moduleData[idx.toNat]!.constNames
  for n in names do
    if n.isInternal then continue
    let last := match n with | .str _ s => s | _ => ""
    if last.startsWith "eq_" || last == "congr_simp" || last.startsWith "match_" || last == "injEq"
       || last == "inj" || last.startsWith "sizeOf" || last == "noConfusion" then continue
    if (← findDeclarationRanges? n).isNone then continue
    match env.find? n with
    | some (.thmInfo _) =>
      let axs ← Lean.collectAxioms n
      let s := " ".intercalate (axs.toList.map (·.toString))
      logInfo m!"AUDIT {n} :: {s}"
    | _ => pure ()
