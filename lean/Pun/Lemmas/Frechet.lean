import Mathlib.Data.Fintype.Card
import Mathlib.Data.Fintype.Perm
import Mathlib.Data.Finset.Card
import Mathlib.Order.Monotone.Basic
import Mathlib.Algebra.Order.Ring.Defs
import Mathlib.Tactic.Linarith
import Mathlib.Data.Fin.Basic
import Mathlib.Order.Interval.Finset.Fin
import Mathlib.Logic.Function.Basic
import Mathlib.Logic.Equiv.Basic
/-!
# Frechet bounds, abstract form (any linear order, any `n`, any permutation coupling)

* `count_ge`, `count_le` — the inclusion–exclusion counting cores;
* `frechet_left_valid`, `frechet_right_valid` — for `op` monotone in both arguments, sorted bounding
  selections and ANY coupling `σ`, at most `j+k` outcomes fall below `op (a j) (b k)` and at most
  `(n-1-j)+(n-1-k)` above `op (A j) (B k)`;
* `frechet_left_tight` — the anti-diagonal coupling attains the left bound at rank `i`.
-/
set_option linter.unusedSimpArgs false
set_option linter.unusedVariables false
set_option linter.unusedSectionVars false
namespace Pun.Frechet
open Finset
variable {α : Type*} [LinearOrder α]

/-- counting core: at least n - (j+k) indices m have j ≤ m and k ≤ σ m -/
theorem count_ge {n : ℕ} (σ : Equiv.Perm (Fin n)) (j k : Fin n) :
    n - (j.val + k.val) ≤ (univ.filter (fun m : Fin n => j ≤ m ∧ k ≤ σ m)).card := by
  classical
  have hA : (univ.filter (fun m : Fin n => j ≤ m)).card = n - j.val := by
    have : (univ.filter (fun m : Fin n => j ≤ m)) = Finset.Ici j := by ext; simp
    rw [this, Fin.card_Ici]
  have hB : (univ.filter (fun m : Fin n => k ≤ σ m)).card = n - k.val := by
    have : (univ.filter (fun m : Fin n => k ≤ σ m)) = (Finset.Ici k).map σ.symm.toEmbedding := by
      ext m; simp [Equiv.symm_apply_eq]
    rw [this, card_map, Fin.card_Ici]
  have hinter : (univ.filter (fun m : Fin n => j ≤ m ∧ k ≤ σ m)) =
      (univ.filter (fun m : Fin n => j ≤ m)) ∩ (univ.filter (fun m : Fin n => k ≤ σ m)) := by
    ext m; simp
  have hU := card_union_add_card_inter (univ.filter (fun m : Fin n => j ≤ m)) (univ.filter (fun m : Fin n => k ≤ σ m))
  have hle : ((univ.filter (fun m : Fin n => j ≤ m)) ∪ (univ.filter (fun m : Fin n => k ≤ σ m))).card ≤ n := by
    simpa using card_le_univ ((univ.filter (fun m : Fin n => j ≤ m)) ∪ (univ.filter (fun m : Fin n => k ≤ σ m)))
  rw [hinter]
  have hj := j.isLt; have hk := k.isLt
  omega

/-- Frechet lower validity: at most j+k outcomes fall strictly below op (a j) (b k) -/
theorem frechet_left_valid {n : ℕ} (op : α → α → α)
    (hop : ∀ p p' q q', p ≤ p' → q ≤ q' → op p q ≤ op p' q')
    (a b x y : Fin n → α) (ha : Monotone a) (hb : Monotone b)
    (hx : ∀ m, a m ≤ x m) (hy : ∀ m, b m ≤ y m)
    (σ : Equiv.Perm (Fin n)) (j k : Fin n) :
    (univ.filter (fun m : Fin n => op (x m) (y (σ m)) < op (a j) (b k))).card ≤ j.val + k.val := by
  classical
  have h1 := count_ge σ j k
  have hdisj : Disjoint (univ.filter (fun m : Fin n => op (x m) (y (σ m)) < op (a j) (b k)))
      (univ.filter (fun m : Fin n => j ≤ m ∧ k ≤ σ m)) := by
    rw [Finset.disjoint_left]
    intro m hm hm'
    simp only [mem_filter, mem_univ, true_and] at hm hm'
    have : op (a j) (b k) ≤ op (x m) (y (σ m)) :=
      hop _ _ _ _ (le_trans (ha hm'.1) (hx m)) (le_trans (hb hm'.2) (hy _))
    exact absurd hm (not_lt.mpr this)
  have h2 := card_union_of_disjoint hdisj
  have h3 : ((univ.filter (fun m : Fin n => op (x m) (y (σ m)) < op (a j) (b k))) ∪
      (univ.filter (fun m : Fin n => j ≤ m ∧ k ≤ σ m))).card ≤ n := by
    simpa using card_le_univ ((univ.filter (fun m : Fin n => op (x m) (y (σ m)) < op (a j) (b k))) ∪
      (univ.filter (fun m : Fin n => j ≤ m ∧ k ≤ σ m)))
  have hj := j.isLt; have hk := k.isLt
  omega

theorem count_le {n : ℕ} (σ : Equiv.Perm (Fin n)) (j k : Fin n) :
    (j.val + 1) + (k.val + 1) - n ≤ (univ.filter (fun m : Fin n => m ≤ j ∧ σ m ≤ k)).card := by
  classical
  have hA : (univ.filter (fun m : Fin n => m ≤ j)).card = j.val + 1 := by
    have : (univ.filter (fun m : Fin n => m ≤ j)) = Finset.Iic j := by ext; simp
    rw [this, Fin.card_Iic]
  have hB : (univ.filter (fun m : Fin n => σ m ≤ k)).card = k.val + 1 := by
    have : (univ.filter (fun m : Fin n => σ m ≤ k)) = (Finset.Iic k).map σ.symm.toEmbedding := by
      ext m; simp
    rw [this, card_map, Fin.card_Iic]
  have hinter : (univ.filter (fun m : Fin n => m ≤ j ∧ σ m ≤ k)) =
      (univ.filter (fun m : Fin n => m ≤ j)) ∩ (univ.filter (fun m : Fin n => σ m ≤ k)) := by
    ext m; simp
  have hU := card_union_add_card_inter (univ.filter (fun m : Fin n => m ≤ j)) (univ.filter (fun m : Fin n => σ m ≤ k))
  have hle : ((univ.filter (fun m : Fin n => m ≤ j)) ∪ (univ.filter (fun m : Fin n => σ m ≤ k))).card ≤ n := by
    simpa using card_le_univ ((univ.filter (fun m : Fin n => m ≤ j)) ∪ (univ.filter (fun m : Fin n => σ m ≤ k)))
  rw [hinter]
  omega

/-- Frechet upper validity: with `j + k = n - 1 + i`, at most `n - 1 - i` outcomes exceed `op (A j) (B k)` -/
theorem frechet_right_valid {n : ℕ} (op : α → α → α)
    (hop : ∀ p p' q q', p ≤ p' → q ≤ q' → op p q ≤ op p' q')
    (A B x y : Fin n → α) (hA : Monotone A) (hB : Monotone B)
    (hx : ∀ m, x m ≤ A m) (hy : ∀ m, y m ≤ B m)
    (σ : Equiv.Perm (Fin n)) (j k : Fin n) :
    (univ.filter (fun m : Fin n => op (A j) (B k) < op (x m) (y (σ m)))).card
      ≤ (n - 1 - j.val) + (n - 1 - k.val) := by
  classical
  have h1 := count_le σ j k
  have hdisj : Disjoint (univ.filter (fun m : Fin n => op (A j) (B k) < op (x m) (y (σ m))))
      (univ.filter (fun m : Fin n => m ≤ j ∧ σ m ≤ k)) := by
    rw [Finset.disjoint_left]
    intro m hm hm'
    rw [Finset.mem_filter] at hm hm'
    have : op (x m) (y (σ m)) ≤ op (A j) (B k) :=
      hop _ _ _ _ (le_trans (hx m) (hA hm'.2.1)) (le_trans (hy _) (hB hm'.2.2))
    exact absurd hm.2 (not_lt.mpr this)
  have h2 := card_union_of_disjoint hdisj
  have h3 : ((univ.filter (fun m : Fin n => op (A j) (B k) < op (x m) (y (σ m)))) ∪
      (univ.filter (fun m : Fin n => m ≤ j ∧ σ m ≤ k))).card ≤ n := by
    simpa using card_le_univ ((univ.filter (fun m : Fin n => op (A j) (B k) < op (x m) (y (σ m)))) ∪
      (univ.filter (fun m : Fin n => m ≤ j ∧ σ m ≤ k)))
  have hj := j.isLt; have hk := k.isLt
  omega

/-- the extremal coupling for rank `i`: anti-diagonal on `{0..i}`, identity above -/
def antiDiag {n : ℕ} (i : Fin n) (m : Fin n) : Fin n :=
  if h : m ≤ i then ⟨i.val - m.val, lt_of_le_of_lt (Nat.sub_le _ _) i.isLt⟩ else m

theorem antiDiag_invol {n : ℕ} (i : Fin n) : Function.Involutive (antiDiag i) := by
  intro m
  unfold antiDiag
  by_cases h : m ≤ i
  · have h' : (⟨i.val - m.val, lt_of_le_of_lt (Nat.sub_le _ _) i.isLt⟩ : Fin n) ≤ i := by
      simp only [Fin.le_def]; omega
    simp only [h, h', dite_true]
    apply Fin.ext
    simp only [Fin.le_def] at h
    simp only; omega
  · simp [h]

theorem frechet_left_tight {n : ℕ} (op : α → α → α)
    (hop : ∀ p p' q q', p ≤ p' → q ≤ q' → op p q ≤ op p' q')
    (a b : Fin n → α) (ha : Monotone a) (hb : Monotone b) (i : Fin n) (L : α)
    (hub : ∀ j k : Fin n, j.val + k.val = i.val → op (a j) (b k) ≤ L)
    (hatt : ∃ j k : Fin n, j.val + k.val = i.val ∧ op (a j) (b k) = L) :
    ∃ σ : Equiv.Perm (Fin n),
      (univ.filter (fun m : Fin n => op (a m) (b (σ m)) < L)).card ≤ i.val ∧
      i.val + 1 ≤ (univ.filter (fun m : Fin n => op (a m) (b (σ m)) ≤ L)).card := by
  classical
  obtain ⟨js, ks, hjk, hL⟩ := hatt
  refine ⟨(antiDiag_invol i).toPerm _, ?_, ?_⟩
  · -- strictly below L: only indices m ≤ i, m ≠ js
    have hsub : (univ.filter (fun m : Fin n => op (a m) (b ((antiDiag_invol i).toPerm _ m)) < L))
        ⊆ (Finset.Iic i).erase js := by
      intro m hm
      rw [Finset.mem_filter] at hm
      obtain ⟨-, hm⟩ := hm
      rw [Function.Involutive.coe_toPerm] at hm
      rw [Finset.mem_erase, Finset.mem_Iic]
      by_cases hmi : m ≤ i
      · refine ⟨?_, hmi⟩
        rintro rfl
        have : antiDiag i m = ks := by
          unfold antiDiag; simp only [hmi, dite_true]; apply Fin.ext; simp only; omega
        rw [this, hL] at hm
        exact lt_irrefl _ hm
      · exfalso
        have hm' : antiDiag i m = m := by unfold antiDiag; simp [hmi]
        rw [hm'] at hm
        have hjm : js ≤ m := by
          simp only [Fin.le_def] at hmi ⊢; omega
        have hkm : ks ≤ m := by
          simp only [Fin.le_def] at hmi ⊢; omega
        have : L ≤ op (a m) (b m) := by
          rw [← hL]; exact hop _ _ _ _ (ha hjm) (hb hkm)
        exact absurd hm (not_lt.mpr this)
    have hjs : js ∈ Finset.Iic i := by
      rw [Finset.mem_Iic, Fin.le_def]; omega
    calc _ ≤ ((Finset.Iic i).erase js).card := card_le_card hsub
      _ = (Finset.Iic i).card - 1 := card_erase_of_mem hjs
      _ = i.val := by rw [Fin.card_Iic]; omega
  · have hsub : Finset.Iic i ⊆
        (univ.filter (fun m : Fin n => op (a m) (b ((antiDiag_invol i).toPerm _ m)) ≤ L)) := by
      intro m hm
      rw [Finset.mem_Iic] at hm
      rw [Finset.mem_filter]
      refine ⟨mem_univ _, ?_⟩
      rw [Function.Involutive.coe_toPerm]
      have : (antiDiag i m).val = i.val - m.val := by unfold antiDiag; simp [hm]
      apply hub
      rw [this]; simp only [Fin.le_def] at hm; omega
    calc i.val + 1 = (Finset.Iic i).card := by rw [Fin.card_Iic]
      _ ≤ _ := card_le_card hsub

/-- the extremal coupling for the right bound at rank `i`: identity below `i`, anti-diagonal
`m ↦ n-1+i-m` on `{i..n-1}` -/
def antiDiagR {n : ℕ} (i : Fin n) (m : Fin n) : Fin n :=
  if h : i ≤ m then ⟨n - 1 + i.val - m.val, by have := m.isLt; simp only [Fin.le_def] at h; omega⟩ else m

theorem antiDiagR_invol {n : ℕ} (i : Fin n) : Function.Involutive (antiDiagR i) := by
  intro m
  unfold antiDiagR
  by_cases h : i ≤ m
  · have hm := m.isLt
    have h' : i ≤ (⟨n - 1 + i.val - m.val, by simp only [Fin.le_def] at h; omega⟩ : Fin n) := by
      simp only [Fin.le_def] at h ⊢; omega
    simp only [h, h', dite_true]
    apply Fin.ext
    simp only [Fin.le_def] at h
    simp only; omega
  · simp [h]

/-- **Frechet right bound is best possible**: the coupling `antiDiagR i` of the right-bounding
selections makes the `i`-th smallest outcome equal to `R` (at most `n-1-i` outcomes strictly above,
at least `n-i` outcomes at or above). -/
theorem frechet_right_tight {n : ℕ} (op : α → α → α)
    (hop : ∀ p p' q q', p ≤ p' → q ≤ q' → op p q ≤ op p' q')
    (A B : Fin n → α) (hA : Monotone A) (hB : Monotone B) (i : Fin n) (R : α)
    (hlb : ∀ j k : Fin n, j.val + k.val = n - 1 + i.val → R ≤ op (A j) (B k))
    (hatt : ∃ j k : Fin n, j.val + k.val = n - 1 + i.val ∧ op (A j) (B k) = R) :
    ∃ σ : Equiv.Perm (Fin n),
      (univ.filter (fun m : Fin n => R < op (A m) (B (σ m)))).card ≤ n - 1 - i.val ∧
      n - i.val ≤ (univ.filter (fun m : Fin n => R ≤ op (A m) (B (σ m)))).card := by
  classical
  obtain ⟨js, ks, hjk, hR⟩ := hatt
  have hjs := js.isLt; have hks := ks.isLt; have hi := i.isLt
  refine ⟨(antiDiagR_invol i).toPerm _, ?_, ?_⟩
  · have hsub : (univ.filter (fun m : Fin n => R < op (A m) (B ((antiDiagR_invol i).toPerm _ m))))
        ⊆ (Finset.Ici i).erase js := by
      intro m hm
      rw [Finset.mem_filter] at hm
      obtain ⟨-, hm⟩ := hm
      rw [Function.Involutive.coe_toPerm] at hm
      rw [Finset.mem_erase, Finset.mem_Ici]
      by_cases hmi : i ≤ m
      · refine ⟨?_, hmi⟩
        rintro rfl
        have : antiDiagR i m = ks := by
          unfold antiDiagR; simp only [hmi, dite_true]; apply Fin.ext; simp only; omega
        rw [this, hR] at hm
        exact lt_irrefl _ hm
      · exfalso
        have hm' : antiDiagR i m = m := by unfold antiDiagR; simp [hmi]
        rw [hm'] at hm
        have hjm : m ≤ js := by
          simp only [Fin.le_def] at hmi ⊢; omega
        have hkm : m ≤ ks := by
          simp only [Fin.le_def] at hmi ⊢; omega
        have : op (A m) (B m) ≤ R := by
          rw [← hR]; exact hop _ _ _ _ (hA hjm) (hB hkm)
        exact absurd hm (not_lt.mpr this)
    have hjsmem : js ∈ Finset.Ici i := by
      rw [Finset.mem_Ici, Fin.le_def]; omega
    calc _ ≤ ((Finset.Ici i).erase js).card := card_le_card hsub
      _ = (Finset.Ici i).card - 1 := card_erase_of_mem hjsmem
      _ = n - 1 - i.val := by rw [Fin.card_Ici]; omega
  · have hsub : Finset.Ici i ⊆
        (univ.filter (fun m : Fin n => R ≤ op (A m) (B ((antiDiagR_invol i).toPerm _ m)))) := by
      intro m hm
      rw [Finset.mem_Ici] at hm
      rw [Finset.mem_filter]
      refine ⟨mem_univ _, ?_⟩
      rw [Function.Involutive.coe_toPerm]
      have hmlt := m.isLt
      have : (antiDiagR i m).val = n - 1 + i.val - m.val := by unfold antiDiagR; simp [hm]
      apply hlb
      rw [this]; simp only [Fin.le_def] at hm; omega
    calc n - i.val = (Finset.Ici i).card := by rw [Fin.card_Ici]
      _ ≤ _ := card_le_card hsub


end Pun.Frechet
