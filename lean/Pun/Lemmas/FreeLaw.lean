import Mathlib.Algebra.BigOperators.Group.Finset.Basic
import Mathlib.Algebra.BigOperators.Ring.Finset
import Mathlib.Algebra.Order.BigOperators.Ring.Finset
import Mathlib.Algebra.Order.BigOperators.Group.Finset
import Mathlib.Algebra.Order.Field.Rat
import Mathlib.Algebra.Order.Field.Basic
import Mathlib.Data.Fintype.BigOperators
import Mathlib.Tactic.Linarith
import Mathlib.Tactic.Ring
import Mathlib.Tactic.FieldSimp
import Mathlib.Tactic.Positivity
/-!
# Finite discrete laws and the classical moment inequalities in quantile form (C10)

A law is a finite family of atoms `x i` with weights `w i ≥ 0` summing to one.
`q` is a `p`-quantile when `P(X < q) ≤ p ≤ P(X ≤ q)`.
-/
set_option linter.unusedSimpArgs false
set_option linter.unusedVariables false
namespace Pun.Law
open Finset

variable {ι : Type*} [Fintype ι]

/-- weights are non-negative and sum to one -/
def IsLaw (w : ι → ℚ) : Prop := (∀ i, 0 ≤ w i) ∧ ∑ i, w i = 1
/-- `P(X < q)` -/
def below (w x : ι → ℚ) (q : ℚ) : ℚ := ∑ i ∈ univ.filter (fun i => x i < q), w i
/-- `P(X ≤ q)` -/
def atMost (w x : ι → ℚ) (q : ℚ) : ℚ := ∑ i ∈ univ.filter (fun i => x i ≤ q), w i
def mean (w x : ι → ℚ) : ℚ := ∑ i, w i * x i
def var (w x : ι → ℚ) : ℚ := ∑ i, w i * (x i - mean w x) ^ 2
/-- `q` is a quantile of level `p` -/
def IsQuantile (w x : ι → ℚ) (p q : ℚ) : Prop := below w x q ≤ p ∧ p ≤ atMost w x q

/-- Markov in quantile form (P5) -/
theorem markov_quantile (w x : ι → ℚ)
    (hw : ∀ i, 0 ≤ w i) (hsum : ∑ i, w i = 1)
    (m μ p q : ℚ) (hm : ∀ i, m ≤ x i) (hμ : ∑ i, w i * x i = μ)
    (hp1 : p < 1) (hq : ∑ i ∈ univ.filter (fun i => x i < q), w i ≤ p) :
    q ≤ m + (μ - m) / (1 - p) := by
  classical
  have h1p : 0 < 1 - p := by linarith
  have hcen : ∑ i, w i * (x i - m) = μ - m := by
    have : ∑ i, w i * (x i - m) = ∑ i, w i * x i - m * ∑ i, w i := by
      rw [Finset.mul_sum, ← Finset.sum_sub_distrib]
      apply Finset.sum_congr rfl; intro i _; ring
    rw [this, hμ, hsum]; ring
  have hμm : 0 ≤ μ - m := by
    rw [← hcen]; apply Finset.sum_nonneg; intro i _
    exact mul_nonneg (hw i) (sub_nonneg.mpr (hm i))
  by_cases hqm : q ≤ m
  · have : 0 ≤ (μ - m) / (1 - p) := div_nonneg hμm (le_of_lt h1p)
    linarith
  · have hqm' : 0 < q - m := by linarith [not_le.mp hqm]
    have hsplit := Finset.sum_filter_add_sum_filter_not univ (fun i => x i < q) (fun i => w i * (x i - m))
    have hsplitw := Finset.sum_filter_add_sum_filter_not univ (fun i => x i < q) w
    have hlow : 0 ≤ ∑ i ∈ univ.filter (fun i => x i < q), w i * (x i - m) := by
      apply Finset.sum_nonneg; intro i _
      exact mul_nonneg (hw i) (sub_nonneg.mpr (hm i))
    have hhigh : (q - m) * ∑ i ∈ univ.filter (fun i => ¬ x i < q), w i
        ≤ ∑ i ∈ univ.filter (fun i => ¬ x i < q), w i * (x i - m) := by
      rw [Finset.mul_sum]
      apply Finset.sum_le_sum; intro i hi
      rw [Finset.mem_filter] at hi
      have : q ≤ x i := not_lt.mp hi.2
      have := hw i
      nlinarith
    have hmass : 1 - p ≤ ∑ i ∈ univ.filter (fun i => ¬ x i < q), w i := by
      rw [hsum] at hsplitw; linarith
    have hfin : (q - m) * (1 - p) ≤ μ - m := by
      rw [hcen] at hsplit
      nlinarith
    have : q - m ≤ (μ - m) / (1 - p) := by
      rw [le_div_iff₀ h1p]; exact hfin
    linarith

/-- one-sided Chebyshev (Cantelli), division-free (P6) -/
theorem cantelli_lower (w x : ι → ℚ)
    (hw : ∀ i, 0 ≤ w i) (hsum : ∑ i, w i = 1)
    (μ V t : ℚ) (hμ : ∑ i, w i * x i = μ) (hV : ∑ i, w i * (x i - μ) ^ 2 = V) (ht : 0 < t) :
    (∑ i ∈ univ.filter (fun i => x i ≤ μ - t), w i) * (V + t ^ 2) ≤ V := by
  classical
  set P := ∑ i ∈ univ.filter (fun i => x i ≤ μ - t), w i with hP
  have hV0 : 0 ≤ V := by
    rw [← hV]; apply Finset.sum_nonneg; intro i _; exact mul_nonneg (hw i) (sq_nonneg _)
  have hP0 : 0 ≤ P := Finset.sum_nonneg (fun i _ => hw i)
  have hshift : ∀ u : ℚ, ∑ i, w i * (μ - x i + u) ^ 2 = V + u ^ 2 := by
    intro u
    have hc : ∑ i, w i * (μ - x i) = 0 := by
      have : ∑ i, w i * (μ - x i) = μ * ∑ i, w i - ∑ i, w i * x i := by
        rw [Finset.mul_sum, ← Finset.sum_sub_distrib]; apply Finset.sum_congr rfl; intro i _; ring
      rw [this, hsum, hμ]; ring
    have : ∑ i, w i * (μ - x i + u) ^ 2
        = ∑ i, w i * (x i - μ) ^ 2 + 2 * u * ∑ i, w i * (μ - x i) + u ^ 2 * ∑ i, w i := by
      rw [Finset.mul_sum, Finset.mul_sum, ← Finset.sum_add_distrib, ← Finset.sum_add_distrib]
      apply Finset.sum_congr rfl; intro i _; ring
    rw [this, hV, hc, hsum]; ring
  have hmk : ∀ u : ℚ, 0 ≤ u → P * (t + u) ^ 2 ≤ V + u ^ 2 := by
    intro u hu
    rw [← hshift u, hP, Finset.sum_mul]
    calc ∑ i ∈ univ.filter (fun i => x i ≤ μ - t), w i * (t + u) ^ 2
        ≤ ∑ i ∈ univ.filter (fun i => x i ≤ μ - t), w i * (μ - x i + u) ^ 2 := by
          apply Finset.sum_le_sum; intro i hi
          rw [Finset.mem_filter] at hi
          apply mul_le_mul_of_nonneg_left _ (hw i)
          have h1 : t + u ≤ μ - x i + u := by linarith [hi.2]
          have h0 : 0 ≤ t + u := by linarith
          exact pow_le_pow_left₀ h0 h1 2
      _ ≤ ∑ i, w i * (μ - x i + u) ^ 2 := by
          apply Finset.sum_le_sum_of_subset_of_nonneg (Finset.filter_subset _ _)
          intro i _ _; exact mul_nonneg (hw i) (sq_nonneg _)
  have hu := hmk (V / t) (div_nonneg hV0 (le_of_lt ht))
  have ht2 : 0 < t ^ 2 := by positivity
  have hpos : 0 < V + t ^ 2 := by linarith
  have e1 : (t + V / t) ^ 2 = (V + t ^ 2) ^ 2 / t ^ 2 := by field_simp; ring
  have e2 : V + (V / t) ^ 2 = V * (V + t ^ 2) / t ^ 2 := by field_simp; ring
  rw [e1, e2, ← mul_div_assoc, div_le_div_iff_of_pos_right ht2] at hu
  have : P * (V + t ^ 2) * (V + t ^ 2) ≤ V * (V + t ^ 2) := by nlinarith
  exact le_of_mul_le_mul_right this hpos

/-- quantile form, squared to avoid `sqrt` (P6) -/
theorem cantelli_quantile_left (w x : ι → ℚ)
    (hw : ∀ i, 0 ≤ w i) (hsum : ∑ i, w i = 1)
    (μ V p q : ℚ) (hμ : ∑ i, w i * x i = μ) (hV : ∑ i, w i * (x i - μ) ^ 2 = V)
    (hq : q < μ) (hp : p ≤ ∑ i ∈ univ.filter (fun i => x i ≤ q), w i) :
    p * (μ - q) ^ 2 ≤ V * (1 - p) := by
  classical
  have h := cantelli_lower w x hw hsum μ V (μ - q) hμ hV (by linarith)
  have hset : (univ.filter (fun i => x i ≤ μ - (μ - q))) = univ.filter (fun i => x i ≤ q) := by
    congr 1; ext i; simp
  rw [hset] at h
  have hV0 : 0 ≤ V := by
    rw [← hV]; apply Finset.sum_nonneg; intro i _; exact mul_nonneg (hw i) (sq_nonneg _)
  have hsq : 0 ≤ (μ - q) ^ 2 := sq_nonneg _
  nlinarith


/-! ## consequences in the form used by the constructors -/

theorem atMost_add_above (w x : ι → ℚ) (hsum : ∑ i, w i = 1) (q : ℚ) :
    atMost w x q + ∑ i ∈ univ.filter (fun i => q < x i), w i = 1 := by
  classical
  have h := Finset.sum_filter_add_sum_filter_not univ (fun i => x i ≤ q) w
  have e : univ.filter (fun i => ¬ x i ≤ q) = univ.filter (fun i => q < x i) := by
    ext i; simp
  rw [e, hsum] at h; exact h

theorem below_add_atLeast (w x : ι → ℚ) (hsum : ∑ i, w i = 1) (q : ℚ) :
    below w x q + ∑ i ∈ univ.filter (fun i => q ≤ x i), w i = 1 := by
  classical
  have h := Finset.sum_filter_add_sum_filter_not univ (fun i => x i < q) w
  have e : univ.filter (fun i => ¬ x i < q) = univ.filter (fun i => q ≤ x i) := by
    ext i; simp
  rw [e, hsum] at h; exact h

/-- a quantile of positive level is not below the support -/
theorem quantile_ge_min (w x : ι → ℚ) (m p q : ℚ) (hm : ∀ i, m ≤ x i)
    (hp : 0 < p) (hq : p ≤ atMost w x q) : m ≤ q := by
  classical
  by_contra h
  have h' : q < m := not_le.mp h
  have e : univ.filter (fun i => x i ≤ q) = ∅ := by
    ext i; simp; linarith [hm i]
  unfold atMost at hq; rw [e, Finset.sum_empty] at hq; linarith

/-- a quantile of level below one is not above the support -/
theorem quantile_le_max (w x : ι → ℚ) (hsum : ∑ i, w i = 1) (b p q : ℚ) (hb : ∀ i, x i ≤ b)
    (hp : p < 1) (hq : below w x q ≤ p) : q ≤ b := by
  classical
  by_contra h
  have h' : b < q := not_le.mp h
  have e : univ.filter (fun i => x i < q) = univ := by
    ext i; simp; linarith [hb i]
  unfold below at hq; rw [e, hsum] at hq; linarith

/-- Markov for the upper end: support `≤ b`, mean `μ`, `0 < p ≤ P(X ≤ q)` gives `b - (b-μ)/p ≤ q` -/
theorem markov_quantile_lower (w x : ι → ℚ) (hw : ∀ i, 0 ≤ w i) (hsum : ∑ i, w i = 1)
    (b μ p q : ℚ) (hb : ∀ i, x i ≤ b) (hμ : ∑ i, w i * x i = μ)
    (hp : 0 < p) (hq : p ≤ atMost w x q) : b - (b - μ) / p ≤ q := by
  classical
  have hμ' : ∑ i, w i * (fun i => - x i) i = -μ := by
    rw [← hμ, ← Finset.sum_neg_distrib]; apply Finset.sum_congr rfl; intro i _; ring
  have hfil : ∑ i ∈ univ.filter (fun i => (fun i => - x i) i < -q), w i ≤ 1 - p := by
    have e : univ.filter (fun i => (fun i => - x i) i < -q) = univ.filter (fun i => q < x i) := by
      ext i; simp
    rw [e]; have := atMost_add_above w x hsum q; linarith
  have h := markov_quantile w (fun i => - x i) hw hsum (-b) (-μ) (1 - p) (-q)
    (fun i => by simp; exact hb i) hμ' (by linarith) hfil
  have e : (1 : ℚ) - (1 - p) = p := by ring
  have e2 : -μ - -b = b - μ := by ring
  rw [e, e2] at h; linarith

/-- Cantelli, left: with `σ ≥ 0`, variance `σ²`, `t ≥ 0`, `t² ≥ 1/i - 1` (`t` is the square root or any upper
approximation of it; an exact root need not be rational), `0 < i ≤ p ≤ P(X ≤ q)`: `μ - σ t ≤ q` -/
theorem cantelli_left_bound (w x : ι → ℚ) (hw : ∀ i, 0 ≤ w i) (hsum : ∑ i, w i = 1)
    (μ σ t i p q : ℚ) (hμ : ∑ i, w i * x i = μ) (hV : ∑ i, w i * (x i - μ) ^ 2 = σ ^ 2)
    (hσ : 0 ≤ σ) (ht : 0 ≤ t) (htt : 1 / i - 1 ≤ t * t) (hi : 0 < i) (hip : i ≤ p)
    (hq : p ≤ atMost w x q) : μ - σ * t ≤ q := by
  classical
  by_cases hqμ : q < μ
  · have h := cantelli_quantile_left w x hw hsum μ (σ ^ 2) p q hμ hV hqμ hq
    have hp : 0 < p := lt_of_lt_of_le hi hip
    have hst : 0 ≤ σ * t := mul_nonneg hσ ht
    -- (1 - p) ≤ p * (1/i - 1)
    have hk : 1 - p ≤ p * (1 / i - 1) := by
      have : 1 ≤ p / i := by rw [le_div_iff₀ hi]; linarith
      have e : p * (1 / i - 1) = p / i - p := by ring
      rw [e]; linarith
    have h2 : p * (μ - q) ^ 2 ≤ p * (σ * t) ^ 2 := by
      have e : (σ * t) ^ 2 = σ ^ 2 * (t * t) := by ring
      rw [e]
      have : σ ^ 2 * (1 - p) ≤ σ ^ 2 * (p * (1 / i - 1)) := mul_le_mul_of_nonneg_left hk (sq_nonneg σ)
      have h5 : σ ^ 2 * (1 / i - 1) ≤ σ ^ 2 * (t * t) := mul_le_mul_of_nonneg_left htt (sq_nonneg σ)
      calc p * (μ - q) ^ 2 ≤ σ ^ 2 * (1 - p) := h
        _ ≤ σ ^ 2 * (p * (1 / i - 1)) := this
        _ = p * (σ ^ 2 * (1 / i - 1)) := by ring
        _ ≤ p * (σ ^ 2 * (t * t)) := mul_le_mul_of_nonneg_left h5 (le_of_lt hp)
    have h3 : (μ - q) ^ 2 ≤ (σ * t) ^ 2 := le_of_mul_le_mul_left h2 hp
    have h4 : μ - q ≤ σ * t := by
      by_contra hc
      have hc' : σ * t < μ - q := not_le.mp hc
      have : (σ * t) ^ 2 < (μ - q) ^ 2 := pow_lt_pow_left₀ hc' hst (by norm_num)
      linarith
    linarith
  · have : 0 ≤ σ * t := mul_nonneg hσ ht
    linarith [not_lt.mp hqμ]

/-- Cantelli, right: `t ≥ 0`, `t² ≥ j/(1-j)`, `P(X < q) ≤ p ≤ j < 1`: `q ≤ μ + σ t` -/
theorem cantelli_right_bound (w x : ι → ℚ) (hw : ∀ i, 0 ≤ w i) (hsum : ∑ i, w i = 1)
    (μ σ t j p q : ℚ) (hμ : ∑ i, w i * x i = μ) (hV : ∑ i, w i * (x i - μ) ^ 2 = σ ^ 2)
    (hσ : 0 ≤ σ) (ht : 0 ≤ t) (htt : j / (1 - j) ≤ t * t) (hj : j < 1) (hpj : p ≤ j)
    (hq : below w x q ≤ p) : q ≤ μ + σ * t := by
  classical
  have hμ' : ∑ i, w i * (fun i => - x i) i = -μ := by
    rw [← hμ, ← Finset.sum_neg_distrib]; apply Finset.sum_congr rfl; intro i _; ring
  have hV' : ∑ i, w i * ((fun i => - x i) i - -μ) ^ 2 = σ ^ 2 := by
    rw [← hV]; apply Finset.sum_congr rfl; intro i _; ring
  have h1j : 0 < 1 - j := by linarith
  have htt' : 1 / (1 - j) - 1 ≤ t * t := by
    have e : 1 / (1 - j) - 1 = j / (1 - j) := by field_simp; ring
    rw [e]; exact htt
  have hat : 1 - p ≤ atMost w (fun i => - x i) (-q) := by
    unfold atMost
    have e : univ.filter (fun i => (fun i => - x i) i ≤ -q) = univ.filter (fun i => q ≤ x i) := by
      ext i; simp
    rw [e]; have := below_add_atLeast w x hsum q; linarith
  have h := cantelli_left_bound w (fun i => - x i) hw hsum (-μ) σ t (1 - j) (1 - p) (-q) hμ' hV' hσ ht htt' h1j
    (by linarith) hat
  linarith

/-- below the median for levels under one half -/
theorem median_upper (w x : ι → ℚ) (hw : ∀ i, 0 ≤ w i) (med p q : ℚ)
    (hmed : (1 : ℚ) / 2 ≤ atMost w x med) (hp : p < 1 / 2) (hq : below w x q ≤ p) : q ≤ med := by
  classical
  by_contra h
  have h' : med < q := not_le.mp h
  have : atMost w x med ≤ below w x q := by
    unfold atMost below
    apply Finset.sum_le_sum_of_subset_of_nonneg
    · intro i hi; simp at hi ⊢; linarith
    · intro i _ _; exact hw i
  linarith

/-- above the median for levels over one half -/
theorem median_lower (w x : ι → ℚ) (hw : ∀ i, 0 ≤ w i) (med p q : ℚ)
    (hmed : below w x med ≤ 1 / 2) (hp : 1 / 2 < p) (hq : p ≤ atMost w x q) : med ≤ q := by
  classical
  by_contra h
  have h' : q < med := not_le.mp h
  have : atMost w x q ≤ below w x med := by
    unfold atMost below
    apply Finset.sum_le_sum_of_subset_of_nonneg
    · intro i hi; simp at hi ⊢; linarith
    · intro i _ _; exact hw i
  linarith

/-! ## the extremal two-point laws (atoms indexed by `Bool`: `false` = lower atom) -/

def w2 (p : ℚ) : Bool → ℚ := fun b => if b then 1 - p else p
def x2 (lo hi : ℚ) : Bool → ℚ := fun b => if b then hi else lo

theorem two_isLaw (p : ℚ) (h0 : 0 ≤ p) (h1 : p ≤ 1) : IsLaw (w2 p) := by
  constructor
  · intro b; cases b <;> simp [w2] <;> linarith
  · simp [w2]

theorem two_mean (p lo hi : ℚ) : mean (w2 p) (x2 lo hi) = (1 - p) * hi + p * lo := by
  simp [mean, w2, x2]

theorem below_two (p lo hi q : ℚ) :
    below (w2 p) (x2 lo hi) q = (if hi < q then 1 - p else 0) + (if lo < q then p else 0) := by
  unfold below; rw [Finset.sum_filter]; simp [w2, x2]

theorem atMost_two (p lo hi q : ℚ) :
    atMost (w2 p) (x2 lo hi) q = (if hi ≤ q then 1 - p else 0) + (if lo ≤ q then p else 0) := by
  unfold atMost; rw [Finset.sum_filter]; simp [w2, x2]

/-- the Markov two-point law `{m : j, m + (μ-m)/(1-j) : 1-j}` has mean `μ`, support `≥ m`, and its upper atom
— the right bound of `min_mean` at level `j` — is its quantile at every level `p ∈ [j, 1]` -/
theorem markov_two_point (m μ j : ℚ) (hmμ : m ≤ μ) (hj0 : 0 ≤ j) (hj1 : j < 1) :
    IsLaw (w2 j) ∧ mean (w2 j) (x2 m (m + (μ - m) / (1 - j))) = μ ∧
    (∀ b, m ≤ x2 m (m + (μ - m) / (1 - j)) b) ∧
    ∀ p, j ≤ p → p ≤ 1 → IsQuantile (w2 j) (x2 m (m + (μ - m) / (1 - j))) p (m + (μ - m) / (1 - j)) := by
  have h1j : 0 < 1 - j := by linarith
  have hup : 0 ≤ (μ - m) / (1 - j) := div_nonneg (by linarith) (le_of_lt h1j)
  refine ⟨two_isLaw j hj0 (le_of_lt hj1), ?_, ?_, ?_⟩
  · rw [two_mean]; field_simp; ring
  · intro b; cases b <;> simp [x2] <;> linarith
  · intro p hp0 hp1
    constructor
    · rw [below_two]; simp only [lt_irrefl, if_false]; split_ifs <;> linarith
    · rw [atMost_two]; simp only [le_refl, if_true]; split_ifs <;> linarith

/-- the Cantelli two-point law `{μ - σt : i, μ + σ/t : 1-i}` with `t² = 1/i - 1` has mean `μ`, variance `σ²`,
and its lower atom — the left bound of `mean_std` at level `i` — is its quantile at every level `p ∈ [0, i]` -/
theorem cantelli_two_point (μ σ t i : ℚ) (hσ : 0 ≤ σ) (ht : 0 < t) (htt : t * t = 1 / i - 1)
    (hi0 : 0 < i) (hi1 : i < 1) :
    IsLaw (w2 i) ∧ mean (w2 i) (x2 (μ - σ * t) (μ + σ / t)) = μ ∧
    var (w2 i) (x2 (μ - σ * t) (μ + σ / t)) = σ ^ 2 ∧
    ∀ p, 0 ≤ p → p ≤ i → IsQuantile (w2 i) (x2 (μ - σ * t) (μ + σ / t)) p (μ - σ * t) := by
  have hit : i * (t * t) = 1 - i := by rw [htt]; field_simp
  have hmean : mean (w2 i) (x2 (μ - σ * t) (μ + σ / t)) = μ := by
    rw [two_mean]
    have : (1 - i) * (μ + σ / t) + i * (μ - σ * t) = μ + σ * ((1 - i) - i * (t * t)) / t := by
      field_simp; ring
    rw [this, hit]; simp
  refine ⟨two_isLaw i (le_of_lt hi0) (le_of_lt hi1), hmean, ?_, ?_⟩
  · unfold var; rw [hmean]; simp [w2, x2]
    have ht0 : t ≠ 0 := ne_of_gt ht
    have e : (1 - i) * (σ / t) ^ 2 + i * (σ * t) ^ 2 = σ ^ 2 * ((1 - i) / (t * t) + i * (t * t)) := by
      field_simp
    have h1i : (1 - i) / (t * t) = i := by
      rw [← hit]; field_simp
    rw [e, h1i, hit]; ring
  · intro p hp0 hpi
    have hle : μ - σ * t ≤ μ + σ / t := by
      have : 0 ≤ σ * t := mul_nonneg hσ (le_of_lt ht)
      have : 0 ≤ σ / t := div_nonneg hσ (le_of_lt ht)
      linarith
    constructor
    · rw [below_two]; simp only [lt_irrefl, if_false]; split_ifs <;> linarith
    · rw [atMost_two]; simp only [le_refl, if_true]; split_ifs <;> linarith

/-! ## second-moment bounds on `[0,1]` (the `x3` component of `min_max_mean_std`) -/

/-- variance as second moment minus squared mean -/
theorem second_moment (w x : ι → ℚ) (hsum : ∑ i, w i = 1) (m V : ℚ) (hm : ∑ i, w i * x i = m)
    (hV : ∑ i, w i * (x i - m) ^ 2 = V) : ∑ i, w i * x i ^ 2 = V + m ^ 2 := by
  have : ∑ i, w i * (x i - m) ^ 2 = ∑ i, w i * x i ^ 2 - 2 * m * ∑ i, w i * x i + m ^ 2 * ∑ i, w i := by
    rw [Finset.mul_sum, Finset.mul_sum, ← Finset.sum_sub_distrib, ← Finset.sum_add_distrib]
    apply Finset.sum_congr rfl; intro i _; ring
  rw [this, hm, hsum] at hV; linarith

/-- "second-moment Markov at the upper end": on `[0,1]`, `y(y-q) ≤ (1-q)·1{y>q}`, hence
`E[Y²] - q E[Y] ≤ (1-q) P(Y>q) ≤ (1-q)(1-ℓ)` for every level `ℓ ≤ P(Y ≤ q)` -/
theorem second_moment_lower (w x : ι → ℚ) (hw : ∀ i, 0 ≤ w i) (hsum : ∑ i, w i = 1)
    (h0 : ∀ i, 0 ≤ x i) (h1 : ∀ i, x i ≤ 1) (q ℓ : ℚ) (hq0 : 0 ≤ q) (hq1 : q ≤ 1) (hℓ : ℓ ≤ atMost w x q) :
    ∑ i, w i * x i ^ 2 - q * ∑ i, w i * x i ≤ (1 - q) * (1 - ℓ) := by
  classical
  have e : ∑ i, w i * x i ^ 2 - q * ∑ i, w i * x i = ∑ i, w i * (x i ^ 2 - q * x i) := by
    rw [Finset.mul_sum, ← Finset.sum_sub_distrib]; apply Finset.sum_congr rfl; intro i _; ring
  rw [e]
  have hsplit := Finset.sum_filter_add_sum_filter_not univ (fun i => x i ≤ q) (fun i => w i * (x i ^ 2 - q * x i))
  have hlow : ∑ i ∈ univ.filter (fun i => x i ≤ q), w i * (x i ^ 2 - q * x i) ≤ 0 := by
    apply Finset.sum_nonpos; intro i hi
    rw [Finset.mem_filter] at hi
    have : x i ^ 2 - q * x i ≤ 0 := by nlinarith [h0 i, hi.2]
    exact mul_nonpos_of_nonneg_of_nonpos (hw i) this
  have hhigh : ∑ i ∈ univ.filter (fun i => ¬ x i ≤ q), w i * (x i ^ 2 - q * x i)
      ≤ (1 - q) * ∑ i ∈ univ.filter (fun i => ¬ x i ≤ q), w i := by
    rw [Finset.mul_sum]; apply Finset.sum_le_sum; intro i hi
    rw [Finset.mem_filter] at hi
    have hlt : q < x i := not_le.mp hi.2
    have : x i ^ 2 - q * x i ≤ 1 - q := by nlinarith [h0 i, h1 i]
    nlinarith [hw i]
  have habove : ∑ i ∈ univ.filter (fun i => ¬ x i ≤ q), w i = 1 - atMost w x q := by
    have := Finset.sum_filter_add_sum_filter_not univ (fun i => x i ≤ q) w
    rw [hsum] at this; unfold atMost; linarith
  rw [habove] at hhigh
  have : (1 - q) * (1 - atMost w x q) ≤ (1 - q) * (1 - ℓ) :=
    mul_le_mul_of_nonneg_left (by linarith) (by linarith)
  linarith

/-- mirror image at the lower end: `(1-y)(q-y) ≤ q·1{y<q}` on `[0,1]`, hence
`E[(1-Y)(q-Y)] ≤ q P(Y<q) ≤ q ℓ` for every level `ℓ ≥ P(Y < q)` -/
theorem second_moment_upper (w x : ι → ℚ) (hw : ∀ i, 0 ≤ w i) (hsum : ∑ i, w i = 1)
    (h0 : ∀ i, 0 ≤ x i) (h1 : ∀ i, x i ≤ 1) (q ℓ : ℚ) (hq0 : 0 ≤ q) (hq1 : q ≤ 1) (hℓ : below w x q ≤ ℓ) :
    q - q * ∑ i, w i * x i - ∑ i, w i * x i + ∑ i, w i * x i ^ 2 ≤ q * ℓ := by
  classical
  have e : q - q * ∑ i, w i * x i - ∑ i, w i * x i + ∑ i, w i * x i ^ 2 = ∑ i, w i * ((1 - x i) * (q - x i)) := by
    have e' : ∑ i, w i * ((1 - x i) * (q - x i))
        = q * ∑ i, w i - q * ∑ i, w i * x i - ∑ i, w i * x i + ∑ i, w i * x i ^ 2 := by
      rw [Finset.mul_sum, Finset.mul_sum, ← Finset.sum_sub_distrib, ← Finset.sum_sub_distrib, ← Finset.sum_add_distrib]
      apply Finset.sum_congr rfl; intro i _; ring
    rw [e', hsum]; ring
  rw [e]
  have hsplit := Finset.sum_filter_add_sum_filter_not univ (fun i => x i < q) (fun i => w i * ((1 - x i) * (q - x i)))
  have hhigh : ∑ i ∈ univ.filter (fun i => ¬ x i < q), w i * ((1 - x i) * (q - x i)) ≤ 0 := by
    apply Finset.sum_nonpos; intro i hi
    rw [Finset.mem_filter] at hi
    have hge : q ≤ x i := not_lt.mp hi.2
    have : (1 - x i) * (q - x i) ≤ 0 := by nlinarith [h1 i]
    exact mul_nonpos_of_nonneg_of_nonpos (hw i) this
  have hlow : ∑ i ∈ univ.filter (fun i => x i < q), w i * ((1 - x i) * (q - x i))
      ≤ q * ∑ i ∈ univ.filter (fun i => x i < q), w i := by
    rw [Finset.mul_sum]; apply Finset.sum_le_sum; intro i hi
    rw [Finset.mem_filter] at hi
    have : (1 - x i) * (q - x i) ≤ q := by nlinarith [h0 i, h1 i, hi.2]
    nlinarith [hw i]
  have : q * below w x q ≤ q * ℓ := mul_le_mul_of_nonneg_left hℓ hq0
  unfold below at this
  linarith

/-- `t ↦ (c + t²)/(t - d)` decreases on `(d, d + r]` where `r² = c + d²` -/
theorem ratio_antitone (c d m u : ℚ) (hdm : d < m) (hmu : m ≤ u) (hr : (u - d) ^ 2 ≤ c + d ^ 2) :
    (c + u ^ 2) / (u - d) ≤ (c + m ^ 2) / (m - d) := by
  have h1 : 0 < m - d := by linarith
  have h2 : 0 < u - d := by linarith
  rw [div_le_div_iff₀ h2 h1]
  have hk : (m - d) * (u - d) ≤ (u - d) ^ 2 := by nlinarith
  nlinarith [mul_nonneg (sub_nonneg.mpr hmu) (sub_nonneg.mpr (le_trans hk hr))]

/-- and increases towards `d` from below on `[d - r, d)` -/
theorem ratio_antitone' (c d m u : ℚ) (hmd : m < d) (hum : u ≤ m) (hr : (d - u) ^ 2 ≤ c + d ^ 2) :
    (c + m ^ 2) / (m - d) ≤ (c + u ^ 2) / (u - d) := by
  have h1 : 0 < d - m := by linarith
  have h2 : 0 < d - u := by linarith
  have e1 : (c + m ^ 2) / (m - d) = -((c + m ^ 2) / (d - m)) := by
    rw [← neg_sub d m, div_neg]
  have e2 : (c + u ^ 2) / (u - d) = -((c + u ^ 2) / (d - u)) := by
    rw [← neg_sub d u, div_neg]
  rw [e1, e2, neg_le_neg_iff, div_le_div_iff₀ h2 h1]
  have hk : (d - m) * (d - u) ≤ (d - u) ^ 2 := by nlinarith
  nlinarith [mul_nonneg (sub_nonneg.mpr hum) (sub_nonneg.mpr (le_trans hk hr))]


/-! ## affine change of scale `y = (x - a)/r`, `r > 0` -/

theorem atMost_scale (w x : ι → ℚ) (a r q : ℚ) (hr : 0 < r) :
    atMost w (fun i => (x i - a) / r) ((q - a) / r) = atMost w x q := by
  classical
  unfold atMost
  have : univ.filter (fun i => (fun i => (x i - a) / r) i ≤ (q - a) / r) = univ.filter (fun i => x i ≤ q) := by
    ext i; simp only [Finset.mem_filter, Finset.mem_univ, true_and]
    rw [div_le_div_iff_of_pos_right hr]; constructor <;> intro h <;> linarith
  rw [this]

theorem below_scale (w x : ι → ℚ) (a r q : ℚ) (hr : 0 < r) :
    below w (fun i => (x i - a) / r) ((q - a) / r) = below w x q := by
  classical
  unfold below
  have : univ.filter (fun i => (fun i => (x i - a) / r) i < (q - a) / r) = univ.filter (fun i => x i < q) := by
    ext i; simp only [Finset.mem_filter, Finset.mem_univ, true_and]
    rw [div_lt_div_iff_of_pos_right hr]; constructor <;> intro h <;> linarith
  rw [this]

theorem mean_scale (w x : ι → ℚ) (hsum : ∑ i, w i = 1) (a r μ : ℚ) (hμ : ∑ i, w i * x i = μ) :
    ∑ i, w i * ((x i - a) / r) = (μ - a) / r := by
  have : ∑ i, w i * ((x i - a) / r) = (∑ i, w i * x i - a * ∑ i, w i) / r := by
    rw [Finset.mul_sum, ← Finset.sum_sub_distrib, div_eq_mul_inv, Finset.sum_mul]
    apply Finset.sum_congr rfl; intro i _; ring
  rw [this, hμ, hsum]; ring

theorem var_scale (w x : ι → ℚ) (a r μ σ : ℚ) (hV : ∑ i, w i * (x i - μ) ^ 2 = σ ^ 2) :
    ∑ i, w i * ((x i - a) / r - (μ - a) / r) ^ 2 = (σ / r) ^ 2 := by
  have : ∑ i, w i * ((x i - a) / r - (μ - a) / r) ^ 2 = (∑ i, w i * (x i - μ) ^ 2) * (r ^ 2)⁻¹ := by
    rw [Finset.sum_mul]; apply Finset.sum_congr rfl; intro i _
    by_cases h : r = 0
    · subst h; simp
    · field_simp; ring
  rw [this, hV]; ring

/-- Bhatia–Davis: on `[a,b]` the variance is at most `(μ-a)(b-μ)` — "std compatible with the range" -/
theorem var_le_range (w x : ι → ℚ) (hw : ∀ i, 0 ≤ w i) (hsum : ∑ i, w i = 1) (a b μ V : ℚ)
    (ha : ∀ i, a ≤ x i) (hb : ∀ i, x i ≤ b) (hμ : ∑ i, w i * x i = μ) (hV : ∑ i, w i * (x i - μ) ^ 2 = V) :
    V ≤ (μ - a) * (b - μ) := by
  have hE := second_moment w x hsum μ V hμ hV
  have hnn : 0 ≤ ∑ i, w i * ((x i - a) * (b - x i)) := by
    apply Finset.sum_nonneg; intro i _
    exact mul_nonneg (hw i) (mul_nonneg (by linarith [ha i]) (by linarith [hb i]))
  have e : ∑ i, w i * ((x i - a) * (b - x i))
      = (a + b) * ∑ i, w i * x i - ∑ i, w i * x i ^ 2 - a * b * ∑ i, w i := by
    rw [Finset.mul_sum, Finset.mul_sum, ← Finset.sum_sub_distrib, ← Finset.sum_sub_distrib]
    apply Finset.sum_congr rfl; intro i _; ring
  rw [e, hμ, hE, hsum] at hnn
  nlinarith

end Pun.Law
