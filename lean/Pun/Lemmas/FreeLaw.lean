import Mathlib.Algebra.BigOperators.Group.Finset.Basic
import Mathlib.Algebra.BigOperators.Ring.Finset
import Mathlib.Algebra.Order.BigOperators.Ring.Finset
import Mathlib.Algebra.Order.BigOperators.Group.Finset
import Mathlib.Algebra.Order.Field.Rat
import Mathlib.Algebra.Order.Field.Basic
import Mathlib.Data.Fintype.BigOperators
import Mathlib.Tactic.Linarith
import Mathlib.Tactic.Ring
import Mathlib.Tactic.FieldSimp
import Mathlib.Tactic.Positivity
/-!
# Finite discrete laws and the classical moment inequalities in quantile form (C10)

A law is a finite family of atoms `x i` with weights `w i ≥ 0` summing to one.
`q` is a `p`-quantile when `P(X < q) ≤ p ≤ P(X ≤ q)`.
-/
set_option linter.unusedSimpArgs false
set_option linter.unusedVariables false
namespace Pun.Law
open Finset

variable {ι : Type*} [Fintype ι]

/-- weights are non-negative and sum to one -/
def IsLaw (w : ι → ℚ) : Prop := (∀ i, 0 ≤ w i) ∧ ∑ i, w i = 1
/-- `P(X < q)` -/
def below (w x : ι → ℚ) (q : ℚ) : ℚ := ∑ i ∈ univ.filter (fun i => x i < q), w i
/-- `P(X ≤ q)` -/
def atMost (w x : ι → ℚ) (q : ℚ) : ℚ := ∑ i ∈ univ.filter (fun i => x i ≤ q), w i
def mean (w x : ι → ℚ) : ℚ := ∑ i, w i * x i
def var (w x : ι → ℚ) : ℚ := ∑ i, w i * (x i - mean w x) ^ 2
/-- `q` is a quantile of level `p` -/
def IsQuantile (w x : ι → ℚ) (p q : ℚ) : Prop := below w x q ≤ p ∧ p ≤ atMost w x q

/-- Markov in quantile form (P5) -/
theorem markov_quantile (w x : ι → ℚ)
    (hw : ∀ i, 0 ≤ w i) (hsum : ∑ i, w i = 1)
    (m μ p q : ℚ) (hm : ∀ i, m ≤ x i) (hμ : ∑ i, w i * x i = μ)
    (hp1 : p < 1) (hq : ∑ i ∈ univ.filter (fun i => x i < q), w i ≤ p) :
    q ≤ m + (μ - m) / (1 - p) := by
  classical
  have h1p : 0 < 1 - p := by linarith
  have hcen : ∑ i, w i * (x i - m) = μ - m := by
    have : ∑ i, w i * (x i - m) = ∑ i, w i * x i - m * ∑ i, w i := by
      rw [Finset.mul_sum, ← Finset.sum_sub_distrib]
      apply Finset.sum_congr rfl; intro i _; ring
    rw [this, hμ, hsum]; ring
  have hμm : 0 ≤ μ - m := by
    rw [← hcen]; apply Finset.sum_nonneg; intro i _
    exact mul_nonneg (hw i) (sub_nonneg.mpr (hm i))
  by_cases hqm : q ≤ m
  · have : 0 ≤ (μ - m) / (1 - p) := div_nonneg hμm (le_of_lt h1p)
    linarith
  · have hqm' : 0 < q - m := by linarith [not_le.mp hqm]
    have hsplit := Finset.sum_filter_add_sum_filter_not univ (fun i => x i < q) (fun i => w i * (x i - m))
    have hsplitw := Finset.sum_filter_add_sum_filter_not univ (fun i => x i < q) w
    have hlow : 0 ≤ ∑ i ∈ univ.filter (fun i => x i < q), w i * (x i - m) := by
      apply Finset.sum_nonneg; intro i _
      exact mul_nonneg (hw i) (sub_nonneg.mpr (hm i))
    have hhigh : (q - m) * ∑ i ∈ univ.filter (fun i => ¬ x i < q), w i
        ≤ ∑ i ∈ univ.filter (fun i => ¬ x i < q), w i * (x i - m) := by
      rw [Finset.mul_sum]
      apply Finset.sum_le_sum; intro i hi
      rw [Finset.mem_filter] at hi
      have : q ≤ x i := not_lt.mp hi.2
      have := hw i
      nlinarith
    have hmass : 1 - p ≤ ∑ i ∈ univ.filter (fun i => ¬ x i < q), w i := by
      rw [hsum] at hsplitw; linarith
    have hfin : (q - m) * (1 - p) ≤ μ - m := by
      rw [hcen] at hsplit
      nlinarith
    have : q - m ≤ (μ - m) / (1 - p) := by
      rw [le_div_iff₀ h1p]; exact hfin
    linarith

/-- one-sided Chebyshev (Cantelli), division-free (P6) -/
theorem cantelli_lower (w x : ι → ℚ)
    (hw : ∀ i, 0 ≤ w i) (hsum : ∑ i, w i = 1)
    (μ V t : ℚ) (hμ : ∑ i, w i * x i = μ) (hV : ∑ i, w i * (x i - μ) ^ 2 = V) (ht : 0 < t) :
    (∑ i ∈ univ.filter (fun i => x i ≤ μ - t), w i) * (V + t ^ 2) ≤ V := by
  classical
  set P := ∑ i ∈ univ.filter (fun i => x i ≤ μ - t), w i with hP
  have hV0 : 0 ≤ V := by
    rw [← hV]; apply Finset.sum_nonneg; intro i _; exact mul_nonneg (hw i) (sq_nonneg _)
  have hP0 : 0 ≤ P := Finset.sum_nonneg (fun i _ => hw i)
  have hshift : ∀ u : ℚ, ∑ i, w i * (μ - x i + u) ^ 2 = V + u ^ 2 := by
    intro u
    have hc : ∑ i, w i * (μ - x i) = 0 := by
      have : ∑ i, w i * (μ - x i) = μ * ∑ i, w i - ∑ i, w i * x i := by
        rw [Finset.mul_sum, ← Finset.sum_sub_distrib]; apply Finset.sum_congr rfl; intro i _; ring
      rw [this, hsum, hμ]; ring
    have : ∑ i, w i * (μ - x i + u) ^ 2
        = ∑ i, w i * (x i - μ) ^ 2 + 2 * u * ∑ i, w i * (μ - x i) + u ^ 2 * ∑ i, w i := by
      rw [Finset.mul_sum, Finset.mul_sum, ← Finset.sum_add_distrib, ← Finset.sum_add_distrib]
      apply Finset.sum_congr rfl; intro i _; ring
    rw [this, hV, hc, hsum]; ring
  have hmk : ∀ u : ℚ, 0 ≤ u → P * (t + u) ^ 2 ≤ V + u ^ 2 := by
    intro u hu
    rw [← hshift u, hP, Finset.sum_mul]
    calc ∑ i ∈ univ.filter (fun i => x i ≤ μ - t), w i * (t + u) ^ 2
        ≤ ∑ i ∈ univ.filter (fun i => x i ≤ μ - t), w i * (μ - x i + u) ^ 2 := by
          apply Finset.sum_le_sum; intro i hi
          rw [Finset.mem_filter] at hi
          apply mul_le_mul_of_nonneg_left _ (hw i)
          have h1 : t + u ≤ μ - x i + u := by linarith [hi.2]
          have h0 : 0 ≤ t + u := by linarith
          exact pow_le_pow_left₀ h0 h1 2
      _ ≤ ∑ i, w i * (μ - x i + u) ^ 2 := by
          apply Finset.sum_le_sum_of_subset_of_nonneg (Finset.filter_subset _ _)
          intro i _ _; exact mul_nonneg (hw i) (sq_nonneg _)
  have hu := hmk (V / t) (div_nonneg hV0 (le_of_lt ht))
  have ht2 : 0 < t ^ 2 := by positivity
  have hpos : 0 < V + t ^ 2 := by linarith
  have e1 : (t + V / t) ^ 2 = (V + t ^ 2) ^ 2 / t ^ 2 := by field_simp; ring
  have e2 : V + (V / t) ^ 2 = V * (V + t ^ 2) / t ^ 2 := by field_simp; ring
  rw [e1, e2, ← mul_div_assoc, div_le_div_iff_of_pos_right ht2] at hu
  have : P * (V + t ^ 2) * (V + t ^ 2) ≤ V * (V + t ^ 2) := by nlinarith
  exact le_of_mul_le_mul_right this hpos

/-- quantile form, squared to avoid `sqrt` (P6) -/
theorem cantelli_quantile_left (w x : ι → ℚ)
    (hw : ∀ i, 0 ≤ w i) (hsum : ∑ i, w i = 1)
    (μ V p q : ℚ) (hμ : ∑ i, w i * x i = μ) (hV : ∑ i, w i * (x i - μ) ^ 2 = V)
    (hq : q < μ) (hp : p ≤ ∑ i ∈ univ.filter (fun i => x i ≤ q), w i) :
    p * (μ - q) ^ 2 ≤ V * (1 - p) := by
  classical
  have h := cantelli_lower w x hw hsum μ V (μ - q) hμ hV (by linarith)
  have hset : (univ.filter (fun i => x i ≤ μ - (μ - q))) = univ.filter (fun i => x i ≤ q) := by
    congr 1; ext i; simp
  rw [hset] at h
  have hV0 : 0 ≤ V := by
    rw [← hV]; apply Finset.sum_nonneg; intro i _; exact mul_nonneg (hw i) (sq_nonneg _)
  have hsq : 0 ≤ (μ - q) ^ 2 := sq_nonneg _
  nlinarith

end Pun.Law
