import Pun.Lemmas.PBoxFrechet
set_option linter.unusedSimpArgs false
set_option linter.unusedVariables false
namespace Pun.PBox
open Pun

theorem isIncreasing_of_sorted (l : List Rat) (h : l.Pairwise (· ≤ ·)) : isIncreasing l = true := by
  induction l with
  | nil => rfl
  | cons a t ih =>
    cases t with
    | nil => rfl
    | cons b u =>
      rw [List.pairwise_cons] at h
      simp only [isIncreasing, Bool.and_eq_true, decide_eq_true_eq]
      exact ⟨h.1 b (by simp), ih h.2⟩

theorem allGe_antisymm (l r : List Rat) (hlen : l.length = r.length)
    (hle : ∀ i (h : i < l.length), l[i] ≤ r[i]'(by omega)) (hge : allGe l r = true) : l = r := by
  induction l generalizing r with
  | nil => cases r with
    | nil => rfl
    | cons _ _ => simp at hlen
  | cons a t ih =>
    cases r with
    | nil => simp at hlen
    | cons b u =>
      simp only [allGe, List.zip_cons_cons, List.all_cons, Bool.and_eq_true, decide_eq_true_eq] at hge
      have h0 := hle 0 (by simp)
      simp only [List.getElem_cons_zero] at h0
      have hab : a = b := le_antisymm h0 hge.1
      have := ih u (by simpa using hlen) (fun i h => by
        have := hle (i + 1) (by simpa using h)
        simpa using this) (by simpa [allGe] using hge.2)
      rw [hab, this]

/-- pointwise `l ≤ r` means the crossing test of the constructor does not fire -/
theorem no_cross (l r : List Rat) (hlen : l.length = r.length)
    (hle : ∀ i (h : i < l.length), l[i] ≤ r[i]'(by omega)) :
    (l.zip r).any (fun p => decide (p.1 > p.2)) = false := by
  induction l generalizing r with
  | nil => simp
  | cons a t ih =>
    cases r with
    | nil => simp
    | cons b u =>
      have h0 := hle 0 (by simp)
      simp only [List.getElem_cons_zero] at h0
      simp only [List.zip_cons_cons, List.any_cons, Bool.or_eq_false_iff, decide_eq_false_iff_not, not_lt]
      refine ⟨h0, ih u (by simpa using hlen) (fun i h => by
        have := hle (i + 1) (by simpa using h)
        simpa using this)⟩

/-- the array-form constructor accepts a well-formed pair unchanged -/
theorem mk_arr_ok (n : Nat) (l r : List Rat) (hl : l.length = n) (hr : r.length = n)
    (sl : l.Pairwise (· ≤ ·)) (sr : r.Pairwise (· ≤ ·))
    (hle : ∀ i (h : i < l.length), l[i] ≤ r[i]'(by omega)) :
    mk n false l r = .ok ⟨l, r⟩ := by
  have hlen : l.length = r.length := by omega
  have il := isIncreasing_of_sorted l sl
  have ir := isIncreasing_of_sorted r sr
  have nc := no_cross l r hlen hle
  by_cases hge : allGe l r = true
  · have e := allGe_antisymm l r hlen hle hge
    subst e
    simp [mk, hge, boundSteps, hl, il, nc, bind, Except.bind]
  · simp [mk, hlen, hge, boundSteps, hl, hr, il, ir, nc, bind, Except.bind]

/-- `left[i] ≤ right[i]` for the Frechet rule on well-formed operands -/
theorem frechetRaw_le (op : Rat → Rat → Rat)
    (hop : ∀ p p' q q', p ≤ p' → q ≤ q' → op p q ≤ op p' q')
    (a A b B : List Rat) (n : Nat) (ha : a.length = n) (hA : A.length = n) (hb : b.length = n) (hB : B.length = n)
    (sA : A.Pairwise (· ≤ ·)) (sB : B.Pairwise (· ≤ ·))
    (haA : ∀ i (h : i < n), a[i]'(by omega) ≤ A[i]'(by omega))
    (hbB : ∀ i (h : i < n), b[i]'(by omega) ≤ B[i]'(by omega))
    (i : Nat) (hi : i < n) :
    (frechetLeftRaw op a b)[i]'(by rw [frechetLeftRaw_length]; omega) ≤
      (frechetRightRaw op A B)[i]'(by rw [frechetRightRaw_length]; omega) := by
  obtain ⟨v, hv, -, j, hj, hatt⟩ := frechetLeftRaw_spec op a b (by omega) i (by omega)
  obtain ⟨w, hw, -, t, ht, hattw⟩ := frechetRightRaw_spec op A B n hA hB i hi
  have e1 : (frechetLeftRaw op a b)[i]'(by rw [frechetLeftRaw_length]; omega) = v := by
    have := List.getElem?_eq_getElem (l := frechetLeftRaw op a b) (i := i) (by rw [frechetLeftRaw_length]; omega)
    rw [this] at hv; exact Option.some.inj hv
  have e2 : (frechetRightRaw op A B)[i]'(by rw [frechetRightRaw_length]; omega) = w := by
    have := List.getElem?_eq_getElem (l := frechetRightRaw op A B) (i := i) (by rw [frechetRightRaw_length]; omega)
    rw [this] at hw; exact Option.some.inj hw
  rw [e1, e2, hatt, hattw]
  have mono : ∀ (L : List Rat) (sL : L.Pairwise (· ≤ ·)) (p q : Nat) (hp : p < L.length) (hq : q < L.length),
      p ≤ q → L[p] ≤ L[q] := by
    intro L sL p q hp hq hpq
    rcases Nat.lt_or_ge p q with h | h
    · exact (List.pairwise_iff_getElem.mp sL) p q hp hq h
    · have : p = q := by omega
      subst this; exact le_refl _
  apply hop
  · exact le_trans (haA j (by omega)) (mono A sA j (i + t) (by omega) (by omega) (by omega))
  · exact le_trans (hbB (i - j) (by omega)) (mono B sB (i - j) (n - 1 - t) (by omega) (by omega) (by omega))

end Pun.PBox
