import Pun.Lemmas.PBoxFrechet
import Pun.Lemmas.PBoxMk
import Pun.Lemmas.PBoxNeg
import Mathlib.Data.List.Perm.Basic
import Mathlib.Tactic.Ring
import Mathlib.Data.Fintype.Fin
import Mathlib.Data.List.OfFn
/-!
# Frechet arithmetic at the level of the public methods: sign routing, tightness, enclosure

* `WFS`, `WF`, `Sel`, `NonNeg`, `NonPos`, `OneSign` — well-formed operands, selections, sign classes;
* `Valid n R z` — the outcome family `z` has at most `i` values below `R.left[i]` and at most
  `n-1-i` above `R.right[i]`; `IsRank n z i v` — `v` is the `i`-th smallest value of `z`; both only
  depend on the multiset of outcomes (`Valid.reindex`, `IsRank.reindex`) and are mirrored by negation
  (`Valid.neg`, `IsRank.neg`);
* `Good n op X Y R` — validity for every selection and coupling, and attainment of every entry of
  both bounds by some selection and coupling;
* transfer of `Good` through the antitone involutions the library routes through (`flipB φ`:
  negation `negB`, reciprocal `recipB`): `Good.flipX`, `Good.flipY`, `Good.negOut`;
* `good_frechet` — the base case: `classicFrechet` for an operation monotone in both arguments;
  `good_mul_nonneg` — the product of non-negative operands;
* `mul_f_onesign_good` — the public `mul(…,'f')` on operands of one sign each, all four sign
  combinations, through `negativeFrechet`.
-/
set_option linter.unusedSimpArgs false
set_option linter.unusedVariables false
set_option linter.unusedSectionVars false
namespace Pun.PBox
open Pun Finset

/-- well-formed operand: `n` steps, both bounds sorted -/
structure WFS (n : Nat) (p : PB) : Prop where
  llen : p.left.length = n
  rlen : p.right.length = n
  lsorted : p.left.Pairwise (· ≤ ·)
  rsorted : p.right.Pairwise (· ≤ ·)

/-- selection of one value per step -/
def Sel (n : Nat) (p : PB) (h : WFS n p) (z : Fin n → Rat) : Prop :=
  ∀ m : Fin n, p.left[m.val]'(by have := h.llen; omega) ≤ z m ∧ z m ≤ p.right[m.val]'(by have := h.rlen; omega)

/-- fully well-formed p-box: `n` steps, sorted bounds, `left ≤ right` at every step -/
structure WF (n : Nat) (p : PB) : Prop extends WFS n p where
  le : ∀ i (h : i < n), p.left[i]'(by omega) ≤ p.right[i]'(by omega)

/-- non-negative operand -/
def NonNeg (p : PB) : Prop := (∀ v ∈ p.left, 0 ≤ v) ∧ (∀ v ∈ p.right, 0 ≤ v)

/-- non-positive operand -/
def NonPos (p : PB) : Prop := (∀ v ∈ p.left, v ≤ 0) ∧ (∀ v ∈ p.right, v ≤ 0)

/-- operand of one sign (it may touch zero) -/
def OneSign (p : PB) : Prop := NonNeg p ∨ NonPos p

/-! ## outcome families: validity and rank -/

/-- the outcome family `z` lies inside the steps of `R`, by counting -/
def Valid (n : Nat) (R : PB) (z : Fin n → Rat) : Prop :=
  ∀ (i : Fin n) (l r : Rat), R.left[i.val]? = some l → R.right[i.val]? = some r →
    (univ.filter (fun m : Fin n => z m < l)).card ≤ i.val ∧
    (univ.filter (fun m : Fin n => r < z m)).card ≤ n - 1 - i.val

/-- `v` is the `i`-th smallest value of the family `z` (at most `i` values strictly below, at least
`i+1` values at or below) -/
def IsRank (n : Nat) (z : Fin n → Rat) (i : Fin n) (v : Rat) : Prop :=
  (univ.filter (fun m : Fin n => z m < v)).card ≤ i.val ∧
  i.val + 1 ≤ (univ.filter (fun m : Fin n => z m ≤ v)).card

theorem card_filter_perm {n : Nat} (e : Equiv.Perm (Fin n)) (P : Fin n → Prop) [DecidablePred P] :
    (univ.filter (fun m => P (e m))).card = (univ.filter P).card := by
  apply Finset.card_bij (fun m _ => e m)
  · intro m hm
    simpa using hm
  · intro a _ b _ h
    exact e.injective h
  · intro b hb
    refine ⟨e.symm b, ?_, by simp⟩
    simpa using hb

theorem card_lt_add_card_ge {n : Nat} (z : Fin n → Rat) (v : Rat) :
    (univ.filter (fun m : Fin n => z m < v)).card + (univ.filter (fun m : Fin n => v ≤ z m)).card = n := by
  have h := Finset.card_filter_add_card_filter_not (s := (univ : Finset (Fin n))) (fun m : Fin n => z m < v)
  simp only [not_lt, card_univ, Fintype.card_fin] at h
  exact h

theorem card_le_add_card_gt {n : Nat} (z : Fin n → Rat) (v : Rat) :
    (univ.filter (fun m : Fin n => z m ≤ v)).card + (univ.filter (fun m : Fin n => v < z m)).card = n := by
  have h := Finset.card_filter_add_card_filter_not (s := (univ : Finset (Fin n))) (fun m : Fin n => z m ≤ v)
  simp only [not_le, card_univ, Fintype.card_fin] at h
  exact h

/-- the dual description of a rank (counting from above) -/
theorem isRank_iff_right {n : Nat} (z : Fin n → Rat) (i : Fin n) (v : Rat) :
    IsRank n z i v ↔
      (univ.filter (fun m : Fin n => v < z m)).card ≤ n - 1 - i.val ∧
      n - i.val ≤ (univ.filter (fun m : Fin n => v ≤ z m)).card := by
  have h1 := card_lt_add_card_ge z v
  have h2 := card_le_add_card_gt z v
  have hi := i.isLt
  unfold IsRank
  constructor
  · rintro ⟨a, b⟩; constructor <;> omega
  · rintro ⟨a, b⟩; constructor <;> omega

theorem IsRank.reindex {n : Nat} {z : Fin n → Rat} {i : Fin n} {v : Rat} (h : IsRank n z i v)
    (e : Equiv.Perm (Fin n)) : IsRank n (fun m => z (e m)) i v := by
  unfold IsRank at h ⊢
  rw [card_filter_perm e (fun m => z m < v), card_filter_perm e (fun m => z m ≤ v)]
  exact h

theorem Valid.reindex {n : Nat} {R : PB} {z : Fin n → Rat} (h : Valid n R z)
    (e : Equiv.Perm (Fin n)) : Valid n R (fun m => z (e m)) := by
  intro i l r hl hr
  rw [card_filter_perm e (fun m => z m < l), card_filter_perm e (fun m => r < z m)]
  exact h i l r hl hr

theorem IsRank.neg {n : Nat} {z : Fin n → Rat} {i : Fin n} {v : Rat} (h : IsRank n z i v) :
    IsRank n (fun m => - z m) (Fin.rev i) (-v) := by
  rw [isRank_iff_right] at h
  unfold IsRank
  simp only [neg_lt_neg_iff, neg_le_neg_iff, Fin.val_rev]
  have hi := i.isLt
  constructor
  · have := h.1; omega
  · have := h.2; omega

/-! ## the antitone involutions: `flipB φ` (negation, reciprocal) -/

/-- image of a p-box under an order-reversing map: bounds exchanged, steps listed in reverse -/
def flipB (φ : Rat → Rat) (p : PB) : PB := ⟨p.right.reverse.map φ, p.left.reverse.map φ⟩

/-- `-P` -/
abbrev negB (p : PB) : PB := flipB (fun v => -v) p

/-- `1/P` -/
abbrev recipB (p : PB) : PB := flipB (fun v => 1 / v) p

theorem flipB_left_get (φ : Rat → Rat) (p : PB) (n : Nat) (hr : p.right.length = n) (i : Nat) (hi : i < n) :
    (flipB φ p).left[i]? = some (φ (p.right[n - 1 - i]'(by omega))) := by
  subst hr
  simp only [flipB, List.getElem?_map]
  rw [List.getElem?_reverse (by omega), List.getElem?_eq_getElem (by omega)]
  rfl

theorem flipB_right_get (φ : Rat → Rat) (p : PB) (n : Nat) (hl : p.left.length = n) (i : Nat) (hi : i < n) :
    (flipB φ p).right[i]? = some (φ (p.left[n - 1 - i]'(by omega))) := by
  subst hl
  simp only [flipB, List.getElem?_map]
  rw [List.getElem?_reverse (by omega), List.getElem?_eq_getElem (by omega)]
  rfl

theorem Valid.neg {n : Nat} {R : PB} {z : Fin n → Rat} (hl : R.left.length = n) (hr : R.right.length = n)
    (h : Valid n R z) : Valid n (negB R) (fun m => - z m) := by
  intro i l r hl' hr'
  have hi := i.isLt
  rw [flipB_left_get _ R n hr i.val hi] at hl'
  rw [flipB_right_get _ R n hl i.val hi] at hr'
  have e1 := Option.some.inj hl'
  have e2 := Option.some.inj hr'
  subst e1 e2
  have key := h (Fin.rev i) (R.left[n - 1 - i.val]'(by omega)) (R.right[n - 1 - i.val]'(by omega))
    (by rw [List.getElem?_eq_getElem (by simp only [Fin.val_rev]; omega)]; simp only [Fin.val_rev]; congr 2; omega)
    (by rw [List.getElem?_eq_getElem (by simp only [Fin.val_rev]; omega)]; simp only [Fin.val_rev]; congr 2; omega)
  simp only [neg_lt_neg_iff, Fin.val_rev] at key ⊢
  constructor
  · have := key.2; omega
  · have := key.1; omega

/-- `φ` is an order-reversing involution of the order-convex set `S` -/
structure AntiInv (φ : Rat → Rat) (S : Rat → Prop) : Prop where
  maps : ∀ a, S a → S (φ a)
  anti : ∀ a b, S a → S b → a ≤ b → φ b ≤ φ a
  invol : ∀ a, S a → φ (φ a) = a
  convex : ∀ a b c, S a → S c → a ≤ b → b ≤ c → S b

/-- all bounds of `p` lie in `S` -/
def InS (S : Rat → Prop) (p : PB) : Prop := (∀ v ∈ p.left, S v) ∧ (∀ v ∈ p.right, S v)

theorem antiInv_neg : AntiInv (fun v => -v) (fun _ => True) :=
  ⟨fun _ _ => trivial, fun a b _ _ h => neg_le_neg h, fun a _ => neg_neg a, fun _ _ _ _ _ _ _ => trivial⟩

theorem inS_true (p : PB) : InS (fun _ => True) p := ⟨fun _ _ => trivial, fun _ _ => trivial⟩

theorem flip_sorted (φ : Rat → Rat) (S : Rat → Prop) (h : AntiInv φ S) (l : List Rat)
    (s : l.Pairwise (· ≤ ·)) (hS : ∀ v ∈ l, S v) : (l.reverse.map φ).Pairwise (· ≤ ·) := by
  rw [List.pairwise_map, List.pairwise_reverse]
  refine (List.Pairwise.and_mem.mp s).imp ?_
  rintro a b ⟨ha, hb, hab⟩
  exact h.anti a b (hS a ha) (hS b hb) hab

/-- the image of a well-formed p-box under an antitone involution is well formed -/
theorem flipB_wf (φ : Rat → Rat) (S : Rat → Prop) (h : AntiInv φ S) (n : Nat) (p : PB) (hp : WF n p)
    (hS : InS S p) : WF n (flipB φ p) ∧ InS S (flipB φ p) := by
  refine ⟨⟨⟨by simp [flipB, hp.rlen], by simp [flipB, hp.llen], flip_sorted φ S h _ hp.rsorted hS.2,
    flip_sorted φ S h _ hp.lsorted hS.1⟩, ?_⟩, ?_, ?_⟩
  · intro i hi
    have e1 := flipB_left_get φ p n hp.rlen i hi
    have e2 := flipB_right_get φ p n hp.llen i hi
    have l1 : i < (flipB φ p).left.length := by simp [flipB, hp.rlen]; exact hi
    have l2 : i < (flipB φ p).right.length := by simp [flipB, hp.llen]; exact hi
    rw [List.getElem?_eq_getElem l1] at e1
    rw [List.getElem?_eq_getElem l2] at e2
    rw [Option.some.inj e1, Option.some.inj e2]
    have hl := hp.llen; have hr := hp.rlen
    exact h.anti _ _ (hS.1 _ (List.getElem_mem _)) (hS.2 _ (List.getElem_mem _)) (hp.le (n - 1 - i) (by omega))
  · intro v hv
    simp only [flipB, List.mem_map, List.mem_reverse] at hv
    obtain ⟨a, ha, rfl⟩ := hv
    exact h.maps a (hS.2 a ha)
  · intro v hv
    simp only [flipB, List.mem_map, List.mem_reverse] at hv
    obtain ⟨a, ha, rfl⟩ := hv
    exact h.maps a (hS.1 a ha)

/-- every selection of a p-box with bounds in the convex set `S` takes its values in `S` -/
theorem sel_inS (S : Rat → Prop) (φ : Rat → Rat) (h : AntiInv φ S) (n : Nat) (p : PB) (hp : WFS n p)
    (hS : InS S p) (y : Fin n → Rat) (hy : Sel n p hp y) (m : Fin n) : S (y m) :=
  h.convex _ _ _ (hS.1 _ (List.getElem_mem _)) (hS.2 _ (List.getElem_mem _)) (hy m).1 (hy m).2

/-- a selection of `p` is mirrored to a selection of `flipB φ p` -/
theorem sel_flipB (φ : Rat → Rat) (S : Rat → Prop) (h : AntiInv φ S) (n : Nat) (p : PB) (hp : WFS n p)
    (hS : InS S p) (hw : WFS n (flipB φ p)) (y : Fin n → Rat) (hy : Sel n p hp y) :
    Sel n (flipB φ p) hw (fun m => φ (y (Fin.rev m))) := by
  intro m
  have hm := m.isLt
  have hl := hp.llen; have hr := hp.rlen
  have e1 := flipB_left_get φ p n hp.rlen m.val hm
  have e2 := flipB_right_get φ p n hp.llen m.val hm
  have l1 : m.val < (flipB φ p).left.length := by rw [hw.llen]; exact hm
  have l2 : m.val < (flipB φ p).right.length := by rw [hw.rlen]; exact hm
  rw [List.getElem?_eq_getElem l1] at e1
  rw [List.getElem?_eq_getElem l2] at e2
  rw [Option.some.inj e1, Option.some.inj e2]
  have hy' := hy (Fin.rev m)
  have hSy := sel_inS S φ h n p hp hS y hy (Fin.rev m)
  have ea : p.left[(Fin.rev m).val]'(by simp only [Fin.val_rev]; omega) = p.left[n - 1 - m.val]'(by omega) := by
    congr 1; simp only [Fin.val_rev]; omega
  have eb : p.right[(Fin.rev m).val]'(by simp only [Fin.val_rev]; omega) = p.right[n - 1 - m.val]'(by omega) := by
    congr 1; simp only [Fin.val_rev]; omega
  rw [ea, eb] at hy'
  exact ⟨h.anti _ _ hSy (hS.2 _ (List.getElem_mem _)) hy'.2, h.anti _ _ (hS.1 _ (List.getElem_mem _)) hSy hy'.1⟩

/-- and back: every selection of `flipB φ p` is the mirror image of a selection of `p` -/
theorem sel_flipB_inv (φ : Rat → Rat) (S : Rat → Prop) (h : AntiInv φ S) (n : Nat) (p : PB) (hp : WFS n p)
    (hS : InS S p) (hw : WFS n (flipB φ p)) (y' : Fin n → Rat) (hy : Sel n (flipB φ p) hw y') :
    Sel n p hp (fun m => φ (y' (Fin.rev m))) ∧ ∀ m, φ (φ (y' m)) = y' m := by
  have hl := hp.llen; have hr := hp.rlen
  have bnd : ∀ m : Fin n, φ (p.right[n - 1 - m.val]'(by have := m.isLt; omega)) ≤ y' m ∧
      y' m ≤ φ (p.left[n - 1 - m.val]'(by have := m.isLt; omega)) := by
    intro m
    have hm := m.isLt
    have e1 := flipB_left_get φ p n hp.rlen m.val hm
    have e2 := flipB_right_get φ p n hp.llen m.val hm
    have l1 : m.val < (flipB φ p).left.length := by rw [hw.llen]; exact hm
    have l2 : m.val < (flipB φ p).right.length := by rw [hw.rlen]; exact hm
    rw [List.getElem?_eq_getElem l1] at e1
    rw [List.getElem?_eq_getElem l2] at e2
    have := hy m
    rw [Option.some.inj e1, Option.some.inj e2] at this
    exact this
  have inS : ∀ m : Fin n, S (y' m) := fun m =>
    h.convex _ _ _ (h.maps _ (hS.2 _ (List.getElem_mem _))) (h.maps _ (hS.1 _ (List.getElem_mem _)))
      (bnd m).1 (bnd m).2
  refine ⟨?_, fun m => h.invol _ (inS m)⟩
  intro m
  have hm := m.isLt
  have b := bnd (Fin.rev m)
  have ea : p.left[n - 1 - (Fin.rev m).val]'(by simp only [Fin.val_rev]; omega) = p.left[m.val]'(by omega) := by
    congr 1; simp only [Fin.val_rev]; omega
  have eb : p.right[n - 1 - (Fin.rev m).val]'(by simp only [Fin.val_rev]; omega) = p.right[m.val]'(by omega) := by
    congr 1; simp only [Fin.val_rev]; omega
  rw [ea, eb] at b
  have sl : S (p.left[m.val]'(by omega)) := hS.1 _ (List.getElem_mem _)
  have sr : S (p.right[m.val]'(by omega)) := hS.2 _ (List.getElem_mem _)
  constructor
  · have := h.anti _ _ (inS (Fin.rev m)) (h.maps _ sl) b.2
    rwa [h.invol _ sl] at this
  · have := h.anti _ _ (h.maps _ sr) (inS (Fin.rev m)) b.1
    rwa [h.invol _ sr] at this

/-! ## `Good`: valid for every selection and coupling, and every bound entry attained -/

/-- `R` bounds `op X Y` under every dependence (validity for every selection of one value per step
and every permutation coupling), and best-possibly: every entry of either bound is the order
statistic of the same rank of the outcomes of some selection and coupling. -/
structure Good (n : Nat) (op : Rat → Rat → Rat) (X Y R : PB) (hX : WFS n X) (hY : WFS n Y) : Prop where
  valid : ∀ x y : Fin n → Rat, Sel n X hX x → Sel n Y hY y → ∀ σ : Equiv.Perm (Fin n),
    Valid n R (fun m => op (x m) (y (σ m)))
  tightL : ∀ (i : Fin n) (l : Rat), R.left[i.val]? = some l →
    ∃ x y : Fin n → Rat, Sel n X hX x ∧ Sel n Y hY y ∧ ∃ σ : Equiv.Perm (Fin n),
      IsRank n (fun m => op (x m) (y (σ m))) i l
  tightR : ∀ (i : Fin n) (r : Rat), R.right[i.val]? = some r →
    ∃ x y : Fin n → Rat, Sel n X hX x ∧ Sel n Y hY y ∧ ∃ σ : Equiv.Perm (Fin n),
      IsRank n (fun m => op (x m) (y (σ m))) i r

/-- two operations that agree on all pairs of selected values have the same good bounds -/
theorem Good.congr_sel {n : Nat} {op op' : Rat → Rat → Rat} {X Y R : PB} {hX : WFS n X} {hY : WFS n Y}
    (g : Good n op X Y R hX hY)
    (h : ∀ x y : Fin n → Rat, Sel n X hX x → Sel n Y hY y → ∀ m k, op (x m) (y k) = op' (x m) (y k)) :
    Good n op' X Y R hX hY := by
  refine ⟨?_, ?_, ?_⟩
  · intro x y hx hy σ
    have e : (fun m => op' (x m) (y (σ m))) = (fun m => op (x m) (y (σ m))) := by
      funext m; exact (h x y hx hy m (σ m)).symm
    rw [e]; exact g.valid x y hx hy σ
  · intro i l hl
    obtain ⟨x, y, hx, hy, σ, hr⟩ := g.tightL i l hl
    refine ⟨x, y, hx, hy, σ, ?_⟩
    have e : (fun m => op' (x m) (y (σ m))) = (fun m => op (x m) (y (σ m))) := by
      funext m; exact (h x y hx hy m (σ m)).symm
    rw [e]; exact hr
  · intro i r hr'
    obtain ⟨x, y, hx, hy, σ, hr⟩ := g.tightR i r hr'
    refine ⟨x, y, hx, hy, σ, ?_⟩
    have e : (fun m => op' (x m) (y (σ m))) = (fun m => op (x m) (y (σ m))) := by
      funext m; exact (h x y hx hy m (σ m)).symm
    rw [e]; exact hr

theorem Good.congr {n : Nat} {op op' : Rat → Rat → Rat} {X Y R : PB} {hX : WFS n X} {hY : WFS n Y}
    (g : Good n op X Y R hX hY) (h : ∀ a b, op a b = op' a b) : Good n op' X Y R hX hY :=
  g.congr_sel (fun _ _ _ _ _ _ => h _ _)

/-- the second operand replaced by its mirror image: `op x (φ y)` on `Y` is `op x y'` on `flipB φ Y`
(selections `y ↦ φ∘y∘rev`, couplings `σ ↦ rev∘σ`) -/
theorem Good.flipY {n : Nat} {op : Rat → Rat → Rat} {X Y R : PB} {hX : WFS n X}
    (φ : Rat → Rat) (S : Rat → Prop) (h : AntiInv φ S) (hY : WFS n Y) (hS : InS S Y)
    (hY' : WFS n (flipB φ Y)) (g : Good n op X (flipB φ Y) R hX hY') :
    Good n (fun a b => op a (φ b)) X Y R hX hY := by
  refine ⟨?_, ?_, ?_⟩
  · intro x y hx hy σ
    have key := g.valid x (fun m => φ (y (Fin.rev m))) hx (sel_flipB φ S h n Y hY hS hY' y hy)
      (σ.trans Fin.revPerm)
    simp only [Equiv.trans_apply, Fin.revPerm_apply, Fin.rev_rev] at key
    exact key
  · intro i l hl
    obtain ⟨x, y', hx, hy', σ, hr⟩ := g.tightL i l hl
    obtain ⟨hy, hinv⟩ := sel_flipB_inv φ S h n Y hY hS hY' y' hy'
    refine ⟨x, fun m => φ (y' (Fin.rev m)), hx, hy, σ.trans Fin.revPerm, ?_⟩
    simp only [Equiv.trans_apply, Fin.revPerm_apply, Fin.rev_rev, hinv]
    exact hr
  · intro i r hr'
    obtain ⟨x, y', hx, hy', σ, hr⟩ := g.tightR i r hr'
    obtain ⟨hy, hinv⟩ := sel_flipB_inv φ S h n Y hY hS hY' y' hy'
    refine ⟨x, fun m => φ (y' (Fin.rev m)), hx, hy, σ.trans Fin.revPerm, ?_⟩
    simp only [Equiv.trans_apply, Fin.revPerm_apply, Fin.rev_rev, hinv]
    exact hr

/-- the first operand replaced by its mirror image (selections `x ↦ φ∘x∘rev`, couplings `σ ↦ σ∘rev`,
outcomes re-indexed by `rev`) -/
theorem Good.flipX {n : Nat} {op : Rat → Rat → Rat} {X Y R : PB} {hY : WFS n Y}
    (φ : Rat → Rat) (S : Rat → Prop) (h : AntiInv φ S) (hX : WFS n X) (hS : InS S X)
    (hX' : WFS n (flipB φ X)) (g : Good n op (flipB φ X) Y R hX' hY) :
    Good n (fun a b => op (φ a) b) X Y R hX hY := by
  refine ⟨?_, ?_, ?_⟩
  · intro x y hx hy σ
    have key := (g.valid (fun m => φ (x (Fin.rev m))) y (sel_flipB φ S h n X hX hS hX' x hx) hy
      (Fin.revPerm.trans σ)).reindex Fin.revPerm
    simp only [Equiv.trans_apply, Fin.revPerm_apply, Fin.rev_rev] at key
    exact key
  · intro i l hl
    obtain ⟨x', y, hx', hy, σ, hr⟩ := g.tightL i l hl
    obtain ⟨hx, hinv⟩ := sel_flipB_inv φ S h n X hX hS hX' x' hx'
    refine ⟨fun m => φ (x' (Fin.rev m)), y, hx, hy, Fin.revPerm.trans σ, ?_⟩
    have key := hr.reindex Fin.revPerm
    simp only [Equiv.trans_apply, Fin.revPerm_apply, hinv] at key ⊢
    exact key
  · intro i r hr'
    obtain ⟨x', y, hx', hy, σ, hr⟩ := g.tightR i r hr'
    obtain ⟨hx, hinv⟩ := sel_flipB_inv φ S h n X hX hS hX' x' hx'
    refine ⟨fun m => φ (x' (Fin.rev m)), y, hx, hy, Fin.revPerm.trans σ, ?_⟩
    have key := hr.reindex Fin.revPerm
    simp only [Equiv.trans_apply, Fin.revPerm_apply, hinv] at key ⊢
    exact key

/-- the result negated: `-(op x y)` is bounded by `-R` (bounds exchanged and reversed; rank `i` of the
negated outcomes is rank `n-1-i` of the outcomes) -/
theorem Good.negOut {n : Nat} {op : Rat → Rat → Rat} {X Y R : PB} {hX : WFS n X} {hY : WFS n Y}
    (hl : R.left.length = n) (hr : R.right.length = n) (g : Good n op X Y R hX hY) :
    Good n (fun a b => -(op a b)) X Y (negB R) hX hY := by
  refine ⟨?_, ?_, ?_⟩
  · intro x y hx hy σ
    exact (g.valid x y hx hy σ).neg hl hr
  · intro i l hl'
    have hi := i.isLt
    rw [flipB_left_get _ R n hr i.val hi] at hl'
    have e := Option.some.inj hl'
    subst e
    obtain ⟨x, y, hx, hy, σ, hrk⟩ := g.tightR (Fin.rev i) (R.right[n - 1 - i.val]'(by omega))
      (by rw [List.getElem?_eq_getElem (by simp only [Fin.val_rev]; omega)]; simp only [Fin.val_rev]; congr 2; omega)
    refine ⟨x, y, hx, hy, σ, ?_⟩
    have := hrk.neg
    rw [Fin.rev_rev] at this
    exact this
  · intro i r hr'
    have hi := i.isLt
    rw [flipB_right_get _ R n hl i.val hi] at hr'
    have e := Option.some.inj hr'
    subst e
    obtain ⟨x, y, hx, hy, σ, hrk⟩ := g.tightL (Fin.rev i) (R.left[n - 1 - i.val]'(by omega))
      (by rw [List.getElem?_eq_getElem (by simp only [Fin.val_rev]; omega)]; simp only [Fin.val_rev]; congr 2; omega)
    refine ⟨x, y, hx, hy, σ, ?_⟩
    have := hrk.neg
    rw [Fin.rev_rev] at this
    exact this

/-! ## base cases: `classicFrechet` for a monotone operation; product of non-negative operands -/

/-- raw Frechet result for the operation `op` -/
def rawF (op : Rat → Rat → Rat) (X Y : PB) : PB :=
  ⟨frechetLeftRaw op X.left Y.left, frechetRightRaw op X.right Y.right⟩

theorem sel_left (n : Nat) (X : PB) (hX : WF n X) :
    Sel n X hX.toWFS (fun m => X.left[m.val]'(by have := hX.llen; omega)) :=
  fun m => ⟨le_refl _, hX.le m.val m.isLt⟩

theorem sel_right (n : Nat) (X : PB) (hX : WF n X) :
    Sel n X hX.toWFS (fun m => X.right[m.val]'(by have := hX.rlen; omega)) :=
  fun m => ⟨hX.le m.val m.isLt, le_refl _⟩

/-- **Frechet rule for an operation monotone in both arguments**: the constructor accepts the raw
bounds, the result is well formed, valid for every selection and coupling, and both bounds are
attained entry by entry (by the bounding selections under the anti-diagonal couplings). -/
theorem good_frechet (op : Rat → Rat → Rat)
    (hop : ∀ p p' q q', p ≤ p' → q ≤ q' → op p q ≤ op p' q')
    (n : Nat) (X Y : PB) (hX : WF n X) (hY : WF n Y) :
    classicFrechet n op X Y = .ok (rawF op X Y) ∧ WF n (rawF op X Y) ∧
    Good n op X Y (rawF op X Y) hX.toWFS hY.toWFS := by
  have hs := frechetOp_eq_raw op hop X Y (by rw [hX.llen, hY.llen]) (by rw [hX.rlen, hY.rlen])
    hY.lsorted hX.rsorted
  have sl := frechetLeftRaw_sorted op hop X.left Y.left (by rw [hX.llen, hY.llen]) hY.lsorted
  have sr := frechetRightRaw_sorted op hop X.right Y.right (by rw [hX.rlen, hY.rlen]) hX.rsorted
  have ll : (frechetLeftRaw op X.left Y.left).length = n := by rw [frechetLeftRaw_length, hX.llen]
  have lr : (frechetRightRaw op X.right Y.right).length = n := by rw [frechetRightRaw_length, hX.rlen]
  have hle : ∀ i (h : i < n), (frechetLeftRaw op X.left Y.left)[i]'(by omega) ≤
      (frechetRightRaw op X.right Y.right)[i]'(by omega) := fun i h =>
    frechetRaw_le op hop X.left X.right Y.left Y.right n hX.llen hX.rlen hY.llen hY.rlen
      hX.rsorted hY.rsorted hX.le hY.le i h
  refine ⟨?_, ⟨⟨ll, lr, sl, sr⟩, hle⟩, ?_, ?_, ?_⟩
  · unfold classicFrechet
    simp only [hs]
    exact mk_arr_ok n _ _ ll lr sl sr (fun i h => hle i (by omega))
  · intro x y hx hy σ i l r hl hr
    exact ⟨frechetLeft_valid op hop X.left Y.left n hX.llen hY.llen hX.lsorted hY.lsorted x y
        (fun m => (hx m).1) (fun m => (hy m).1) σ i l hl,
      frechetRight_valid op hop X.right Y.right n hX.rlen hY.rlen hX.rsorted hY.rsorted x y
        (fun m => (hx m).2) (fun m => (hy m).2) σ i r hr⟩
  · intro i l hl
    obtain ⟨σ, h1, h2⟩ := frechetLeft_tight op hop X.left Y.left n hX.llen hY.llen hX.lsorted hY.lsorted i l hl
    exact ⟨_, _, sel_left n X hX, sel_left n Y hY, σ, ⟨h1, h2⟩⟩
  · intro i r hr
    obtain ⟨σ, h1, h2⟩ := frechetRight_tight op hop X.right Y.right n hX.rlen hY.rlen hX.rsorted hY.rsorted i r hr
    exact ⟨_, _, sel_right n X hX, sel_right n Y hY, σ, (isRank_iff_right _ _ _).mpr ⟨h1, h2⟩⟩

/-- on non-negative operands `frechet_op(…, mul)` is the rule for the clamped product -/
theorem frechetOp_mul_eq (X Y : PB) (hX : NonNeg X) (hY : NonNeg Y) :
    frechetOp (· * ·) X Y = frechetOp mulPos X Y := by
  unfold frechetOp
  rw [frechetLeftRaw_mul_eq X.left Y.left hX.1 hY.1, frechetRightRaw_mul_eq X.right Y.right hX.2 hY.2]

theorem mulPos_nonneg (p q : Rat) : 0 ≤ mulPos p q :=
  mul_nonneg (le_max_right _ _) (le_max_right _ _)

theorem sel_nonneg (n : Nat) (X : PB) (hX : WFS n X) (pX : NonNeg X) (x : Fin n → Rat) (hx : Sel n X hX x)
    (m : Fin n) : 0 ≤ x m :=
  le_trans (pX.1 _ (List.getElem_mem _)) (hx m).1

/-- **Frechet product of non-negative operands** (`classic_frechet_pbox(x, y, mul)`) -/
theorem good_mul_nonneg (n : Nat) (X Y : PB) (hX : WF n X) (hY : WF n Y) (pX : NonNeg X) (pY : NonNeg Y) :
    classicFrechet n (· * ·) X Y = .ok (rawF mulPos X Y) ∧ WF n (rawF mulPos X Y) ∧
    NonNeg (rawF mulPos X Y) ∧ Good n (· * ·) X Y (rawF mulPos X Y) hX.toWFS hY.toWFS := by
  obtain ⟨h1, h2, h3⟩ := good_frechet mulPos mulPos_mono2 n X Y hX hY
  refine ⟨?_, h2, ⟨?_, ?_⟩, ?_⟩
  · unfold classicFrechet at h1 ⊢
    rw [frechetOp_mul_eq X Y pX pY]
    exact h1
  · intro v hv
    obtain ⟨i, hi, rfl⟩ := List.getElem_of_mem hv
    simp only [rawF, frechetLeftRaw_length] at hi
    obtain ⟨w, hw, -, j, hj, hatt⟩ := frechetLeftRaw_spec mulPos X.left Y.left
      (by rw [hX.llen, hY.llen]) i hi
    have e : (rawF mulPos X Y).left[i]? = some w := hw
    rw [List.getElem?_eq_getElem (by simp only [rawF, frechetLeftRaw_length]; exact hi)] at e
    rw [Option.some.inj e, hatt]
    exact mulPos_nonneg _ _
  · intro v hv
    obtain ⟨i, hi, rfl⟩ := List.getElem_of_mem hv
    simp only [rawF, frechetRightRaw_length] at hi
    obtain ⟨w, hw, -, t, ht, hatt⟩ := frechetRightRaw_spec mulPos X.right Y.right n hX.rlen hY.rlen i
      (by rw [← hX.rlen]; exact hi)
    have e : (rawF mulPos X Y).right[i]? = some w := hw
    rw [List.getElem?_eq_getElem (by simp only [rawF, frechetRightRaw_length]; exact hi)] at e
    rw [Option.some.inj e, hatt]
    exact mulPos_nonneg _ _
  · exact h3.congr_sel (fun x y hx hy m k =>
      mulPos_eq _ _ (sel_nonneg n X hX.toWFS pX x hx m) (sel_nonneg n Y hY.toWFS pY y hy k))

/-! ## negation and sign classes -/

/-- `-Y` of a well-formed p-box is well formed -/
theorem neg_wf (n : Nat) (Y : PB) (hY : WF n Y) : neg n Y = .ok (negB Y) ∧ WF n (negB Y) :=
  ⟨neg_ok n Y hY.llen hY.rlen hY.lsorted hY.rsorted hY.le,
    (flipB_wf _ _ antiInv_neg n Y hY (inS_true Y)).1⟩

theorem nonneg_negB (p : PB) (h : NonPos p) : NonNeg (negB p) := by
  constructor
  · intro v hv
    simp only [negB, flipB, List.mem_map, List.mem_reverse] at hv
    obtain ⟨a, ha, rfl⟩ := hv
    have := h.2 a ha
    linarith
  · intro v hv
    simp only [negB, flipB, List.mem_map, List.mem_reverse] at hv
    obtain ⟨a, ha, rfl⟩ := hv
    have := h.1 a ha
    linarith

theorem getLastD_mem (l : List Rat) (d : Rat) (h : l ≠ []) : l.getLastD d ∈ l := by
  cases l with
  | nil => exact absurd rfl h
  | cons a t =>
    rw [List.getLastD_cons]
    cases t with
    | nil => simp
    | cons b u =>
      have : (b :: u).getLastD a = (b :: u).getLast (by simp) := by
        rw [List.getLastD_eq_getLast?, List.getLast?_eq_some_getLast (by simp)]; rfl
      rw [this]
      exact List.mem_cons_of_mem _ (List.getLast_mem _)

theorem hi_le_of_nonpos (p : PB) (h : NonPos p) : hi p ≤ 0 := by
  unfold hi
  by_cases hne : p.right = []
  · simp [hne]
  · exact h.2 _ (getLastD_mem _ _ hne)

theorem hi_eq (n : Nat) (p : PB) (hr : p.right.length = n) (hn : 0 < n) :
    hi p = p.right[n - 1]'(by omega) := by
  unfold hi
  subst hr
  rw [List.getLastD_eq_getLast?, List.getLast?_eq_getElem?, List.getElem?_eq_getElem (by omega)]
  rfl

/-- a well-formed p-box whose upper end is `≤ 0` is non-positive -/
theorem nonpos_of_hi (n : Nat) (p : PB) (hp : WF n p) (h : hi p ≤ 0) : NonPos p := by
  rcases Nat.eq_zero_or_pos n with hn | hn
  · subst hn
    have e1 := List.eq_nil_of_length_eq_zero hp.llen
    have e2 := List.eq_nil_of_length_eq_zero hp.rlen
    constructor <;> intro v hv <;> simp [e1, e2] at hv
  · rw [hi_eq n p hp.rlen hn] at h
    have hr := hp.rlen; have hl := hp.llen
    have key : ∀ v ∈ p.right, v ≤ 0 := by
      intro v hv
      obtain ⟨i, hi', rfl⟩ := List.getElem_of_mem hv
      have := sorted_getElem_mono p.right hp.rsorted n hp.rlen
        (show (⟨i, by omega⟩ : Fin n) ≤ ⟨n - 1, by omega⟩ by simp only [Fin.le_def]; omega)
      simp only at this
      exact le_trans this h
    refine ⟨?_, key⟩
    intro v hv
    obtain ⟨i, hi', rfl⟩ := List.getElem_of_mem hv
    exact le_trans (hp.le i (by omega)) (key _ (List.getElem_mem _))

theorem nonneg_of_not_hi (p : PB) (s : OneSign p) (h : ¬ hi p ≤ 0) : NonNeg p := by
  rcases s with s | s
  · exact s
  · exact absurd (hi_le_of_nonpos p s) h

theorem not_straddles_of_nonneg (p : PB) (h : NonNeg p) : straddlesZero p = false := by
  unfold straddlesZero
  have : ¬ minL 0 p.left < 0 := by
    by_cases hne : p.left = []
    · simp [hne, minL]
    · exact not_lt.mpr (h.1 _ (minL_spec 0 p.left hne).1)
  simp [this]

theorem not_straddles_of_nonpos (p : PB) (h : NonPos p) : straddlesZero p = false := by
  unfold straddlesZero
  have : ¬ maxL 0 p.right > 0 := by
    by_cases hne : p.right = []
    · simp [hne, maxL]
    · exact not_lt.mpr (h.2 _ (maxL_spec 0 p.right hne).1)
  simp [this]

theorem not_straddles_of_oneSign (p : PB) (h : OneSign p) : straddlesZero p = false := by
  rcases h with h | h
  · exact not_straddles_of_nonneg p h
  · exact not_straddles_of_nonpos p h

/-- for well-formed boxes "one sign" is exactly the model's routing test `not straddles_zero` -/
theorem oneSign_of_not_straddles (n : Nat) (p : PB) (hp : WF n p) (h : straddlesZero p = false) :
    OneSign p := by
  rcases Nat.eq_zero_or_pos n with hn | hn
  · subst hn
    have e1 := List.eq_nil_of_length_eq_zero hp.llen
    have e2 := List.eq_nil_of_length_eq_zero hp.rlen
    left; constructor <;> intro v hv <;> simp [e1, e2] at hv
  · have hl := hp.llen; have hr := hp.rlen
    have nel : p.left ≠ [] := by intro e; rw [e] at hl; simp at hl; omega
    have ner : p.right ≠ [] := by intro e; rw [e] at hr; simp at hr; omega
    unfold straddlesZero at h
    simp only [Bool.and_eq_false_iff, decide_eq_false_iff_not, not_lt] at h
    rcases h with h | h
    · left
      have key : ∀ v ∈ p.left, 0 ≤ v := fun v hv => le_trans h ((minL_spec 0 p.left nel).2 v hv)
      refine ⟨key, ?_⟩
      intro v hv
      obtain ⟨i, hi', rfl⟩ := List.getElem_of_mem hv
      exact le_trans (key _ (List.getElem_mem _)) (hp.le i (by omega))
    · right
      have key : ∀ v ∈ p.right, v ≤ 0 := fun v hv => le_trans ((maxL_spec 0 p.right ner).2 v hv) h
      refine ⟨?_, key⟩
      intro v hv
      obtain ⟨i, hi', rfl⟩ := List.getElem_of_mem hv
      exact le_trans (hp.le i (by omega)) (key _ (List.getElem_mem _))

/-! ## the public Frechet product on operands of one sign each -/

/-- **`X.mul(Y, 'f')` for operands of one sign each (all four sign combinations, including operands
that touch zero)**: the model's routing through `negativeFrechet` (negate the non-positive operands,
multiply by the classic rule, negate the result when exactly one operand was negated) returns a
well-formed p-box that is valid for every selection and coupling and attained entry by entry. -/
theorem mul_f_onesign_good (n : Nat) (X Y : PB) (hX : WF n X) (hY : WF n Y)
    (sX : OneSign X) (sY : OneSign Y) :
    ∃ R, mul n .f X Y = .ok R ∧ WF n R ∧ Good n (· * ·) X Y R hX.toWFS hY.toWFS := by
  have nsX := not_straddles_of_oneSign X sX
  have nsY := not_straddles_of_oneSign Y sY
  obtain ⟨enX, wnX⟩ := neg_wf n X hX
  obtain ⟨enY, wnY⟩ := neg_wf n Y hY
  by_cases hx : hi X ≤ 0 <;> by_cases hy : hi Y ≤ 0
  · -- both non-positive: (-X)(-Y)
    have pX := nonneg_negB X (nonpos_of_hi n X hX hx)
    have pY := nonneg_negB Y (nonpos_of_hi n Y hY hy)
    obtain ⟨e, w, -, g⟩ := good_mul_nonneg n (negB X) (negB Y) wnX wnY pX pY
    refine ⟨rawF mulPos (negB X) (negB Y), ?_, w, ?_⟩
    · simp [mul, frechetMul, frechetMulNoStraddle, negativeFrechet, nsX, nsY, hx, hy, enX, enY, e,
        bind, Except.bind, pure, Except.pure]
    · have g1 := g.flipY _ _ antiInv_neg hY.toWFS (inS_true Y) wnY.toWFS
      have g2 := g1.flipX _ _ antiInv_neg hX.toWFS (inS_true X) wnX.toWFS
      exact g2.congr (fun a b => by simp)
  · -- X non-positive, Y non-negative: -((-X) Y)
    have pX := nonneg_negB X (nonpos_of_hi n X hX hx)
    have pY := nonneg_of_not_hi Y sY hy
    obtain ⟨e, w, -, g⟩ := good_mul_nonneg n (negB X) Y wnX hY pX pY
    obtain ⟨enR, wnR⟩ := neg_wf n _ w
    refine ⟨negB (rawF mulPos (negB X) Y), ?_, wnR, ?_⟩
    · simp [mul, frechetMul, frechetMulNoStraddle, negativeFrechet, nsX, nsY, hx, hy, enX, e, enR,
        bind, Except.bind, pure, Except.pure]
    · have g1 := g.flipX _ _ antiInv_neg hX.toWFS (inS_true X) wnX.toWFS
      have g2 := g1.negOut w.llen w.rlen
      exact g2.congr (fun a b => by simp)
  · -- X non-negative, Y non-positive: -(X (-Y))
    have pX := nonneg_of_not_hi X sX hx
    have pY := nonneg_negB Y (nonpos_of_hi n Y hY hy)
    obtain ⟨e, w, -, g⟩ := good_mul_nonneg n X (negB Y) hX wnY pX pY
    obtain ⟨enR, wnR⟩ := neg_wf n _ w
    refine ⟨negB (rawF mulPos X (negB Y)), ?_, wnR, ?_⟩
    · simp [mul, frechetMul, frechetMulNoStraddle, negativeFrechet, nsX, nsY, hx, hy, enY, e, enR,
        bind, Except.bind, pure, Except.pure]
    · have g1 := g.flipY _ _ antiInv_neg hY.toWFS (inS_true Y) wnY.toWFS
      have g2 := g1.negOut w.llen w.rlen
      exact g2.congr (fun a b => by simp)
  · -- both non-negative
    have pX := nonneg_of_not_hi X sX hx
    have pY := nonneg_of_not_hi Y sY hy
    obtain ⟨e, w, -, g⟩ := good_mul_nonneg n X Y hX hY pX pY
    refine ⟨rawF mulPos X Y, ?_, w, g⟩
    simp [mul, frechetMul, frechetMulNoStraddle, nsX, nsY, hx, hy, e]

/-! ## order statistics: sorted lists, counting, the constructor on sorted pairs -/

theorem sortR_perm (l : List Rat) : (sortR l).Perm l := List.mergeSort_perm l _

theorem sortR_sorted (l : List Rat) : (sortR l).Pairwise (· ≤ ·) := by
  have := List.pairwise_mergeSort (le := fun a b : Rat => decide (a ≤ b))
    (fun a b c h1 h2 => by simp at h1 h2 ⊢; exact le_trans h1 h2)
    (fun a b => by simp; exact le_total a b) l
  exact this.imp (fun h => by simpa using h)

theorem sortR_length (l : List Rat) : (sortR l).length = l.length := (sortR_perm l).length_eq

/-- rank characterisation of a sorted list (as `Pun.Iso.sorted_get_le_iff`) -/
theorem sorted_getElem_le_iff (s : List Rat) (hs : s.Pairwise (· ≤ ·)) (c : Rat) (i : Nat) (hi : i < s.length) :
    s[i] ≤ c ↔ i < s.countP (fun x => decide (x ≤ c)) := by
  induction s generalizing i with
  | nil => simp at hi
  | cons a t ih =>
    rw [List.pairwise_cons] at hs
    obtain ⟨hat, ht⟩ := hs
    cases i with
    | zero =>
      simp only [List.getElem_cons_zero, List.countP_cons]
      by_cases h : a ≤ c
      · simp [h]
      · simp only [h, decide_false, Bool.false_eq_true, if_false, add_zero, false_iff, not_lt, Nat.le_zero]
        rw [List.countP_eq_zero]
        intro x hx
        have := hat x hx
        simp only [decide_eq_true_eq, not_le]
        exact lt_of_lt_of_le (not_le.mp h) this
    | succ j =>
      simp only [List.getElem_cons_succ, List.countP_cons]
      have hj : j < t.length := by simpa using hi
      rw [ih ht j hj]
      by_cases h : a ≤ c
      · simp [h]
      · simp only [h, decide_false, Bool.false_eq_true, if_false, add_zero]
        have hz : t.countP (fun x => decide (x ≤ c)) = 0 := by
          rw [List.countP_eq_zero]
          intro x hx
          have := hat x hx
          simp only [decide_eq_true_eq, not_le]
          exact lt_of_lt_of_le (not_le.mp h) this
        simp [hz]

theorem countP_le_of_forall₂ (l l' : List Rat) (h : List.Forall₂ (· ≤ ·) l l') (c : Rat) :
    l'.countP (fun x => decide (x ≤ c)) ≤ l.countP (fun x => decide (x ≤ c)) := by
  induction h with
  | nil => simp
  | @cons a b s t hab _ ih =>
    simp only [List.countP_cons]
    by_cases hb : b ≤ c
    · have ha : a ≤ c := le_trans hab hb
      simp [ha, hb]; exact ih
    · simp only [hb, decide_false, Bool.false_eq_true, if_false, add_zero]
      exact le_trans ih (Nat.le_add_right _ _)

/-- order statistics are monotone: a pointwise smaller list has a pointwise smaller sort -/
theorem sortR_forall₂ (l l' : List Rat) (h : List.Forall₂ (· ≤ ·) l l') :
    List.Forall₂ (· ≤ ·) (sortR l) (sortR l') := by
  rw [List.forall₂_iff_get]
  have hlen : (sortR l).length = (sortR l').length := by rw [sortR_length, sortR_length, h.length_eq]
  refine ⟨hlen, fun i hi hi' => ?_⟩
  simp only [List.get_eq_getElem]
  rw [sorted_getElem_le_iff _ (sortR_sorted l) _ i hi]
  have h1 : i < (sortR l').countP (fun x => decide (x ≤ (sortR l')[i])) := by
    rw [← sorted_getElem_le_iff _ (sortR_sorted l') _ i hi']
  rw [(sortR_perm l).countP_eq]
  rw [(sortR_perm l').countP_eq] at h1
  exact lt_of_lt_of_le h1 (countP_le_of_forall₂ l l' h _)

theorem forall₂_getElem (l r : List Rat) (h : List.Forall₂ (· ≤ ·) l r) (i : Nat) (hi : i < l.length) :
    l[i] ≤ r[i]'(by rw [← h.length_eq]; exact hi) := by
  have := (List.forall₂_iff_get.mp h).2 i hi (by rw [← h.length_eq]; exact hi)
  simpa using this

theorem forall₂_of_wf (n : Nat) (X : PB) (hX : WF n X) : List.Forall₂ (· ≤ ·) X.left X.right := by
  rw [List.forall₂_iff_get]
  refine ⟨by rw [hX.llen, hX.rlen], fun i hi hi' => ?_⟩
  simp only [List.get_eq_getElem]
  exact hX.le i (by rw [← hX.llen]; exact hi)

/-- the array-form constructor on the sorts of a pointwise ordered pair of raw bounds -/
theorem mk_sorted_ok (n : Nat) (l r : List Rat) (hl : l.length = n) (hr : r.length = n)
    (hle : List.Forall₂ (· ≤ ·) l r) :
    mk n false (sortR l) (sortR r) = .ok ⟨sortR l, sortR r⟩ ∧ WF n ⟨sortR l, sortR r⟩ := by
  have h2 := sortR_forall₂ l r hle
  have ll : (sortR l).length = n := by rw [sortR_length, hl]
  have lr : (sortR r).length = n := by rw [sortR_length, hr]
  refine ⟨mk_arr_ok n _ _ ll lr (sortR_sorted l) (sortR_sorted r) (fun i h => forall₂_getElem _ _ h2 i h),
    ⟨⟨ll, lr, sortR_sorted l, sortR_sorted r⟩, fun i h => forall₂_getElem _ _ h2 i (by rw [ll]; exact h)⟩⟩

/-- counting in `List.ofFn z` is counting over `Fin n` -/
theorem countP_ofFn {n : Nat} (z : Fin n → Rat) (P : Rat → Prop) [DecidablePred P] :
    (List.ofFn z).countP (fun v => decide (P v)) = (univ.filter (fun m : Fin n => P (z m))).card := by
  induction n with
  | zero => simp
  | succ k ih =>
    rw [List.ofFn_succ, List.countP_cons, Fin.card_filter_univ_succ', ih (fun i => z i.succ)]
    by_cases h : P (z 0) <;> simp [h, add_comm]

/-- **a valid p-box encloses the order statistics of the outcomes**: if `s` is the sorted list of the
outcome family `z`, then `R.left[k] ≤ s[k] ≤ R.right[k]` -/
theorem Valid.encloses_sorted {n : Nat} {R : PB} {z : Fin n → Rat} (hv : Valid n R z) (s : List Rat)
    (hs : s.Pairwise (· ≤ ·)) (hp : s.Perm (List.ofFn z)) (k : Fin n) (l r : Rat)
    (hl : R.left[k.val]? = some l) (hr : R.right[k.val]? = some r) :
    l ≤ s[k.val]'(by rw [hp.length_eq, List.length_ofFn]; exact k.isLt) ∧
    s[k.val]'(by rw [hp.length_eq, List.length_ofFn]; exact k.isLt) ≤ r := by
  have hk : k.val < s.length := by rw [hp.length_eq, List.length_ofFn]; exact k.isLt
  obtain ⟨v1, v2⟩ := hv k l r hl hr
  constructor
  · by_contra hlt
    rw [not_le] at hlt
    have h1 : k.val < s.countP (fun x => decide (x ≤ s[k.val])) :=
      (sorted_getElem_le_iff s hs _ k.val hk).mp (le_refl _)
    rw [hp.countP_eq, countP_ofFn z (fun v => v ≤ s[k.val])] at h1
    have hsub : (univ.filter (fun m : Fin n => z m ≤ s[k.val])) ⊆ (univ.filter (fun m : Fin n => z m < l)) := by
      intro m hm
      rw [Finset.mem_filter] at hm ⊢
      exact ⟨hm.1, lt_of_le_of_lt hm.2 hlt⟩
    have := Finset.card_le_card hsub
    omega
  · rw [sorted_getElem_le_iff s hs r k.val hk, hp.countP_eq, countP_ofFn z (fun v => v ≤ r)]
    have := card_le_add_card_gt z r
    have hk' := k.isLt
    omega

/-! ## the four-corner rule for an operation monotone in both arguments -/

theorem corner_mono (op : Rat → Rat → Rat)
    (hop : ∀ p p' q q', p ≤ p' → q ≤ q' → op p q ≤ op p' q') (a b c d : Rat) (hab : a ≤ b) (hcd : c ≤ d) :
    min4 (op a c) (op a d) (op b c) (op b d) = op a c ∧ max4 (op a c) (op a d) (op b c) (op b d) = op b d := by
  have h1 : op a c ≤ op a d := hop _ _ _ _ (le_refl _) hcd
  have h2 : op a c ≤ op b c := hop _ _ _ _ hab (le_refl _)
  have h3 : op a c ≤ op b d := hop _ _ _ _ hab hcd
  have h4 : op a d ≤ op b d := hop _ _ _ _ hab (le_refl _)
  have h5 : op b c ≤ op b d := hop _ _ _ _ (le_refl _) hcd
  unfold min4 max4
  constructor
  · rw [min_eq_left h1, min_eq_left h2, min_eq_left h3]
  · exact max_eq_right (max_le (max_le h3 h4) h5)

/-- focal pairs under a monotone operation: lower endpoints combine to the lower endpoint, upper to upper -/
theorem cornerPair_mono (op : Rat → Rat → Rat)
    (hop : ∀ p p' q q', p ≤ p' → q ≤ q' → op p q ≤ op p' q') (xl xr yl yr : List Rat)
    (hx : List.Forall₂ (· ≤ ·) xl xr) (hy : List.Forall₂ (· ≤ ·) yl yr) :
    cornerPair op xl xr yl yr = (List.zipWith op xl yl, List.zipWith op xr yr) := by
  induction hx generalizing yl yr with
  | nil => simp [cornerPair, zip4]
  | @cons a b ta tb hab _ ih =>
    cases hy with
    | nil => simp [cornerPair, zip4]
    | @cons c d tc td hcd htl =>
      have := ih tc td htl
      simp only [cornerPair, List.zipWith_cons_cons, zip4, Prod.mk.injEq] at this ⊢
      obtain ⟨e1, e2⟩ := corner_mono op hop a b c d hab hcd
      rw [e1, e2, this.1, this.2]
      exact ⟨rfl, rfl⟩

theorem cornerPair_congr_mem (f g : Rat → Rat → Rat) (xl xr yl yr : List Rat)
    (h : ∀ x, x ∈ xl ∨ x ∈ xr → ∀ y, y ∈ yl ∨ y ∈ yr → f x y = g x y) :
    cornerPair f xl xr yl yr = cornerPair g xl xr yl yr := by
  unfold cornerPair
  rw [zipWith_congr_mem f g xl yl (fun x hx y hy => h x (Or.inl hx) y (Or.inl hy)),
    zipWith_congr_mem f g xl yr (fun x hx y hy => h x (Or.inl hx) y (Or.inr hy)),
    zipWith_congr_mem f g xr yl (fun x hx y hy => h x (Or.inr hx) y (Or.inl hy)),
    zipWith_congr_mem f g xr yr (fun x hx y hy => h x (Or.inr hx) y (Or.inr hy))]

theorem zipWith_mono_sorted (op : Rat → Rat → Rat)
    (hop : ∀ p p' q q', p ≤ p' → q ≤ q' → op p q ≤ op p' q') (a b : List Rat)
    (sa : a.Pairwise (· ≤ ·)) (sb : b.Pairwise (· ≤ ·)) : (List.zipWith op a b).Pairwise (· ≤ ·) := by
  rw [List.pairwise_iff_getElem]
  intro i j hi hj hij
  simp only [List.length_zipWith, lt_min_iff] at hi hj
  simp only [List.getElem_zipWith]
  exact hop _ _ _ _ ((List.pairwise_iff_getElem.mp sa) i j hi.1 hj.1 hij)
    ((List.pairwise_iff_getElem.mp sb) i j hi.2 hj.2 hij)

theorem zipWith_forall₂ (op : Rat → Rat → Rat)
    (hop : ∀ p p' q q', p ≤ p' → q ≤ q' → op p q ≤ op p' q') (xl xr yl yr : List Rat)
    (hx : List.Forall₂ (· ≤ ·) xl xr) (hy : List.Forall₂ (· ≤ ·) yl yr) :
    List.Forall₂ (· ≤ ·) (List.zipWith op xl yl) (List.zipWith op xr yr) := by
  induction hx generalizing yl yr with
  | nil => simp
  | @cons a b ta tb hab _ ih =>
    cases hy with
    | nil => simp
    | @cons c d tc td hcd htl =>
      simp only [List.zipWith_cons_cons]
      exact List.Forall₂.cons (hop _ _ _ _ hab hcd) (ih tc td htl)

theorem zipWith_eq_ofFn (op : Rat → Rat → Rat) (a b : List Rat) (n : Nat) (ha : a.length = n) (hb : b.length = n) :
    List.zipWith op a b = List.ofFn (fun m : Fin n => op (a[m.val]'(by omega)) (b[m.val]'(by omega))) := by
  apply List.ext_getElem
  · simp [ha, hb]
  · intro i h1 h2
    simp

theorem zipWith_reverse_eq_ofFn (op : Rat → Rat → Rat) (a b : List Rat) (n : Nat) (ha : a.length = n)
    (hb : b.length = n) :
    List.zipWith op a b.reverse =
      List.ofFn (fun m : Fin n => op (a[m.val]'(by omega)) (b[(Fin.revPerm m).val]'(by omega))) := by
  apply List.ext_getElem
  · simp [ha, hb]
  · intro i h1 h2
    simp only [List.getElem_zipWith, List.getElem_reverse, List.getElem_ofFn, Fin.revPerm_apply, Fin.val_rev]
    congr 2
    omega

/-! ## perfect and opposite dependence for a monotone operation, and their enclosure by Frechet -/

/-- raw result of the perfect rule for a monotone operation: sorted `op` of the paired lower / upper endpoints -/
def perfF (op : Rat → Rat → Rat) (X Y : PB) : PB :=
  ⟨sortR (List.zipWith op X.left Y.left), sortR (List.zipWith op X.right Y.right)⟩

def oppF (op : Rat → Rat → Rat) (X Y : PB) : PB :=
  ⟨sortR (List.zipWith op X.left Y.left.reverse), sortR (List.zipWith op X.right Y.right.reverse)⟩

theorem perfectOp_mono (op : Rat → Rat → Rat)
    (hop : ∀ p p' q q', p ≤ p' → q ≤ q' → op p q ≤ op p' q') (n : Nat) (X Y : PB) (hX : WF n X) (hY : WF n Y) :
    perfectOp op X Y = ((perfF op X Y).left, (perfF op X Y).right) ∧
    mk n false (perfF op X Y).left (perfF op X Y).right = .ok (perfF op X Y) ∧ WF n (perfF op X Y) := by
  have fx := forall₂_of_wf n X hX
  have fy := forall₂_of_wf n Y hY
  refine ⟨?_, ?_⟩
  · unfold perfectOp
    rw [cornerPair_mono op hop _ _ _ _ fx fy]
    rfl
  · exact mk_sorted_ok n _ _ (by simp [hX.llen, hY.llen]) (by simp [hX.rlen, hY.rlen])
      (zipWith_forall₂ op hop _ _ _ _ fx fy)

theorem oppositeOp_mono (op : Rat → Rat → Rat)
    (hop : ∀ p p' q q', p ≤ p' → q ≤ q' → op p q ≤ op p' q') (n : Nat) (X Y : PB) (hX : WF n X) (hY : WF n Y) :
    oppositeOp op X Y = ((oppF op X Y).left, (oppF op X Y).right) ∧
    mk n false (oppF op X Y).left (oppF op X Y).right = .ok (oppF op X Y) ∧ WF n (oppF op X Y) := by
  have fx := forall₂_of_wf n X hX
  have fy : List.Forall₂ (· ≤ ·) Y.left.reverse Y.right.reverse :=
    List.rel_reverse (forall₂_of_wf n Y hY)
  refine ⟨?_, ?_⟩
  · unfold oppositeOp
    rw [cornerPair_mono op hop _ _ _ _ fx fy]
    rfl
  · exact mk_sorted_ok n _ _ (by simp [hX.llen, hY.llen]) (by simp [hX.rlen, hY.rlen])
      (zipWith_forall₂ op hop _ _ _ _ fx fy)

/-- `F` encloses `D`: `F.left ≤ D.left` and `D.right ≤ F.right` at every step -/
def Encloses (F D : PB) : Prop :=
  ∀ (k : Nat) (l r dl dr : Rat), F.left[k]? = some l → F.right[k]? = some r →
    D.left[k]? = some dl → D.right[k]? = some dr → l ≤ dl ∧ dr ≤ r

/-- a box valid for every selection and coupling encloses the sorted outcomes of any selections under
any coupling: the sorted outcomes of `(xL, yL, σ)` from below, those of `(xR, yR, σ')` from above -/
theorem encloses_coupling (op : Rat → Rat → Rat) (n : Nat) (X Y F : PB) (hX : WFS n X) (hY : WFS n Y)
    (hlen : F.left.length = n ∧ F.right.length = n)
    (g : Good n op X Y F hX hY) (xL yL xR yR : Fin n → Rat)
    (sxL : Sel n X hX xL) (syL : Sel n Y hY yL) (sxR : Sel n X hX xR) (syR : Sel n Y hY yR)
    (σ σ' : Equiv.Perm (Fin n)) (D : PB)
    (sl : D.left.Pairwise (· ≤ ·)) (sr : D.right.Pairwise (· ≤ ·))
    (pl : D.left.Perm (List.ofFn (fun m : Fin n => op (xL m) (yL (σ m)))))
    (pr : D.right.Perm (List.ofFn (fun m : Fin n => op (xR m) (yR (σ' m))))) :
    Encloses F D := by
  intro k l r dl dr hl hr hdl hdr
  have hk : k < n := by
    have := (List.getElem?_eq_some_iff.mp hl).1
    rw [hlen.1] at this; exact this
  have v1 := (g.valid _ _ sxL syL σ).encloses_sorted D.left sl pl ⟨k, hk⟩ l r hl hr
  have v2 := (g.valid _ _ sxR syR σ').encloses_sorted D.right sr pr ⟨k, hk⟩ l r hl hr
  simp only at v1 v2
  obtain ⟨h1, e1⟩ := List.getElem?_eq_some_iff.mp hdl
  obtain ⟨h2, e2⟩ := List.getElem?_eq_some_iff.mp hdr
  rw [← e1, ← e2]
  exact ⟨v1.1, v2.2⟩

/-- **a Frechet result encloses the perfect pairing of the lower / upper endpoints** -/
theorem good_encloses_perfect (op : Rat → Rat → Rat) (n : Nat) (X Y F : PB) (hX : WF n X) (hY : WF n Y)
    (hlen : F.left.length = n ∧ F.right.length = n) (g : Good n op X Y F hX.toWFS hY.toWFS) :
    Encloses F (perfF op X Y) := by
  refine encloses_coupling op n X Y F hX.toWFS hY.toWFS hlen g _ _ _ _ (sel_left n X hX) (sel_left n Y hY)
    (sel_right n X hX) (sel_right n Y hY) (Equiv.refl _) (Equiv.refl _) _ (sortR_sorted _) (sortR_sorted _) ?_ ?_
  · simp only [perfF, Equiv.refl_apply]
    rw [← zipWith_eq_ofFn op X.left Y.left n hX.llen hY.llen]
    exact sortR_perm _
  · simp only [perfF, Equiv.refl_apply]
    rw [← zipWith_eq_ofFn op X.right Y.right n hX.rlen hY.rlen]
    exact sortR_perm _

/-- **… and the opposite pairing** -/
theorem good_encloses_opposite (op : Rat → Rat → Rat) (n : Nat) (X Y F : PB) (hX : WF n X) (hY : WF n Y)
    (hlen : F.left.length = n ∧ F.right.length = n) (g : Good n op X Y F hX.toWFS hY.toWFS) :
    Encloses F (oppF op X Y) := by
  refine encloses_coupling op n X Y F hX.toWFS hY.toWFS hlen g _ _ _ _ (sel_left n X hX) (sel_left n Y hY)
    (sel_right n X hX) (sel_right n Y hY) Fin.revPerm Fin.revPerm _ (sortR_sorted _) (sortR_sorted _) ?_ ?_
  · simp only [oppF]
    rw [← zipWith_reverse_eq_ofFn op X.left Y.left n hX.llen hY.llen]
    exact sortR_perm _
  · simp only [oppF]
    rw [← zipWith_reverse_eq_ofFn op X.right Y.right n hX.rlen hY.rlen]
    exact sortR_perm _

/-! ### products of non-negative operands under perfect / opposite dependence -/

theorem perfectOp_mul_eq (X Y : PB) (pX : NonNeg X) (pY : NonNeg Y) :
    perfectOp (· * ·) X Y = perfectOp mulPos X Y := by
  unfold perfectOp
  rw [cornerPair_congr_mem (· * ·) mulPos _ _ _ _ (fun x hx y hy =>
    (mulPos_eq x y (hx.elim (pX.1 x) (pX.2 x)) (hy.elim (pY.1 y) (pY.2 y))).symm)]

theorem oppositeOp_mul_eq (X Y : PB) (pX : NonNeg X) (pY : NonNeg Y) :
    oppositeOp (· * ·) X Y = oppositeOp mulPos X Y := by
  unfold oppositeOp
  rw [cornerPair_congr_mem (· * ·) mulPos _ _ _ _ (fun x hx y hy =>
    (mulPos_eq x y (hx.elim (pX.1 x) (pX.2 x))
      (hy.elim (fun h => pY.1 y (List.mem_reverse.mp h)) (fun h => pY.2 y (List.mem_reverse.mp h)))).symm)]

theorem perfF_mul_eq (X Y : PB) (pX : NonNeg X) (pY : NonNeg Y) : perfF mulPos X Y = perfF (· * ·) X Y := by
  unfold perfF
  rw [zipWith_congr_mem mulPos (· * ·) X.left Y.left (fun x hx y hy => mulPos_eq x y (pX.1 x hx) (pY.1 y hy)),
    zipWith_congr_mem mulPos (· * ·) X.right Y.right (fun x hx y hy => mulPos_eq x y (pX.2 x hx) (pY.2 y hy))]

theorem oppF_mul_eq (X Y : PB) (pX : NonNeg X) (pY : NonNeg Y) : oppF mulPos X Y = oppF (· * ·) X Y := by
  unfold oppF
  rw [zipWith_congr_mem mulPos (· * ·) X.left Y.left.reverse
      (fun x hx y hy => mulPos_eq x y (pX.1 x hx) (pY.1 y (List.mem_reverse.mp hy))),
    zipWith_congr_mem mulPos (· * ·) X.right Y.right.reverse
      (fun x hx y hy => mulPos_eq x y (pX.2 x hx) (pY.2 y (List.mem_reverse.mp hy)))]

/-- bounding selections and anti-diagonal couplings attain the raw Frechet bounds of a monotone operation -/
theorem frechet_tight_explicit (op : Rat → Rat → Rat)
    (hop : ∀ p p' q q', p ≤ p' → q ≤ q' → op p q ≤ op p' q')
    (n : Nat) (X Y : PB) (hX : WF n X) (hY : WF n Y) (i : Fin n) :
    (∀ l, (rawF op X Y).left[i.val]? = some l → ∃ σ : Equiv.Perm (Fin n),
      IsRank n (fun m => op (X.left[m.val]'(by have := hX.llen; omega))
        (Y.left[(σ m).val]'(by have := hY.llen; omega))) i l) ∧
    (∀ r, (rawF op X Y).right[i.val]? = some r → ∃ σ : Equiv.Perm (Fin n),
      IsRank n (fun m => op (X.right[m.val]'(by have := hX.rlen; omega))
        (Y.right[(σ m).val]'(by have := hY.rlen; omega))) i r) := by
  constructor
  · intro l hl
    obtain ⟨σ, h1, h2⟩ := frechetLeft_tight op hop X.left Y.left n hX.llen hY.llen hX.lsorted hY.lsorted i l hl
    exact ⟨σ, ⟨h1, h2⟩⟩
  · intro r hr
    obtain ⟨σ, h1, h2⟩ := frechetRight_tight op hop X.right Y.right n hX.rlen hY.rlen hX.rsorted hY.rsorted i r hr
    exact ⟨σ, (isRank_iff_right _ _ _).mpr ⟨h1, h2⟩⟩

end Pun.PBox
